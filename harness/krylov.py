"""C16 helpers: run-time interposition on tenpy.linalg.krylov_based (trace recording for TraceKrylov.tla)
and construction of the npc operators / vectors described by the planted cases of Krylov.tla."""
import contextlib
import json
import os
import re

import numpy as np

from . import core, tlc


# ------------------------------------------------------------------------------------------------
# tagged scalars: the index into `_result_krylov` travels with the coefficient
# ------------------------------------------------------------------------------------------------
class TF(float):
    pass


class TC(complex):
    pass


class TaggedVec(np.ndarray):
    """ndarray whose integer __getitem__ returns a scalar that remembers its index."""

    def __getitem__(self, key):
        r = np.ndarray.__getitem__(self, key)
        if self.ndim == 1 and isinstance(key, (int, np.integer)):
            v = r.item()
            t = TC(v) if isinstance(v, complex) else TF(v)
            t.idx = int(key) % self.shape[0]
            return t
        return r


class Tracer:
    def __init__(self):
        self.events = []
        self.toks = {}
        self.keep = []  # strong references: ids must not be reused while we record

    def tok(self, obj):
        i = id(obj)
        if i not in self.toks:
            self.toks[i] = len(self.toks) + 1
            self.keep.append(obj)
        return self.toks[i]

    def log(self, **ev):
        self.events.append(ev)


_CUR = [None]  # the active tracer


class LogOp:
    """NpcLinearOperator wrapper recording matvec applications (the operator handed to the engine)."""

    def __init__(self, orig):
        self.orig_operator = orig
        self.dtype = getattr(orig, 'dtype', None)

    def matvec(self, vec):
        res = self.orig_operator.matvec(vec)
        tr = _CUR[0]
        if tr is not None:
            tr.log(op='Matvec', x=tr.tok(vec), y=tr.tok(res))
        return res


def _need(cls, name):
    if name not in cls.__dict__:
        raise core.MachineryError('interposition point %s.%s missing' % (cls.__name__, name))
    return cls.__dict__[name]


@contextlib.contextmanager
def interposed():
    """Patch the Lanczos classes of the tree under test; restores everything on exit."""
    from tenpy.linalg import krylov_based as kb
    from tenpy.linalg import np_conserved as npc
    KB, LG, LE = kb.KrylovBased, kb.LanczosGroundState, kb.LanczosEvolution
    saved = []

    def patch(cls, name, make):
        orig = _need(cls, name)
        saved.append((cls, name, orig))
        setattr(cls, name, make(orig))

    def mk_to_cache(orig):
        def _to_cache(self, psi):
            r = orig(self, psi)
            tr = _CUR[0]
            if tr is not None:
                tr.log(op='ToCache', psi=tr.tok(psi), cache=[tr.tok(c) for c in self._cache])
            return r
        return _to_cache

    def mk_iscale(orig):
        def iscale_prefactor(self, w, scale):
            tr = _CUR[0]
            if tr is not None:
                tr.log(op='Scale', w=tr.tok(w))
            return orig(self, w, scale)
        return iscale_prefactor

    def mk_iadd(orig):
        def iadd_prefactor_other(self, w, alpha, v):
            tr = _CUR[0]
            if tr is not None:
                idx = getattr(alpha, 'idx', -1)
                tr.log(op='Iadd', w=tr.tok(w), v=tr.tok(v), c=idx)
                if idx >= 0:
                    alpha = complex(alpha) if isinstance(alpha, complex) else float(alpha)
            return orig(self, w, alpha, v)
        return iadd_prefactor_other

    def mk_build(orig):
        def _build_krylov(self):
            n = orig(self)
            tr = _CUR[0]
            if tr is not None:
                tr.log(op='BuildDone', N=int(n), cut=bool(abs(self._h_krylov[n - 1, n]) < self._cutoff))
            return n
        return _build_krylov

    def mk_crk(orig):
        def _calc_result_krylov(self, k):
            r = orig(self, k)
            if _CUR[0] is not None:
                self._result_krylov = np.asarray(self._result_krylov).view(TaggedVec)
            return r
        return _calc_result_krylov

    def mk_rebuild(orig):
        def _rebuild_krylov_for_result_full(self, psif, N_max):
            tr = _CUR[0]
            if tr is not None:
                tr.log(op='Rebuild', psif=tr.tok(psif), nmax=int(N_max), cache=[tr.tok(c) for c in self._cache])
            return orig(self, psif, N_max)
        return _rebuild_krylov_for_result_full

    def mk_run(orig):
        def run(self, *a, **kw):
            tr = _CUR[0]
            if tr is not None:
                tr.log(op='Start', Nmax=int(self.N_max), Ncache=int(self.N_cache), Nmin=int(self.N_min),
                       reortho=bool(self.reortho), m=int(tr.m), conv=bool(self.P_tol > 0),
                       shift=self.E_shift is not None, psi0=tr.tok(self.psi0))
            out = orig(self, *a, **kw)
            if tr is not None:
                vec, n = (out[1], out[2]) if len(out) == 3 else (out[0], out[1])
                # `E0 -= E_shift` is not interceptable; it is observed on the returned energy: the Ritz value Es[N-1, 0] of
                # H + E_shift with / without the shift removed.  The event is placed where the statement is: after _build_krylov.
                applied = True
                if len(out) == 3 and self.E_shift is not None and self.E_shift != 0:
                    raw = float(self.Es[int(n) - 1, 0])
                    applied = bool(abs(out[0] - (raw - self.E_shift)) < abs(out[0] - raw))
                pos = [i for i, e in enumerate(tr.events) if e['op'] == 'BuildDone']
                if not pos:
                    raise core.MachineryError('interposition: no BuildDone event recorded by run()')
                tr.events.insert(pos[-1] + 1, dict(op='Unshift', shift=self.E_shift is not None, applied=applied))
                tr.log(op='Return', N=int(n), res=tr.tok(vec))
            return out
        return run

    def mk_mul(orig):
        def __mul__(self, other):
            res = orig(self, other)
            tr = _CUR[0]
            if tr is not None and hasattr(other, 'idx') and res is not NotImplemented:
                tr.log(op='Mul', x=tr.tok(self), c=other.idx, y=tr.tok(res))
            return res
        return __mul__

    try:
        patch(KB, '_to_cache', mk_to_cache)
        patch(KB, 'iscale_prefactor', mk_iscale)
        patch(KB, 'iadd_prefactor_other', mk_iadd)
        patch(LG, '_build_krylov', mk_build)
        patch(LG, '_calc_result_krylov', mk_crk)
        patch(LE, '_calc_result_krylov', mk_crk)
        patch(LG, '_rebuild_krylov_for_result_full', mk_rebuild)
        patch(LG, 'run', mk_run)
        patch(LE, 'run', mk_run)
        patch(npc.Array, '__mul__', mk_mul)
        yield
    finally:
        for cls, name, orig in reversed(saved):
            setattr(cls, name, orig)
        _CUR[0] = None


def record(make_engine, run_args=(), m=0):
    """Run `make_engine(wrap)` -> engine, under the tracer. Must be called inside `interposed()`.
    Returns (events, result of run)."""
    tr = Tracer()
    tr.m = m
    eng = make_engine(LogOp)
    _CUR[0] = tr
    try:
        out = eng.run(*run_args)
    finally:
        _CUR[0] = None
    return tr.events, out


# ------------------------------------------------------------------------------------------------
# TLC trace validation
# ------------------------------------------------------------------------------------------------
CF_INVARIANTS = ['EnergyUnshifted', 'CacheBounded', 'CacheWindow', 'MatvecRight', 'RecurrenceComplete', 'SubtractRight',
                 'CoefMatchesVector', 'EachKrylovIndexUsedOnce', 'ResultNormalised', 'StopRight']

_RE_ACC = re.compile(r'<<"ACCEPT", (\d+)>>')
_RE_REJ = re.compile(r'<<"REJECT", (\d+), (\d+), "(\w+)">>')


def validate_traces(traces, maxn=8):
    """traces: list of (tid, events). Returns (res, accepted set, rejected dict tid -> (l, pc))."""
    d = tlc.scratch('TraceKrylov')
    try:
        path = os.path.join(d, 'traces.ndjson')
        with open(path, 'w') as f:
            for tid, evs in traces:
                f.write(json.dumps(dict(tid=tid, ev=evs)) + '\n')
        cfg = tlc.write_cfg(os.path.join(d, 'TraceKrylov.cfg'), spec='TraceSpec', constants=pl_constants(MaxN=maxn),
                            invariants=CF_INVARIANTS)
        res = tlc.run(os.path.join(tlc.SPEC_DIR, 'TraceKrylov.tla'), cfg, workers=1, env=dict(TRACE_FILE=path),
                      coverage=True)
        tlc.require_clean(res, 'TraceKrylov')
        tlc.name_coverage(res, os.path.join(tlc.SPEC_DIR, 'TraceKrylov.tla'))
        acc = set(int(x) for x in _RE_ACC.findall(res.stdout))
        rej = {int(a): (int(b), c) for a, b, c in _RE_REJ.findall(res.stdout)}
        return res, acc, rej
    finally:
        import shutil
        shutil.rmtree(d, ignore_errors=True)


# ------------------------------------------------------------------------------------------------
# planted cases of Krylov.tla  ->  numpy / npc objects
# ------------------------------------------------------------------------------------------------
PL_INVARIANTS = ['BlockCertificate', 'VectorCertificate', 'JordanCertificate', 'CaseRight']


def pl_constants(**kw):
    c = dict(MaxN=6, Sizes={1, 2}, Charges={0, 1}, MaxBlocks=2, MaxDim=3, DVals='<-DValsSmall', GVals='<-GValsSmall',
             AVals='<-AValsSmall', Flavours={'herm'}, Perms={'id'}, UnitKinds={'gau'}, Sigmas='<-SigmasSmall',
             Kinds={'lanczos'}, GsVals='<-GsValsSmall', MaxGsRows=2, DMode='free')
    c.update(kw)
    return c


def pl_cfg(**kw):
    return dict(init='InitPL', next='NextPL', constants=pl_constants(**kw), invariants=PL_INVARIANTS)


def cf_cfg(maxn):
    return dict(init='InitCF', next='NextCF', constants=pl_constants(MaxN=maxn), invariants=CF_INVARIANTS)


def gi(z):
    return complex(z[0], z[1])


def bv_flat(bv):
    """per-block vector of Gaussian integers -> flat complex ndarray"""
    out = []
    for vb in bv:
        out.extend(gi(x) for x in vb)
    return np.array(out, dtype=complex)


def case_dense(case):
    """exact dense operator A (block diagonal, entries dyadic rationals) of a case"""
    ns = [b['n'] for b in case['blocks']]
    dim = sum(ns)
    A = np.zeros((dim, dim), dtype=complex)
    o = 0
    for b in case['blocks']:
        n = b['n']
        M = np.array([[gi(x) for x in row] for row in b['A']], dtype=complex).reshape(n, n)
        A[o:o + n, o:o + n] = M / (b['s'] * case.get('ds', 1))      # s ds is a power of two: exact
        o += n
    return A


class Built:
    """npc objects for one case; leg structure chosen by `variant` (deterministic)."""

    def __init__(self, case, variant=0):
        import tenpy.linalg.np_conserved as npc
        self.npc = npc
        self.case = case
        blocks = case['blocks']
        qs = [b['q'] for b in blocks]
        ns = [b['n'] for b in blocks]
        self.dim = sum(ns)
        self.A = case_dense(case)
        self.v = bv_flat(case['v'])
        self.real = bool(np.all(self.A.imag == 0) and np.all(self.v.imag == 0)) and variant % 5 != 4
        self.dtype = np.float64 if self.real else np.complex128
        maxq = max(qs)
        # charge structure: U(1), Z_mod (mod > max charge so that sectors stay distinct), or two charges
        kind = variant % 3
        if kind == 0:
            chinfo = npc.ChargeInfo([1], ['q'])
            conv = lambda q: [q]
        elif kind == 1:
            chinfo = npc.ChargeInfo([maxq + 1 + (variant // 3) % 2], ['z'])
            conv = lambda q: [q]
        else:
            chinfo = npc.ChargeInfo([1, 2], ['q', 'p'])
            conv = lambda q: [q - 1, q % 2]
        qconj = 1 if (variant // 2) % 2 == 0 else -1
        if (variant // 4) % 2 == 0:      # one npc block per planted block (neither sorted nor bunched)
            slices = np.concatenate([[0], np.cumsum(ns)])
            leg = npc.LegCharge.from_qind(chinfo, slices, [conv(q) for q in qs], qconj)
        else:                            # flat charges: consecutive equal charges are merged
            qflat = []
            for q, n in zip(qs, ns):
                qflat += [conv(q)] * n
            leg = npc.LegCharge.from_qflat(chinfo, qflat, qconj)
        self.leg = leg
        self.variant = variant
        self.scale = max(1.0, float(np.max(np.abs(self.A))), float(np.max(np.abs(self.v))))

    def op(self, M=None):
        npc = self.npc
        M = self.A if M is None else M
        dt = self.dtype if self.real and np.all(np.asarray(M).imag == 0) else np.complex128
        return npc.Array.from_ndarray(np.asarray(M, dtype=dt) if dt == np.complex128 else np.asarray(M).real.astype(dt),
                                      [self.leg, self.leg.conj()], dtype=dt, labels=['p', 'p*'])

    def vec(self, x=None, dtype=None):
        npc = self.npc
        x = self.v if x is None else np.asarray(x)
        dt = dtype or (self.dtype if np.all(np.asarray(x).imag == 0) else np.complex128)
        arr = x.astype(dt) if dt == np.complex128 else x.real.astype(dt)
        # the charge of the sector fixes qtotal even if x vanishes there
        q0 = self.case['q0']
        b0 = [i for i, b in enumerate(self.case['blocks']) if b['q'] == q0][0]
        off = sum(b['n'] for b in self.case['blocks'][:b0])
        qtot = self.leg.chinfo.make_valid(self.leg.get_charge(self.leg.get_qindex(off)[0]))
        return npc.Array.from_ndarray(arr, [self.leg], dtype=dt, qtotal=qtot, labels=['p'])

    @staticmethod
    def arr(a):
        return np.asarray(a.to_ndarray(), dtype=complex)
