"""Stand-alone driver of harness/npc_ctor.run_phase (growth of C02 / C04: spec/NpcCtor.tla).
Run:  ./check X_npcctor --tier quick [--prop C02|C04] [--replay FILE]
Evidence goes to /verif/build/ctor-evidence (never to evidence/C02.json): VERIF_EVIDENCE_DIR is forced before harness.core is
imported.  The coordinator wires run_phase into checks/c02.py and checks/c04.py."""
import os
import sys

if not os.environ.get('VERIF_EVIDENCE_DIR'):
    os.environ['VERIF_EVIDENCE_DIR'] = os.path.join(os.path.dirname(os.path.dirname(os.path.abspath(__file__))), 'build', 'ctor-evidence')

from harness import core, npc_ctor  # noqa: E402


def main():
    argv = sys.argv[1:]
    prop = 'C02'
    if '--prop' in argv:
        i = argv.index('--prop')
        prop = argv[i + 1]
        del argv[i:i + 2]
    if os.path.abspath(core.EVIDENCE) == os.path.join(core.VERIF, 'evidence'):
        print('MACHINERY: refusing to write into the registered evidence directory')
        sys.exit(2)

    def check(ctx):
        if ctx.replay_file:
            npc_ctor.replay_file(ctx, ctx.replay_file)
            ctx.states = ctx.transitions = 1
            return
        ctx.rule = ('cases = steps of TLC-generated behaviours of spec/NpcCtor.tla replayed into tenpy.linalg.np_conserved; '
                    'distinct = distinct (seed, origin, behaviour, step)')
        npc_ctor.run_phase(ctx, prop, ctx.tier)
        ctx.exhaustive = False

    core.main_wrapper(prop, check, argv)


if __name__ == '__main__':
    main()
