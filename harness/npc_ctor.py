"""Growth of C02 / C04: constructors, charge-changing methods, grid functions, label API and element-wise methods of
tenpy.linalg.np_conserved against spec/NpcCtor.tla.

    run_phase(ctx, prop, tier)      prop in {'C02', 'C04'}

(1) TLC runs spec/NpcCtor.tla over a random catalogue of exact tensors (exhaustive for one operation from every catalogue
state, `-simulate` for programs of several operations); (2) every behaviour is replayed into the real tenpy objects and the
projected result of every step is compared with the specification (ChargeInfo, legs, qtotal, labels, entries, dtype,
documented errors / warnings) together with the storage invariants (harness.npc.sanity_clauses); (3) for C04 the replay is
done in two interpreter processes (TENPY_NO_CYTHON=1 / extension rebuilt from the tree) whose canonical serialisations
must agree.  The harness only projects tenpy objects onto spec values; expected results are computed by the spec."""
import builtins
import json
import os
import random
import shutil
import subprocess
import sys
import warnings

import numpy as np

from . import npc, tlaval, tlc

SPEC = 'NpcCtor'
NP_DTYPE = {'i': np.int64, 'f': np.float64, 'c': np.complex128}
DTYPE_NAME = {'int64': 'i', 'float64': 'f', 'complex128': 'c'}

# ------------------------------------------------------------------------------------------------
# catalogue
# ------------------------------------------------------------------------------------------------
MOD_CHOICES = [(1,), (2,), (3,), (1, 2), (1, 1), (2, 3), (4,), (1, 3, 2), (1,), (1, 2)]
NAME_POOL = ['N', 'P', 'Sz', 'Q']
PROFILE_MODS = {0: [(1, 3), (1, 2), (3, 1), (1, 1)], 1: [(2, 3), (1, 2), (4,), (1, 3, 2)], 2: [(1, 2), (1,), (2, 3), (1, 4)],
                3: [(1,), (4, 1), (2,), (1, 3, 2)]}


def _allowed(mods, legs, qtotal):
    import itertools
    return [b for b in itertools.product(*[range(len(l['sizes'])) for l in legs])
            if npc.make_valid([sum(l['qconj'] * l['charges'][bi][k] for l, bi in zip(legs, b)) for k in range(len(mods))], mods) == qtotal]


def _copy_leg(l):
    return dict(sizes=list(l['sizes']), charges=[list(c) for c in l['charges']], qconj=l['qconj'])


def rand_config(rng, idx, max_size=36):
    """One catalogue configuration: three tensors that enable different groups of operations (profile = idx % 4)."""
    profile = idx % 4
    for _ in range(400):
        # the first configurations (the ones searched exhaustively in the quick tier) always have several charges of
        # different kinds, so that dropping / changing / adding one charge is distinguishable from doing it to another
        mods = rng.choice(PROFILE_MODS[profile]) if idx < 8 else rng.choice(MOD_CHOICES)
        names = rng.sample(NAME_POOL, len(mods))
        if rng.random() < 0.3:
            names[rng.randrange(len(names))] = ''
        r1 = rng.choice([2, 2, 3])
        legs1 = [npc.rand_leg(rng, mods, max_blocks=3, max_size=2) for _ in range(r1)]
        if profile == 3:
            legs1[-1] = npc.conj_leg(legs1[0])          # traceable pair
        lab = ['a', 'b', 'c']
        labels1 = [[lab[i]] for i in range(r1)] if profile in (1, 3) or rng.random() < 0.5 else \
            [[lab[i]] if rng.random() < 0.7 else [] for i in range(r1)]
        if int(np.prod([npc.ind_len(l) for l in legs1])) > max_size:
            continue
        cplx1 = rng.random() < 0.4
        t1 = npc.rand_tensor(rng, mods, legs1, labels1, cplx1)
        if len(_allowed(mods, legs1, t1['qtotal'])) < 2 and rng.random() < 0.7:
            continue
        t1.update(mods=list(mods), names=list(names), dtype='c' if cplx1 else rng.choice(['f', 'f', 'i']))
        # T2: same legs and total charge, other stored blocks; profile 1: same labels in another order (transposed)
        t2 = npc.rand_tensor(rng, mods, [_copy_leg(l) for l in legs1], [list(l) for l in labels1], rng.random() < 0.4)
        t2['qtotal'] = list(t1['qtotal'])
        blocks = _allowed(mods, legs1, t1['qtotal'])
        t2['missing'] = [b for b in blocks if rng.random() < 0.3]
        if len(t2['missing']) == len(blocks):
            t2['missing'] = t2['missing'][1:]
        t2.update(mods=list(mods), names=list(names), dtype='c' if t2['cplx'] else 'f')
        if profile == 1:
            perm = list(range(1, r1 + 1))
            while perm == list(range(1, r1 + 1)):
                perm = [x + 1 for x in rng.sample(range(r1), r1)]
            t2['transpose_perm'] = perm
        # T3
        if profile == 0:
            # same legs, another total charge (grid_outer with a non-trivial grid leg, == with different qtotal)
            t3 = None
            for _ in range(20):
                cand = npc.rand_tensor(rng, mods, [_copy_leg(l) for l in legs1], [list(l) for l in labels1], rng.random() < 0.3)
                if cand['qtotal'] != t1['qtotal']:
                    t3 = cand
                    break
            if t3 is None:
                continue
            t3.update(mods=list(mods), names=list(names))
        elif profile == 1:
            # conjugate partner: inner / tensordot by labels
            legs3 = [npc.conj_leg(l) for l in legs1]
            labels3 = [l + ['*'] for l in labels1]
            t3 = npc.rand_tensor(rng, mods, legs3, labels3, rng.random() < 0.4)
            t3['qtotal'] = npc.make_valid([-x for x in t1['qtotal']], mods)
            t3['missing'] = [b for b in t1['missing'] if rng.random() < 0.5]
            t3.update(mods=list(mods), names=list(names))
            if rng.random() < 0.5:
                p = [x + 1 for x in rng.sample(range(r1), r1)]
                t3['transpose_perm'] = p
        elif profile == 2:
            # T1 with all charges dropped: a tensor of the trivial ChargeInfo next to charged ones (add_charge)
            t3 = dict(legs=[dict(sizes=[npc.ind_len(l)], charges=[[]], qconj=l['qconj']) for l in legs1], qtotal=[],
                      labels=[list(l) for l in labels1], cplx=t1['cplx'], missing=[], shape=list(t1['shape']),
                      mods=[], names=[], mask_of=0)
        else:
            # a vector / thin matrix contractible with a leg of T1
            j = rng.randrange(r1)
            legs3 = [npc.conj_leg(legs1[j])]
            labels3 = [labels1[j] + ['*']] if labels1[j] else [[]]
            if rng.random() < 0.5:
                legs3.append(npc.rand_leg(rng, mods, max_blocks=2, max_size=1))
                labels3.append(['f'])
            t3 = npc.rand_tensor(rng, mods, legs3, labels3, rng.random() < 0.3)
            t3['missing'] = []
            t3.update(mods=list(mods), names=list(names))
        t3.setdefault('dtype', 'c' if t3['cplx'] else 'f')
        return dict(profile=profile, tensors=[t1, t2, t3])
    raise RuntimeError('no catalogue configuration found')


def _leg_tla(leg):
    return 'L!PlainLeg(%s, %s, %d)' % (tlc.tla_lit(leg['sizes']), tlc.tla_lit([list(c) for c in leg['charges']]), leg['qconj'])


def mc_module(name, catalogue):
    lines = ['---- MODULE %s ----' % name, 'EXTENDS NpcCtor']
    cfgs = []
    for ci, cfg in enumerate(catalogue):
        tn = []
        for ti, t in enumerate(cfg['tensors']):
            pre = 'C%d_T%d' % (ci + 1, ti + 1)
            lnames = []
            for li, leg in enumerate(t['legs']):
                ln = '%s_L%d' % (pre, li + 1)
                lines.append('%s == %s' % (ln, _leg_tla(leg)))
                lnames.append(ln)
            shape = tlc.tla_lit(t['shape'])
            mods = tlc.tla_lit(t['mods'])
            if t['dtype'] == 'c':
                f = 'LAMBDA idx : <<1 + Flat(idx, %s), (Flat(idx, %s) %% 3) - 1>>' % (shape, shape)
            else:
                f = 'LAMBDA idx : <<1 + ((Flat(idx, %s) * 5) %% 11), 0>>' % shape
            if 'mask_of' in t:
                # entries of tensor `mask_of` of the same configuration (its charges dropped)
                core = '[C%d_T%d_core EXCEPT !.legs = <<%s>>, !.qtotal = <<>>]' % (ci + 1, t['mask_of'] + 1, ', '.join(lnames))
            else:
                missing = '{' + ', '.join(tlc.tla_lit([b + 1 for b in blk]) for blk in t['missing']) + '}'
                core = 'N(%s)!MkTensorM(<<%s>>, %s, %s, %s, %s)' % (mods, ', '.join(lnames), tlc.tla_lit(t['qtotal']),
                                                                   tlc.tla_lit([list(l) for l in t['labels']]), f, missing)
                if t.get('transpose_perm'):
                    core = 'L!OpTranspose(%s, %s)' % (core, tlc.tla_lit(t['transpose_perm']))
            lines.append('%s_core == %s' % (pre, core))
            lines.append('%s == XT(%s, %s, %s, %s_core)' % (pre, mods, tlc.tla_lit(t['names']), tlc.tla_lit(t['dtype']), pre))
            tn.append(pre)
        cfgs.append('<<%s>>' % ', '.join(tn))
    lines.append('MCCatalogue == <<%s>>' % ', '.join(cfgs))
    lines.append('====')
    return '\n'.join(lines) + '\n'


def mc_cfg(max_ops, nslots=4, max_rank=4, max_size=100, max_abs=20000, invariants=True):
    return dict(spec='Spec',
                constants=dict(Catalogue='<-MCCatalogue', NSlots=nslots, MaxOps=max_ops, MaxRank=max_rank, MaxSize=max_size,
                               MaxAbs=max_abs),
                invariants=['PoolChargeRule', 'PoolWellFormed'] if invariants else [],
                properties=['OnlyOutChanges', 'QTotalRule'] if invariants else [], view='AbsView')


# ------------------------------------------------------------------------------------------------
# TLC
# ------------------------------------------------------------------------------------------------
def _run_tlc(args):
    (mode, d, spec, seed, ops, num, workers, timeout) = args
    if mode == 'mc':
        cfgp = tlc.write_cfg(os.path.join(d, 'mc.cfg'), **mc_cfg(ops))
        dump = os.path.join(d, 'states')
        res = tlc.run(spec, cfgp, workers=workers, timeout=timeout, dump=dump, coverage=False)
        behs = []
        if not tlc.machinery_failed(res):
            inits = {}
            hs = []
            for st in tlaval.iter_dump(dump + '.dump'):
                if st['cfg'] == 0 or st['pending'].get('op') != 'nil' or st['cls'] != 'none':
                    continue
                if not st['hist']:
                    inits[st['cfg']] = st['pool']
                else:
                    hs.append((st['cfg'], st['hist']))
            for c, h in hs:
                behs.append(dict(cfg=c, init=inits[c], steps=h, origin='mc'))
        return mode, res, behs
    cfgp = tlc.write_cfg(os.path.join(d, 'sim.cfg'), **mc_cfg(ops))
    os.makedirs(os.path.join(d, 'tr'), exist_ok=True)
    prefix = os.path.join(d, 'tr', 't')
    res = tlc.run(spec, cfgp, workers=workers, timeout=timeout, simulate=dict(num=num, file=prefix), depth=3 * ops + 2, seed=seed,
                  coverage=False)
    behs = []
    if not tlc.machinery_failed(res):
        for tr in tlc.read_sim_traces(prefix):
            if len(tr) < 3:
                continue
            last = tr[-1][1]
            if last['hist']:
                behs.append(dict(cfg=last['cfg'], init=tr[1][1]['pool'], steps=last['hist'], origin='sim'))
    return mode, res, behs


def generate(seed, n_configs, mc_configs, mc_ops, sim_num, sim_ops, workers=4, sim_workers=None, timeout=900, max_size=36):
    """Catalogue -> TLC (exhaustive + simulation, concurrently) -> behaviours.  Returns dict(catalogue, runs, behaviours)."""
    from concurrent.futures import ThreadPoolExecutor
    rng = random.Random(seed)
    catalogue = [rand_config(rng, i, max_size=max_size) for i in range(n_configs)]
    d_mc = tlc.scratch('ctor-mc')
    d_sim = tlc.scratch('ctor-sim')
    try:
        jobs = []
        w_sim = sim_workers or max(1, workers // 2)
        w_mc = max(1, workers - w_sim)
        # exhaustive run over the first `mc_configs` configurations, simulation over all
        for (d, mode, cat) in ((d_mc, 'mc', catalogue[:mc_configs]), (d_sim, 'sim', catalogue)):
            spec = os.path.join(d, 'NpcCtorMC.tla')
            with open(spec, 'w') as f:
                f.write(mc_module('NpcCtorMC', cat))
            jobs.append((mode, d, spec, seed % 100000 + 1, mc_ops if mode == 'mc' else sim_ops, sim_num, w_mc if mode == 'mc' else w_sim, timeout))
        with ThreadPoolExecutor(max_workers=2) as ex:
            out = list(ex.map(_run_tlc, jobs))
    finally:
        shutil.rmtree(d_mc, ignore_errors=True)
        shutil.rmtree(d_sim, ignore_errors=True)
    return dict(catalogue=catalogue, runs=[(m, r) for m, r, _ in out], behaviours=[b for _, _, bs in out for b in bs])


# ------------------------------------------------------------------------------------------------
# spec values <-> tenpy objects
# ------------------------------------------------------------------------------------------------
def chinfo_of(mods, names):
    from tenpy.linalg import charges as ch
    return ch.ChargeInfo([int(m) for m in mods], [str(n) for n in names])


def build(t, variant=0):
    a = npc.build_array(chinfo_of(t['mods'], t['names']), t, dtype=NP_DTYPE[t['dtype']])
    return npc.storage_variant(a, variant)


def project(a):
    p = npc.project_array(a)
    p['mods'] = [int(m) for m in a.chinfo.mod]
    p['names'] = [str(n) for n in a.chinfo.names]
    p['dtype'] = DTYPE_NAME.get(str(a.dtype), str(a.dtype))
    return p


def compare(p, t):
    """None or the name of the first clause in which the projection of an Array differs from the spec tensor."""
    if p['mods'] != [int(m) for m in t['mods']]:
        return 'chinfo-mod'
    if p['names'] != [str(n) for n in t['names']]:
        return 'chinfo-names'
    c = npc.compare_tensor(p, t, t['mods'])
    if c:
        return c
    if p['dtype'] != t['dtype']:
        return 'dtype'
    return None


def compare_leg_value(leg, spec_leg, vmods, vnames):
    from tenpy.tools import optimization
    if [int(m) for m in leg.chinfo.mod] != [int(m) for m in vmods]:
        return 'chinfo-mod'
    if [str(n) for n in leg.chinfo.names] != [str(n) for n in vnames]:
        return 'chinfo-names'
    c = npc.compare_leg(npc.project_leg(leg), npc.spec_leg_norm(spec_leg), vmods)
    if c:
        return 'leg-' + c
    try:
        with optimization.temporary_level(0):
            leg.test_sanity()
    except Exception as e:  # noqa
        return 'leg-test_sanity:' + type(e).__name__
    fl = npc.leg_flag_clauses(leg)
    if fl:
        return 'leg-' + fl[0]
    return None


def arg_py(arg):
    return int(arg['i']) if arg['k'] == 'int' else npc.render_label(arg['l'])


def labels_py(labels):
    return [npc.render_label(x) for x in labels]


def _func(kind):
    if kind == 'ones':
        return np.ones
    if kind == 'arange':
        return lambda shape: (1 + np.arange(int(np.prod(shape)))).reshape(shape)

    def cplx(shape):
        k = np.arange(int(np.prod(shape))).reshape(shape)
        return (1 + k) - 1j * k
    return cplx


def _dense_input(a, pert):
    d = a.to_ndarray().copy()
    if pert['n']:
        d.flat[int(pert['n']) - 1] = int(pert['z'][0])
    return d


def _dt(name):
    return None if name == 'none' else NP_DTYPE[name]


def _cut(c):
    return None if not c else c / 2.


class Value:
    """result of an observer: `proj` is the JSON-able projection, `clause` the comparison with the spec (None = equal)"""

    def __init__(self, proj, clause=None):
        self.proj = proj
        self.clause = clause


def apply_step(pool, l):
    """Execute the operation of record `l`.  Returns ('store', Array) | ('inplace', Array) | ('value', Value)."""
    import tenpy.linalg.np_conserved as tnpc
    from tenpy.linalg import charges as ch
    op = l['op']
    a = pool.get(l.get('a'))
    b = pool.get(l.get('b'))
    if op == 'from_ndarray':
        d = _dense_input(a, l['pert'])
        d0 = d.copy()
        res = tnpc.Array.from_ndarray(d, list(a.legs), dtype=_dt(l['dtype']), qtotal=a.qtotal.copy() if l['qgiven'] else None,
                                      cutoff=_cut(l['cut']), labels=labels_py(l['labels']), raise_wrong_sector=bool(l['raise']))
        res._verif_input = d
        res._verif_input_changed = not np.array_equal(d, d0)
        return 'store', res
    if op == 'from_ndarray_trivial':
        return 'store', tnpc.Array.from_ndarray_trivial(a.to_ndarray(), labels=labels_py(l['labels']))
    if op == 'from_func':
        f = _func(l['func'])
        q = [int(x) for x in l['q']]
        if l['how'] == 'ones':
            if l['dtype'] == 'none':
                return 'store', tnpc.ones(list(a.legs), qtotal=q, labels=labels_py(l['labels']))
            return 'store', tnpc.ones(list(a.legs), _dt(l['dtype']), q, labels_py(l['labels']))
        if l['how'] == 'shape_kw':
            return 'store', tnpc.Array.from_func(lambda shape=None: f(shape), list(a.legs), _dt(l['dtype']), q, shape_kw='shape',
                                                 labels=labels_py(l['labels']))
        return 'store', tnpc.Array.from_func(f, list(a.legs), _dt(l['dtype']), q, labels=labels_py(l['labels']))
    if op == 'zeros':
        q = [int(x) for x in l['q']]
        if l['dtype'] == 'none':
            return 'store', tnpc.zeros(list(a.legs), qtotal=q, labels=labels_py(l['labels']))
        return 'store', tnpc.zeros(list(a.legs), _dt(l['dtype']), q, labels_py(l['labels']))
    if op == 'diag':
        sv = [npc.gauss(z) for z in l['sv']]
        if l['kind'] in ('cscalar', 'cvec'):
            sv = [complex(z) for z in sv]
        s = sv[0] if l['kind'] in ('scalar', 'cscalar') else np.array(sv)
        return 'store', tnpc.diag(s, a.legs[l['x'] - 1], _dt(l['dtype']), labels_py(l['labels']))
    if op == 'eye_like':
        return 'store', tnpc.eye_like(a, arg_py(l['axis']), labels_py(l['labels']))
    if op == 'detect_qtotal':
        q = tnpc.detect_qtotal(_dense_input(a, l['pert']), list(a.legs), _cut(l['cut']))
        q = [int(x) for x in q]
        return 'value', Value(q, None if q == [int(x) for x in l['value']] else 'value')
    if op == 'detect_legcharge':
        legs = list(a.legs)
        legs[l['x'] - 1] = None
        res = tnpc.detect_legcharge(a.to_ndarray(), a.chinfo, legs, a.qtotal, l['qconj'])
        leg = res[l['x'] - 1]
        clause = compare_leg_value(leg, l['value'], a.chinfo.mod, a.chinfo.names)
        if clause is None and any(x is not y for i, (x, y) in enumerate(zip(res, a.legs)) if i != l['x'] - 1):
            clause = 'other-legs-replaced'
        return 'value', Value(npc.project_leg(leg), clause)
    if op == 'to_ndarray':
        d = a.to_ndarray()
        exp = npc.dense_of(dict(val=l['value']))
        ok = list(d.shape) == list(l['value']['shape']) and np.array_equal(np.asarray(d, np.complex128), exp)
        clause = None if ok else 'dense'
        if ok and DTYPE_NAME.get(str(d.dtype)) != l['dtype']:
            clause = 'dtype'
        return 'value', Value(dict(shape=list(d.shape), dtype=str(d.dtype), val=[[float(np.real(v)), float(np.imag(v))] for v in d.reshape(-1)]), clause)
    if op in ('add_charge', 'add_charge_wrong', 'change_charge'):
        # precondition of the specification: the *entries* obey the charge rule of the new charges.  The spec does not model
        # which blocks are stored, so explicitly stored blocks of zeros (which need not obey it) are removed first.
        a = a.copy(deep=True).ipurge_zeros(0.)
    if op in ('add_charge', 'add_charge_wrong'):
        ci2 = chinfo_of(l['mods2'], l['names2'])
        add_legs = [npc.build_leg(ci2, leg) for leg in l['addlegs']]
        if op == 'add_charge_wrong':
            return 'store', a.add_charge(add_legs, qtotal=[int(x) for x in l['q2']])
        res = a.add_charge(add_legs, qtotal=[int(x) for x in l['q2']] if l['qgiven'] else None)
        res._verif_operand = a
        return 'store', res
    if op == 'drop_charge':
        return 'store', a.drop_charge(None if l['k'] == 0 else (l['name'] if l['byname'] else l['k'] - 1))
    if op == 'change_charge':
        res = a.change_charge(l['name'] if l['byname'] else l['k'] - 1, int(l['newmod']), l['newname'])
        res._verif_operand = a
        return 'store', res
    if op == 'chinfo':
        if l['what'] == 'add':
            ci = ch.ChargeInfo.add([a.chinfo, b.chinfo])
        elif l['what'] == 'drop':
            ci = ch.ChargeInfo.drop(a.chinfo, None if l['k'] == 0 else l['k'] - 1)
        else:
            ci = ch.ChargeInfo.change(a.chinfo, l['k'] - 1, int(l['newmod']), 'new')
        ci.test_sanity()
        got = dict(mods=[int(m) for m in ci.mod], names=[str(n) for n in ci.names])
        exp = dict(mods=[int(m) for m in l['value']['mods']], names=[str(n) for n in l['value']['names']])
        return 'value', Value(got, None if got == exp else ('chinfo-mod' if got['mods'] != exp['mods'] else 'chinfo-names'))
    if op == 'leg':
        leg = a.legs[l['x'] - 1]
        what = l['what']
        if what == 'from_add_charge':
            res = ch.LegCharge.from_add_charge([leg, b.legs[l['y'] - 1]])
        elif what == 'from_drop_charge':
            res = ch.LegCharge.from_drop_charge(leg, None if l['k'] == 0 else (l['name'] if l['byname'] else l['k'] - 1))
        elif what == 'from_change_charge':
            res = ch.LegCharge.from_change_charge(leg, l['name'] if l['byname'] else l['k'] - 1, int(l['newmod']), 'new')
        elif what == 'from_qflat':
            res = ch.LegCharge.from_qflat(leg.chinfo, leg.to_qflat(), leg.qconj)
        elif what == 'from_qind':
            res = ch.LegCharge.from_qind(leg.chinfo, leg.slices.copy(), leg.charges.copy(), leg.qconj)
        elif what in ('from_qdict', 'to_qdict'):
            qd = leg.to_qdict()
            items = list(qd.items())
            k = l['k'] % max(1, len(items))
            items = items[k:] + items[:k] if l['k'] < 2 else items[::-1]
            res = ch.LegCharge.from_qdict(leg.chinfo, dict(items), leg.qconj)
        else:
            res = ch.LegCharge.from_trivial(leg.ind_len, leg.chinfo, leg.qconj)
        if 'value' not in l:      # the specification expects an exception
            return 'value', Value(npc.project_leg(res), None)
        return 'value', Value(npc.project_leg(res), compare_leg_value(res, l['value'], l['vmods'], l['vnames']))
    if op == 'concatenate':
        arrs = [a, b, a] if l['three'] else [a, b]
        return 'store', tnpc.concatenate(arrs, axis=arg_py(l['axis']), copy=bool(l['copy']))
    if op == 'grid_concat':
        none = {tuple(int(x) for x in e) for e in l['none']}
        grid = [[None if (i, j) in none else npc.gauss(l['zs'][i - 1]) * (a if j == 1 else b) for j in (1, 2)] for i in (1, 2)]
        return 'store', tnpc.grid_concat(grid, [l['x'] - 1, l['y'] - 1])
    if op == 'grid_outer':
        grid = [[None if s == 0 else pool[s] for s in row] for row in l['grid']]
        chinfo = a.chinfo
        legs = [ch.LegCharge.from_qflat(chinfo, np.array(g['charges'], dtype=np.int64).reshape(len(g['sizes']), chinfo.qnumber), g['qconj'])
                for g in l['gridlegs']]
        Q = [int(x) for x in l['Q']]
        g_arg = grid[0] if len(grid) == 1 else grid
        detected = None
        if l['detect']:
            det = tnpc.detect_grid_outer_legcharge(g_arg, legs[:-1] + [None], qtotal=Q, qconj=l['qconj'])
            detected = compare_leg_value(det[-1], l['gridlegs'][-1], chinfo.mod, chinfo.names)
            legs = list(det)
        res = tnpc.grid_outer(g_arg, legs, qtotal=Q if l['qgiven'] else None, grid_labels=labels_py(l['glabels']))
        res._verif_detected = detected
        return 'store', res
    if op == 'get_leg_index':
        v = a.get_leg_index(arg_py(l['arg']))
        return 'value', Value(int(v), None if int(v) == l.get('value') else 'value')
    if op == 'get_leg_indices':
        v = [int(x) for x in a.get_leg_indices([arg_py(x) for x in l['args']])]
        return 'value', Value(v, None if v == [int(x) for x in l.get('value', [])] else 'value')
    if op == 'iset_leg_labels':
        a.iset_leg_labels(labels_py(l['labels']))
        return 'inplace', a
    if op in ('replace_labels', 'ireplace_labels'):
        olds = [arg_py(x) for x in l['olds']]
        news = labels_py(l['news'])
        if op == 'ireplace_labels':
            r = a.ireplace_label(olds[0], news[0]) if l['single'] else a.ireplace_labels(olds, news)
            if r is not a:
                raise AssertionError('in-place method did not return self')
            return 'inplace', a
        return 'store', (a.replace_label(olds[0], news[0]) if l['single'] else a.replace_labels(olds, news))
    if op == 'idrop_labels':
        a.idrop_labels(None if l['all'] else [arg_py(x) for x in l['args']])
        return 'inplace', a
    if op == 'has_label':
        v = a.has_label(npc.render_label(l['l']))
        return 'value', Value(bool(v), None if bool(v) == bool(l['value']) else 'value')
    if op == 'get_leg_labels':
        v = a.get_leg_labels()
        return 'value', Value(list(v), None if list(v) == labels_py(l['value']) else 'value')
    if op == 'transpose_l':
        return 'store', a.transpose([arg_py(x) for x in l['args']])
    if op == 'tensordot_l':
        r = tnpc.tensordot(a, b, axes=([arg_py(x) for x in l['la']], [arg_py(x) for x in l['lb']]))
        return _scalar_or_store(r, l)
    if op == 'inner_l':
        if l['mode'] == 'labels':
            r = tnpc.inner(a, b, axes='labels', do_conj=bool(l['do_conj']))
        else:
            r = tnpc.inner(a, b, axes=([arg_py(x) for x in l['la']], [arg_py(x) for x in l['lb']]), do_conj=bool(l['do_conj']))
        return _scalar_or_store(r, l)
    if op == 'trace_l':
        return _scalar_or_store(tnpc.trace(a, arg_py(l['a1']), arg_py(l['a2'])), l)
    if op == 'combine_legs_l':
        return 'store', a.combine_legs([arg_py(x) for x in l['args']], qconj=int(l['qconj']))
    if op == 'astype':
        return 'store', a.astype(NP_DTYPE[l['dtype']])
    if op == 'unary':
        f = l['func']
        if f == 'neg':
            return 'store', -a
        return 'store', a.unary_blockwise(dict(real=np.real, imag=np.imag, conj=np.conj, negative=np.negative)[f])
    if op == 'binary':
        f = l['func']
        if f == 'sub':
            return 'store', a - b
        return 'store', a.binary_blockwise(dict(add=np.add, subtract=np.subtract, multiply=np.multiply, maximum=np.maximum)[f], b)
    if op == 'mul_scalar':
        how = l['how']
        z = npc.gauss(l['z'])
        if how == 'mul':
            return 'store', a * z
        if how == 'rmul':
            return 'store', z * a
        return 'store', a / {'div_half': 0.5, 'div_-1': -1.0, 'div_i': 1j}[how]
    if op == 'div_zero':
        return 'store', a / 0.0
    if op == 'eq':
        v = (a == b)
        if not isinstance(v, (bool, np.bool_)):
            return 'value', Value(repr(v), 'not-a-bool')
        return 'value', Value(bool(v), None if bool(v) == bool(l['value']) else 'value')
    if op == 'norm':
        o = {'none': None, '1': 1, 'inf': np.inf, '-inf': -np.inf, '0': 0, '2': 2, 'fro': 'fro'}[l['ord']]
        v = float(tnpc.norm(a, o))
        exp = int(l['value'])
        if l['ord'] in ('1', '0'):
            ok = v == exp
        else:
            ok = abs(v * v - exp) <= 1e-9 * max(1.0, exp)
        return 'value', Value(v, None if ok else 'value')
    raise KeyError('unknown op %r' % (op,))


def _scalar_or_store(r, l):
    if hasattr(r, 'legs'):
        return 'store', r
    got = complex(r)
    if 'value' not in l:
        return 'value', Value([got.real, got.imag], None)
    exp = complex(l['value'][0], l['value'][1])
    return 'value', Value([got.real, got.imag], None if got == exp else 'value')


# ------------------------------------------------------------------------------------------------
# replay
# ------------------------------------------------------------------------------------------------
def context_flags(pool, l):
    """Structural facts about a step that distinguish classes of failures (used in violation signatures)."""
    flags = []
    op = l['op']
    if op == 'add_charge' and not l['qgiven']:
        flags.append('qtotal=None')
    if op in ('leg', 'chinfo'):
        flags.append(l['what'])
    if op in ('leg', 'drop_charge', 'change_charge') and l.get('byname'):
        flags.append('by-name')
    if op == 'norm':
        flags.append('ord=' + l['ord'])
    if op == 'get_leg_index' and l['arg']['k'] == 'int':
        a = pool.get(l['a'])
        if a is not None and l['arg']['i'] == a.rank:
            flags.append('index=rank')
    if op == 'get_leg_indices':
        a = pool.get(l['a'])
        if a is not None and any(x['k'] == 'int' and x['i'] == a.rank for x in l['args']):
            flags.append('index=rank')
    return flags


def _canon_array(a, p):
    blocks = sorted((tuple(int(x) for x in q), np.asarray(b, dtype=np.complex128).reshape(-1).tolist()) for q, b in zip(a._qdata, a._data))
    return dict(mods=p['mods'], names=p['names'], shape=p['shape'], labels=p['labels'], qtotal=p['qtotal'], legs=p['legs'], dtype=str(a.dtype),
                val=[[v.real, v.imag] for v in p['val']], blocks=[[list(q), [[z.real, z.imag] for z in b]] for q, b in blocks])


def replay_behaviour(beh, canon=False, variant=0):
    """Step a behaviour through real Arrays.  Returns (findings, nsteps, records).
    finding = dict(clause, step, op, flags, detail)."""
    findings = []
    records = []
    pool = {}
    spec_pool = {}
    for s, t in enumerate(beh['init']):
        if t['legs']:
            try:
                pool[s + 1] = build(t, variant)
                c = compare(project(pool[s + 1]), t) or (npc.sanity_clauses(pool[s + 1]) or [None])[0]
            except Exception as e:  # noqa  (building a catalogue tensor is Array.from_ndarray with valid arguments)
                c = 'raised-' + type(e).__name__
            spec_pool[s + 1] = t
            if c:
                findings.append(dict(clause='init-' + c, step=-1, op='from_ndarray', flags=[]))
                return findings, 0, records
    nsteps = 0
    for n, st in enumerate(beh['steps']):
        l = st['l']
        op = l['op']
        if op == 'skipped':
            continue
        nsteps += 1
        flags = context_flags(pool, l)
        exp_err = l['err']
        err = None
        kind = val = None
        with warnings.catch_warnings(record=True) as wlist:
            warnings.simplefilter('always')
            try:
                kind, val = apply_step(pool, l)
            except Exception as e:  # noqa
                err = e
        warned = any(issubclass(w.category, UserWarning) for w in wlist)

        def report(clause, detail=None):
            findings.append(dict(clause=clause, step=n, op=op, flags=flags, detail=detail))

        if err is not None:
            records.append(dict(step=n, error=type(err).__name__))
            if exp_err == 'none':
                report('raised-' + type(err).__name__, str(err)[:300])
            elif exp_err != 'any' and not isinstance(err, getattr(builtins, exp_err)):
                report('error-class', dict(got=type(err).__name__, expected=exp_err))
        elif exp_err != 'none':
            records.append(dict(step=n, noerror=True))
            report('no-error', dict(expected=exp_err, got=repr(getattr(val, 'proj', val))[:200]))
        elif kind == 'value':
            records.append(dict(step=n, value=val.proj))
            if val.clause:
                report(val.clause, dict(got=val.proj, expected=tlaval.to_jsonable(l.get('value'))))
        else:
            out = l['out']
            if kind == 'store':
                if not hasattr(val, 'legs'):
                    report('not-an-array', repr(val)[:100])
                    break
                pool[out] = val
            spec_pool[out] = st['t']
            p = project(pool[out])
            c = compare(p, st['t'])
            if c is None and getattr(val, '_verif_detected', None):
                c = 'detected-' + val._verif_detected
            if c is None and getattr(val, '_verif_input_changed', False):
                c = 'input-array-modified'
            if c is None and kind == 'store' and l.get('fresh'):
                others = [x for s2, x in pool.items() if s2 != out and x is not val]
                shared = [y for x in others for y in x._data] + ([val._verif_input] if hasattr(val, '_verif_input') else [])
                shared += list(getattr(getattr(val, '_verif_operand', None), '_data', []))
                if any(np.shares_memory(x, y) for x in val._data for y in shared if x.size and y.size):
                    c = 'entries-shared-with-operand'
            if c:
                report(c, dict(impl=dict(mods=p['mods'], names=p['names'], shape=p['shape'], labels=p['labels'], qtotal=p['qtotal'],
                                         legs=p['legs'], dtype=p['dtype'], val=[[v.real, v.imag] for v in p['val'][:64]])))
            if canon:
                records.append(dict(step=n, array=_canon_array(pool[out], p)))
        if 'warn' in l and err is None and exp_err == 'none' and bool(l['warn']) != warned:
            report('warning-' + ('missing' if l['warn'] else 'unexpected'), [str(w.message)[:100] for w in wlist])
        # storage invariants on every live tensor; an operand of a failed or observing call must be untouched
        for s, a in pool.items():
            bad = npc.sanity_clauses(a)
            if bad:
                report('sanity:' + bad[0], dict(slot=s, all=bad))
                break
        if err is not None or kind == 'value':
            for s in {l.get('a'), l.get('b')} - {None}:
                if s in pool and s in spec_pool:
                    c = compare(project(pool[s]), spec_pool[s])
                    if c:
                        report('operand-changed-' + c, dict(slot=s))
        if any(f['step'] == n for f in findings):
            break
    return findings, nsteps, records


def sig_of(f):
    return dict(kind='replay', spec=SPEC, op=f['op'], clause=f['clause'], flags=f.get('flags', []))


# ------------------------------------------------------------------------------------------------
# subprocess mode (C04)
# ------------------------------------------------------------------------------------------------
def main():
    import argparse
    ap = argparse.ArgumentParser()
    ap.add_argument('--inp')
    ap.add_argument('--out')
    args = ap.parse_args()
    import tenpy  # noqa
    from tenpy.tools import optimization
    import tenpy.linalg.np_conserved as npc_mod
    with open(args.inp) as f:
        behs = json.load(f)
    out = []
    for b in behs:
        findings, nsteps, records = replay_behaviour(b, canon=True, variant=b.get('variant', 0))
        out.append(dict(findings=findings, nsteps=nsteps, records=records))
    info = dict(have_cython=bool(optimization.have_cython_functions),
                helper_file=getattr(sys.modules.get('tenpy.linalg._npc_helper'), '__file__', None),
                tensordot_impl=type(npc_mod._tensordot_worker).__name__)
    with open(args.out, 'w') as f:
        json.dump(dict(info=info, results=out), f, default=str)


def _run_config(core, behs_path, out_path, pure):
    env = dict(os.environ)
    if pure:
        env['TENPY_NO_CYTHON'] = '1'
    else:
        env.pop('TENPY_NO_CYTHON', None)
    p = subprocess.run([sys.executable, '-W', 'ignore', '-m', 'harness.npc_ctor', '--inp', behs_path, '--out', out_path],
                       env=env, stdout=subprocess.PIPE, stderr=subprocess.STDOUT, text=True, cwd=core.VERIF, timeout=3000)
    if p.returncode != 0 or not os.path.exists(out_path):
        raise core.MachineryError('NpcCtor replay subprocess (pure=%s) failed:\n%s' % (pure, p.stdout[-2000:]))
    with open(out_path) as f:
        return json.load(f)


def canon_equal(ra, rb):
    for k in ('error', 'noerror', 'value', 'array'):
        if (k in ra) != (k in rb):
            return 'kind'
    if 'error' in ra:
        return None if ra['error'] == rb['error'] else 'error-class'
    if 'value' in ra:
        return None if ra['value'] == rb['value'] else 'value'
    if 'array' in ra:
        x, y = ra['array'], rb['array']
        for k in ('mods', 'names', 'shape', 'labels', 'qtotal', 'legs', 'dtype'):
            if x[k] != y[k]:
                return k
        if x['val'] != y['val']:
            return 'values'

        def nz(blocks):
            return [b for b in blocks if any(z[0] != 0 or z[1] != 0 for z in b[1])]
        if nz(x['blocks']) != nz(y['blocks']):
            return 'block-structure'
    return None


# ------------------------------------------------------------------------------------------------
# phase driver
# ------------------------------------------------------------------------------------------------
TIERS = {
    # sim_num is per TLC worker (sim_workers of them simulate while the others run the exhaustive search);
    # mc_configs: number of catalogue configurations searched exhaustively (one operation from the catalogue state)
    ('C02', 'quick'): dict(n_configs=4, mc_configs=3, mc_ops=1, sim_num=20, sim_ops=6, workers=4, timeout=600, max_size=24),
    ('C04', 'quick'): dict(n_configs=4, mc_configs=2, mc_ops=1, sim_num=20, sim_ops=6, workers=4, timeout=600, max_size=24),
    ('C02', 'thorough'): dict(n_configs=24, mc_configs=8, mc_ops=1, sim_num=70, sim_ops=8, workers=4, sim_workers=3, timeout=1500, max_size=36),
    ('C04', 'thorough'): dict(n_configs=24, mc_configs=6, mc_ops=1, sim_num=70, sim_ops=8, workers=4, sim_workers=3, timeout=1500, max_size=36),
}


def run_phase(ctx, prop, tier=None, seed_offset=0):
    from . import core
    assert prop in ('C02', 'C04')
    p = dict(TIERS[(prop, tier or ctx.tier)])
    seed = ctx.seed * 7919 + 31 + seed_offset + (0 if prop == 'C02' else 4)
    gen = generate(seed=seed, **p)
    ctx.assume('spec/NpcCtor.tla: expected results computed from spec/Dense.tla + the documented charge bookkeeping',
               'NpcCtor: entries are Gaussian integers < 2^31 (float64 / int64 represent them exactly)',
               'NpcCtor: projection by public observers (to_ndarray, get_leg_labels, qtotal, chinfo.mod/names, leg slices/charges/qconj)')
    for mode, res in gen['runs']:
        if tlc.machinery_failed(res):
            raise core.MachineryError('TLC (%s) failed on spec/NpcCtor.tla: exit %s\n%s' % (mode, res.exit, res.stdout[-2500:]))
        ctx.add_mc('NpcCtor[%s]' % mode, res)
        if res.violated:
            ctx.violation(dict(kind='mc', spec=SPEC, invariant=res.violated[0]),
                          dict(trace=tlaval.to_jsonable(res.error_trace), catalogue=gen['catalogue']))
    behs = gen['behaviours']
    if not behs:
        raise core.MachineryError('NpcCtor: TLC produced no behaviours')
    for bi, b in enumerate(behs):
        b['variant'] = (bi + ctx.seed) % 3
    ctx.notes.setdefault('NpcCtor', {})['behaviours'] = len(behs)

    def account(bi, beh):
        ctx.trace_ok(1)
        for n, st in enumerate(beh['steps']):
            if st['l']['op'] != 'skipped':
                lab = st['l']['op'] + (':' + st['l']['what'] if 'what' in st['l'] else '')
                ctx.case((SPEC, seed, beh['origin'], bi, n), action='NpcCtor.' + lab)
        if bi == 0:
            ctx.sample(dict(spec=SPEC, cfg=beh['cfg'], ops=[tlaval.to_jsonable(s['l']) for s in beh['steps']][:4]))

    if prop == 'C02':
        for bi, beh in enumerate(behs):
            findings, nsteps, _ = replay_behaviour(beh, variant=beh['variant'])
            account(bi, beh)
            for f in findings:
                ctx.violation(sig_of(f), dict(finding=f, behaviour=tlaval.to_jsonable(beh)))
        return
    # C04: two interpreter configurations
    d = tlc.scratch('ctor-c04')
    try:
        inp = os.path.join(d, 'behaviours.json')
        with open(inp, 'w') as f:
            json.dump([tlaval.to_jsonable(b) for b in behs], f)
        from concurrent.futures import ThreadPoolExecutor
        with ThreadPoolExecutor(max_workers=2) as ex:       # the two interpreter configurations run side by side
            fa_ = ex.submit(_run_config, core, inp, os.path.join(d, 'pure.json'), True)
            fb_ = ex.submit(_run_config, core, inp, os.path.join(d, 'compiled.json'), False)
            ra, rb = fa_.result(), fb_.result()
    finally:
        shutil.rmtree(d, ignore_errors=True)
    so = os.environ.get('VERIF_SO')
    if ra['info']['have_cython']:
        raise core.MachineryError('NpcCtor: configuration A did not disable the compiled kernels')
    if not rb['info']['have_cython'] or (so and rb['info']['helper_file'] != so):
        raise core.MachineryError('NpcCtor: configuration B does not run the extension rebuilt from the tree: %r' % (rb['info'],))
    ctx.notes['NpcCtor']['configurations'] = dict(A=ra['info'], B=rb['info'])
    for bi, beh in enumerate(behs):
        a, b = ra['results'][bi], rb['results'][bi]
        account(bi, beh)
        bj = tlaval.to_jsonable(beh)
        # each configuration against the spec: a divergence that both configurations show in the same way is the business
        # of C02 (and may be a known finding there); C04 reports it only when the configurations differ
        fa = {(f['step'], f['op']): f for f in a['findings']}
        fb = {(f['step'], f['op']): f for f in b['findings']}
        for key in sorted(set(fa) | set(fb)):
            x, y = fa.get(key), fb.get(key)
            if x and y and x['clause'] == y['clause']:
                continue
            if x and y and x['clause'].startswith('raised-') and y['clause'].startswith('raised-'):
                sig = dict(kind='config-diff', spec=SPEC, op=key[1], clause='error-class', flags=x.get('flags', []))
            else:
                sig = dict(kind='config-diff', spec=SPEC, op=key[1], clause='spec-divergence-in-one-config:' + (x or y)['clause'],
                           config='both' if x and y else 'pure' if x else 'compiled', flags=(x or y).get('flags', []))
            ctx.violation(sig, dict(pure=a['findings'], compiled=b['findings'], behaviour=bj))
        for xa, xb in zip(a['records'], b['records']):
            op = beh['steps'][xa['step']]['l']['op']
            if (xa['step'], op) in fa or (xa['step'], op) in fb:
                continue
            c = canon_equal(xa, xb)
            if c:
                ctx.violation(dict(kind='config-diff', spec=SPEC, op=op, clause=c, flags=context_flags({}, beh['steps'][xa['step']]['l'])),
                              dict(step=xa['step'], pure=xa, compiled=xb, behaviour=bj))
                break
        if len(a['records']) != len(b['records']):
            ctx.violation(dict(kind='config-diff', spec=SPEC, op='*', clause='length'), dict(behaviour=bj))


def replay_file(ctx, path):
    """re-execute the behaviour stored in a replay file written by run_phase (prop C02)"""
    with open(path) as f:
        rep = json.load(f)
    beh = rep['detail']['behaviour']
    findings, nsteps, _ = replay_behaviour(beh, variant=beh.get('variant', 0))
    ctx.trace_ok(1)
    ctx.case(('replay', path))
    for f in findings:
        ctx.violation(sig_of(f), dict(finding=f, behaviour=beh))
    return findings


if __name__ == '__main__':
    main()
