"""Binding of spec/Env.tla to tenpy.networks.mps.MPSEnvironment / tenpy.networks.mpo.MPOEnvironment.

`World` builds the exact instance the spec describes (tensors taken from the spec's own `Instance` value), performs
the operation named by a `last` record on the real classes and projects the real objects onto the spec's values.
numpy is only used to build the inputs and to project npc Arrays to dense integer arrays; every expected number
comes from TLC."""
import random
import warnings

import numpy as np

from . import core

FORMS = {'A': (1, 0), 'B': (0, 1), 'G': (0, 0), 'Th': (1, 1)}


def seq(v):
    """TLC prints a function with domain 1..n as a tuple, 0..n-1 as (0 :> ..): make both a dict int -> value."""
    if isinstance(v, dict):
        return dict(v)
    return {k + 1: x for k, x in enumerate(v)}


def cfg_key(c):
    return (int(c['L']), bool(c['finite']), str(c['kind']), bool(c['shared']), 0 if c['finite'] else int(c['s0']), str(c['tab']))


def cmat(m):
    """spec matrix (rows of <<re, im>>) -> complex ndarray"""
    return np.array([[complex(z[0], z[1]) for z in row] for row in m], dtype=complex)


def cval(v):
    """spec part value (one matrix per MPO index) -> ndarray [w, r, c]"""
    return np.array([cmat(m) for m in v], dtype=complex)


def gint(z):
    z = complex(z)
    return [int(round(z.real)), int(round(z.imag))]


class Mismatch(Exception):
    def __init__(self, clause, got, expected):
        Exception.__init__(self, clause)
        self.clause, self.got, self.expected = clause, got, expected


OPS = {'Id': [[1, 0], [0, 1]], 'Sp': [[0, 1], [0, 0]], 'N2': [[0, 0], [0, 2]], 'X': [[0, 1], [1, 0]]}
_STATIC = {}


def _static(cfg, inst):
    """objects that no operation modifies (legs, Site, the MPO), built once per configuration"""
    key = cfg_key(cfg)
    if key in _STATIC:
        return _STATIC[key]
    import tenpy.linalg.np_conserved as npc
    from tenpy.networks.site import Site
    from tenpy.networks.mpo import MPO
    z2 = cfg['tab'] == 'z2'
    L, finite = int(cfg['L']), bool(cfg['finite'])
    chinfo = npc.ChargeInfo([2], ['parity']) if z2 else npc.ChargeInfo()

    def leg(n):
        if not z2:
            return npc.LegCharge.from_trivial(n, chinfo)
        return npc.LegCharge.from_qflat(chinfo, [[k % 2] for k in range(n)])
    pleg = leg(2)
    for o, m in inst['ops'].items():
        if [list(r) for r in m] != OPS[o]:
            raise core.MachineryError('operator %s of the spec instance differs from the harness table' % o)
    site = Site(pleg, ['0', '1'], **{o: np.array(m, dtype=float) for o, m in OPS.items() if o != 'Id'})

    def op_array(m):
        a = np.array([list(r) for r in m], dtype=float)
        if not a.any():
            return None
        return npc.Array.from_ndarray(a, [pleg, pleg.conj()], labels=['p', 'p*'], dtype=float)
    H = None
    if cfg['kind'] == 'mpo':
        W = seq(inst['W'])
        grids = [[[op_array(o) for o in row] for row in W[i]] for i in range(L)]
        H = MPO.from_grids([site] * L, grids, bc='finite' if finite else 'infinite', IdL=0, IdR=-1, mps_unit_cell_width=L)
    _STATIC[key] = dict(leg=leg, pleg=pleg, site=site, H=H)
    return _STATIC[key]


class World:
    """The real objects for one configuration."""

    def __init__(self, cfg, inst, cache_mode, seed, scratch_dir=None):
        import tenpy.linalg.np_conserved as npc
        from tenpy.networks.mps import MPS, MPSEnvironment
        from tenpy.networks.mpo import MPOEnvironment
        self.npc = npc
        self.cfg = cfg
        self.L = L = int(cfg['L'])
        self.finite = bool(cfg['finite'])
        self.kind = str(cfg['kind'])
        self.shared = bool(cfg['shared'])
        self.z2 = cfg['tab'] == 'z2'
        self.inst = inst
        self.rng = random.Random(seed)
        self.cache_mode = cache_mode
        self.scratch_dir = scratch_dir
        self._caches = []
        st = _static(cfg, inst)
        self.leg, self.pleg, self.site, self.H = st['leg'], st['pleg'], st['site'], st['H']
        self.chi = [1 if self.finite and b in (0, L) else 2 for b in range(L + 1)]
        self.mps = {}
        for m in (['ket'] if self.shared else ['ket', 'bra']):
            S = seq(inst['S'][m])
            SVs = [np.array(S[b], dtype=float) for b in range(L + 1)]
            Bs, forms = [], []
            for i in range(L):
                f = self.rng.choice(sorted(FORMS))
                Bs.append(self.tensor(m, i, 0, f))
                forms.append(f)
            self.mps[m] = MPS([self.site] * L, Bs, SVs, bc='finite' if self.finite else 'infinite', form=forms,
                              norm=float(inst['norm'][m]), unit_cell_width=L)
        if self.shared:
            self.mps['bra'] = self.mps['ket']
        self.Env = MPSEnvironment if self.kind == 'mps' else MPOEnvironment
        s0 = 0 if self.finite else int(cfg['s0'])
        self.env = self.new_env(start_env_sites=s0)

    # ---- construction helpers -----------------------------------------------------------------
    def tensor(self, m, i, v, form):
        """site tensor of MPS m, site i, version v stored in `form`: S_L^fl . Gamma . S_R^fr (integers)"""
        G = seq(seq(seq(self.inst['G'][m])[i])[v])
        g = np.array([cmat(G[p]) for p in (1, 2)], dtype=complex)  # [p, a, b]
        S = seq(self.inst['S'][m])
        fl, fr = FORMS[form]
        sl = np.array(S[i], dtype=float) ** fl
        sr = np.array(S[i + 1], dtype=float) ** fr
        data = np.transpose(g, (1, 0, 2)) * sl[:, None, None] * sr[None, None, :]
        legs = [self.leg(self.chi[i]), self.pleg, self.leg(self.chi[i + 1]).conj()]
        return self.npc.Array.from_ndarray(data, legs, dtype=complex, qtotal=[0] if self.z2 else None, labels=['vL', 'p', 'vR'])

    def new_cache(self):
        from tenpy.tools.cache import DictCache, CacheFile
        if self.cache_mode == 'none':
            return None
        if self.cache_mode == 'trivial':
            c = DictCache.trivial()
        else:
            c = CacheFile.open('PickleStorage', tmpdir=self.scratch_dir, delete=True)
            self._caches.append(c)
        c['other'] = 'untouched'  # a foreign entry of the user: must survive everything
        return c

    def new_env(self, **kw):
        cache = self.new_cache()
        with warnings.catch_warnings():
            warnings.simplefilter('ignore')
            if self.kind == 'mps':
                return self.Env(self.mps['bra'], self.mps['ket'], cache=cache, **kw)
            return self.Env(self.mps['bra'], self.H, self.mps['ket'], cache=cache, **kw)

    def close(self):
        for c in self._caches:
            try:
                c.close()
            except Exception:
                pass
        self._caches = []

    def part_array(self, val, i, left):
        """npc Array for set_LP(i, .) / set_RP(i, .) from the spec value"""
        npc = self.npc
        env = self.env
        a = cval(val)  # [w, r, c]
        if left:
            legs = [env.bra.get_B(i, form=None).get_leg('vL'), env.ket.get_B(i, form=None).get_leg('vL').conj()]
            labels = ['vR*', 'vR']
            wleg = self.H.get_W(i).get_leg('wL').conj() if self.H is not None else None
            wlab = 'wR'
        else:
            legs = [env.ket.get_B(i, form=None).get_leg('vR').conj(), env.bra.get_B(i, form=None).get_leg('vR')]
            labels = ['vL', 'vL*']
            wleg = self.H.get_W(i).get_leg('wR').conj() if self.H is not None else None
            wlab = 'wL'
        if self.H is None:
            return npc.Array.from_ndarray(a[0], legs, dtype=complex, labels=labels)
        data = np.transpose(a, (1, 0, 2))
        return npc.Array.from_ndarray(data, [legs[0], wleg, legs[1]], dtype=complex, labels=[labels[0], wlab, labels[1]])

    # ---- projections ---------------------------------------------------------------------------
    def proj(self, arr, left):
        """npc Array of an LP (left) / RP -> ndarray [w, r, c] in the spec's index order"""
        if left:
            labels = ['vR*', 'wR', 'vR'] if self.H is not None else ['vR*', 'vR']
        else:
            labels = ['vL', 'wL', 'vL*'] if self.H is not None else ['vL', 'vL*']
        if sorted(arr.get_leg_labels()) != sorted(labels):
            raise Mismatch('labels', arr.get_leg_labels(), labels)
        a = arr.transpose(labels).to_ndarray()
        if self.H is not None:
            return np.transpose(a, (1, 0, 2))
        return a[None, :, :]

    def observe(self):
        """stored parts as the spec sees them: per slot has / age / value, and the keys of the cache"""
        env = self.env
        out = dict(LP={}, RP={})
        for s in range(self.L):
            for side, has, age, keys in (('LP', env.has_LP, env.get_LP_age, env._LP_keys), ('RP', env.has_RP, env.get_RP_age, env._RP_keys)):
                h = bool(has(s))
                val = None
                if h:
                    val = self.proj(env.cache[keys[s]], side == 'LP')
                out[side][s] = dict(has=h, age=age(s), val=val)
        out['keys'] = sorted(k for k in env.cache.keys() if k != 'other')
        out['other'] = env.cache.get('other', None) if self.cache_mode != 'none' else 'untouched'
        return out

    # ---- operations ----------------------------------------------------------------------------
    def do(self, l):
        """perform the operation of the `last` record l; returns (res, payload)"""
        op = l['op']
        env = self.env
        try:
            with warnings.catch_warnings():
                warnings.simplefilter('ignore')
                if op == 'get_LP':
                    return 'ok', self.proj(env.get_LP(l['i'], store=bool(l['store'])), True)
                if op == 'get_RP':
                    return 'ok', self.proj(env.get_RP(l['i'], store=bool(l['store'])), False)
                if op == 'set_LP':
                    env.set_LP(l['i'], self.part_array(l['val'], l['i'], True), age=l['age'])
                    return 'ok', None
                if op == 'set_RP':
                    env.set_RP(l['i'], self.part_array(l['val'], l['i'], False), age=l['age'])
                    return 'ok', None
                if op == 'del_LP':
                    env.del_LP(l['i'])
                    return 'ok', None
                if op == 'del_RP':
                    env.del_RP(l['i'])
                    return 'ok', None
                if op == 'clear':
                    env.clear()
                    return 'ok', None
                if op == 'modify':
                    psi = env.ket if l['m'] == 'ket' else env.bra
                    f = self.rng.choice(sorted(FORMS))
                    psi.set_B(l['i'], self.tensor(str(l['m']), l['i'], l['v'], f), form=f)
                    for s in sorted(l['delL']):
                        env.del_LP(s)
                    for s in sorted(l['delR']):
                        env.del_RP(s)
                    return 'ok', None
                if op == 'reinit':
                    env.init_first_LP_last_RP(start_env_sites=l['s'])
                    return 'ok', None
                if op == 'init_data':
                    d = env.get_initialization_data(first=l['first'], last=l['last'])
                    extra = sorted(set(d) - {'init_LP', 'init_RP', 'age_LP', 'age_RP'})
                    return 'ok', dict(valL=self.proj(d['init_LP'], True), valR=self.proj(d['init_RP'], False),
                                      ageL=d['age_LP'], ageR=d['age_RP'], extra=extra)
                if op == 'rebuild':
                    d = env.get_initialization_data()
                    self.env = self.new_env(**d)
                    return 'ok', None
                if op == 'full_contraction':
                    return 'ok', complex(env.full_contraction(l['i0']))
                if op == 'expectation_value':
                    r = env.expectation_value(str(l['o']), sites=[l['i']])
                    return 'ok', complex(np.asarray(r).reshape(-1)[0])
                if op == 'cache_optimize':
                    i, L = l['i'], self.L
                    nxt, prv = (min(i + 1, L - 1), max(i - 1, 0)) if self.finite else (i + 1, i - 1)
                    env.cache_optimize(short_term_LP=[i], short_term_RP=[i], preload_LP=nxt, preload_RP=prv)
                    return 'ok', None
        except ValueError as e:
            return 'ValueError', str(e)
        except (Mismatch, core.MachineryError):
            raise
        except Exception as e:  # the real operation failed in a way the spec does not know
            raise Mismatch('exception', '%s: %s' % (type(e).__name__, e), l['res'])
        raise core.MachineryError('unknown Env operation %r' % (op,))


def apply_delta(exp, o):
    for side in ('LP', 'RP'):
        for s, part in seq(o[side]).items():
            exp[side][s] = part


def compare_obs(world, exp):
    try:
        got = world.observe()
    except (Mismatch, core.MachineryError):
        raise
    except Exception as e:  # e.g. has_LP says yes but the cache has no such entry
        raise Mismatch('exception-observing', '%s: %s' % (type(e).__name__, e), 'stored parts readable')
    keys = []
    for side in ('LP', 'RP'):
        for s in range(world.L):
            e, g = exp[side][s], got[side][s]
            if bool(e['has']) != g['has']:
                raise Mismatch('stored-set', dict(side=side, slot=s, has=g['has']), dict(side=side, slot=s, has=bool(e['has'])))
            eage = e['age'] if e['has'] else None
            if g['age'] != eage:
                raise Mismatch('age', dict(side=side, slot=s, age=g['age']), dict(side=side, slot=s, age=eage))
            if e['has']:
                ev = cval(e['val'])
                if g['val'].shape != ev.shape or not np.array_equal(g['val'], ev):
                    raise Mismatch('stored-value', dict(side=side, slot=s, val=g['val'].tolist()), dict(side=side, slot=s, val=ev.tolist()))
                keys.append((world.env._LP_keys if side == 'LP' else world.env._RP_keys)[s])
    if got['keys'] != sorted(keys):
        raise Mismatch('cache-keys', got['keys'], sorted(keys))
    if got['other'] != 'untouched':
        raise Mismatch('cache-foreign-entry', got['other'], 'untouched')


def compare_result(world, l, res, payload):
    op = l['op']
    if res != l['res']:
        raise Mismatch('raises' if l['res'] == 'ok' else 'no-' + str(l['res']), (res, payload if isinstance(payload, str) else None), l['res'])
    if res != 'ok':
        return
    if op in ('get_LP', 'get_RP'):
        ev = cval(l['val'])
        if payload.shape != ev.shape or not np.array_equal(payload, ev):
            raise Mismatch('returned-value', payload.tolist(), ev.tolist())
    elif op == 'init_data':
        for k in ('valL', 'valR'):
            ev = cval(l[k])
            if payload[k].shape != ev.shape or not np.array_equal(payload[k], ev):
                raise Mismatch('returned-value', {k: payload[k].tolist()}, {k: ev.tolist()})
        if (payload['ageL'], payload['ageR']) != (l['ageL'], l['ageR']):
            raise Mismatch('returned-age', (payload['ageL'], payload['ageR']), (l['ageL'], l['ageR']))
        if payload['extra']:
            raise Mismatch('returned-keys', payload['extra'], [])
    elif op in ('full_contraction', 'expectation_value'):
        ev = complex(l['val'][0], l['val'][1])
        if payload != ev:
            raise Mismatch('returned-value', gint(payload) if payload == complex(*gint(payload)) else str(payload), list(l['val']))


def replay(hist, inst, cache_mode, seed, scratch_dir=None, on_step=None):
    """Step the behaviour `hist` through the real classes.  Returns None or (step, op, Mismatch)."""
    l0 = hist[0]['l']
    if l0['op'] != 'init':
        raise core.MachineryError('behaviour does not start with init')
    world = World(l0['cfg'], inst, cache_mode, seed, scratch_dir)
    try:
        exp = dict(LP=seq(hist[0]['o']['LP']), RP=seq(hist[0]['o']['RP']))
        try:
            compare_obs(world, exp)
        except Mismatch as m:
            return 0, 'init', m
        if on_step:
            on_step(0, l0)
        for n, st in enumerate(hist[1:], 1):
            l = st['l']
            try:
                res, payload = world.do(l)
                compare_result(world, l, res, payload)
                apply_delta(exp, st['o'])
                compare_obs(world, exp)
            except Mismatch as m:
                return n, l['op'], m
            if on_step:
                on_step(n, l)
        return None
    finally:
        world.close()
