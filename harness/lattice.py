"""Helpers for C19 (and C10): fast reader for dumps of spec/Lattice.tla, construction of the real
tenpy lattice for a case record `cfg` of that spec, projections of lattice answers to spec values."""
import json
import re

import numpy as np

from . import core

# ------------------------------------------------------------------------------------------------
# dump reader: the Lattice spec only dumps records / sequences / ints / strings / booleans, which map
# one-to-one to JSON after a few textual substitutions (much faster than the generic parser)
# ------------------------------------------------------------------------------------------------
_RE_STATE = re.compile(r'^State \d+:\s*$', re.M)
_RE_FIELD = re.compile(r'([A-Za-z_][A-Za-z0-9_]*) \|->')
_RE_VAR = re.compile(r'^/\\ ([A-Za-z_][A-Za-z0-9_]*) = ', re.M)


def _to_json_text(txt):
    if '{' in txt or '}' in txt or ':>' in txt or '@@' in txt:
        raise core.MachineryError('Lattice dump contains a set or a non-sequence function')
    txt = txt.replace('[', '{').replace(']', '}').replace('<<', '[').replace('>>', ']')
    txt = _RE_FIELD.sub(r'"\1":', txt)
    txt = re.sub(r'\bTRUE\b', 'true', txt)
    txt = re.sub(r'\bFALSE\b', 'false', txt)
    return txt


def _convert(blocks):
    out = []
    for b in blocks:
        b = _RE_VAR.sub(r',"\1": ', _to_json_text(b.strip()))
        out.append('{' + b.lstrip(',') + '}')
    try:
        return json.loads('[' + ',\n'.join(out) + ']')
    except ValueError as e:
        raise core.MachineryError('cannot read Lattice dump: %s' % e)


def iter_dump(path, chunk=4000):
    """Iterate over the states of a TLC dump of spec Lattice (dicts var -> python value); converts
    `chunk` states at a time so that large dumps need little memory."""
    blocks = []
    cur = []
    with open(path) as f:
        for line in f:
            if line.startswith('State ') and line.rstrip().endswith(':'):
                if cur:
                    blocks.append(''.join(cur))
                    cur = []
                    if len(blocks) >= chunk:
                        for st in _convert(blocks):
                            yield st
                        blocks = []
            else:
                cur.append(line)
    if cur:
        blocks.append(''.join(cur))
    if blocks:
        for st in _convert(blocks):
            yield st


def read_dump(path):
    return list(iter_dump(path))


# ------------------------------------------------------------------------------------------------
# building the real lattice for a spec case
# ------------------------------------------------------------------------------------------------
SIMPLE = ('Chain', 'Square', 'Triangular', 'Cubic')
_site = None


def the_site():
    global _site
    if _site is None:
        from tenpy.networks.site import SpinHalfSite
        _site = SpinHalfSite(conserve=None)
    return _site


def order_arg(ordd, strip_u=False):
    """spec order descriptor -> argument for Lattice(order=...) / Lattice.ordering(...);
    None for a custom permutation (the order array is assigned directly)."""
    k = ordd['kind']
    if k == 'name':
        return ordd['name']
    if k == 'standard':
        snake, prio = list(ordd['snake']), list(ordd['prio'])
        if strip_u:  # SimpleLattice constructor: only the spatial directions are given
            snake, prio = snake[:-1], prio[:-1]
        return ('standard', tuple(snake), tuple(prio))
    if k == 'grouped':
        return ('grouped', [tuple(g) for g in ordd['groups']])
    if k == 'perm':
        return None
    raise core.MachineryError('unknown order descriptor %r' % (ordd,))


def bc_arg(cfg):
    out = []
    for b, s in zip(cfg['bc'], cfg['shift']):
        out.append(int(s) if s != 0 else b)
    return out


def build_regular(cfg, with_order=True):
    from tenpy.models import lattice as tl
    s = the_site()
    base, Ls = cfg['base'], list(cfg['Ls'])
    kw = dict(bc=bc_arg(cfg), bc_MPS=cfg['bcmps'])
    if with_order:
        oa = order_arg(cfg['ord'], strip_u=base in SIMPLE)
        if oa is not None:
            kw['order'] = oa
    if base == 'Chain':
        return tl.Chain(Ls[0], s, **kw)
    if base == 'Ladder':
        return tl.Ladder(Ls[0], s, **kw)
    if base == 'NLegLadder':
        return tl.NLegLadder(Ls[0], cfg['nleg'], s, **kw)
    if base == 'Square':
        return tl.Square(Ls[0], Ls[1], s, **kw)
    if base == 'Triangular':
        return tl.Triangular(Ls[0], Ls[1], s, **kw)
    if base == 'Honeycomb':
        return tl.Honeycomb(Ls[0], Ls[1], s, **kw)
    if base == 'Kagome':
        return tl.Kagome(Ls[0], Ls[1], s, **kw)
    if base == 'General':
        return tl.Lattice(Ls, [s, s], basis=[[2., 0.], [1., 3.]], positions=[[0., 0.], [1., 1.]], **kw)
    if base == 'Cubic':
        return tl.SimpleLattice(Ls, s, **kw)
    raise core.MachineryError('unknown lattice class %r' % base)


def snapshot(lat, cfg):
    """What is observable of a lattice (and of the lattices it is built on) through its public interface;
    used to see that deriving another lattice from a copy leaves the original as it was."""
    out = dict(Ls=[int(x) for x in lat.Ls], N_sites=int(lat.N_sites), bc_MPS=lat.bc_MPS, order=np.asarray(lat.order).tolist())
    for attr in ('simple_lattice', 'regular_lattice'):
        sub = getattr(lat, attr, None)
        if sub is not None:
            out[attr + '.Ls'] = [int(x) for x in sub.Ls]
            out[attr + '.N_sites'] = int(sub.N_sites)
            out[attr + '.order'] = np.asarray(sub.order).tolist()
    if cfg['ord']['kind'] != 'perm' and cfg['cls'] != 'Grouped':
        try:
            out['ordering'] = np.asarray(lat.ordering(order_arg(cfg['ord']))).tolist()
        except Exception as e:
            out['ordering'] = repr(e)
    try:
        box = np.indices(lat.shape).reshape(len(lat.shape), -1).T
        out['lat2mps_idx'] = np.asarray(lat.lat2mps_idx(box)).tolist()
    except Exception as e:
        out['lat2mps_idx'] = repr(e)
    try:
        n = int(lat.N_sites)
        idx = np.arange(-n, 2 * n) if lat.bc_MPS != 'finite' else np.arange(n)
        out['mps2lat_idx'] = np.asarray(lat.mps2lat_idx(idx)).tolist()
    except Exception as e:
        out['mps2lat_idx'] = repr(e)
    try:
        dx = np.array([1] + [0] * (len(lat.Ls) - 1))
        i, j, li, sh = lat.possible_couplings(0, 0, dx)
        out['couplings'] = [np.asarray(i).tolist(), np.asarray(j).tolist()]
    except Exception as e:
        out['couplings'] = repr(e)
    out['mps_sites'] = len(lat.mps_sites())
    pd = getattr(lat, 'position_disorder', None)
    out['position_disorder'] = None if pd is None else np.asarray(pd).tolist()
    return out


def use_disorder(cfg):
    """the (sub)set of enlarged cases that are replayed with a position_disorder"""
    return (cfg['cls'] in ('Chain', 'Ladder', 'Square', 'Honeycomb', 'Kagome') and cfg['ord'].get('name') == 'snakeFstyle'
            and not any(cfg['shift']))


def disorder_for(lat):
    shape = tuple(lat.shape) + (lat.basis.shape[1],)
    return (1. + np.arange(int(np.prod(shape)))).reshape(shape) / 1024.


def build_lattice(cfg, order):
    """The real lattice for the spec case `cfg`; `order` (spec value) is only used as *input* for
    custom permutations (ord.kind == 'perm').  Observations made on the way (behaviour of a constructor that
    the caller has to judge) are stored in `lat._verif_flags`."""
    from tenpy.models import lattice as tl
    s = the_site()
    cls = cfg['cls']
    flags = {}
    perm = cfg['ord']['kind'] == 'perm'
    if cfg.get('parent'):
        # derived lattice: build the parent (a fresh object), derive, and watch the objects that must not change
        par = build_lattice(cfg['parent'], None)
        flags.update({k: v for k, v in getattr(par, '_verif_flags', {}).items() if k == 'multi_ignores_simple_order'})
        pcfg = cfg['parent']
        via = cfg.get('via', 'none')
        before = snapshot(par, pcfg) if (cls == 'Grouped' or via in ('copy', 'segment')) else None
        if cls == 'Grouped':
            from tenpy.networks.site import group_sites
            if cfg.get('enl', 1) > 1:
                # (a cache of the sites that survived the enlargement is reported by the index query of the
                # parent; assigning unit_cell resets it, so that the grouped lattice can be checked on its own)
                par.unit_cell = par.unit_cell
            grouped = group_sites(par.mps_sites(), cfg['grp'], charges='same')
            lat = par.with_grouped_sites(grouped)
        elif via == 'segment':
            par.mps_sites()
            lat = par.extract_segment(enlarge=cfg['enl'])
        elif via == 'copy':
            lat = par.copy()
            lat.mps_sites()  # fill the cache of the sites: it has to be invalidated by the enlargement
            if use_disorder(cfg):
                # a position_disorder (exact dyadic numbers, injective) has to be repeated with the unit cell
                dis = disorder_for(par)
                lat.position_disorder = dis
                try:
                    lat.enlarge_mps_unit_cell(cfg['enl'])
                    flags['disorder'] = dis
                except Exception as e:
                    flags['disorder_exception'] = repr(e)
                    lat = par.copy()  # go on without disorder so that the other queries are still checked
                    lat.enlarge_mps_unit_cell(cfg['enl'])
            else:
                lat.enlarge_mps_unit_cell(cfg['enl'])
        else:
            par.mps_sites()
            par.enlarge_mps_unit_cell(cfg['enl'])
            lat = par
        if before is not None:
            after = snapshot(par, pcfg)
            for k in before:
                if before[k] != after[k]:
                    flags['original_changed'] = dict(what=k, before=before[k], after=after[k])
                    break
            flags['original_order'] = after['order']
        lat._verif_flags = flags
        return lat
    if cls == 'Multi':
        if perm:
            lat = tl.MultiSpeciesLattice(build_regular(cfg, with_order=False), [s] * cfg['nsp'])
            lat.order = np.array(order, dtype=np.intp)
        else:
            # like IrregularLattice and HelicalLattice: the given lattice is taken with its order
            simple = build_regular(cfg, with_order=False)
            simple.order = simple.ordering(order_arg(cfg['ord']))
            lat = tl.MultiSpeciesLattice(simple, [s] * cfg['nsp'])
            exp = lat.ordering(order_arg(cfg['ord']))  # = the order of `simple` with the species inserted
            if not np.array_equal(np.asarray(lat.order), exp):
                flags['multi_ignores_simple_order'] = dict(got=np.asarray(lat.order).tolist(), simple_order=simple.order.tolist())
                lat.order = exp  # continue with the intended order so that the other queries are still checked
    elif cls == 'Irregular':
        reg = build_regular(cfg)
        remove = [list(x) for x in cfg['removed']] or None
        add = None
        auc = []
        if cfg['added']:
            add = ([list(a['lat']) for a in cfg['added']],
                   [None if a['where'] == 999 else a['where'] + 0.5 for a in cfg['added']])
            auc = [s]
        # (add_positions given explicitly: the default has `dim` instead of `Dim` columns, which fails for ladders)
        lat = tl.IrregularLattice(reg, remove=remove, add=add, add_unit_cell=auc,
                                  add_positions=np.zeros((len(auc), reg.basis.shape[1])))
    elif cls == 'Helical':
        lat = tl.HelicalLattice(build_regular(cfg), cfg['hcells'])
    else:
        lat = build_regular(cfg)
        if perm:
            lat.order = np.array(order, dtype=np.intp)
    lat._verif_flags = flags
    return lat


def cfg_key(cfg):
    return json.dumps(cfg, sort_keys=True)


def canon_pair(u1, u2, dx):
    """canonical direction of an undirected pair (as Canon in the spec)"""
    a = (int(u1), int(u2)) + tuple(int(x) for x in dx)
    b = (int(u2), int(u1)) + tuple(-int(x) for x in dx)
    return min(a, b)
