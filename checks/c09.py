"""C09: MPS transformations implement the documented map on states.

MC: TLC checks spec/MPSTransform.tla (EXTENDS MPSState): every transformation is a map on the abstract dense state
psi; where the implementation is multilinear the new representation is specified as well and the invariant Rep
(contraction of tensors / bond values / form labels = psi) must survive every sequence; involution of
spatial_inversion and swap, window relabelling of roll_mps_unit_cell, window invariance of enlarge_mps_unit_cell.
REPLAY: every behaviour (constructor + <= MaxConv transformations, every bc, mixed forms, non-uniform chi, bosonic
and fermionic sites, charge sectors) is stepped through the real MPS; the harness' own contraction of
psi._B/_S/form is compared with the spec's psi after every step: bit-exact in mode "raw", by the relations of the
spec (direction, normalized tensors, tracked norm) after SVD / QR routes.
"""
import time

import numpy as np

from harness import core
from harness import mps as hm
from checks.c07 import mc_and_replay

SPEC = 'MPSTransform'
INVARIANTS = ['Rep9', 'Divisible', 'Shape', 'InversionInvolution', 'InversionInvolutionPsi', 'SwapInvolution']
PROPERTIES = ['RollRelabels', 'EnlargeKeeps', 'NormKept']
ALL_OPS = {'apply_local_op', 'apply_local_op2', 'convert_form', 'extract_enlarged_segment', 'apply_product_op', 'apply_local_term', 'swap_sites', 'permute_sites', 'add', 'group_sites',
           'group_split', 'enlarge_chi', 'compress_svd', 'canonical_form', 'spatial_inversion', 'roll_mps_unit_cell',
           'enlarge_mps_unit_cell', 'extract_segment'}


SEQ_OPS = {'apply_local_op', 'apply_local_op2', 'spatial_inversion', 'roll_mps_unit_cell', 'enlarge_mps_unit_cell', 'extract_segment',
           'swap_sites', 'canonical_form'}


ACTION_OPS = {'DoConvert9': 'convert_form', 'DoExtractEnlarged': 'extract_enlarged_segment', 'DoLocalOp': 'apply_local_op', 'DoLocalOp2': 'apply_local_op2', 'DoProductOp': 'apply_product_op', 'DoLocalTerm': 'apply_local_term',
              'DoSwap': 'swap_sites', 'DoPermute': 'permute_sites', 'DoAdd': 'add', 'DoGroup': 'group_sites',
              'DoGroupSplit': 'group_split', 'DoEnlargeChi': 'enlarge_chi', 'DoCompress': 'compress_svd', 'DoCanon': 'canonical_form',
              'DoInversion': 'spatial_inversion', 'DoRoll': 'roll_mps_unit_cell', 'DoEnlarge': 'enlarge_mps_unit_cell',
              'DoExtract': 'extract_segment'}
INF_OPS = {'roll_mps_unit_cell', 'enlarge_mps_unit_cell', 'spatial_inversion', 'extract_segment', 'apply_local_op',
           'apply_product_op'}
SEQ3_OPS = {'apply_local_op', 'spatial_inversion', 'roll_mps_unit_cell', 'extract_segment', 'swap_sites'}


def cfg(seed, sample, maxl, maxconv, ops=ALL_OPS, bcs=('finite', 'segment', 'infinite')):
    return dict(spec='Spec9', constants=dict(Seed=seed, Sample=sample, MaxL=maxl, MaxConv=maxconv, BCs=set(bcs),
                                             Ctors={'new', 'product'}, Acts=set(), Ops=set(ops)),
                invariants=INVARIANTS, properties=PROPERTIES, view='AbsView')


def forms_of(psi):
    inv = {v: k for k, v in hm.FORMS.items()}
    return [inv.get(f, str(f)) for f in psi.form]


# ---- handlers ---------------------------------------------------------------------------------------
def h_local_op(rp, l, o):
    uni = {'true': True, 'auto': None, 'false': False}[l['unitary']]
    sig = dict(name=l['name'], unitary=l['unitary'], jw=l['jw'], canon=l['canon'], cons=str(rp.psi.chinfo.qnumber))
    if l['jw']:
        rp.sign_free = rp.sign_free or rp.jw_seen     # documented: a global sign may be lost once tensors carry charge
        rp.jw_seen = True
    hm.quiet(rp.psi.apply_local_op, l['i'], l['name'], unitary=uni, renormalize=l['renormalize'], understood_infinite=True)
    # (documented: the Jordan-Wigner signs are applied to the stored tensor in place before it is replaced)
    return dict(sig=sig, inplace_ok=bool(l['jw']))


def h_local_op2(rp, l, o):
    from checks.c08 import two_site_op
    psi = rp.psi
    i = l['i']
    op = two_site_op(psi.sites[i], psi.sites[i + 1], l['n1'], l['n2'])
    hm.quiet(psi.apply_local_op, i, op, unitary=None, renormalize=l['renormalize'])
    return dict(sig=dict(names='%s %s' % (l['n1'], l['n2']), canon=l['canon']))


def h_product_op(rp, l, o):
    hm.quiet(rp.psi.apply_product_op, list(l['names']), unitary=True if l['unitary'] == 'true' else None,
             renormalize=l['renormalize'])
    return dict(sig=dict(canon=l['canon']))


def h_local_term(rp, l, o):
    term = [(t[0], t[1]) for t in l['term']]
    njw = sum(1 for t in term if t[0] in ('C', 'Cd'))
    if njw:
        rp.sign_free = rp.sign_free or rp.jw_seen
        rp.jw_seen = True
    hm.quiet(rp.psi.apply_local_term, term, autoJW=True, canonicalize=l['canonicalize'], renormalize=l['renormalize'])
    return dict(inplace_ok=True, sig=dict(term=' '.join(t[0] for t in term), canonicalize=l['canonicalize'],
                         order='<' if term[0][1] < term[-1][1] else ('=' if term[0][1] == term[-1][1] else '>')))


def h_swap(rp, l, o):
    hm.quiet(rp.psi.swap_sites, l['i'])
    return dict(sig=dict(fermionic=bool(np.any(rp.psi.sites[l['i']].JW_exponent))))


def h_permute(rp, l, o):
    # the permutation as the documented ndarray, which the caller keeps using: it must not be modified
    perm = np.array(list(l['perm']), dtype=np.intp)
    keep = perm.copy()
    hm.quiet(rp.psi.permute_sites, perm)
    sig = dict(involution=all(keep[keep[k]] == k for k in range(len(keep))))
    if not np.array_equal(perm, keep):
        rp.violation('permute_sites', 'argument-modified', dict(got=perm.tolist(), expected=keep.tolist()), **sig)
        return False
    return dict(sig=sig)


def h_add(rp, l, o):
    other = hm.build_mps(hm.rep_to_rec(l['other'], l['onrm']))
    me = rp.psi
    fp_me, fp_other = hm.fingerprint(me), hm.fingerprint(other)
    rp.psi = hm.quiet(me.add, other, hm.gi(l['alpha']), hm.gi(l['beta']))
    sig = dict(cons=l['other']['cons'], gauge_shift=l['other']['qb'][0] != [0] * len(l['other']['qb'][0]))
    # a binary operation returns a new MPS; none of its operands may change (state, norm, charges, legs of the tensors)
    for name, fp, op in (('self', fp_me, me), ('other', fp_other, other)):
        ch = hm.operand_changed(fp, op)
        if ch:
            rp.violation('add', 'operand-changed', dict(operand=name, changed=ch), operand=name, **sig)
            return False
    return dict(vector_scale=1.0 if rp.psi.bc == 'finite' else None, sig=sig)


def h_group(rp, l, o):
    rem1 = rp.psi.L % l['n'] == 1
    hm.quiet(rp.psi.group_sites, l['n'])
    return dict(sig=dict(last_group_single_site=rem1))


def h_group_split(rp, l, o):
    rem1 = rp.psi.L % l['n'] == 1
    chi0 = max(rp.psi.chi)
    hm.quiet(rp.psi.group_sites, l['n'])
    more = rp.psi.L > 1 and chi0 > max(rp.psi.chi)     # the default trunc_par chi_max = max(grouped chi) truncates
    hm.quiet(rp.psi.group_split)
    return dict(sig=dict(last_group_single_site=rem1, split_needs_more_chi=more))


def h_enlarge_chi(rp, l, o):
    rng = np.random.default_rng(rp.ctx.seed + 17)
    hm.quiet(rp.psi.enlarge_chi, [int(x) for x in l['extra']], random_fct=lambda size=None: rng.normal(size=size))
    return dict(sig=dict())


def h_compress(rp, l, o):
    psi = rp.psi
    want = hm.tensor_from_spec(o['psi'])
    raw = o['mode'] == 'loose' and rp.hist[rp.step - 1]['o']['mode'] == 'raw'
    old_norm = float(psi.norm)
    err = hm.quiet(psi.compress_svd, {'chi_max': int(l['chi_max'])})
    got = hm.state_tensor(psi)
    F = float(abs(np.vdot(want.ravel(), got.ravel())) ** 2 / (np.vdot(want, want).real * np.vdot(got, got).real))
    sig = dict(chi_max=int(l['chi_max']))
    det = dict(fidelity=F, reported_eps=float(err.eps), reported_ov=float(err.ov), chi=list(psi.chi))
    if max(psi.chi) > l['chi_max']:
        rp.violation('compress_svd', 'chi_max', det, **sig)
        return False
    tol = 1e-9
    # the reported error against the actual deviation of the dense states (both directions)
    if 1.0 - F > err.eps + tol or err.eps > -np.log(max(F, 1e-300)) + tol or err.eps < -1e-12:
        rp.violation('compress_svd', 'reported-eps-vs-deviation', det, **sig)
        return False
    if F < err.ov - tol:
        rp.violation('compress_svd', 'overlap-bound', det, **sig)
        return False
    if raw:
        # the norm keeps track of the discarded weight: norm' = norm * |psi| * sqrt(F)
        exp_norm = old_norm * float(np.sqrt(l['n2'] * F))
        if abs(float(psi.norm) - exp_norm) > 1e-9 * max(1.0, exp_norm):
            rp.violation('compress_svd', 'norm', dict(det, got=float(psi.norm), expected=exp_norm), **sig)
            return False
    return dict(skip_state=True, sig=sig)


def h_canon9(rp, l, o):
    hm.quiet(rp.psi.canonical_form, renormalize=l['renormalize'])
    return dict(sig=dict(renormalize=l['renormalize']))


def h_inversion(rp, l, o):
    sig = dict(forms_all_B=set(forms_of(rp.psi)) == {'B'},
               segment_boundaries_set=getattr(rp.psi, 'segment_boundaries', (None, None))[0] is not None)
    hm.quiet(rp.psi.spatial_inversion)
    rp.sign_free = rp.sign_free or rp.jw_seen
    return dict(sig=sig)


def h_roll(rp, l, o):
    sig = dict(forms_all_B=set(forms_of(rp.psi)) == {'B'})
    hm.quiet(rp.psi.roll_mps_unit_cell, l['shift'])
    return dict(sig=sig)


def h_enlarge(rp, l, o):
    psi = rp.psi
    sig = dict(factor=l['factor'], stored_label_order_ok=all(B.get_leg_labels() == psi._B_labels for B in psi._B))
    try:
        hm.quiet(psi.enlarge_mps_unit_cell, l['factor'])
    except Exception as e:  # an exception of the code under test is an observable result
        rp.violation('enlarge_mps_unit_cell', 'exception', dict(error=repr(e)), error=type(e).__name__, **sig)
        return False
    return dict(sig=sig)


def h_extract(rp, l, o):
    rp.psi = hm.quiet(rp.psi.extract_segment, l['first'], l['last'])
    rp.bc_src = rp.bc
    return dict(sig=dict(outside=l['first'] < 0 or l['last'] >= len(o['psi']['shape']) + 10))


def h_extract_enlarged(rp, l, o):
    bg = rp.psi
    first, last = l['first'], l['last']
    seg = hm.quiet(bg.extract_segment, first, last)
    hm.quiet(seg.apply_local_op, l['i'] - first, l['name'], unitary=None, renormalize=False)
    sig = dict(extend_left=l['nf'] < first, extend_right=l['nl'] > last,
               one_sided=(l['nf'] < first) != (l['nl'] > last))
    rp.next_sig = sig
    try:
        new, nf, nl = hm.quiet(seg.extract_enlarged_segment, bg, bg, first, last, new_first_last=(l['nf'], l['nl']))
    except Exception as e:  # an exception of the code under test is an observable result
        rp.violation('extract_enlarged_segment', 'exception', dict(error=repr(e)), error=type(e).__name__, **sig)
        return False
    rp.psi = new
    rp.bc_src = rp.bc
    if (nf, nl) != (l['nf'], l['nl']):
        rp.violation('extract_enlarged_segment', 'returned-range', dict(got=[nf, nl]), **sig)
        return False
    return dict(sig=sig, inplace_ok=True)


HANDLERS = dict(hm.BASE_HANDLERS)
HANDLERS.update({
    'apply_local_op': h_local_op, 'apply_local_op2': h_local_op2, 'apply_product_op': h_product_op, 'apply_local_term': h_local_term,
    'swap_sites': h_swap, 'permute_sites': h_permute, 'add': h_add, 'group_sites': h_group, 'group_split': h_group_split,
    'enlarge_chi': h_enlarge_chi, 'compress_svd': h_compress, 'canonical_form9': h_canon9,
    'spatial_inversion': h_inversion, 'roll_mps_unit_cell': h_roll, 'enlarge_mps_unit_cell': h_enlarge,
    'extract_segment': h_extract, 'extract_enlarged_segment': h_extract_enlarged,
})


def leaf(maxconv):
    def f(st):
        return st['phase'] == 'done' or (st['phase'] == 'live' and st['nops'] >= maxconv)
    return f


def check(ctx):
    quick = ctx.tier == 'quick'
    seed = ctx.seed % 1000
    ctx.rule = ('behaviours = paths of the TLC state-cover dump: constructor + <= MaxConv transformations; a case is one '
                'replayed step; distinct = distinct (behaviour, step, operation)')
    ctx.assume('TLC model checker', 'projection harness/mps.py:dense_from_mps / state_tensor',
               'specification modules MPSTransform, MPSState, Dense, Exact',
               'float64 is exact on Gaussian dyadic rationals of this size',
               'documented caveat of apply_JW_string_left_of_virt_leg: a global sign may be lost once B tensors carry a '
               'total charge (comparison up to a global sign after the first Jordan-Wigner operator)')
    ctx.exhaustive = False   # instances are a seeded sample of the case catalogue; operations on them are enumerated exhaustively
    t0 = time.time()

    def run(name, sample, maxl, maxconv, ops=ALL_OPS, bcs=('finite', 'segment', 'infinite'), need=()):
        """run MC + replay; if the seeded sample left one of the actions in `need` uncovered, densify the sample"""
        total = 0
        for k in range(5):
            total += mc_and_replay(ctx, name if k == 0 else '%s+%d' % (name, k), cfg(seed, max(2, sample // (2 ** k)), maxl, maxconv, ops, bcs),
                                   spec=SPEC, handlers=HANDLERS, leaf=leaf(maxconv))
            missing = [a for a in need if ctx.coverage_actions.get(a, (0, 0))[0] == 0]
            if total > 0 and not missing:
                break
            ops = set(ops) if not missing else {ACTION_OPS[a] for a in missing}
        return total
    n1 = run('wide', 307 if quick else 29, 4, 1, need=[a for a in ACTION_OPS if a not in ('DoRoll', 'DoEnlarge')])
    n0 = run('infinite', 53 if quick else 7, 3, 1 if quick else 2, ops=INF_OPS, bcs=('infinite',),
             need=['DoRoll', 'DoEnlarge', 'DoInversion', 'DoExtract'])
    # unit-cell enlargement followed by a change of the canonical form (explicit or inside apply_product_op)
    n0 += run('infseq', 211 if quick else 23, 2, 2, ops={'enlarge_mps_unit_cell', 'convert_form', 'apply_product_op'},
              bcs=('infinite',), need=['DoEnlarge', 'DoConvert9'])
    n2 = run('seq2', 4001 if quick else 601, 3, 2, ops=SEQ_OPS if quick else ALL_OPS)
    n3 = 0
    if not quick:
        n3 = run('seq3', 9973, 3, 3, ops=SEQ3_OPS)
    uncovered = sorted(a for a in ACTION_OPS if ctx.coverage_actions.get(a, (0, 0))[0] == 0)
    ctx.notes['uncovered_actions'] = uncovered
    ctx.notes['behaviours'] = dict(wide=n1, infinite=n0, seq2=n2, seq3=n3)
    ctx.notes['replay_wall_s'] = round(time.time() - t0, 1)


if __name__ == '__main__':
    core.main_wrapper('C09', check)
