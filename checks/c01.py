"""C01: see DESIGN.md §6.C01. Spec: spec/Npc.tla + spec/NpcProgram.tla; replay: harness/npc_check.py."""
from harness import core, npc_check


def check(ctx):
    if ctx.replay_file:
        return npc_check.replay_file(ctx, 'C01')
    npc_check.run_property(ctx, 'C01', seed_offset=1)


if __name__ == '__main__':
    core.main_wrapper('C01', check)
