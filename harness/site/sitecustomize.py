# Put on PYTHONPATH by /verif/check: make `tenpy.linalg._npc_helper` come from the extension rebuilt from
# the current tree (path in VERIF_SO) instead of a possibly stale binary lying in the repository.
import os
import sys

_so = os.environ.get('VERIF_SO')
if _so and os.path.exists(_so):
    import importlib.abc
    import importlib.machinery
    import importlib.util

    class _VerifFinder(importlib.abc.MetaPathFinder):
        def find_spec(self, fullname, path, target=None):
            if fullname == 'tenpy.linalg._npc_helper':
                loader = importlib.machinery.ExtensionFileLoader(fullname, _so)
                return importlib.util.spec_from_file_location(fullname, _so, loader=loader)
            return None

    sys.meta_path.insert(0, _VerifFinder())
