------------------------------- MODULE Exact -------------------------------
(* Exact arithmetic used by every numeric module of the specification.
   Scalars are Gaussian integers <<re, im>> (TLC has 32-bit integers only: callers keep all
   intermediate values below 2^31).  Dyadic scaling 2^-k is carried separately by the callers that
   need it.  Vectors are sequences of scalars, matrices are sequences of rows. *)
EXTENDS Integers, Sequences, FiniteSets

G(re, im) == <<re, im>>
GZero == <<0, 0>>
GOne == <<1, 0>>
GI == <<0, 1>>
Re(z) == z[1]
Im(z) == z[2]
GAdd(a, b) == <<a[1] + b[1], a[2] + b[2]>>
GSub(a, b) == <<a[1] - b[1], a[2] - b[2]>>
GNeg(a) == <<-a[1], -a[2]>>
GMul(a, b) == <<a[1] * b[1] - a[2] * b[2], a[1] * b[2] + a[2] * b[1]>>
GConj(a) == <<a[1], -a[2]>>
GScale(n, a) == <<n * a[1], n * a[2]>>
GIsZero(a) == a[1] = 0 /\ a[2] = 0
GAbs2(a) == a[1] * a[1] + a[2] * a[2]
GInt(n) == <<n, 0>>
\* i^n
GIPow(n) == CASE n % 4 = 0 -> <<1, 0>> [] n % 4 = 1 -> <<0, 1>> [] n % 4 = 2 -> <<-1, 0>> [] OTHER -> <<0, -1>>

RECURSIVE GSumSeq(_)
GSumSeq(s) == IF s = <<>> THEN GZero ELSE GAdd(Head(s), GSumSeq(Tail(s)))

RECURSIVE ISumSeq(_)
ISumSeq(s) == IF s = <<>> THEN 0 ELSE Head(s) + ISumSeq(Tail(s))

RECURSIVE IProdSeq(_)
IProdSeq(s) == IF s = <<>> THEN 1 ELSE Head(s) * IProdSeq(Tail(s))

\* sum of f[x] over a finite set S \subseteq DOMAIN f (f a TLA+ function)
RECURSIVE GSumOver(_, _)
GSumOver(S, f) == IF S = {} THEN GZero ELSE LET x == CHOOSE x \in S : TRUE IN GAdd(f[x], GSumOver(S \ {x}, f))

RECURSIVE ISumOver(_, _)
ISumOver(S, f) == IF S = {} THEN 0 ELSE LET x == CHOOSE x \in S : TRUE IN f[x] + ISumOver(S \ {x}, f)

IMax(a, b) == IF a >= b THEN a ELSE b
IMin(a, b) == IF a <= b THEN a ELSE b
IAbs(a) == IF a >= 0 THEN a ELSE -a
\* mathematical modulus for possibly negative a (TLC's % requires a positive divisor and handles negative a correctly)
Mod(a, m) == a % m

-----------------------------------------------------------------------------
\* vectors
VAdd(u, v) == [i \in 1..Len(u) |-> GAdd(u[i], v[i])]
VScale(z, u) == [i \in 1..Len(u) |-> GMul(z, u[i])]
VConj(u) == [i \in 1..Len(u) |-> GConj(u[i])]
VDot(u, v) == GSumSeq([i \in 1..Len(u) |-> GMul(u[i], v[i])])      \* no conjugation
VInner(u, v) == VDot(VConj(u), v)                                   \* <u|v>
VNorm2(u) == Re(VInner(u, u))
VZero(n) == [i \in 1..n |-> GZero]
VIsZero(u) == \A i \in 1..Len(u) : GIsZero(u[i])

\* matrices (Seq of rows)
NRows(A) == Len(A)
NCols(A) == IF Len(A) = 0 THEN 0 ELSE Len(A[1])
MZero(m, n) == [i \in 1..m |-> [j \in 1..n |-> GZero]]
MId(n) == [i \in 1..n |-> [j \in 1..n |-> IF i = j THEN GOne ELSE GZero]]
MAdd(A, B) == [i \in 1..NRows(A) |-> [j \in 1..NCols(A) |-> GAdd(A[i][j], B[i][j])]]
MSub(A, B) == [i \in 1..NRows(A) |-> [j \in 1..NCols(A) |-> GSub(A[i][j], B[i][j])]]
MScale(z, A) == [i \in 1..NRows(A) |-> [j \in 1..NCols(A) |-> GMul(z, A[i][j])]]
MMul(A, B) == [i \in 1..NRows(A) |-> [j \in 1..NCols(B) |->
                 GSumSeq([k \in 1..NCols(A) |-> GMul(A[i][k], B[k][j])])]]
MTranspose(A) == [j \in 1..NCols(A) |-> [i \in 1..NRows(A) |-> A[i][j]]]
MConj(A) == [i \in 1..NRows(A) |-> [j \in 1..NCols(A) |-> GConj(A[i][j])]]
MDagger(A) == MConj(MTranspose(A))
MVec(A, v) == [i \in 1..NRows(A) |-> GSumSeq([k \in 1..NCols(A) |-> GMul(A[i][k], v[k])])]
MTrace(A) == GSumSeq([i \in 1..NRows(A) |-> A[i][i]])
MKron(A, B) == [i \in 1..(NRows(A) * NRows(B)) |-> [j \in 1..(NCols(A) * NCols(B)) |->
                 GMul(A[((i - 1) \div NRows(B)) + 1][((j - 1) \div NCols(B)) + 1],
                      B[((i - 1) % NRows(B)) + 1][((j - 1) % NCols(B)) + 1])]]
MIsZero(A) == \A i \in 1..NRows(A) : \A j \in 1..NCols(A) : GIsZero(A[i][j])
MIsHermitian(A) == A = MDagger(A)
RECURSIVE MPow(_, _)
MPow(A, n) == IF n = 0 THEN MId(NRows(A)) ELSE MMul(A, MPow(A, n - 1))
MCommutator(A, B) == MSub(MMul(A, B), MMul(B, A))
MAntiCommutator(A, B) == MAdd(MMul(A, B), MMul(B, A))
=============================================================================
