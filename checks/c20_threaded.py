"""C20, threaded half: ThreadedStorage + Worker under every interleaving (spec/CacheThreaded.tla).

MC      exhaustive TLC runs (safety with deadlock check; liveness under weak fairness) for several
        small constant sets; the whole state graph is dumped (`-dump dot`); every state carries
        `last` = the step that led to it, so every edge is a schedule entry.
REPLAY  paths of that graph (an edge cover, or a seeded part of it in the quick tier) and `-simulate`
        behaviours of longer programs are forced, step by step, on the REAL Worker / ThreadedStorage /
        CacheFile objects by the cooperative scheduler of harness/dst.py; after every step the whole
        projected state of the implementation is compared with the state the specification predicts.
FREE    the unmodified code with the real queue/threading modules runs TLC-generated programs
        under OS scheduling with a deadline; results are compared with the spec's (smoke test).
"""
import json
import os
import random
import re
import shutil
import tempfile
import threading
import time
from collections import deque

from harness import core, tlc, tlaval, dst

SPEC = 'CacheThreaded'
ALL_KINDS = {'set', 'getitem', 'get', 'del', 'contains', 'stk', 'preload'}
INVARIANTS = ['TypeOK', 'DictRefinement', 'LtkIsDomain', 'StcFresh', 'LoadedFresh', 'QueueRefinement',
              'FailureSurfaces', 'CloseClean']

LAB_M = dict(idle='op.begin', pt1='ev.is_set', pt2='thread.is_alive', pt3='q.put', jt1='ev.is_set',
             jt2='thread.is_alive', jt3='q.join', jt4='ev.is_set', jt5='thread.is_alive', ld1='loaded.contains',
             ld4='loaded.contains', ld6='loaded.contains', pl1='loaded.contains', sv2='loaded.contains',
             ld7='loaded.get', ld8='loaded.del', sv3='loaded.set', cl1='thread.is_alive', cl2='ev.set',
             cl3='thread.join')
LAB_W = dict(w0='ev.is_set', w1='q.get', w3='loaded.set', w4='q.task_done', wf1='q.task_done', wd3='q.task_done',
             wf2='ev.set', wd1='q.empty', wd2='q.get', wend='thread.end')


def mk_cfg(keys=('a', 'b'), caches=('root',), maxops=3, qmax=1, maxfail=1, kinds=None, after=False, fair=False,
           pre='PLmin', vals=(1, 2)):
    c = dict(Keys=set(keys), Vals=set(vals), Caches=set(caches), MaxOps=maxops, QMax=qmax, MaxFail=maxfail,
             OpKinds=set(kinds or ALL_KINDS), PreloadSeqs='<-' + pre, AfterCloseOps=after)
    inv = list(INVARIANTS)
    if maxfail == 0:
        inv.append('NoNaturalFailure')
    props = ['SubcacheIsolation'] + (['OpsTerminate', 'Termination'] if fair else [])
    return dict(spec='FairSpec' if fair else 'Spec', constants=c, invariants=inv, properties=props, check_deadlock=True)


# ------------------------------------------------------------------------------------------------
# state graph
# ------------------------------------------------------------------------------------------------
_EDGE = re.compile(r'^(-?\d+) -> (-?\d+) \[label="(\w+)"')


def _unesc(raw):
    return raw.replace('\\\\', '\x00').replace('\\n', '\n').replace('\\"', '"').replace('\x00', '\\')


_CONJ = re.compile(r'^/\\ (\w+) = ', re.M)
_FIELD = re.compile(r'(\w+) \|->')
_TR = str.maketrans({'[': '{', ']': '}', '{': '[', '}': ']'})


def fast_state(text):
    """Parse a TLC state whose values are records, sequences, sets, strings, numbers and booleans only
    (true for CacheThreaded: every function has a string domain, so TLC prints it as a record) by
    rewriting it into JSON (sets become lists); anything unexpected falls back to harness.tlaval."""
    try:
        if '(' in text or ':>' in text:
            raise ValueError('function literal')
        t = text.translate(_TR).replace('<<', '[').replace('>>', ']')
        t = _FIELD.sub(r'"\1":', t).replace('TRUE', 'true').replace('FALSE', 'false')
        t, n = _CONJ.subn(r', "\1": ', t)
        if n == 0:
            raise ValueError('no conjuncts')
        return json.loads('{' + t.lstrip()[1:] + '}')
    except Exception:
        return tlaval.parse_state(text)


class Graph:
    def __init__(self, path):
        self.raw = {}
        self.out = {}
        self.init = None
        self.nedges = 0
        with open(path) as f:
            for line in f:
                c = line[:1]
                if c != '-' and not c.isdigit():
                    continue
                m = _EDGE.match(line)
                if m:
                    a, b = int(m.group(1)), int(m.group(2))
                    lst = self.out.setdefault(a, [])
                    if a != b and b not in lst:      # (TLC may list an edge once per action disjunct)
                        lst.append(b)
                        self.nedges += 1
                    continue
                i = line.find(' [label="')
                if i < 0:
                    continue
                nid = int(line[:i])
                rest = line[i + 9:]
                j = rest.find('",tooltip="')
                if j < 0:
                    j = rest.find('",style = filled')
                    if j < 0:
                        raise core.MachineryError('cannot parse dot node line %r' % line[:120])
                    self.init = nid
                self.raw[nid] = rest[:j]
        if self.init is None:
            raise core.MachineryError('no initial state in dot dump')

    def state(self, nid):
        return fast_state(_unesc(self.raw[nid]))   # ~40 us: not cached (memory)

    def cover_paths(self, rng):
        """Yield paths (lists of node ids starting at init) that together cover every edge."""
        parent = {self.init: None}
        order = []
        dq = deque([self.init])
        while dq:
            a = dq.popleft()
            order.append(a)
            for b in self.out.get(a, ()):
                if b not in parent:
                    parent[b] = a
                    dq.append(b)
        covered = set()
        srcs = list(order)
        rng.shuffle(srcs)
        for a in srcs:
            outs = self.out.get(a, ())
            for b in outs:
                if (a, b) in covered:
                    continue
                path = [b, a]
                x = a
                while parent[x] is not None:
                    x = parent[x]
                    path.append(x)
                path.reverse()
                # extend along uncovered edges; when there is none, walk on (<= 6 covered steps) to the
                # nearest state that still has one, so that one set-up serves many new edges
                cur = b
                covered.add((a, b))
                while len(path) < 600:
                    nxt = [y for y in self.out.get(cur, ()) if (cur, y) not in covered]
                    if nxt:
                        y = nxt[rng.randrange(len(nxt))]
                        covered.add((cur, y))
                        path.append(y)
                        cur = y
                        continue
                    back = {cur: None}
                    frontier, found = [cur], None
                    for _ in range(6):
                        new = []
                        for u in frontier:
                            for y in self.out.get(u, ()):
                                if y in back:
                                    continue
                                back[y] = u
                                if any((y, z) not in covered for z in self.out.get(y, ())):
                                    found = y
                                    break
                                new.append(y)
                            if found is not None:
                                break
                        if found is not None or not new:
                            break
                        frontier = new
                    if found is None:
                        break
                    seg = []
                    x = found
                    while x != cur:
                        seg.append(x)
                        x = back[x]
                    path.extend(reversed(seg))
                    cur = found
                for u, v in zip(path, path[1:]):
                    covered.add((u, v))
                yield path


# ------------------------------------------------------------------------------------------------
# projection of a specification state
# ------------------------------------------------------------------------------------------------
def _fn(v):
    if isinstance(v, dict):
        return dict(v)
    if isinstance(v, list) and not v:
        return {}
    raise core.MachineryError('bad partial function %r' % (v,))


def spec_proj(st, caches):
    m = st['m']
    out = dict(q=[dict(op=t['op'], c=t['c'], k=t['k'], v=t['v']) for t in st['q']], unf=st['unf'], exit=st['exit'],
               alive=st['alive'])
    for c in caches:
        out['loaded.' + c] = _fn(st['loaded'][c])
        out['wait.' + c] = sorted(m['wait'][c])
        out['ltk.' + c] = sorted(m['ltk'][c])
        out['stc.' + c] = _fn(m['stc'][c])
        out['stk.' + c] = sorted(m['stk'][c])
        out['disk.' + c] = _fn(st['disk'][c]) if st['dopen'] else None
    return out


def spec_next_labels(st):
    m = st['m']
    lm = LAB_M[m['pc']]
    pw = st['pcW']
    lw = None if pw == 'wdone' else ('disk.' + st['task']['op'] if pw == 'w2' else LAB_W[pw])
    en_m = not ((m['pc'] == 'jt3' and st['unf'] != 0) or (m['pc'] == 'cl3' and st['alive']))
    return lm, lw, en_m


def op_of(st):
    o = st['m']['op']
    return dict(op=o['op'], c=o['c'], k=o['k'], v=o['v'], ks=list(o['ks']), S=sorted(o['S']), rm=o['rm'])


# ------------------------------------------------------------------------------------------------
# REPLAY of one schedule on the real code
# ------------------------------------------------------------------------------------------------
class Replayer:
    def __init__(self, ctx, name, caches, qmax, storage='MemStorage'):
        self.ctx, self.name, self.caches, self.qmax, self.storage = ctx, name, tuple(sorted(caches)), qmax, storage
        self.base = tlc.scratch('c20thr')
        self.n = 0
        self.steps = 0
        self.failed = 0
        self.rig_retries = 0

    def done(self):
        shutil.rmtree(self.base, ignore_errors=True)

    def _violation(self, clause, states, n, keys, got, exp, extra=None):
        st = states[n]
        last = st['last']
        cur = st['m']['op']['op']
        sig = dict(kind='replay', spec=SPEC, clause=clause, proc=last['p'], label=last['lab'], op=cur,
                   storage=self.storage)
        sched = [dict(p=s['last']['p'], lab=s['last']['lab'], f=s['last']['f'],
                      op=op_of(s) if s['last']['lab'] == 'op.begin' else None) for s in states[1:n + 1]]
        detail = dict(config=self.name, caches=self.caches, qmax=self.qmax, storage=self.storage, step=n, schedule=sched,
                      differing=keys, got=got, expected=exp, spec_state=tlaval.to_jsonable(st),
                      states=tlaval.to_jsonable(states[:n + 1]),
                      rerun='/verif/check C20 is the registered command; this behaviour alone: PYTHONPATH=$VERIF_REPO:/verif '
                            '/venv/bin/python -m checks.c20_threaded --replay <this file>')
        if extra:
            detail.update(extra)
        self.failed += 1
        self.ctx.violation(sig, detail)
        return False

    def replay(self, states, keys=None, corrupt=None):
        """states: list of spec states (dicts), states[0] = initial; keys[n] = case key of step n.
        corrupt: optional (step, field, value) overriding one predicted value (self-test)."""
        self.n += 1
        tmp = tempfile.mkdtemp(prefix='r-', dir=self.base) if self.storage != 'MemStorage' else None
        try:
            rig = dst.Rig(tmp, caches=self.caches, qmax=self.qmax, storage=self.storage)
        except core.MachineryError as e:
            # a thread of the rig did not come up in time (seen once on a heavily overloaded machine):
            # nothing of the behaviour has been executed yet -> build the rig once more
            if 'yield point' not in str(e):
                raise
            self.rig_retries += 1
            tmp = tempfile.mkdtemp(prefix='r-', dir=self.base) if self.storage != 'MemStorage' else None
            rig = dst.Rig(tmp, caches=self.caches, qmax=self.qmax, storage=self.storage)
        try:
            exp = spec_proj(states[0], self.caches)
            got = rig.project()
            if got != exp:
                return self._violation('initial-state', states, 0, [k for k in exp if got.get(k) != exp[k]], got, exp)
            d = _Director(self, rig, states, keys, corrupt)
            try:
                rig.S.run_directed(d, timeout=dst.GRANT_TIMEOUT)
            except dst.StepHung as e:
                return self._violation('hang', states, max(d.n, 1), [], str(e), 'step returns')
            return d.ok
        finally:
            rig.close()


class _Director:
    """Runs inside the scheduled threads (harness/dst.py, run_directed): after every step compares the
    implementation with the state the specification predicts, then names the next process."""

    def __init__(self, R, rig, states, keys, corrupt):
        self.R, self.rig, self.states, self.keys, self.corrupt = R, rig, states, keys, corrupt
        self.n = 0
        self.pending = False
        self.nres = 0
        self.ok = False

    def fail(self, *a, **kw):
        self.R._violation(*a, **kw)
        return None

    def advance(self):
        R, rig, states = self.R, self.rig, self.states
        S = rig.S
        if self.pending and not self.check():
            return None
        self.pending = False
        self.n += 1
        n = self.n
        if n >= len(states):
            self.ok = True
            return None
        st = states[n]
        last = st['last']
        p, lab = last['p'], last['lab']
        proc = S.procs.get(p)
        R.steps += 1
        R.ctx.case(self.keys[n] if self.keys else (R.name, R.n, n), action='%s:%s' % (p, lab))
        if proc is None or proc.ended or not proc.parked:
            return self.fail('process-ended', states, n, [], None, lab)
        if proc.label != lab:
            return self.fail('yield-point', states, n, ['label'], proc.label, lab)
        if not proc.is_enabled():
            return self.fail('blocked', states, n, ['enabled'], False, True)
        cmd = None
        if lab == 'op.begin':
            cmd = op_of(st)
        elif last['f']:
            cmd = 'fail'
        self.nres = len(rig.results)
        self.pending = True
        return (p, cmd)

    def check(self):
        """state after step self.n"""
        R, rig, states, n = self.R, self.rig, self.states, self.n
        S = rig.S
        st = states[n]
        last = st['last']
        got = rig.project()
        exp = spec_proj(st, R.caches)
        if self.corrupt is not None and self.corrupt[0] == n:
            exp[self.corrupt[1]] = self.corrupt[2]
        if got != exp:
            return self.fail('state', states, n, [k for k in exp if got.get(k) != exp[k]], got, exp) or False
        # result of an operation that finished in this step
        fin = len(rig.results) - self.nres
        if fin != (1 if last['fin'] else 0):
            return self.fail('op-completion', states, n, ['fin'], fin, last['fin'], dict(results=rig.results[-2:])) or False
        if last['fin']:
            r = rig.results[-1]
            e = (st['m']['res'], st['m']['val'])
            if tuple(r) != e:
                return self.fail('result', states, n, ['result'], list(r), list(e)) or False
        # where both threads are parked now, and whether they could go on
        lm, lw, en_m = spec_next_labels(st)
        pm, pw = S.procs['M'], S.procs['W']
        gm = pm.label if pm.parked else None
        gw = pw.label if pw.parked else None
        if gm != lm or gw != lw:
            return self.fail('next-yield-point', states, n, ['M' if gm != lm else 'W'], [gm, gw], [lm, lw]) or False
        if lm != 'op.begin' and pm.is_enabled() != en_m:
            return self.fail('enabledness', states, n, ['M'], pm.is_enabled(), en_m) or False
        if lw is not None and not pw.is_enabled():
            return self.fail('enabledness', states, n, ['W'], False, True) or False
        if pw.crashed is not None or pm.crashed is not None:
            return self.fail('thread-crashed', states, n, [], repr(pw.crashed or pm.crashed), None) or False
        return True


# ------------------------------------------------------------------------------------------------
# stages
# ------------------------------------------------------------------------------------------------
def job_mc(cfg, workers, dot=False, timeout=3000):
    """One exhaustive TLC run (called in a worker thread of the check: TLC is a subprocess); with
    dot=True the state graph is dumped.  Returns (TLCResult, dot path or None, scratch dir to remove)."""
    d0 = tlc.scratch(SPEC + '-mc')
    try:
        dotp = os.path.join(d0, 'g.dot')
        spec = os.path.join(tlc.SPEC_DIR, SPEC + '.tla')
        cfgp = tlc.write_cfg(os.path.join(d0, SPEC + '.cfg'), **cfg)
        res = tlc.run(spec, cfgp, workers=workers, timeout=timeout, coverage=True,
                      extra=['-dump', 'dot,actionlabels', dotp] if dot else [])
        tlc.require_clean(res, SPEC)
        tlc.name_coverage(res, spec)
        if dot and not (res.violated or res.deadlock) and not os.path.exists(dotp):
            raise core.MachineryError('TLC wrote no dot dump')
        return res, (dotp if dot and os.path.exists(dotp) else None), d0
    except BaseException:
        shutil.rmtree(d0, ignore_errors=True)
        raise


def report_mc(ctx, name, res):
    if res.violated or res.deadlock:
        what = res.violated[0] if res.violated else 'deadlock'
        ctx.violation(dict(kind='mc', spec=SPEC, invariant=what, config=name),
                      dict(trace=tlaval.to_jsonable(res.error_trace), tail=res.stdout[-3000:]))
    if res.exit not in (0,) and not (res.violated or res.deadlock):
        raise core.MachineryError('TLC exit %s on %s[%s]:\n%s' % (res.exit, SPEC, name, res.stdout[-2000:]))


def replay_graph(ctx, name, g, caches, qmax, budget_s, rng, storage='MemStorage', sample=None):
    R = Replayer(ctx, name, caches, qmax, storage)
    t0 = time.time()
    npaths = nedges = 0
    seen = set()
    complete = True
    try:
        for path in g.cover_paths(rng):
            if time.time() - t0 > budget_s:
                complete = False
                break
            states = [g.state(x) for x in path]
            keys = [None] + [(name, path[i - 1], path[i]) for i in range(1, len(path))]
            ok = R.replay(states, keys)
            npaths += 1
            if ok:
                ctx.trace_ok(1)
                seen.update(zip(path, path[1:]))
            elif R.failed >= 5:
                complete = False
                break
            if sample is not None and npaths == sample:
                ctx.sample(dict(spec=SPEC, config=name, schedule=[
                    [s['last']['p'], s['last']['lab']] + ([op_of(s)] if s['last']['lab'] == 'op.begin' else [])
                    for s in states[1:]]))
    finally:
        R.done()
    return dict(paths=npaths, steps=R.steps, edges_covered=len(seen), edges=g.nedges, states=len(g.raw),
                complete=complete and len(seen) == g.nedges, wall_s=round(time.time() - t0, 1))


_SIM_STATE = re.compile(r'^\\\* (.*?)\nSTATE_(\d+) ==\s*\n', re.M)


def simulate(cfg, num, depth, seed):
    """tlc -simulate (job thread); returns (res, list of raw trace file texts)."""
    d = tlc.scratch(SPEC + '-sim')
    try:
        cfgp = tlc.write_cfg(os.path.join(d, SPEC + '.cfg'), **cfg)
        os.makedirs(os.path.join(d, 'tr'))
        prefix = os.path.join(d, 'tr', 't')
        res = tlc.run(os.path.join(tlc.SPEC_DIR, SPEC + '.tla'), cfgp, workers=1, simulate=dict(num=num, file=prefix),
                      depth=depth, seed=seed, coverage=False)
        tlc.require_clean(res, SPEC + ' (simulate)')
        texts = []
        if not (res.violated or res.deadlock):
            for fn in sorted(os.listdir(os.path.join(d, 'tr'))):
                with open(os.path.join(d, 'tr', fn)) as f:
                    texts.append(f.read())
        return res, texts
    finally:
        shutil.rmtree(d, ignore_errors=True)


def parse_behaviours(texts):
    """-simulate trace files -> behaviours (lists of states, stuttering tail dropped)."""
    out = []
    for txt in texts:
        ms = list(_SIM_STATE.finditer(txt))
        states = []
        for j, m in enumerate(ms):
            end = ms[j + 1].start() if j + 1 < len(ms) else len(txt)
            body = txt[m.end():end].split('\n\n')[0]
            body = re.sub(r'^=+\s*$', '', body, flags=re.M).strip()
            states.append(fast_state(body))
        while len(states) > 1 and states[-1] == states[-2]:
            states.pop()
        if len(states) > 1:
            out.append(states)
    return out


def replay_sim(ctx, name, behaviours, caches, qmax, seed, storages):
    t0 = time.time()
    steps = 0
    per = {}
    Rs = {k: Replayer(ctx, name, caches, qmax, k) for k in set(storages)}
    try:
        for j, states in enumerate(behaviours):
            kind = storages[j % len(storages)]
            R = Rs[kind]
            keys = [None] + [(name, seed, j, n) for n in range(1, len(states))]
            if R.replay(states, keys):
                ctx.trace_ok(1)
                per[kind] = per.get(kind, 0) + 1
            if sum(r.failed for r in Rs.values()) >= 5:
                break
    finally:
        for R in Rs.values():
            steps += R.steps
            R.done()
    return dict(behaviours=len(behaviours), accepted_per_storage=per, steps=steps, wall_s=round(time.time() - t0, 1))


# ------------------------------------------------------------------------------------------------
# free-running smoke test: real queue / threading, OS scheduling, deadline
# ------------------------------------------------------------------------------------------------
def free_run(ctx, programs, deadline=10.0, storages=('MemStorage',)):
    """Unmodified code, real queue/threading, OS scheduling: programs: dicts(ops, expected, caches, qmax).
    A program that does not finish within `deadline` real seconds hangs -> violation."""
    import queue as real_queue
    import tenpy.tools.thread as tt
    import tenpy.tools.cache as tc
    if tt.queue is not real_queue or tt.threading is not threading:
        raise core.MachineryError('tenpy.tools.thread is still patched')
    dst.mem_storage_class(tc)
    base = tlc.scratch('c20free')
    nok = 0
    running = []
    try:
        for j, prog in enumerate(programs):
            out = {}
            kind = storages[j % len(storages)]

            def body(prog=prog, out=out, j=j, kind=kind):
                import warnings
                kw = {}
                if kind == 'PickleStorage':
                    kw = dict(directory=os.path.join(base, 'p%d' % j))
                elif kind == 'Hdf5Storage':
                    kw = dict(filename=os.path.join(base, 'p%d.h5' % j))
                with warnings.catch_warnings():
                    warnings.simplefilter('ignore')
                    root = tc.CacheFile.open(kind, use_threading=True, max_queue_size=prog['qmax'], **kw)
                caches = {'root': root}
                res = []
                try:
                    if 'sub' in prog['caches']:
                        caches['sub'] = root.create_subcache('sub')
                    for op in prog['ops']:
                        res.append(list(dst.run_op(caches, op)))
                finally:
                    if root.long_term_storage._opened:
                        try:
                            root.close()
                        except Exception as e:
                            res.append(['close-failed:' + type(e).__name__, 0])
                out['res'] = res
                out['alive'] = root.long_term_storage.worker.worker_thread.is_alive()
            th = threading.Thread(target=body, daemon=True)
            th.start()
            running.append((th, time.time(), prog, out, kind))
            if len(running) >= 24 or j == len(programs) - 1:
                # (closing costs up to the worker's real 1 s time-out: programs run concurrently)
                for th, t0, prog, out, kind in running:
                    th.join(max(0.0, t0 + deadline - time.time()))
                    ctx.case(('free', kind, repr(prog['ops'])), action='free-run')
                    if th.is_alive():
                        ctx.violation(dict(kind='free-run', spec=SPEC, clause='hang', storage=kind), dict(program=prog))
                        continue
                    exp = [list(x) for x in prog['expected']]
                    if out.get('res') != exp or out.get('alive'):
                        ctx.violation(dict(kind='free-run', spec=SPEC, storage=kind,
                                           clause='result' if out.get('res') != exp else 'thread-alive'),
                                      dict(program=prog, got=out.get('res'), expected=exp))
                        continue
                    nok += 1
                    ctx.trace_ok(1)
                running = []
    finally:
        shutil.rmtree(base, ignore_errors=True)
    return nok


def programs_from_behaviours(behaviours, caches, qmax):
    """The program (operations + the results the specification predicts) of failure-free behaviours."""
    progs = []
    for states in behaviours:
        ops, exp = [], []
        for s in states[1:]:
            l = s['last']
            if l['p'] == 'M' and l['lab'] == 'op.begin':
                ops.append(op_of(s))
            if l['fin']:
                exp.append((s['m']['res'], s['m']['val']))
        if any(s['failed'] for s in states):
            continue
        if len(exp) < len(ops):      # behaviour cut in the middle of an operation
            ops = ops[:len(exp)]
        if ops:
            progs.append(dict(ops=ops, expected=exp, caches=sorted(caches), qmax=qmax))
    return progs


def corrupt_selftest(ctx, behaviours, kw):
    """Replay one behaviour with one predicted value changed, against a throw-away context: the
    replay has to reject it (the comparison is alive)."""
    for states in behaviours:
        for n in range(len(states) - 1, 0, -1):
            if states[n]['last']['lab'] == 'q.put' and states[n]['q']:
                fake = core.Ctx(ctx.prop + '-selftest', tier=ctx.tier, seed=ctx.seed)
                fake.known = []
                fake.violation = lambda sig, detail: fake.violations.append(sig) or True
                R = Replayer(fake, 'selftest', kw['caches'], kw['qmax'])
                try:
                    ok = R.replay(states, None, corrupt=(n, 'unf', states[n]['unf'] + 1))
                finally:
                    R.done()
                if ok or not fake.violations:
                    raise core.MachineryError('self-test: corrupted prediction (unf+1 at step %d) was accepted' % n)
                return True
    return False


# ------------------------------------------------------------------------------------------------
def run(ctx):
    from concurrent.futures import ThreadPoolExecutor
    quick = ctx.tier == 'quick'
    rng = random.Random(ctx.seed * 7919 + 17)
    workers = int(os.environ.get('VERIF_TLC_WORKERS', '3' if quick else '8'))
    ctx.assume('harness/dst.py: instrumented queue/threading/dict/disk primitives emulate the real ones at the yield points',
               'thread-local code between two yield points is atomic with respect to the other thread (it touches no shared variable)')
    notes = ctx.notes.setdefault('threaded', {})
    only = getattr(ctx, 'only', None)
    t_start = time.time()

    def want(stage):
        return not only or stage in only

    K4 = {'set', 'getitem', 'preload'}
    if quick:
        # (name, constants, replay budget in seconds)
        graph_cfgs = [
            ('a-root-4', dict(keys=('a',), caches=('root',), maxops=4, qmax=1, maxfail=0, pre='PL1', kinds=K4), 12),
            ('ab-root-2', dict(keys=('a', 'b'), caches=('root',), maxops=2, qmax=2, maxfail=1), 12),
        ]
        live_cfgs = [('fair-a-3', dict(keys=('a',), vals=(1,), caches=('root',), maxops=3, qmax=1, maxfail=1, pre='PL1',
                                       kinds=K4, fair=True))]
        big_cfgs = []
    else:
        graph_cfgs = [
            ('a-root-4', dict(keys=('a',), caches=('root',), maxops=4, qmax=1, maxfail=1, pre='PL1',
                              kinds=K4 | {'del', 'stk'}), 200),
            ('ab-root-2', dict(keys=('a', 'b'), caches=('root',), maxops=2, qmax=2, maxfail=1, after=True), 120),
            ('ab-root-3', dict(keys=('a', 'b'), caches=('root',), maxops=3, qmax=1, maxfail=1), 240),
            ('a-sub-3', dict(keys=('a',), caches=('root', 'sub'), maxops=3, qmax=2, maxfail=1, pre='PL1'), 160),
        ]
        live_cfgs = [('fair-ab-3', dict(keys=('a', 'b'), caches=('root',), maxops=3, qmax=1, maxfail=1, fair=True)),
                     ('fair-sub-q2', dict(keys=('a',), caches=('root', 'sub'), maxops=3, qmax=2, maxfail=1, pre='PL1',
                                          fair=True, after=True))]
        big_cfgs = [('ab-sub-3', dict(keys=('a', 'b'), caches=('root', 'sub'), maxops=3, qmax=2, maxfail=1, after=True)),
                    ('a-root-5', dict(keys=('a',), caches=('root',), maxops=5, qmax=2, maxfail=1, pre='PL1'))]
    sim_kw = dict(keys=('a', 'b'), caches=('root', 'sub'), maxops=6 if quick else 8, qmax=2, maxfail=1, after=True, pre='PL2')
    sima_kw = dict(keys=('a',), caches=('root', 'sub'), maxops=8, qmax=2, maxfail=1, after=False, pre='PL1',
                   kinds={'set', 'getitem', 'get', 'preload', 'del', 'stk'})
    free_kw = dict(sima_kw, maxfail=0)

    # all TLC runs are subprocesses: start them in the background, consume the results in order
    pool = ThreadPoolExecutor(max_workers=5 if quick else 2)
    jobs = {}
    free_behs = {}
    try:
        if want('graph'):
            for name, kw, _ in graph_cfgs:
                jobs['graph:' + name] = pool.submit(job_mc, mk_cfg(**kw), workers, True)
        if want('sim'):
            jobs['sim'] = pool.submit(simulate, mk_cfg(**sim_kw), 100 if quick else 3000, 220, ctx.seed + 3)
            jobs['sima'] = pool.submit(simulate, mk_cfg(**sima_kw), 150 if quick else 3000, 260, ctx.seed + 5)
        if want('free') and not quick:
            jobs['free'] = pool.submit(simulate, mk_cfg(**free_kw), 400, 220, ctx.seed + 4)
        if want('live'):
            for name, kw in live_cfgs:
                jobs['live:' + name] = pool.submit(job_mc, mk_cfg(**kw), workers, False)
        if want('big'):
            for name, kw in big_cfgs:
                jobs['big:' + name] = pool.submit(job_mc, mk_cfg(**kw), workers, False)

        import tenpy.tools.cache  # noqa: F401  (1.5 - 4 s; while TLC is running)
        notes['tenpy'] = os.path.dirname(os.path.dirname(tenpy.tools.cache.__file__))

        # ---- exhaustive configurations: MC + replay of the state graph --------------------------
        if want('graph'):
            for i, (name, kw, budget) in enumerate(graph_cfgs):
                res, dotp, d0 = jobs.pop('graph:' + name).result()
                try:
                    ctx.add_mc('%s[%s]' % (SPEC, name), res)
                    report_mc(ctx, name, res)
                    if dotp is None or res.violated or res.deadlock:
                        continue
                    g = Graph(dotp)   # parsed here, not in the job thread: no competition for the GIL during replays
                finally:
                    shutil.rmtree(d0, ignore_errors=True)
                info = replay_graph(ctx, name, g, kw['caches'], kw['qmax'], budget, rng, sample=3 if i == 0 else None)
                info['mc'] = res.summary()
                notes['graph:' + name] = info
                del g

        # ---- random long behaviours (-simulate): full alphabet, sub-cache, failures, ops after close
        if want('sim'):
            storages = ['MemStorage'] * 6 + ['PickleStorage'] * 3 + ['Hdf5Storage']
            notes['t_before_sim'] = round(time.time() - t_start, 1)
            res, texts = jobs.pop('sima').result()
            notes['t_sima_ready'] = round(time.time() - t_start, 1)
            notes['sima_tlc_wall'] = round(res.wall, 1)
            behs = parse_behaviours(texts)
            report_mc(ctx, 'simulate-a', res)
            notes['simulate-a'] = replay_sim(ctx, 'sima', behs, sima_kw['caches'], sima_kw['qmax'], ctx.seed, storages)
            free_behs['sima'] = behs
            res, texts = jobs.pop('sim').result()
            behs = parse_behaviours(texts)
            report_mc(ctx, 'simulate', res)
            notes['simulate'] = replay_sim(ctx, 'sim', behs, sim_kw['caches'], sim_kw['qmax'], ctx.seed, storages)
            free_behs['sim'] = behs
            if behs:
                st = behs[min(5, len(behs) - 1)]
                ctx.sample(dict(spec=SPEC, config='simulate', steps=len(st) - 1,
                                program=[op_of(s) for s in st[1:] if s['last']['lab'] == 'op.begin']))
                # self-test of the comparison: one corrupted prediction must be rejected
                notes['corrupted_prediction_rejected'] = corrupt_selftest(ctx, behs, sim_kw)

        # ---- free-running real threads (secondary smoke test) ------------------------------------
        if want('free'):
            tf = time.time()
            if 'free' in jobs:
                res, texts = jobs.pop('free').result()
                report_mc(ctx, 'simulate-nofail', res)
                progs = programs_from_behaviours(parse_behaviours(texts), free_kw['caches'], free_kw['qmax'])
            else:   # quick: the failure-free behaviours among those just replayed
                progs = (programs_from_behaviours(free_behs.get('sima', []), sima_kw['caches'], sima_kw['qmax'])
                         + programs_from_behaviours(free_behs.get('sim', []), sim_kw['caches'], sim_kw['qmax']))[:60]
            nok = free_run(ctx, progs, deadline=10.0, storages=('MemStorage', 'PickleStorage', 'MemStorage', 'Hdf5Storage'))
            notes['free_running'] = dict(programs=len(progs), agreed=nok, wall_s=round(time.time() - tf, 1))

        # ---- liveness under weak fairness of both threads; larger safety runs ---------------------
        for key in sorted(jobs):
            res, _, d0 = jobs[key].result()
            shutil.rmtree(d0, ignore_errors=True)
            ctx.add_mc('%s[%s]' % (SPEC, key), res)
            report_mc(ctx, key, res)
            notes[key] = dict(res.summary(), liveness_checked=key.startswith('live:'))
        jobs.clear()
    finally:
        for f in jobs.values():
            f.cancel()
        pool.shutdown(wait=True)
        for f in jobs.values():     # only non-empty after an exception: remove what finished jobs left behind
            try:
                if f.done() and not f.cancelled() and isinstance(f.result(), tuple) and len(f.result()) == 3:
                    shutil.rmtree(f.result()[2], ignore_errors=True)
            except BaseException:
                pass
    notes['wall_s'] = round(time.time() - t_start, 1)
    # vacuity: every action of the specification was taken in MC and forced on the real code
    missing = [a for a, (d, t) in ctx.coverage_actions.items() if t == 0 and a not in ('Init',) and not only]
    if missing:
        raise core.MachineryError('specification actions never taken in MC: %s' % missing)
    return notes


def _main():
    """Re-run one reported behaviour:  python -m checks.c20_threaded --replay evidence/replays/C20-xxxx.json"""
    import argparse
    ap = argparse.ArgumentParser()
    ap.add_argument('--replay', required=True)
    args = ap.parse_args()
    with open(args.replay) as f:
        rec = json.load(f)
    d = rec['detail']
    ctx = core.Ctx('C20-replay', tier='quick', seed=rec.get('seed', 0))
    ctx.known = []
    R = Replayer(ctx, d['config'], d['caches'], d['qmax'], d.get('storage', 'MemStorage'))
    try:
        ok = R.replay(d['states'])
    finally:
        R.done()
    print('behaviour of %d steps: %s' % (len(d['states']) - 1, 'accepted' if ok else 'REJECTED (see VIOLATION above)'))
    return 0 if ok else 1


if __name__ == '__main__':
    import sys
    sys.exit(_main())
