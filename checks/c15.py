"""C15: truncation honours its constraints and reports its error exactly.

Stages
  MC      TLC on spec/Truncation.tla: every spectrum (multiset) of bounded length over a small value set x
          every combination of option values (incl. None), all theorems of the spec as invariants;
          a second run over all *unsorted* sequences; a small run with -coverage over every action
          (truncate, from_S, from_norm, __add__, decompose).
  REPLAY  every enumerated case (taken from TLC's state dump) is run through the real
          tenpy.linalg.truncation.truncate(): keep-count, kept multiset, no inversion, norm_new^2, err.eps,
          err.ov; sorted / permuted / reversed input, exact power-of-two scales (unnormalised input),
          inexact scales, normalised input (mode "rel"), default options by omission.
          TruncationError.from_S / from_norm / __add__ chains against exact rationals.
          svd_theta / eigh_rho / decompose_theta_qr_based on the spec's catalogue of block matrices with
          TLC-certified integer singular values: the relations named in the property are evaluated on
          the returned floats (tolerance 1e-9 * scale).
"""
import json
import math
import time
import os
import random
import re
import shutil
import warnings

import numpy as np

from harness import core, tlc, tlaval

N = ()
WORKERS = int(os.environ.get('VERIF_WORKERS', '8'))
SPEC_PATH = os.path.join(tlc.SPEC_DIR, 'Truncation.tla')
INVS = ['WellFormed', 'NoInversion', 'Honoured', 'Maximal', 'Priority', 'DroppedOnlyIfForced', 'BudgetRespected',
        'ReadingsDifferOnlyInMultiplet', 'AccRight', 'SingleErr', 'NumbersSmall', 'ThetaCertified', 'ScaleInvariant']
# rational bound <<num, den>> of the spec  ->  degeneracy_tol handed to the implementation
DEG_TOL = {(1, 1): 0.0, (101, 100): 0.01, (27, 20): 0.3, (11, 7): 0.45}
CONSTRAINTS = ['chi_max', 'chi_min', 'degeneracy_tol', 'svd_min', 'trunc_cut']
TOL = 1e-9


# ------------------------------------------------------------------------------------------------
# TLC plumbing (the options are tuples, which a cfg file cannot hold -> constants via a wrapper module)
# ------------------------------------------------------------------------------------------------
def base_consts(**kw):
    c = dict(Vals=set(), MaxLen=0, SortedOnly=True, ChiMaxOpts={N}, ChiMinOpts={N}, DegOpts={N}, SvdOpts={N},
             CutOpts={N}, Modes={'abs'}, MaxAcc=0, AlgVals=set(), ThetaIds=set(), ScaleOpts={(1, 1)},
             CutSemantics='budget')
    c.update(kw)
    return c


def run_tlc(consts, invs=INVS, dump=True, coverage=False, workers=None, timeout=3000):
    d = tlc.scratch('Truncation')
    shutil.copy(SPEC_PATH, d)
    name = 'MCTruncation'
    lines = ['---- MODULE %s ----' % name, 'EXTENDS Truncation']
    cc = {}
    for k, v in consts.items():
        lines.append('c_%s == %s' % (k, tlc.tla_lit(v)))
        cc[k] = '<-c_%s' % k
    lines.append('====')
    with open(os.path.join(d, name + '.tla'), 'w') as f:
        f.write('\n'.join(lines) + '\n')
    cfgp = tlc.write_cfg(os.path.join(d, name + '.cfg'), spec='Spec', constants=cc, invariants=invs, view='AbsView')
    dp = os.path.join(d, 'states') if dump else None
    res = tlc.run(os.path.join(d, name + '.tla'), cfgp, workers=workers or WORKERS, dump=dp, coverage=coverage,
                  timeout=timeout)
    try:
        tlc.require_clean(res, name)
    except tlc.TLCMachineryError as e:
        shutil.rmtree(d, ignore_errors=True)
        raise core.MachineryError(str(e)[-3000:])
    return res, (dp + '.dump' if dump else None), d


_KEY = re.compile(r'(\w+) \|->')


def tla_to_py(txt):
    """Fast conversion of a TLA+ value without model values / general functions (what this spec prints)."""
    t = txt.replace('{', '\x03').replace('}', '\x04').replace('[', '{').replace(']', '}')
    t = t.replace('<<', '[').replace('>>', ']').replace('\x03', '[').replace('\x04', ']')
    t = _KEY.sub(r'"\1":', t).replace('TRUE', 'true').replace('FALSE', 'false')
    try:
        return json.loads(t)
    except ValueError:
        return tlaval.parse_value(txt)


def iter_hists(dump):
    pre = '/\\ hist = '
    with open(dump) as f:
        for line in f:
            if line.startswith(pre):
                v = line[len(pre):].strip()
                if v != '<<>>':
                    yield tla_to_py(v)


def mc_stage(ctx, name, consts, coverage=False, dump=True):
    res, dump_path, d = run_tlc(consts, coverage=coverage, dump=dump)
    ctx.add_mc(name, res)
    ctx.notes.setdefault('tlc_wall_s', {})[name] = round(res.wall, 1)
    if res.violated:
        ctx.violation(dict(kind='mc', spec='Truncation', run=name, invariant=res.violated[0]),
                      dict(trace=tlaval.to_jsonable(res.error_trace), constants=repr(consts)))
    return res, dump_path, d


# ------------------------------------------------------------------------------------------------
# truncate()
# ------------------------------------------------------------------------------------------------
def _isqrt_exact(n):
    r = math.isqrt(n)
    return r if r * r == n else None


def threshold(pq):
    """sqrt(p/q) as float and whether it is exact (p, q perfect squares)"""
    p, q = pq
    rp, rq = _isqrt_exact(p), _isqrt_exact(q)
    if rp is not None and rq is not None:
        return rp / rq, True
    return math.sqrt(p / q), False


def py_options(o, scale, omit_defaults=False):
    """spec option record -> (dict for truncate(), exact?)"""
    d = {}
    exact = True
    d['chi_max'] = o['chi_max'][0] if o['chi_max'] else None
    d['chi_min'] = o['chi_min'][0] if o['chi_min'] else None
    d['degeneracy_tol'] = DEG_TOL[tuple(o['degeneracy_tol'])] if o['degeneracy_tol'] else None
    for key in ('svd_min', 'trunc_cut'):
        if o[key]:
            t, ex = threshold(o[key])
            exact = exact and ex
            d[key] = t * scale
        else:
            d[key] = None
    if omit_defaults:
        # documented defaults: chi_max=100, chi_min=None, degeneracy_tol=None, svd_min=1e-14, trunc_cut=1e-14.
        # With values that are multiples of `scale` >= 2^-10, svd_min=1e-14 discards exactly the zeros
        # (= spec svd_min^2 = 1/4) and trunc_cut=1e-14 allows exactly the zeros (= spec budget 0).
        if d['chi_max'] is None:
            del d['chi_max']
        for key in ('chi_min', 'degeneracy_tol'):
            if d[key] is None:
                del d[key]
        if o['svd_min'] == [1, 4]:
            del d['svd_min']
        if o['trunc_cut'] == [0, 4]:
            del d['trunc_cut']
    return d, exact


def omit_ok(o, n):
    """is there an option whose documented default equals the spec's value, so that the key can be left out?"""
    return o['mode'] == 'abs' and n <= 100 and (not o['chi_max'] or not o['chi_min'] or not o['degeneracy_tol']
                                                or o['svd_min'] == [1, 4] or o['trunc_cut'] == [0, 4])


def call_truncate(S, opts):
    from tenpy.linalg.truncation import truncate
    with warnings.catch_warnings(record=True) as w:
        warnings.simplefilter('always')
        with np.errstate(all='ignore'):
            mask, norm_new, err = truncate(S, dict(opts))
    warned = set()
    for x in w:
        m = re.search(r"can't satisfy constraint for (\w+)", str(x.message))
        if m:
            warned.add(m.group(1))
    return mask, norm_new, err, warned


def close(a, b, rtol=1e-12, atol=0.0):
    return abs(a - b) <= atol + rtol * max(abs(a), abs(b))


def check_truncate_case(ctx, l, variant, rng, idx):
    """One enumerated case (spectrum, options, predicted result) against the real truncate()."""
    S_int = np.array(l['S'], dtype=np.int64)
    o, res = l['opt'], l['res']
    n = len(S_int)
    mode = o['mode']
    order = variant['order']
    if order == 'perm':
        perm = np.array(rng.sample(range(n), n), dtype=np.intp)
    elif order == 'reversed':
        perm = np.arange(n - 1, -1, -1)
    else:
        perm = np.arange(n)
    S_in_int = S_int[perm]
    if mode == 'abs':
        scale = variant['scale']
        # trunc_cut >= 1 raises ValueError (documented for a normalised spectrum): keep below
        while o['trunc_cut'] and threshold(o['trunc_cut'])[0] * scale >= 1.0:
            scale = scale / 4
        S_in = S_in_int.astype(np.float64) * scale
        unit2 = scale * scale
        scale_exact = (math.frexp(scale)[0] == 0.5)
    else:
        nrm = np.linalg.norm(S_in_int.astype(np.float64))
        S_in = S_in_int.astype(np.float64) / nrm
        scale = 1.0
        unit2 = 1.0 / res['unit']
        scale_exact = False
    opts, thr_exact = py_options(o, scale, omit_defaults=variant.get('omit', False))
    exact = scale_exact and thr_exact
    if res['onthr'] and not exact:
        return None  # a comparison sits exactly on a threshold: only defined for exact floats
    key = ('truncate', l['S'], sorted(o.items()), variant['name'], perm.tolist() if order == 'perm' else order)
    ctx.case(repr(key), action='Truncation.truncate')
    try:
        mask, norm_new, err, warned = call_truncate(S_in, opts)
    except Exception as e:  # an exception of the code under test is an observable result
        return dict(clause='exception', got=repr(e), expected='a result', opts=opts, S_in=S_in.tolist())
    fails = []
    mask = np.asarray(mask)
    k_impl = int(np.sum(mask))
    kept_impl = sorted(S_in_int[mask].tolist())
    disc_impl = S_in_int[np.logical_not(mask)].tolist()
    eps_exp = res['dd'] * unit2
    nn_exp = res['nn'] * unit2
    atol = 1e-15 * (res['dd'] + res['nn']) * unit2
    if mask.dtype != np.bool_ or mask.shape != (n,):
        fails.append(('mask-type', str((mask.dtype, mask.shape)), 'bool (%d,)' % n))
    elif k_impl != res['k']:
        fails.append(('keep-count', k_impl, res['k']))
    elif kept_impl and disc_impl and min(kept_impl) < max(disc_impl):
        fails.append(('no-inversion', dict(kept=kept_impl, discarded=disc_impl), 'min(kept) >= max(discarded)'))
    elif kept_impl != sorted(res['kept']):
        fails.append(('kept-multiset', kept_impl, sorted(res['kept'])))
    elif not close(float(norm_new) ** 2, nn_exp, atol=atol):
        fails.append(('norm_new', float(norm_new) ** 2, nn_exp))
    elif not close(float(err.eps), eps_exp, atol=atol):
        fails.append(('eps', float(err.eps), eps_exp))
    elif not close(float(err.ov), 1.0 - 2.0 * eps_exp, atol=atol + 1e-15):
        fails.append(('ov', float(err.ov), 1.0 - 2.0 * eps_exp))
    elif not warned <= set(res['dropped']):
        fails.append(('warning-truthful', sorted(warned), sorted(res['dropped'])))
    if not fails:
        return None
    clause, got, exp = fails[0]
    return dict(clause=clause, got=got, expected=exp, opts=opts, S_in=S_in.tolist(), k_impl=k_impl,
                mask=mask.tolist(), norm_new=float(norm_new), eps=float(err.eps), ov=float(err.ov),
                warned=sorted(warned))


def classify(l, fail):
    """Case classes computed by the *spec* (never from random data), for matching known findings."""
    res = l['res']
    if res['kdirective'] != res['k']:
        cls = 'trunc_cut-budget-ends-inside-degenerate-multiplet'
        impl = 'discards-whole-multiplet' if fail.get('k_impl') == res['kdirective'] else 'other'
    else:
        cls, impl = 'plain', 'other'
    return cls, impl


def replay_truncate(ctx, hists, stage, variants_for):
    rng = random.Random(ctx.seed * 7919 + hash(stage) % 1000)
    n_cases = n_skipped = 0
    for idx, h in enumerate(hists):
        l = h[-1]['l']
        if l['op'] != 'truncate':
            continue
        for variant in variants_for(idx, l):
            fail = check_truncate_case(ctx, l, variant, rng, idx)
            n_cases += 1
            if fail is None:
                continue
            cls, impl = classify(l, fail)
            ctx.violation(dict(kind='replay', spec='Truncation', op='truncate', clause=fail['clause'], cls=cls, impl=impl),
                          dict(stage=stage, case=l, variant=variant, **fail))
        if idx % 9973 == 17:
            ctx.sample(dict(spec='Truncation', behaviour=[l]))
        ctx.trace_ok(1)
    return n_cases


# ------------------------------------------------------------------------------------------------
# TruncationError algebra (chains through __add__)
# ------------------------------------------------------------------------------------------------
def rat(x):
    return x[0] / x[1]


def replay_chain(ctx, hist, origin):
    from tenpy.linalg.truncation import TruncationError
    acc = TruncationError()
    pending = None
    e_acc = 0.0  # bound on the rounding error of acc.ov: products amplify the error of a factor by the other factor
    for step, st in enumerate(hist):
        l, o = st['l'], st['o']
        op = l['op']
        fail = None
        if op == 'truncate':
            if l['opt']['mode'] != 'rel' or l['res']['onthr']:
                return True  # chains are only comparable for normalised spectra (eps relative)
            S = np.array(l['S'], dtype=np.float64)
            S = S / np.linalg.norm(S)
            opts, _ = py_options(l['opt'], 1.0)
            mask, norm_new, err, _w = call_truncate(S, opts)
            pending = err
            exp_eps, exp_ov = rat(l['res']['eps']), rat(l['res']['ov'])
            if not (close(err.eps, exp_eps, atol=1e-14) and close(err.ov, exp_ov, atol=1e-14)):
                fail = ('truncate-err', (float(err.eps), float(err.ov)), (exp_eps, exp_ov))
        elif op == 'from_S':
            b = l['norm_old'][0] if l['norm_old'] else None
            pending = TruncationError.from_S(np.array(l['sd'], dtype=np.float64), None if b is None else float(b))
            exp_eps, exp_ov = rat(l['res']['eps']), rat(l['res']['ov'])
            if not (close(pending.eps, exp_eps, atol=1e-14) and close(pending.ov, exp_ov, atol=1e-14)):
                fail = ('from_S', (float(pending.eps), float(pending.ov)), (exp_eps, exp_ov))
        elif op == 'from_norm':
            pending = TruncationError.from_norm(float(l['norm_new']), float(l['norm_old']))
            exp_eps, exp_ov = rat(l['res']['eps']), rat(l['res']['ov'])
            if not (close(pending.eps, exp_eps, atol=1e-14) and close(pending.ov, exp_ov, atol=1e-14)):
                fail = ('from_norm', (float(pending.eps), float(pending.ov)), (exp_eps, exp_ov))
        elif op == 'add':
            before = (acc.eps, acc.ov, pending.eps, pending.ov)
            new = acc + pending
            if (acc.eps, acc.ov, pending.eps, pending.ov) != before:
                fail = ('add-mutates-operand', (acc.eps, acc.ov, pending.eps, pending.ov), before)
            e_p = 1e-14 * max(1.0, abs(pending.ov))
            e_acc = abs(before[1]) * e_p + abs(pending.ov) * e_acc + e_acc * e_p + 1e-15
            acc = new
            exp_eps, exp_ov = rat(o['acc']['eps']), rat(o['acc']['ov'])
            if fail is None and not (close(acc.eps, exp_eps, atol=1e-13) and close(acc.ov, exp_ov, atol=1e-13 + e_acc)
                                     and close(acc.ov_err, 1.0 - exp_ov, atol=1e-13 + e_acc)):
                fail = ('add', (float(acc.eps), float(acc.ov)), (exp_eps, exp_ov))
        elif op == 'decompose':
            return True
        else:
            raise core.MachineryError('unknown Truncation op %r' % op)
        ctx.case(('chain', origin, step, repr(l)), action='Truncation.' + op)
        if fail is not None:
            ctx.violation(dict(kind='replay', spec='Truncation', op=op, clause=fail[0]),
                          dict(step=step, hist=hist, got=fail[1], expected=fail[2]))
            return False
    return True


# ------------------------------------------------------------------------------------------------
# truncated decompositions
# ------------------------------------------------------------------------------------------------
def dense_blockdiag(blocks, key='m'):
    r = sum(len(b[key]) for b in blocks)
    c = sum(len(b[key][0]) for b in blocks)
    M = np.zeros((r, c))
    i = j = 0
    ranges = []
    for b in blocks:
        m = np.array(b[key], dtype=np.float64)
        M[i:i + m.shape[0], j:j + m.shape[1]] = m
        ranges.append((i, i + m.shape[0], j, j + m.shape[1]))
        i += m.shape[0]
        j += m.shape[1]
    return M, ranges


def phase_vectors(nr, nc, phases):
    """unit phases i^a per row / column (Gaussian integers stay exact; singular values are unchanged);
    phases = 0: none"""
    if not phases:
        return np.ones(nr), np.ones(nc)
    r = random.Random(phases)
    return (np.array([1j ** r.randrange(4) for _ in range(nr)]), np.array([1j ** r.randrange(4) for _ in range(nc)]))


def build_matrix(blocks, conserve, qtot, labels, key='m', square_conj=False, phases=0, factor=1.0):
    """npc.Array for the spec's block-diagonal matrix; sector j carries charge blocks[j].q on the row leg."""
    import tenpy.linalg.np_conserved as npc
    from tenpy.linalg.charges import ChargeInfo, LegCharge
    M, ranges = dense_blockdiag(blocks, key)
    M = M * factor  # the spec's factor of theta (squared for rho = theta theta^dagger): powers of two, exact
    if phases:
        pr, pc = phase_vectors(M.shape[0], M.shape[1], phases)
        M = (pr[:, None] * M * (pr.conj()[None, :] if square_conj else pc[None, :]))
    if not conserve:
        return npc.Array.from_ndarray_trivial(M, labels=list(labels)), M, ranges
    chinfo = ChargeInfo([1], ['N'])
    sl_r = [0] + [r[1] for r in ranges]
    sl_c = [0] + [r[3] for r in ranges]
    qs = [[b['q']] for b in blocks]
    legL = LegCharge.from_qind(chinfo, sl_r, qs, qconj=+1)
    if square_conj:
        legR = legL.conj()
    else:
        legR = LegCharge.from_qind(chinfo, sl_c, [[q[0] - qtot] for q in qs], qconj=-1)
    A = npc.Array.from_ndarray(M, [legL, legR], qtotal=[qtot] if not square_conj else None, labels=list(labels))
    return A, M, ranges


def sector_pairs_ok(Udense, ranges, values, blocks, scale_tol):
    """every kept column lives in one sector and carries a singular value of that sector (sub-multiset)"""
    avail = [sorted(b['sigma']) for b in blocks]
    for i in range(Udense.shape[1]):
        col = np.abs(Udense[:, i])
        secs = [j for j, r in enumerate(ranges) if np.any(col[r[0]:r[1]] > 1e-9)]
        if len(secs) != 1:
            return 'column %d spreads over sectors %r' % (i, secs)
        cand = [x for x in avail[secs[0]] if abs(x - values[i]) <= scale_tol]
        if not cand:
            return 'value %.12g of column %d is no singular value of sector %d (%r left)' % (values[i], i, secs[0], avail[secs[0]])
        avail[secs[0]].remove(cand[0])
    return None


def theta_factor(l):
    sc = l.get('scale', [1, 1])
    return sc[0] / sc[1]


def decomp_expect(l):
    """expected numbers for theta = c * catalogue matrix: keep-count and eps do not depend on c (the options act on the
    normalised spectrum), kept singular values scale with c, renormalization^2 = spec's exact renorm2"""
    res = l['res']
    c = theta_factor(l)
    Ntot = (res['nn'] + res['dd']) * c * c
    renorm2 = res['renorm2'][0] / res['renorm2'][1] if 'renorm2' in res else res['nn'] * c * c
    return dict(k=res['k'], kept=[x * c for x in sorted(res['kept'])], renorm2=renorm2,
                eps=res['dd'] / (res['nn'] + res['dd']), N=Ntot, smax=max(res['sigma']) * c, c=c)


def check_svd_theta(l, conserve, qtot, with_qtotal_LR, order, phases=0):
    import tenpy.linalg.np_conserved as npc
    from tenpy.linalg.truncation import svd_theta
    res = l['res']
    blocks = [res['blocks'][j] for j in order]
    theta, M, ranges = build_matrix(blocks, conserve, qtot, ('vL', 'vR'), phases=phases, factor=theta_factor(l))
    theta0 = theta.copy(deep=True)
    opts, _ = py_options(l['opt'], 1.0)
    e = decomp_expect(l)
    kw = {}
    if with_qtotal_LR and conserve:
        kw['qtotal_LR'] = [np.array([qtot]), None]
        kw['inner_labels'] = ['vR', 'vL']
    with warnings.catch_warnings():
        warnings.simplefilter('ignore')
        U, S, VH, err, renorm = svd_theta(theta, opts, **kw)
    tolv = TOL * e['smax']
    il = kw.get('inner_labels', ['vR', 'vL'])
    if len(S) != e['k'] or U.shape != (M.shape[0], e['k']) or VH.shape != (e['k'], M.shape[1]):
        return ('keep-count', dict(lenS=len(S), U=U.shape, VH=VH.shape), e['k'])
    if abs(np.linalg.norm(S) - 1.0) > TOL:
        return ('S-normalised', float(np.linalg.norm(S)), 1.0)
    if abs(renorm ** 2 - e['renorm2']) > TOL * e['N']:
        return ('renormalization', float(renorm ** 2), e['renorm2'])
    vals = np.sort(S * renorm)
    if np.max(np.abs(vals - np.array(e['kept'], dtype=float))) > tolv:
        return ('kept-multiset', vals.tolist(), e['kept'])
    if abs(err.eps - e['eps']) > TOL or abs(err.ov - (1 - 2 * e['eps'])) > TOL:
        return ('eps', (float(err.eps), float(err.ov)), (e['eps'], 1 - 2 * e['eps']))
    Ud, Vd = U.to_ndarray(), VH.to_ndarray()
    approx = npc.tensordot(U.scale_axis(S * renorm, 1), VH, axes=1).to_ndarray()
    relerr = np.linalg.norm(M - approx) ** 2 / np.linalg.norm(M) ** 2
    if abs(relerr - err.eps) > TOL:
        return ('reconstruction-error-equals-eps', float(relerr), float(err.eps))
    if np.linalg.norm(Ud.conj().T @ Ud - np.eye(e['k'])) > TOL or np.linalg.norm(Vd @ Vd.conj().T - np.eye(e['k'])) > TOL:
        return ('isometry', (float(np.linalg.norm(Ud.conj().T @ Ud - np.eye(e['k']))),
                             float(np.linalg.norm(Vd @ Vd.conj().T - np.eye(e['k'])))), 0.0)
    if tuple(U.get_leg_labels()) != ('vL', il[0]) or tuple(VH.get_leg_labels()) != (il[1], 'vR'):
        return ('labels', (U.get_leg_labels(), VH.get_leg_labels()), (('vL', il[0]), (il[1], 'vR')))
    try:
        U.test_sanity()
        VH.test_sanity()
        U.legs[0].test_equal(theta0.legs[0])
        VH.legs[1].test_equal(theta0.legs[1])
        U.legs[1].test_contractible(VH.legs[0])
    except Exception as ex:
        return ('charge-structure', repr(ex), 'sane, contractible legs')
    if conserve:
        qsum = theta0.chinfo.make_valid(U.qtotal + VH.qtotal)
        if not np.array_equal(qsum, theta0.qtotal) or ('qtotal_LR' in kw and not np.array_equal(U.qtotal, [qtot])):
            return ('qtotal', (U.qtotal.tolist(), VH.qtotal.tolist()), theta0.qtotal.tolist())
    # charge conservation confines every singular vector to one sector (without charges LAPACK may mix degenerate ones)
    msg = sector_pairs_ok(Ud, ranges, S * renorm / e['c'], blocks, tolv / e['c']) if conserve else None
    if msg:
        return ('kept-values-per-sector', msg, 'each kept column in one sector with a singular value of it')
    if np.linalg.norm(theta.to_ndarray() - M) != 0 or not np.array_equal(theta.qtotal, theta0.qtotal):
        return ('theta-unchanged', 'theta modified', 'theta unchanged')
    return None


def check_eigh_rho(l, conserve, sort, order, phases=0, UPLO='L'):
    from tenpy.linalg.truncation import eigh_rho
    res = l['res']
    blocks = [res['blocks'][j] for j in order]
    if any(len(b['m']) != len(b['sigma']) for b in blocks):
        return 'skip'  # rho would have exact zero eigenvalues: numerically undefined multiplet structure
    rho, R, ranges = build_matrix(blocks, conserve, 0, ('p', 'p*'), key='gram', square_conj=True, phases=phases,
                                  factor=theta_factor(l) ** 2)
    opts, _ = py_options(l['opt'], 1.0)
    e = decomp_expect(l)
    with warnings.catch_warnings():
        warnings.simplefilter('ignore')
        W, V, err = eigh_rho(rho, opts, UPLO=UPLO, sort=sort)
    if len(W) != e['k'] or V.shape != (R.shape[0], e['k']):
        return ('keep-count', dict(lenW=len(W), V=V.shape), e['k'])
    tolv = TOL * e['smax'] ** 2
    # documented: rho ~= V diag(W) V^dagger with the trace restored: sum(W) = tr(rho), W = kept eigenvalues * N/nn
    if abs(np.sum(W) - e['N']) > TOL * e['N']:
        return ('trace-restored', float(np.sum(W)), e['N'])
    lam = np.sort(W) * e['renorm2'] / e['N']
    if np.max(np.abs(lam - np.array([x * x for x in e['kept']], dtype=float))) > tolv:
        return ('kept-multiset', lam.tolist(), [x * x for x in e['kept']])
    if abs(err.eps - e['eps']) > TOL or abs(err.ov - (1 - 2 * e['eps'])) > TOL:
        return ('eps', (float(err.eps), float(err.ov)), (e['eps'], 1 - 2 * e['eps']))
    Vd = V.to_ndarray()
    if np.linalg.norm(Vd.conj().T @ Vd - np.eye(e['k'])) > TOL:
        return ('isometry', float(np.linalg.norm(Vd.conj().T @ Vd - np.eye(e['k']))), 0.0)
    if np.linalg.norm(R @ Vd - Vd @ np.diag(W * e['renorm2'] / e['N'])) > TOL * e['N']:
        return ('eigen-equation', float(np.linalg.norm(R @ Vd - Vd @ np.diag(W * e['renorm2'] / e['N']))), 0.0)
    # trace-norm relative error of the truncated density matrix equals the reported eps
    trunc = Vd @ np.diag(W * e['renorm2'] / e['N']) @ Vd.conj().T
    relerr = (np.trace(R - trunc) / np.trace(R)).real
    if abs(relerr - err.eps) > TOL:
        return ('reconstruction-error-equals-eps', float(relerr), float(err.eps))
    if tuple(V.get_leg_labels()) != ('p', 'eig'):
        return ('labels', V.get_leg_labels(), ('p', 'eig'))
    try:
        V.test_sanity()
        V.legs[0].test_equal(rho.legs[0])
    except Exception as ex:
        return ('charge-structure', repr(ex), 'sane legs')
    return None


def build_theta_pipes(blocks, conserve, qtot_L, qtot_R, a0, a1, mid_sizes, phases=0, factor=1.0):
    """theta with legs [(vL.p0), (p1.vR)] (p0, p1 of dimension 1 with charges a0, a1) whose matrix is the spec's
    block matrix, plus the bond leg between the (fictitious) old tensors T_L [vL,p0,vR], T_R [vL,p1,vR] with
    total charges qtot_L, qtot_R: charge rule of T_L gives q_mid = q_vL + a0 - qtot_L."""
    import tenpy.linalg.np_conserved as npc
    from tenpy.linalg.charges import ChargeInfo, LegCharge
    M, ranges = dense_blockdiag(blocks)
    M = M * factor
    if phases:
        pr, pc = phase_vectors(M.shape[0], M.shape[1], phases)
        M = pr[:, None] * M * pc[None, :]
    T4 = M.reshape(M.shape[0], 1, 1, M.shape[1])
    if not conserve:
        chinfo = ChargeInfo()
        legs = [LegCharge.from_trivial(M.shape[0], chinfo), LegCharge.from_trivial(1, chinfo),
                LegCharge.from_trivial(1, chinfo), LegCharge.from_trivial(M.shape[1], chinfo, qconj=-1)]
        theta4 = npc.Array.from_ndarray(T4, legs, labels=['vL', 'p0', 'p1', 'vR'])
        bond = LegCharge.from_trivial(int(sum(mid_sizes)), chinfo, qconj=+1)
        qL = qR = np.zeros(0, dtype=int)
    else:
        chinfo = ChargeInfo([1], ['N'])
        qtot = qtot_L + qtot_R
        sl_r = [0] + [r[1] for r in ranges]
        sl_c = [0] + [r[3] for r in ranges]
        qs = [b['q'] for b in blocks]
        vL = LegCharge.from_qind(chinfo, sl_r, [[q] for q in qs], qconj=+1)
        p0 = LegCharge.from_qind(chinfo, [0, 1], [[a0]], qconj=+1)
        p1 = LegCharge.from_qind(chinfo, [0, 1], [[a1]], qconj=+1)
        vR = LegCharge.from_qind(chinfo, sl_c, [[q + a0 + a1 - qtot] for q in qs], qconj=-1)
        theta4 = npc.Array.from_ndarray(T4, [vL, p0, p1, vR], qtotal=[qtot], labels=['vL', 'p0', 'p1', 'vR'])
        sl_m = np.concatenate([[0], np.cumsum(mid_sizes)])
        bond = LegCharge.from_qind(chinfo, sl_m, [[q + a0 - qtot_L] for q in qs], qconj=+1)  # = T_R.get_leg('vL')
        qL, qR = np.array([qtot_L]), np.array([qtot_R])
    theta = theta4.combine_legs([['vL', 'p0'], ['p1', 'vR']], qconj=[+1, -1])
    return theta, M, ranges, bond, qL, qR


def check_qr(l, conserve, move_right, regime, minblock, qtot_L, qtot_R, order, use_eig, phases=0):
    """regime 'full'   : the bond is expanded to the full leg -> the result must be the truncated SVD of theta;
              'covered': expansion rate 0.1, but the old bond has as many states per charge sector as theta has
                         non-zero rows/columns there, so the initial guess Y0 (old block size + increase per sector,
                         largest rows/columns first) contains everything -> again the truncated SVD;
              'partial': the old bond is too small: only the relations valid for every approximation."""
    from tenpy.linalg.truncation import decompose_theta_qr_based
    res = l['res']
    blocks = [res['blocks'][j] for j in order]
    mid_sizes = [len(b['sigma']) if regime != 'partial' else 1 for b in blocks]
    theta, M, ranges, bond, qL, qR = build_theta_pipes(blocks, conserve, qtot_L, qtot_R, 1, 2, mid_sizes, phases=phases,
                                                            factor=theta_factor(l))
    Mperm = theta.to_ndarray()  # rows/columns permuted by the pipes: singular values unchanged
    opts, _ = py_options(l['opt'], 1.0)
    e = decomp_expect(l)
    expand, minblock = (1.0, 8) if regime == 'full' else (0.1, minblock)
    with warnings.catch_warnings():
        warnings.simplefilter('ignore')
        T_Lc, S, T_Rc, form, err, renorm = decompose_theta_qr_based(
            old_qtotal_L=qL, old_qtotal_R=qR, old_bond_leg=bond, theta=theta, move_right=move_right, expand=expand,
            min_block_increase=minblock, use_eig_based_svd=use_eig, trunc_params=opts, compute_err=True,
            return_both_T=True)
    k = len(S)
    # --- relations that hold for every expansion rate (the property's second sentence)
    if abs(np.linalg.norm(S) - 1.0) > TOL:
        return ('S-normalised', float(np.linalg.norm(S)), 1.0)
    if tuple(T_Lc.get_leg_labels()) != ('(vL.p)', 'vR') or tuple(T_Rc.get_leg_labels()) != ('vL', '(p.vR)'):
        return ('labels', (T_Lc.get_leg_labels(), T_Rc.get_leg_labels()), (('(vL.p)', 'vR'), ('vL', '(p.vR)')))
    if T_Lc.shape != (M.shape[0], k) or T_Rc.shape != (k, M.shape[1]):
        return ('shapes', (T_Lc.shape, T_Rc.shape), (M.shape[0], k, M.shape[1]))
    A, B_ = T_Lc.to_ndarray(), T_Rc.to_ndarray()
    exp_form = ['A', 'B']
    if use_eig:
        exp_form = ['A', 'Th'] if move_right else ['Th', 'B']
    if list(form) != exp_form:
        return ('form', list(form), exp_form)
    if form == ['A', 'B']:
        approx = renorm * (A * S[np.newaxis, :]) @ B_
    else:
        approx = renorm * A @ B_
    relerr = np.linalg.norm(Mperm - approx) ** 2 / np.linalg.norm(Mperm) ** 2
    if abs(relerr - err.eps) > TOL or abs(err.ov - (1 - 2 * err.eps)) > TOL:
        return ('reconstruction-error-equals-eps', float(relerr), (float(err.eps), float(err.ov)))
    if form[0] == 'A' and np.linalg.norm(A.conj().T @ A - np.eye(k)) > TOL:
        return ('isometry-A', float(np.linalg.norm(A.conj().T @ A - np.eye(k))), 0.0)
    if form[1] == 'B' and np.linalg.norm(B_ @ B_.conj().T - np.eye(k)) > TOL:
        return ('isometry-B', float(np.linalg.norm(B_ @ B_.conj().T - np.eye(k))), 0.0)
    if form[0] == 'Th' and abs(np.linalg.norm(A) - 1) > TOL:
        return ('norm-Th', float(np.linalg.norm(A)), 1.0)
    if form[1] == 'Th' and abs(np.linalg.norm(B_) - 1) > TOL:
        return ('norm-Th', float(np.linalg.norm(B_)), 1.0)
    if l['opt']['chi_max'] and k > l['opt']['chi_max'][0]:
        return ('chi_max', k, l['opt']['chi_max'][0])
    try:
        T_Lc.test_sanity()
        T_Rc.test_sanity()
        T_Lc.legs[0].test_equal(theta.legs[0])
        T_Rc.legs[1].test_equal(theta.legs[1])
        T_Lc.legs[1].test_contractible(T_Rc.legs[0])
    except Exception as ex:
        return ('charge-structure', repr(ex), 'sane, contractible legs')
    # --- compute_err=False: error reported as NaN, only the tensor of the moving side unless asked for both
    if regime == 'partial':
        with warnings.catch_warnings():
            warnings.simplefilter('ignore')
            T_L2, S2, T_R2, form2, err2, renorm2 = decompose_theta_qr_based(
                old_qtotal_L=qL, old_qtotal_R=qR, old_bond_leg=bond, theta=theta, move_right=move_right, expand=expand,
                min_block_increase=minblock, use_eig_based_svd=use_eig, trunc_params=opts, compute_err=False,
                return_both_T=False)
        if not (np.isnan(err2.eps) and np.isnan(err2.ov)):
            return ('compute_err-False-gives-NaN', (float(err2.eps), float(err2.ov)), 'nan')
        if (T_L2 is None) != (not move_right) or (T_R2 is None) != move_right:
            return ('return_both_T-False', (T_L2 is None, T_R2 is None), (not move_right, move_right))
        if len(S2) != k or np.max(np.abs(S2 - S)) > TOL or abs(renorm2 - renorm) > TOL * e['N']:
            return ('compute_err-independent-result', (S2.tolist(), float(renorm2)), (S.tolist(), float(renorm)))
    # --- the initial guess spans everything: the result is the truncated SVD
    if regime != 'partial':
        tolv = TOL * e['smax']
        if k != e['k']:
            return ('keep-count', k, e['k'])
        if abs(renorm ** 2 - e['renorm2']) > TOL * e['N']:
            return ('renormalization', float(renorm ** 2), e['renorm2'])
        if np.max(np.abs(np.sort(S * renorm) - np.array(e['kept'], dtype=float))) > tolv * 100:
            return ('kept-multiset', np.sort(S * renorm).tolist(), e['kept'])
        if abs(err.eps - e['eps']) > TOL:
            return ('eps', float(err.eps), e['eps'])
    return None


def classify_decomp(l, fn, p, fail):
    """classes of a failing decomposition case, from spec data and the plan (not from random data)"""
    res = l['res']
    sig = {}
    got_k = None
    if fail[0] == 'keep-count':
        got_k = fail[1] if isinstance(fail[1], int) else (fail[1].get('lenS', fail[1].get('lenW')))
    use_eig = fn == 'decompose_theta_qr_based' and p['use_eig']
    if fn == 'decompose_theta_qr_based':
        sig.update(regime=p['regime'], use_eig=p['use_eig'], conserve=p['conserve'],
                   # the side whose old total charge must be gauged away in _qr_theta_Y0
                   y0_gauge_needed=bool(p['qtot_R'] if p['move_right'] else p['qtot_L']))
    sig['cls'], sig['impl'] = 'plain', 'other'
    # attribution is independent of which of the two known defects is already repaired in the tree:
    # the trunc_cut defect on the normalised spectrum (all routines; the eig-based path once it normalises),
    # the eig-based path working on the unnormalised spectrum (with or without the trunc_cut defect on top)
    if res['kdirective'] != res['k'] and got_k == res['kdirective']:
        sig['cls'], sig['impl'] = 'trunc_cut-budget-ends-inside-degenerate-multiplet', 'discards-whole-multiplet'
    elif use_eig and res['kabs'] != res['k'] and got_k in (res['kabs'], res['kabsdir']):
        sig['cls'], sig['impl'] = 'thresholds-on-unnormalised-spectrum', 'as-unnormalised'
    elif use_eig and res['kabsdir'] != res['k'] and got_k == res['kabsdir']:
        sig['cls'], sig['impl'] = 'trunc_cut-budget-ends-inside-degenerate-multiplet', 'discards-whole-multiplet'
    elif res['kdirective'] != res['k'] or (use_eig and res['kabsdir'] != res['k']):
        sig['cls'] = 'trunc_cut-budget-ends-inside-degenerate-multiplet'
    elif use_eig and res['kabs'] != res['k']:
        sig['cls'] = 'thresholds-on-unnormalised-spectrum'
    return sig


def replay_decompose(ctx, hists, quick):
    rng = random.Random(ctx.seed + 15)
    n = 0
    for idx, h in enumerate(hists):
        l = h[-1]['l']
        if l['op'] != 'decompose':
            continue
        res = l['res']
        if res['onthr']:
            continue
        nb = len(res['blocks'])
        ident = list(range(nb))
        shuffled = rng.sample(ident, nb)
        plans = []
        unit = l.get('scale', [1, 1]) == [1, 1]
        p_svd = [dict(conserve=True, qtot=0, with_qtotal_LR=False, order=ident),
                 dict(conserve=True, qtot=rng.choice([1, 2, -1]), with_qtotal_LR=rng.random() < 0.5, order=shuffled,
                      phases=rng.choice([0, 1 + idx])),
                 dict(conserve=False, qtot=0, with_qtotal_LR=False, order=ident)]
        p_eig = [dict(conserve=True, sort=rng.choice([None, 'm>', '>', '<']), order=shuffled,
                      phases=rng.choice([0, 1 + idx]), UPLO=rng.choice(['L', 'U'])),
                 dict(conserve=False, sort=None, order=ident)]
        qr_all = [dict(conserve=c, move_right=mr, regime=rg, minblock=mb, qtot_L=qq[0], qtot_R=qq[1], order=ident, use_eig=ue)
                  for c in (True, False) for mr in (True, False)
                  for rg, mb in (('full', 8), ('covered', 0), ('covered', 1), ('partial', 1))
                  for qq in (((0, 0), (1, 0), (0, 1), (2, 1)) if c else ((0, 0),)) for ue in (False, True)]
        if not quick:
            n_svd, n_eig, n_qr = 3, (2 if unit else 1), (8 if unit else 2)
        elif unit:   # theta as in the catalogue
            n_svd, n_eig, n_qr = 2 + (idx % 3 == ctx.seed % 3), 1, 2
        else:        # theta multiplied by the spec's factor (norm far from 1): a lighter plan per case
            n_svd, n_eig, n_qr = 1, idx % 2, 1 - idx % 2
        if quick and not unit:
            plans += [('svd_theta', p_svd[(idx + ctx.seed) % 3])]
        else:
            plans += [('svd_theta', p) for p in p_svd[:n_svd]]
        plans += [('eigh_rho', p) for p in p_eig[:n_eig]]
        plans += [('decompose_theta_qr_based', dict(p, phases=rng.choice([0, 1 + idx]))) for p in rng.sample(qr_all, n_qr)]
        for fn, p in plans:
            try:
                if fn == 'svd_theta':
                    fail = check_svd_theta(l, **p)
                elif fn == 'eigh_rho':
                    fail = check_eigh_rho(l, **p)
                else:
                    fail = check_qr(l, **p)
            except core.MachineryError:
                raise
            except Exception as ex:
                import traceback
                fail = ('exception', traceback.format_exc()[-1500:], 'a result')
            if fail == 'skip':
                continue
            ctx.case((fn, l['theta'], l.get('scale'), sorted(l['opt'].items()), sorted(p.items())), action='Truncation.decompose.' + fn)
            n += 1
            if fail is not None:
                sig = dict(kind='replay', spec='Truncation', op=fn, clause=fail[0])
                sig.update(classify_decomp(l, fn, p, fail))
                ctx.violation(sig, dict(case=l, plan=p, got=fail[1], expected=fail[2]))
        if idx % 97 == 5:
            ctx.sample(dict(spec='Truncation', behaviour=[dict(op='decompose', theta=l['theta'], scale=l.get('scale'), opt=l['opt'], k=res['k'],
                                                              sigma=res['sigma'], kept=res['kept'])]))
        ctx.trace_ok(1)
    return n


# ------------------------------------------------------------------------------------------------
def check_deg_table(values):
    """the rational bounds of the spec and the float tolerances handed to tenpy decide every pair alike"""
    vals = sorted(v for v in values if v > 0)
    for (num, den), tol in DEG_TOL.items():
        for u in vals:
            for v in vals:
                if v < u:
                    continue
                spec = v * den < u * num
                impl = math.log(v / u) < tol
                margin = abs(math.log(v / u) - tol)
                if spec != impl or (tol > 0 and margin < 1e-6):
                    raise core.MachineryError('degeneracy bound %r / tol %r not robust for pair (%d, %d)' % ((num, den), tol, u, v))


# option values offered to TLC.  mode "abs": thresholds in units of the (integer) spectrum, svd_min = t/2 and
# trunc_cut = T/2 as squares <<t^2, 4>> (exact in floats, so values exactly on a threshold are decided too);
# mode "rel": thresholds relative to the norm of the spectrum (svd_min^2, trunc_cut^2 = p/q).
FULL_OPTS = {
    'abs': dict(ChiMaxOpts=[(0,), (1,), (2,), (3,), (4,), (6,)], ChiMinOpts=[(1,), (2,), (3,), (4,), (6,)],
                DegOpts=[(1, 1), (101, 100), (27, 20), (11, 7)],
                SvdOpts=[(0, 4), (1, 4), (4, 4), (9, 4), (16, 4), (25, 4), (64, 4), (289, 4)],
                CutOpts=[(0, 4), (1, 4), (4, 4), (9, 4), (16, 4), (36, 4), (100, 4), (400, 4)]),
    'rel': dict(ChiMaxOpts=[(1,), (2,), (3,), (4,), (7,)], ChiMinOpts=[(2,), (3,), (5,)],
                DegOpts=[(101, 100), (27, 20), (11, 7)], SvdOpts=[(1, 50), (1, 20), (1, 4), (1, 2)],
                CutOpts=[(0, 1), (1, 100), (1, 10), (2, 5), (9, 10)]),
}


# values that bite on short spectra: every seeded choice contains at least one of them per option
CORE_OPTS = {
    'abs': dict(ChiMaxOpts=[(1,), (2,), (3,)], ChiMinOpts=[(2,), (3,)], DegOpts=[(101, 100), (27, 20), (11, 7)],
                SvdOpts=[(4, 4), (16, 4)], CutOpts=[(4, 4), (16, 4), (36, 4)]),   # values exactly on a threshold
    'rel': dict(ChiMaxOpts=[(1,), (2,), (3,)], ChiMinOpts=[(2,), (3,)], DegOpts=[(101, 100), (27, 20), (11, 7)],
                SvdOpts=[(1, 20), (1, 4)], CutOpts=[(1, 10), (2, 5)]),
}


def option_sets(mode, sizes, rng):
    """None, one seeded 'core' value and a seeded choice of further values per option (sizes[c] values in all)"""
    out = {}
    for (name, full), n in zip(FULL_OPTS[mode].items(), sizes):
        first = rng.choice(CORE_OPTS[mode][name])
        rest = [v for v in full if v != first]
        out[name] = {N, first} | set(rng.sample(rest, max(0, min(n - 2, len(rest)))))
    return out


def variants_factory(ctx, quick):
    scales = [2.0 ** -5, 2.0 ** -6, 2.0 ** -8, 2.0 ** -10]

    def variants_for(idx, l):
        o = l['opt']
        n = len(l['S'])
        sc = scales[(idx + ctx.seed) % len(scales)]
        out = [dict(name='sorted', order='sorted', scale=sc)]
        if n > 1:
            out.append(dict(name='perm', order='perm', scale=scales[(idx + ctx.seed + 1) % len(scales)]))
        if o['mode'] == 'abs':
            if (idx + ctx.seed) % 5 == 0 and n > 1:
                out.append(dict(name='reversed-inexact-scale', order='reversed', scale=0.001 * (3 + (idx + ctx.seed) % 7)))
            if (idx + ctx.seed) % 3 == 0 and omit_ok(o, n):
                out.append(dict(name='defaults-omitted', order='sorted', scale=sc, omit=True))
        return out
    return variants_for


def do_replay(ctx, path):
    """./check C15 --replay evidence/replays/C15-xxxx.json : re-run exactly the recorded case"""
    with open(path) as f:
        rec = json.load(f)
    det, sig = rec['detail'], rec['signature']
    if sig.get('op') == 'truncate' and 'variant' in det:
        l = det['case']
        fail = check_truncate_case(ctx, l, det['variant'], random.Random(0), 0)
        if det['variant'].get('order') == 'perm':
            print('note: the permutation of the recorded run is not stored; a fresh one is used')
        if fail is not None:
            cls, impl = classify(l, fail)
            ctx.violation(dict(kind='replay', spec='Truncation', op='truncate', clause=fail['clause'], cls=cls, impl=impl),
                          dict(stage='replay', case=l, variant=det['variant'], **fail))
    elif 'plan' in det:
        l, p, fn = det['case'], det['plan'], sig['op']
        try:
            fail = dict(svd_theta=check_svd_theta, eigh_rho=check_eigh_rho, decompose_theta_qr_based=check_qr)[fn](l, **p)
        except Exception:
            import traceback
            fail = ('exception', traceback.format_exc()[-1500:], 'a result')
        ctx.case((fn, 'replay'), action='Truncation.decompose.' + fn)
        if fail not in (None, 'skip'):
            s2 = dict(kind='replay', spec='Truncation', op=fn, clause=fail[0])
            s2.update(classify_decomp(l, fn, p, fail))
            ctx.violation(s2, dict(case=l, plan=p, got=fail[1], expected=fail[2]))
    elif 'hist' in det:
        replay_chain(ctx, det['hist'], 'replay')
    else:
        raise core.MachineryError('cannot replay %s (an MC counterexample: re-run the check)' % path)
    ctx.trace_ok(1)
    ctx.states = ctx.states or 1


def canary(ctx):
    """the comparison itself must reject a corrupted prediction (otherwise the replay is vacuous)"""
    l = dict(S=[1, 2, 2, 3], op='truncate',
             opt=dict(mode='abs', chi_max=[2], chi_min=[], degeneracy_tol=[], svd_min=[], trunc_cut=[]),
             res=dict(k=2, kept=[2, 3], disc=[1, 2], dropped=[], nn=13, dd=5, unit=1, eps=[5, 1], ov=[-9, 1],
                      onthr=False, kdirective=2))
    v = dict(name='sorted', order='sorted', scale=2.0 ** -6)
    probe = core.Ctx('C15-canary', tier=ctx.tier, seed=ctx.seed)
    fail = check_truncate_case(ctx, l, v, random.Random(0), 0)
    if fail is not None:  # the code under test is wrong on the reference case: an ordinary violation
        ctx.violation(dict(kind='replay', spec='Truncation', op='truncate', clause=fail['clause'], cls='plain', impl='other'),
                      dict(stage='canary-reference', case=l, variant=v, **fail))
        return
    rejected = []
    for field, val in (('k', 3), ('dd', 4), ('nn', 14), ('kept', [1, 3])):
        bad = json.loads(json.dumps(l))
        bad['res'][field] = val
        f = check_truncate_case(probe, bad, v, random.Random(0), 0)
        if f is None:
            raise core.MachineryError('canary: corrupted prediction %s=%r was accepted' % (field, val))
        rejected.append((field, f['clause']))
    ctx.notes['canary_rejected'] = rejected


def directive_reading(ctx):
    """MC of the *implementation's* reading of trunc_cut ("discard everything that fits", CutSemantics = directive):
    TLC must find that it breaks the clause 'discarded weight at most trunc_cut squared' (invariant BudgetRespected);
    the counterexample is then run through the real truncate()."""
    consts = base_consts(Vals={1, 2}, MaxLen=3, Modes={'abs'}, DegOpts={N, (101, 100)}, CutOpts={N, (4, 4)},
                         CutSemantics='directive')
    res, _dump, d = run_tlc(consts, invs=['WellFormed', 'NoInversion', 'Honoured', 'Maximal', 'Priority',
                                          'DroppedOnlyIfForced', 'BudgetRespected'], dump=False)
    shutil.rmtree(d, ignore_errors=True)
    ctx.add_mc('directive-reading', res)
    if res.violated != ['BudgetRespected'] or not res.error_trace:
        raise core.MachineryError('directive reading: expected exactly BudgetRespected to be violated, got %r' % (res.violated,))
    l = res.error_trace[-1][1]['last']
    l = json.loads(json.dumps(tlaval.to_jsonable(l)))
    S = np.array(l['S'], dtype=np.float64) * 2.0 ** -6
    opts, _ = py_options(l['opt'], 2.0 ** -6)
    mask, norm_new, err, warned = call_truncate(S, opts)
    ctx.case(('directive-counterexample', l['S'], sorted(l['opt'].items())), action='Truncation.truncate')
    follows = int(np.sum(mask)) == l['res']['k']
    over = float(err.eps) > opts['trunc_cut'] ** 2
    ctx.notes['directive_reading'] = dict(counterexample=dict(S=l['S'], opt=l['opt'], k=l['res']['k']),
                                          implementation_follows_directive_reading=follows,
                                          discarded_weight=float(err.eps), trunc_cut_squared=opts['trunc_cut'] ** 2,
                                          exceeds_budget=over)
    # no violation is reported here: the enumerated replay (budget semantics) reports the same cases


def check(ctx):
    quick = ctx.tier == 'quick'
    ctx.rule = ('cases = every state of the exhaustive TLC run in which an operation of the implementation happened '
                '(truncate / from_S / from_norm / __add__ / decompose with arguments and predicted result), read from the '
                'state dump; an evaluation is one call of the real function compared with the prediction; distinct = '
                'distinct (spectrum, options, input variant) resp. (matrix, options, call plan)')
    ctx.assume('TLC model checker', 'spec/Truncation.tla (declarative truncate semantics from the docstring)',
               'rational bounds for exp(degeneracy_tol) agree with float log on all ratios used (checked at start)',
               'projection: mask applied to the integer spectrum, to_ndarray of returned tensors',
               'numeric relations evaluated with tolerance 1e-9*scale; thresholds exactly on a value only compared for exact floats')
    if ctx.replay_file:
        return do_replay(ctx, ctx.replay_file)
    check_deg_table(range(0, 33))
    only = ctx.only
    canary(ctx)
    if not only or 'directive' in only:
        directive_reading(ctx)

    # ---- MC A: all spectra x option lattice -> truncate()
    rng = random.Random(ctx.seed * 31 + 7)
    variants_for = variants_factory(ctx, quick)
    stages = []
    if quick:
        stages.append(('enum-abs', base_consts(Vals={0, 1, 2, 3}, MaxLen=4, Modes={'abs'},
                                               **option_sets('abs', (4, 3, 3, 3, 4), rng))))
        stages.append(('enum-rel', base_consts(Vals={1, 2, 3, 4}, MaxLen=4, Modes={'rel'},
                                               **option_sets('rel', (3, 2, 3, 3, 4), rng))))
        stages.append(('enum-unsorted', base_consts(Vals={0, 1, 2}, MaxLen=4, SortedOnly=False, Modes={'abs'},
                                                    **option_sets('abs', (3, 2, 3, 2, 3), rng))))
    else:
        stages.append(('enum-abs', base_consts(Vals={0, 1, 2, 3, 4, 6, 8}, MaxLen=5, Modes={'abs'},
                                               **option_sets('abs', (4, 3, 4, 4, 4), rng))))
        stages.append(('enum-rel', base_consts(Vals={0, 1, 2, 3, 4, 6}, MaxLen=5, Modes={'rel'},
                                               **option_sets('rel', (4, 3, 4, 3, 4), rng))))
        stages.append(('enum-unsorted', base_consts(Vals={0, 1, 2, 3}, MaxLen=5, SortedOnly=False, Modes={'abs'},
                                                    **option_sets('abs', (3, 3, 3, 3, 3), rng))))
    for name, consts in stages:
        if only and name not in only:
            continue
        res, dump, d = mc_stage(ctx, name, consts)
        t0 = time.time()
        try:
            n = replay_truncate(ctx, iter_hists(dump), name, variants_for)
        finally:
            shutil.rmtree(d, ignore_errors=True)
        ctx.notes.setdefault('replayed_calls', {})[name] = n
        ctx.notes.setdefault('replay_wall_s', {})[name] = round(time.time() - t0, 1)
        ctx.notes.setdefault('options', {})[name] = {k: sorted(map(list, v)) for k, v in consts.items() if k.endswith('Opts')}

    # ---- MC B: every action, with coverage; chains through TruncationError.__add__
    if not only or 'algebra' in only:
        if quick:
            consts = base_consts(Vals={0, 1, 2}, MaxLen=2, SortedOnly=False, Modes={'rel'}, ChiMaxOpts={N, (1,)},
                                 CutOpts={N, (1, 5)}, MaxAcc=2, AlgVals={0, 1, 2, 3}, ThetaIds={1, 3})
        else:
            consts = base_consts(Vals={0, 1, 2}, MaxLen=2, SortedOnly=False, Modes={'rel'}, ChiMaxOpts={N, (1,)},
                                 DegOpts={N, (101, 100)}, CutOpts={N, (1, 5)}, MaxAcc=3,
                                 AlgVals={0, 1, 2, 3}, ThetaIds={1, 3})
        res, dump, d = mc_stage(ctx, 'algebra+coverage', consts, coverage=True)
        try:
            missing = [a for a in ('Extend', 'Truncate', 'FromS', 'FromNorm', 'Accumulate', 'Decompose')
                       if res.coverage.get(a, (0, 0))[1] == 0]
            if missing:
                raise core.MachineryError('spec actions never taken in MC: %r' % missing)
            nch = 0
            for j, h in enumerate(iter_hists(dump)):
                if h[-1]['l']['op'] != 'add':
                    continue
                # chains of length >= 2 always, single additions for a seeded share
                if len(h) < 4 and (j + ctx.seed) % 2:
                    continue
                replay_chain(ctx, h, 'mc%d' % j)
                nch += 1
                if nch == 50:
                    ctx.sample(dict(spec='Truncation', behaviour=[x['l'] for x in h]))
            ctx.trace_ok(nch)
            ctx.notes.setdefault('replayed_calls', {})['chains'] = nch
        finally:
            shutil.rmtree(d, ignore_errors=True)

    # ---- MC C: decompositions of the catalogue matrices
    if not only or 'decompose' in only:
        o = option_sets('rel', (3, 2, 3, 2, 3) if quick else (4, 3, 3, 3, 4), random.Random(ctx.seed * 31 + 8))
        # theta = factor * catalogue matrix: the options of the truncated decompositions act on the normalised
        # spectrum, whatever the norm of theta is (factors are powers of two: the scaled entries stay exact)
        consts = base_consts(Modes={'rel'}, ThetaIds=set(range(1, 10)), ScaleOpts={(1, 1), (1, 16), (16, 1)}, **o)
        res, dump, d = mc_stage(ctx, 'decompose', consts)
        try:
            n = replay_decompose(ctx, iter_hists(dump), quick)
        finally:
            shutil.rmtree(d, ignore_errors=True)
        ctx.notes.setdefault('replayed_calls', {})['decompose'] = n
    ctx.exhaustive = True


if __name__ == '__main__':
    core.main_wrapper('C15', check)
