----------------------------- MODULE ModelDecl ------------------------------
(* C10 state machine: a CouplingModel is assembled declaration by declaration (the add_* calls of
   tenpy.models.model.CouplingModel); after every declaration the abstract state is the exact operator
   H of the model (module ModelTerms) together with the derived representations every conformant
   implementation must reproduce: the half that is stored under explicit_plus_hc (G2 = 2G, H = G + G^dagger),
   the nearest-neighbour bond operators, conservation laws, Hermiticity.

   Each logical step takes two TLC steps: Prop* proposes a declaration (cheap: this is where TLC
   branches), Commit* evaluates it (expensive, deterministic).  *)
EXTENDS ModelTerms, Sequences

CONSTANTS Lattices,    \* set of lattice configurations to start from
          MaxDecl,     \* number of declarations per model
          Profile      \* "mc": small alphabets for the exhaustive run,  "sim": the full alphabets

VARIABLES cfg, decls, pend, H, G2, cons, last, nops, hist
vars == <<cfg, decls, pend, H, G2, cons, last, nops, hist>>
AbsView == <<cfg, decls, pend, H, G2, cons, last, nops>>

None == [kind |-> "none"]
NoCfg == [name |-> "none"]

G1(a) == <<a, 0>>
Scalar(z) == [shape |-> <<1, 1>>, vals |-> <<z>>]

-----------------------------------------------------------------------------
\* lattice catalogues (selected through  Lattices <- ...  in the cfg file)
Lat(name, Lx, Ly, bcx, bcy, mps, uc, cells) ==
    [name |-> name, Lx |-> Lx, Ly |-> Ly, bcx |-> bcx, bcy |-> bcy, mps |-> mps, uc |-> uc, cells |-> cells, shift |-> 0]
\* shifted periodic boundary along y: tenpy bc = ['periodic', shift]
LatShift(l, sh) == [l EXCEPT !.shift = sh]
ShiftSquares(types) == {LatShift(Lat("Square", 2, 2, "periodic", "periodic", "finite", <<t>>, 1), 1) : t \in types}
\* three rings: a shift by +1 and by -1 differ (they coincide modulo 2)
ShiftSquares3 == {LatShift(Lat("Square", 3, 2, "periodic", "periodic", "finite", <<"spin">>, 1), sh) : sh \in {1, 2}}
Chains(Ls, types) ==
    {Lat("Chain", L, 1, bc, "open", "finite", <<t>>, 1) : L \in Ls, bc \in {"open", "periodic"}, t \in types}
InfChains(Ls, types, cells) == {Lat("Chain", L, 1, "periodic", "open", "infinite", <<t>>, cells) : L \in Ls, t \in types}
LadderCells == {<<"spin", "spin">>, <<"fermion", "fermion">>, <<"spin", "fermion">>, <<"fermion", "boson1">>, <<"boson1", "spin">>}
Ladders == {Lat("Ladder", 2, 1, bc, "open", "finite", uc, 1) : bc \in {"open", "periodic"}, uc \in LadderCells}
InfLadders == {Lat("Ladder", 1, 1, "periodic", "open", "infinite", uc, 2) : uc \in LadderCells}
Squares == {Lat("Square", 2, 2, bcx, bcy, "finite", <<t>>, 1) :
               bcx \in {"open", "periodic"}, bcy \in {"open", "periodic"}, t \in {"spin", "fermion"}}
InfSquares == {Lat("Square", 1, 2, "periodic", bcy, "infinite", <<t>>, 2) : bcy \in {"open", "periodic"}, t \in {"spin", "fermion"}}

LatticesMC == Chains({3}, {"spin", "fermion"}) \cup InfChains({2}, {"fermion"}, 2)
              \cup ShiftSquares({"spin"})
              \cup {Lat("Chain", 2, 1, "open", "open", "finite", <<"boson4">>, 1)}
              \cup {Lat("Ladder", 2, 1, "open", "open", "finite", <<"spin", "fermion">>, 1),
                    Lat("Square", 2, 2, "open", "periodic", "finite", <<"fermion">>, 1)}
LatticesOne == {Lat("Chain", 3, 1, "open", "open", "finite", <<"fermion">>, 1)}
LatticesInf2 == InfChains({2}, {"fermion", "spin"}, 2) \cup InfChains({1}, {"fermion"}, 4)
LatticesLong1 == InfChains({1}, {"spin", "fermion"}, 6)
                 \cup {LatShift(Lat("Square", 3, 2, "periodic", "periodic", "finite", <<"spin">>, 1), 1)}
LatticesLong2 == InfChains({2}, {"spin"}, 4)
LatticesLong == LatticesLong1 \cup LatticesLong2
LatticesQuick == Chains({2, 3, 4}, {"spin", "fermion", "boson1"}) \cup Chains({2, 3}, {"boson2"})
                 \cup InfChains({1}, {"spin", "fermion"}, 4) \cup InfChains({2}, {"spin", "fermion", "boson1"}, 2)
                 \cup InfChains({3}, {"fermion"}, 1)
                 \cup Ladders \cup InfLadders \cup Squares \cup InfSquares \cup ShiftSquares({"spin", "fermion"}) \cup ShiftSquares3
                 \cup {Lat("Chain", 2, 1, bc, "open", "finite", <<"boson4">>, 1) : bc \in {"open", "periodic"}}
LatticesFull == LatticesQuick \cup Chains({5}, {"spin", "fermion"}) \cup InfChains({2}, {"spin", "fermion"}, 3)
                 \cup InfChains({1}, {"boson2"}, 3)

-----------------------------------------------------------------------------
\* alphabets
Small == Profile = "mc"
Scalars == IF Small THEN {<<1, 0>>, <<1, 2>>} ELSE {<<1, 0>>, <<2, 0>>, <<-1, 0>>, <<0, 1>>, <<1, 2>>, <<2, -3>>, <<-2, 1>>}
OnsiteOps(t) == CASE t = "spin" -> (IF Small THEN {"Sigmaz", "Sp"} ELSE {"Sigmax", "Sigmay", "Sigmaz", "Sp", "Sm"})
                  [] t = "fermion" -> {"N"}
                  [] t = "boson1" -> {"N", "B", "Bd"}
                  [] t \in {"boson2", "boson4"} -> {"N", "NN"}
\* operators that never need a Jordan-Wigner string
BosonicOps(t) == CASE t = "spin" -> {"Sigmaz", "Sp"} [] t = "fermion" -> {"N"}
                   [] t = "boson1" -> {"N", "B"} [] t \in {"boson2", "boson4"} -> {"N", "NN"}
OpPairs(t1, t2) ==
    IF t1 = t2 THEN
        CASE t1 = "spin" -> (IF Small THEN {<<"Sp", "Sm">>, <<"Sigmax", "Sigmay">>}
                             ELSE {<<"Sigmaz", "Sigmaz">>, <<"Sp", "Sm">>, <<"Sigmax", "Sigmay">>, <<"Sm", "Sigmaz">>, <<"Sigmay", "Sigmay">>})
          [] t1 = "fermion" -> (IF Small THEN {<<"Cd", "C">>, <<"C", "C">>}
                                ELSE {<<"Cd", "C">>, <<"C", "Cd">>, <<"N", "N">>, <<"Cd", "Cd">>, <<"C", "C">>})
          [] t1 = "boson1" -> {<<"Bd", "B">>, <<"N", "N">>, <<"B", "N">>}
          [] t1 \in {"boson2", "boson4"} -> {<<"N", "N">>, <<"NN", "N">>}
    ELSE {<<a, b>> : a \in BosonicOps(t1), b \in BosonicOps(t2)}

Dxs(c) == CASE c.name = "Square" -> (IF Small THEN {<<1, 0>>, <<0, 1>>, <<1, -1>>}
                                     ELSE {<<1, 0>>, <<0, 1>>, <<1, 1>>, <<1, -1>>, <<-1, 0>>, <<0, -1>>, <<2, 0>>, <<-1, 1>>})
            [] OTHER -> (IF Small THEN {<<1, 0>>, <<2, 0>>, <<-1, 0>>}
                         ELSE {<<d, 0>> : d \in {-3, -2, -1, 0, 1, 2, 3, 4}})

\* strength arrays compatible with the documented coupling shape (sx, sy): tenpy tiles smaller arrays
ArrVals(n) == [k \in 1..n |-> CASE k % 4 = 1 -> <<k, 0>> [] k % 4 = 2 -> <<0, k>> [] k % 4 = 3 -> <<0, 0>> [] OTHER -> <<-k, 1>>]
Strengths(sx, sy) ==
    {Scalar(z) : z \in Scalars}
    \cup (IF Small THEN (IF sx >= 2 THEN {[shape |-> <<sx, sy>>, vals |-> ArrVals(sx * sy)]} ELSE {})
          ELSE {[shape |-> <<nx, ny>>, vals |-> ArrVals(nx * ny)] :
                   nx \in {n \in 1..sx : sx % n = 0}, ny \in {n \in 1..sy : sy % n = 0}} \ {[shape |-> <<1, 1>>, vals |-> ArrVals(1)]})

TypeU(c, u) == c.uc[u + 1]
Us(c) == 0..(Nu(c) - 1)

\* a coupling declaration is admissible if the sum is not empty, no operator pair lands on the same site
\* (two-site couplings) and the range fits the model (ranges up to the window size)
DistinctSites(c, d) ==
    \A n \in 1..(NBoxX(c, d) * NBoxY(c, d)) :
        LET s == CouplingSites(c, d, (n - 1) \div NBoxY(c, d), (n - 1) % NBoxY(c, d))
        IN \A a, b \in 1..Len(s) : a # b => s[a] # s[b]
NonEmpty(c, d) == NBoxX(c, d) * NBoxY(c, d) > 0 /\ ShapeX(c, d) > 0 /\ ShapeY(c, d) > 0

CouplingDecl(kind, s, ops, str, hc) == [kind |-> kind, s |-> s, ops |-> ops, str |-> str, hc |-> hc]
Geo(ops) == CouplingDecl("coupling", Scalar(GOne), ops, "auto", FALSE)    \* for geometry queries only

\* multi-site catalogues: sequences of <<name, dx>> per site type; u's are assigned by a pattern
MultiPatterns(t) ==
    CASE t = "spin" -> (IF Small THEN {<<<<"Sp", 0>>, <<"Sm", 1>>, <<"Sigmaz", 2>>>>}
                        ELSE {<<<<"Sigmaz", 0>>, <<"Sigmaz", 1>>, <<"Sigmaz", 2>>>>,
                              <<<<"Sp", 0>>, <<"Sm", 1>>, <<"Sigmaz", 2>>>>,
                              <<<<"Sp", 0>>, <<"Sigmax", 2>>, <<"Sm", 1>>>>,
                              <<<<"Sigmay", 1>>, <<"Sp", 0>>, <<"Sm", 0>>>>,
                              <<<<"Sp", 0>>, <<"Sm", 1>>, <<"Sp", 2>>, <<"Sm", 3>>>>})
      [] t = "fermion" -> (IF Small THEN {<<<<"Cd", 0>>, <<"C", 2>>, <<"N", 1>>>>, <<<<"Cd", 0>>, <<"Cd", 1>>, <<"C", 1>>, <<"C", 2>>>>}
                           ELSE {<<<<"Cd", 0>>, <<"C", 1>>, <<"N", 2>>>>,
                                 <<<<"Cd", 0>>, <<"C", 2>>, <<"N", 1>>>>,
                                 <<<<"C", 2>>, <<"N", 1>>, <<"Cd", 0>>>>,
                                 <<<<"N", 0>>, <<"Cd", 2>>, <<"C", 1>>>>,
                                 <<<<"Cd", 0>>, <<"Cd", 1>>, <<"C", 2>>, <<"C", 3>>>>,
                                 <<<<"Cd", 0>>, <<"C", 2>>, <<"Cd", 1>>, <<"C", 3>>>>,
                                 <<<<"Cd", 0>>, <<"Cd", 1>>, <<"C", 1>>, <<"C", 2>>>>,
                                 <<<<"Cd", 2>>, <<"C", 0>>, <<"Cd", 0>>, <<"C", 1>>>>})
      [] t = "boson1" -> {<<<<"Bd", 0>>, <<"B", 1>>, <<"N", 2>>>>, <<<<"Bd", 0>>, <<"N", 1>>, <<"B", 2>>>>}
      [] t \in {"boson2", "boson4"} -> {<<<<"N", 0>>, <<"NN", 1>>, <<"N", 2>>>>}
\* mixed unit cells: explicit <<name, dx, u>>
MultiMixed(uc) ==
    CASE uc = <<"spin", "fermion">> -> {<<<<"Sigmaz", 0, 0>>, <<"Cd", 0, 1>>, <<"C", 1, 1>>>>,
                                        <<<<"Cd", 0, 1>>, <<"Sp", 1, 0>>, <<"C", 1, 1>>>>}
      [] uc = <<"fermion", "boson1">> -> {<<<<"Cd", 0, 0>>, <<"B", 0, 1>>, <<"C", 1, 0>>>>,
                                          <<<<"C", 1, 0>>, <<"Bd", 1, 1>>, <<"Cd", 0, 0>>, <<"N", 0, 1>>>>}
      [] uc = <<"boson1", "spin">> -> {<<<<"Bd", 0, 0>>, <<"Sigmaz", 0, 1>>, <<"B", 1, 0>>>>}
      [] OTHER -> {}
UniformCell(c) == \A u \in Us(c) : TypeU(c, u) = TypeU(c, 0)
\* along which axis the dx of a pattern is laid out
AxisDx(c, k, ax) == IF ax = 1 THEN <<k, 0>> ELSE <<0, k>>
MultiOpsSet(c) ==
    IF UniformCell(c)
    THEN {[k \in 1..Len(p) |-> <<p[k][1], AxisDx(c, p[k][2], ax), (IF up = 2 THEN k % Nu(c) ELSE IF up = 1 THEN Nu(c) - 1 ELSE 0)>>] :
             p \in MultiPatterns(TypeU(c, 0)), ax \in (IF c.name = "Square" THEN {1, 2} ELSE {1}),
             up \in (IF Nu(c) = 1 THEN {0} ELSE {0, 1, 2})}
    ELSE {[k \in 1..Len(p) |-> <<p[k][1], <<p[k][2], 0>>, p[k][3]>>] : p \in MultiMixed(c.uc)}

\* local terms (add_local_term): lattice coordinates <<x, y, u>>
LocalTermSet(c) ==
    IF ~UniformCell(c) THEN {}
    ELSE LET t == TypeU(c, 0)
             x1 == IF Sx(c) >= 2 THEN 1 ELSE 0
             y1 == IF c.Ly >= 2 THEN 1 ELSE 0
             u1 == Nu(c) - 1
             A == <<0, 0, 0>>
             B == IF x1 + y1 + u1 = 0 THEN <<0, 0, 0>> ELSE IF u1 = 1 THEN <<0, 0, 1>> ELSE IF c.name = "Square" THEN <<0, 1, 0>> ELSE <<1, 0, 0>>
             Cc == IF Sx(c) >= 3 THEN <<2, 0, 0>> ELSE <<x1, 0, u1>>
             \* a term on a single site must lie inside the MPS unit cell
             S1 == IF B[1] < c.Lx THEN B ELSE A
         IN IF A = B THEN {} ELSE
            CASE t = "spin" -> {<<<<"Sp", A>>, <<"Sm", B>>>>, <<<<"Sigmax", B>>, <<"Sigmay", A>>, <<"Sigmaz", Cc>>>>, <<<<"Sigmaz", S1>>>>}
              [] t = "fermion" -> {<<<<"Cd", A>>, <<"C", B>>>>, <<<<"C", B>>, <<"Cd", A>>>>, <<<<"Cd", Cc>>, <<"N", B>>, <<"C", A>>>>,
                                   <<<<"Cd", S1>>, <<"C", S1>>>>}
              [] t = "boson1" -> {<<<<"Bd", A>>, <<"B", B>>>>, <<<<"N", A>>>>}
              [] OTHER -> {}

-----------------------------------------------------------------------------
Init == /\ cfg = NoCfg /\ decls = <<>> /\ pend = None
        /\ H = <<>> /\ G2 = <<>> /\ cons = [Sz |-> TRUE, N |-> TRUE, parity |-> TRUE]
        /\ last = [op |-> "init"] /\ nops = 0 /\ hist = <<>>

Setup == /\ cfg = NoCfg
         /\ \E c \in Lattices :
              /\ cfg' = c
              /\ H' = MZero(Size(DimsOf(TypesOf(c))), Size(DimsOf(TypesOf(c))))
              /\ G2' = MZero(Size(DimsOf(TypesOf(c))), Size(DimsOf(TypesOf(c))))
         /\ UNCHANGED <<decls, pend, cons, last, nops, hist>>

CanPropose == cfg # NoCfg /\ pend = None /\ Len(decls) < MaxDecl /\ Profile # "long"
Propose(d) == pend' = d /\ UNCHANGED <<cfg, decls, H, G2, cons, last, nops, hist>>

PropOnsite == /\ CanPropose
              /\ \E u \in Us(cfg), hc \in BOOLEAN : \E op \in OnsiteOps(TypeU(cfg, u)) : \E s \in Strengths(cfg.Lx, cfg.Ly) :
                    Propose([kind |-> "onsite", s |-> s, u |-> u, op |-> op, hc |-> hc])

PropCoupling ==
    /\ CanPropose
    /\ \E u1, u2 \in Us(cfg), dx \in Dxs(cfg), hc \in BOOLEAN :
         \E pr \in OpPairs(TypeU(cfg, u1), TypeU(cfg, u2)) :
           LET ops == <<<<pr[1], <<0, 0>>, u1>>, <<pr[2], dx, u2>>>>
               g == Geo(ops)
           IN /\ NonEmpty(cfg, g) /\ DistinctSites(cfg, g)
              /\ \E s \in Strengths(ShapeX(cfg, g), ShapeY(cfg, g)) :
                   Propose(CouplingDecl("coupling", s, ops, "auto", hc))

\* explicit operator string between the two sites (all-spin lattices): plain tensor products
PropCouplingStr ==
    /\ CanPropose /\ \A u \in Us(cfg) : TypeU(cfg, u) = "spin"
    /\ \E u1, u2 \in Us(cfg), dx \in Dxs(cfg), hc \in BOOLEAN, str \in {"Sigmaz", "Sigmax"} :
         \E pr \in {<<"Sp", "Sm">>, <<"Sigmay", "Sigmaz">>} : \E z \in Scalars :
           LET ops == <<<<pr[1], <<0, 0>>, u1>>, <<pr[2], dx, u2>>>>
               g == Geo(ops)
           IN /\ NonEmpty(cfg, g) /\ DistinctSites(cfg, g)
              /\ Propose(CouplingDecl("coupling", Scalar(z), ops, str, hc))

PropMulti ==
    /\ CanPropose
    /\ \E ops \in MultiOpsSet(cfg), hc \in BOOLEAN :
         LET g == Geo(ops)
         IN /\ NonEmpty(cfg, g)
            /\ \E s \in Strengths(ShapeX(cfg, g), ShapeY(cfg, g)) : Propose(CouplingDecl("multi", s, ops, "auto", hc))

\* long multi-site couplings on infinite chains with a short unit cell (Profile = "long"): the operators span several
\* unit cells with gaps of at least one unit cell between an inner operator and its neighbour / the switch site, so
\* that operator strings starting outside the first unit cell have to wrap around it; sw = switchLR option
\* ("middle_i" | "middle_op"), a representation choice that must not change the operator
LongPatterns(c) ==
    LET t == c.uc[1]
    IN IF NCell(c) = 1
       THEN (IF t = "spin" THEN {<<<<"Sigmaz", 0>>, <<"Sigmax", 1>>, <<"Sigmaz", 5>>>>, <<<<"Sp", 0>>, <<"Sigmaz", 1>>, <<"Sm", 5>>>>,
                                 <<<<"Sigmax", 0>>, <<"Sigmay", 1>>, <<"Sigmaz", 2>>, <<"Sigmax", 5>>>>}
             ELSE {<<<<"Cd", 0>>, <<"N", 1>>, <<"C", 5>>>>, <<<<"N", 0>>, <<"Cd", 1>>, <<"C", 5>>>>})
       ELSE (IF t = "spin" THEN {<<<<"Sp", 0>>, <<"Sigmaz", 2>>, <<"Sigmaz", 5>>, <<"Sm", 6>>>>}
             ELSE {<<<<"Cd", 0>>, <<"N", 2>>, <<"N", 5>>, <<"C", 6>>>>})
PropMultiLong ==
    /\ Profile = "long" /\ cfg # NoCfg /\ pend = None /\ Len(decls) < MaxDecl /\ Infinite(cfg) /\ Nu(cfg) = 1 /\ cfg.Ly = 1
    /\ \E p \in LongPatterns(cfg), hc \in BOOLEAN, sw \in {"middle_i", "middle_op"},
          z \in {<<1, 2>>} :
         LET ops == [k \in 1..Len(p) |-> <<p[k][1], <<p[k][2], 0>>, 0>>]
         IN /\ NonEmpty(cfg, Geo(ops))
            /\ pend' = [kind |-> "multi", s |-> Scalar(z), ops |-> ops, str |-> "auto", hc |-> hc, sw |-> sw]
            /\ UNCHANGED <<cfg, decls, H, G2, cons, last, nops, hist>>

\* site-dependent couplings across a shifted periodic boundary (Profile = "long": the 3 x 2 cylinder has 64 states)
PropShiftCoupling ==
    /\ Profile = "long" /\ cfg # NoCfg /\ pend = None /\ Len(decls) < MaxDecl /\ cfg.shift # 0
    /\ \E dx \in {<<0, 1>>, <<1, -1>>, <<1, 1>>}, hc \in BOOLEAN :
         LET ops == <<<<"Sp", <<0, 0>>, 0>>, <<"Sm", dx, 0>>>>
             g == Geo(ops)
         IN /\ NonEmpty(cfg, g) /\ DistinctSites(cfg, g)
            /\ pend' = CouplingDecl("coupling", [shape |-> <<ShapeX(cfg, g), ShapeY(cfg, g)>>,
                                                 vals |-> ArrVals(ShapeX(cfg, g) * ShapeY(cfg, g))], ops, "auto", hc)
            /\ UNCHANGED <<cfg, decls, H, G2, cons, last, nops, hist>>

\* decay rates lambda = lam / lamInv as <<lam, lamInv>>: real and complex (Gaussian dyadic) ones
DecayRates == IF Small THEN {<<<<1, 0>>, 2>>, <<<<1, 1>>, 2>>}
              ELSE {<<<<1, 0>>, 2>>, <<<<1, 0>>, 4>>, <<<<0, 1>>, 2>>, <<<<1, 1>>, 2>>, <<<<1, -1>>, 4>>}
\* terms centred on one site (finite systems, operators without Jordan-Wigner string)
PropExpCenter ==
    /\ CanPropose /\ UniformCell(cfg) /\ ~Infinite(cfg) /\ NW(cfg) <= 6 /\ NW(cfg) >= 2
    /\ \E hc \in BOOLEAN, lm \in DecayRates, z \in Scalars, i0 \in {0, NW(cfg) \div 2, NW(cfg) - 1} :
         \E pr \in {q \in OpPairs(TypeU(cfg, 0), TypeU(cfg, 0)) : ~NeedsJW(TypeU(cfg, 0), q[1]) /\ ~NeedsJW(TypeU(cfg, 0), q[2])} :
           Propose([kind |-> "expcenter", s0 |-> z, lam |-> lm[1], lamInv |-> lm[2], dmax |-> NW(cfg) - 1, opi |-> pr[1], opj |-> pr[2],
                    i0 |-> i0, subs |-> <<>>, hc |-> hc])

\* exponentially decaying couplings, lambda = lam / lamInv; subsites: all, or every second site
PropExpDecay ==
    /\ CanPropose /\ UniformCell(cfg) /\ NW(cfg) <= 6
    /\ \E hc \in BOOLEAN, lm \in DecayRates, z \in Scalars, sub \in {0, 1} :
         \E pr \in OpPairs(TypeU(cfg, 0), TypeU(cfg, 0)) :
           LET subs == IF sub = 0 THEN <<>> ELSE [k \in 1..((NCell(cfg) + 1) \div 2) |-> 2 * (k - 1)]
               d0 == [kind |-> "expdecay", s0 |-> z, lam |-> lm[1], lamInv |-> lm[2], dmax |-> 0, opi |-> pr[1], opj |-> pr[2],
                      subs |-> subs, hc |-> hc]
               m == Len(SubsWindow(cfg, d0))
           IN /\ m >= 2 /\ (sub = 0 \/ NCell(cfg) >= 2)
              /\ Propose([d0 EXCEPT !.dmax = m - 1])

PropLocal ==
    /\ CanPropose
    /\ \E term \in LocalTermSet(cfg), hc \in BOOLEAN, z \in Scalars :
         Propose([kind |-> "local", s |-> z, term |-> term, hc |-> hc])

\* NN models: no exponentially decaying declarations and every term within range 1
NNModel(c, ds) == /\ NW(c) >= 2
                  /\ \A n \in 1..Len(ds) : ds[n].kind \notin {"expdecay", "expcenter"}
                  /\ IsNNTerms(AllTerms(c, ds, Len(ds)))

Bonds(c, ds) ==
    LET terms == EvalTerms(AllTerms(c, ds, Len(ds)))
    IN IF ~NNModel(c, ds) THEN <<>>
       ELSE IF Infinite(c) THEN (IF c.cells >= 2 THEN [b \in 1..NCell(c) |-> Sparse(Bond2Infinite(c, terms, b))] ELSE <<>>)
       ELSE [b \in 1..(NW(c) - 1) |-> Sparse(Bond2Finite(c, terms, b))]

\* the model restricted to the sites behind the first ring (extract_segment; segments consist of whole rings)
Ring(c) == c.Ly * Nu(c)
Segment(c, ds) == IF NW(c) - Ring(c) < 2 THEN [n |-> 0, e |-> <<>>]
                  ELSE Sparse(SegmentOp(c, EvalTerms(AllTerms(c, ds, Len(ds))), Ring(c), NW(c) - 1))

Obs(c, ds, h, g2, cn) == [H |-> Sparse(h), G2 |-> Sparse(g2), herm |-> MIsHermitian(h), cons |-> cn,
                          nn |-> NNModel(c, ds), bonds |-> Bonds(c, ds), seg |-> Segment(c, ds)]

Commit(kind) ==
    /\ pend # None /\ pend.kind = kind
    /\ LET M == DeclBaseOp(cfg, pend)
           full == IF pend.hc THEN EvalMat(MAdd(M, MDagger(M))) ELSE M
           st2 == IF pend.hc THEN EvalMat(MScale(<<2, 0>>, M)) ELSE M
           h == EvalMat(MAdd(H, full))
           g == EvalMat(MAdd(G2, st2))
           bt == BaseTerms(cfg, pend)
           cn == [w \in {"Sz", "N", "parity"} |-> cons[w] /\ \A n \in 1..Len(bt) : TermConserves(TypesOf(cfg), bt[n], w)]
           ds == Append(decls, pend)
       IN /\ decls' = ds /\ H' = h /\ G2' = g /\ cons' = cn
          /\ last' = [op |-> "add", d |-> pend]
          /\ hist' = Append(hist, [l |-> last', o |-> Obs(cfg, ds, h, g, cn)])
    /\ pend' = None /\ nops' = nops + 1
    /\ UNCHANGED cfg

CommitOnsite == Commit("onsite")
CommitCoupling == Commit("coupling")
CommitMulti == Commit("multi")
CommitExpDecay == Commit("expdecay")
CommitExpCenter == Commit("expcenter")
CommitLocal == Commit("local")

Next == Setup \/ PropOnsite \/ PropCoupling \/ PropCouplingStr \/ PropMulti \/ PropMultiLong \/ PropShiftCoupling \/ PropExpDecay \/ PropExpCenter \/ PropLocal
        \/ CommitOnsite \/ CommitCoupling \/ CommitMulti \/ CommitExpDecay \/ CommitExpCenter \/ CommitLocal
Spec == Init /\ [][Next]_vars

-----------------------------------------------------------------------------
Idle == cfg # NoCfg /\ pend = None

\* the two readings of "+ h.c." agree: conjugate terms written out by the documented rule (conjugate the
\* strength, reverse the order, hc of the names) sum to M + M^dagger
TermViewEqualsOpView == Idle => DenseOfTerms(TypesOf(cfg), AllTerms(cfg, decls, Len(decls))) = H

\* explicit_plus_hc: the stored half G satisfies G + G^dagger = H
StoredHalf == Idle => (MIsHermitian(H) <=> (MAdd(G2, MDagger(G2)) = MScale(<<2, 0>>, H)))

\* Hermitian whenever the terms are
RealStrength(s) == \A k \in 1..Len(s.vals) : s.vals[k][2] = 0
SelfHc(name) == HcName(name) = name
ManifestlyHermitian(d) ==
    \/ d.hc
    \/ d.kind = "onsite" /\ SelfHc(d.op) /\ RealStrength(d.s)
    \/ /\ d.kind \in {"coupling", "multi"} /\ RealStrength(d.s) /\ d.str = "auto"
       /\ \A k \in 1..Len(d.ops) : SelfHc(d.ops[k][1]) /\ ~NeedsJW("fermion", d.ops[k][1])
       /\ \A a, b \in 1..Len(d.ops) : a # b => <<d.ops[a][2], d.ops[a][3]>> # <<d.ops[b][2], d.ops[b][3]>>
    \/ d.kind = "expdecay" /\ d.s0[2] = 0 /\ d.lam[2] = 0 /\ SelfHc(d.opi) /\ SelfHc(d.opj) /\ ~NeedsJW("fermion", d.opi)
HermitianWheneverTermsAre == Idle /\ (\A n \in 1..Len(decls) : ManifestlyHermitian(decls[n])) => MIsHermitian(H)

\* H = sum of the bond operators (finite NN models)
BondSumIsH == Idle /\ ~Infinite(cfg) /\ NNModel(cfg, decls) =>
                 BondSum2(cfg, AllTerms(cfg, decls, Len(decls)), NW(cfg) - 1) = MScale(<<2, 0>>, H)

\* a model whose stored terms all conserve a charge has an H that conserves it
ConservationInherited == Idle => \A w \in {"Sz", "N", "parity"} : cons[w] => Conserves(TypesOf(cfg), H, w)
=============================================================================
