-------------------------------- MODULE Sites --------------------------------
(* The predefined local Hilbert spaces of tenpy (tenpy/networks/site.py), property C12, first sentence.

   Every site class is written down from its *documentation table* (physical definitions:
   S+|m> = sqrt(S(S+1)-m(m+1))|m+1>, b|n> = sqrt(n)|n-1>, c|1> = |0>, clock Z = diag(w^n), ...), in
   the basis order documented for conserve=None.  Matrix elements are exact: an entry is a finite sum
   of monomials  w^ph * c * sqrt(rad) / den  (w = exp(2 pi i / Mod), Mod = 4 except for clock sites,
   rad squarefree), kept in a canonical form so that equality of entries is equality of values.
   On top of this: charges per `conserve` option, the permutation caused by sorting the charges,
   hermitian-conjugate pairs, Jordan-Wigner flags; set_common_charges and GroupedSite.

   State machine: one action per site class builds the table of one (class, parameters, conserve)
   combination; Pick/SetCommon/Group build groupings of 2-3 heterogeneous sites.  The theorems
   (defining algebras, hc pairs, operator charge = charge(to) - charge(from), conserve-independence)
   are invariants evaluated on every table. *)
EXTENDS Integers, Sequences, FiniteSets, TLC

CONSTANTS MaxTwoS,      \* spins up to S = MaxTwoS/2
          MaxBoson,     \* boson cutoffs 1..MaxBoson
          MaxClock,     \* clock sites q = 2..MaxClock
          Fillings,     \* set of <<p, r>>: filling p/r
          MaxGroup      \* number of sites grouped together (<= 3); 0 switches the grouping part off

\* (cfg files cannot hold tuples:  Fillings <- FillSmall)
FillSmall == {<<1, 2>>, <<1, 1>>}
FillAll == {<<0, 1>>, <<1, 2>>, <<1, 1>>, <<1, 4>>, <<3, 2>>}

VARIABLES site,     \* the table built last (or NoSite)
          members,  \* Seq of catalogue indices picked for a grouping
          grp,      \* result of SetCommon / Group (or NoGrp)
          last      \* [op |-> ..., ...] description of the last action
vars == <<site, members, grp, last>>

------------------------------------------------------------------------------
\* exact numbers
RECURSIVE Gcd(_, _)
Gcd(a, b) == IF b = 0 THEN a ELSE Gcd(b, a % b)
Abs(x) == IF x < 0 THEN -x ELSE x
\* rationals <<p, q>>, q > 0, reduced
Rat(p, q) == LET g == Gcd(Abs(p), q) IN IF p = 0 THEN <<0, 1>> ELSE <<p \div g, q \div g>>
RAdd(a, b) == Rat(a[1] * b[2] + b[1] * a[2], a[2] * b[2])
\* n = s*s*rad with rad squarefree
SqPart(n) == CHOOSE s \in 1..n : n % (s * s) = 0 /\ \A t \in (s + 1)..n : n % (t * t) # 0

\* monomial  w^ph * c * sqrt(rad) / den ,  c > 0, den > 0, gcd(c, den) = 1, rad squarefree
Mono(ph, c, rad, den) == LET g == Gcd(c, den) IN [ph |-> ph, c |-> c \div g, rad |-> rad, den |-> den \div g]
\* w^ph * sqrt(n) / den
MonoSqrt(ph, n, den) == LET s == SqPart(n) IN Mono(ph, s, n \div (s * s), den)
MonoMul(a, b, Mod) ==
    LET g == Gcd(a.rad, b.rad) IN
    Mono((a.ph + b.ph) % Mod, a.c * b.c * g, (a.rad * b.rad) \div (g * g), a.den * b.den)

\* an entry is a set of monomials with pairwise different keys (canonical form of the sum)
Half(Mod) == IF Mod % 2 = 0 THEN Mod \div 2 ELSE Mod
KeyOf(m, Mod) == <<m.rad, m.ph % Half(Mod)>>
SignOf(m, Mod) == IF m.ph >= Half(Mod) THEN -1 ELSE 1
RECURSIVE SumKey(_, _, _)
SumKey(bag, key, Mod) ==
    IF bag = <<>> THEN <<0, 1>>
    ELSE LET m == Head(bag)
             r == SumKey(Tail(bag), key, Mod)
         IN IF KeyOf(m, Mod) = key THEN RAdd(Rat(SignOf(m, Mod) * m.c, m.den), r) ELSE r
Norm(bag, Mod) ==
    LET keys == {KeyOf(bag[k], Mod) : k \in 1..Len(bag)}
        tot(key) == SumKey(bag, key, Mod)
    IN {Mono(IF tot(key)[1] < 0 THEN key[2] + Half(Mod) ELSE key[2], Abs(tot(key)[1]), key[1], tot(key)[2]) :
            key \in {k2 \in keys : tot(k2)[1] # 0}}
RECURSIVE SeqOfSet(_)
SeqOfSet(S) == IF S = {} THEN <<>> ELSE LET x == CHOOSE x \in S : TRUE IN <<x>> \o SeqOfSet(S \ {x})
RECURSIVE BagMulR(_, _, _)
BagMulR(a, sb, Mod) == IF sb = <<>> THEN <<>> ELSE <<MonoMul(a, Head(sb), Mod)>> \o BagMulR(a, Tail(sb), Mod)
RECURSIVE BagMul(_, _, _)
BagMul(sa, sb, Mod) == IF sa = <<>> THEN <<>> ELSE BagMulR(Head(sa), sb, Mod) \o BagMul(Tail(sa), sb, Mod)
EMul(e1, e2, Mod) == IF e1 = {} \/ e2 = {} THEN {} ELSE Norm(BagMul(SeqOfSet(e1), SeqOfSet(e2), Mod), Mod)
EAdd(e1, e2, Mod) == IF e1 = {} THEN e2 ELSE IF e2 = {} THEN e1 ELSE Norm(SeqOfSet(e1) \o SeqOfSet(e2), Mod)
EConj(e, Mod) == {[m EXCEPT !.ph = (Mod - m.ph) % Mod] : m \in e}
One == {Mono(0, 1, 1, 1)}
Num(ph, p, q) == IF p = 0 THEN {} ELSE {Mono(ph, p, 1, q)}          \* w^ph * p/q,  p > 0
\* a real rational p/q (any sign) as an entry (Mod even)
Real(p, q, Mod) == IF p = 0 THEN {} ELSE {Mono(IF p < 0 THEN Half(Mod) ELSE 0, Abs(p), 1, q)}

------------------------------------------------------------------------------
\* matrices: functions (1..d) \X (1..d) -> entry, index <<to, from>>;  MZ(d) is zero
Idx2(d) == (1..d) \X (1..d)
RECURSIVE StrictRow(_, _, _, _)
StrictRow(A, i, j, d) == IF j > d THEN <<>> ELSE <<A[<<i, j>>]>> \o StrictRow(A, i, j + 1, d)
RECURSIVE StrictRows(_, _, _)
StrictRows(A, i, d) == IF i > d THEN <<>> ELSE <<StrictRow(A, i, 1, d)>> \o StrictRows(A, i + 1, d)
\* (TLC builds functions lazily: force the values once so that products do not recompute them)
Strict(A, d) == LET rows == StrictRows(A, 1, d) IN [p \in Idx2(d) |-> rows[p[1]][p[2]]]

MZ(d) == [p \in Idx2(d) |-> {}]
MId(d) == [p \in Idx2(d) |-> IF p[1] = p[2] THEN One ELSE {}]
MDiag(d, f(_)) == [p \in Idx2(d) |-> IF p[1] = p[2] THEN f(p[1]) ELSE {}]
RECURSIVE MulSum(_, _, _, _, _, _)
MulSum(A, B, i, j, k, c) ==        \* sum_{k' >= k} A[i,k'] B[k',j];  c = <<d, Mod>>
    IF k > c[1] THEN {} ELSE EAdd(EMul(A[<<i, k>>], B[<<k, j>>], c[2]), MulSum(A, B, i, j, k + 1, c), c[2])
MMul(A, B, d, Mod) == Strict([p \in Idx2(d) |-> MulSum(A, B, p[1], p[2], 1, <<d, Mod>>)], d)
MAdd(A, B, d, Mod) == Strict([p \in Idx2(d) |-> EAdd(A[p], B[p], Mod)], d)
MScale(e, A, d, Mod) == Strict([p \in Idx2(d) |-> EMul(e, A[p], Mod)], d)
MDag(A, d, Mod) == Strict([p \in Idx2(d) |-> EConj(A[<<p[2], p[1]>>], Mod)], d)
MNeg(A, d, Mod) == MScale(Real(-1, 1, Mod), A, d, Mod)
MSub(A, B, d, Mod) == MAdd(A, MNeg(B, d, Mod), d, Mod)
Comm(A, B, d, Mod) == MSub(MMul(A, B, d, Mod), MMul(B, A, d, Mod), d, Mod)
AComm(A, B, d, Mod) == MAdd(MMul(A, B, d, Mod), MMul(B, A, d, Mod), d, Mod)
Sparse(A) == {<<p[1], p[2], A[p]>> : p \in {p2 \in DOMAIN A : A[p2] # {}}}


------------------------------------------------------------------------------
\* charges
ValidQ(q, qmod) == [k \in 1..Len(q) |-> IF qmod[k] = 1 THEN q[k] ELSE q[k] % qmod[k]]      \* ChargeInfo.make_valid
\* LegCharge.sort: np.lexsort over the charge columns = the LAST charge is the primary key; stable
RECURSIVE LessFrom(_, _, _)
LessFrom(a, b, k) == IF k = 0 THEN FALSE ELSE IF a[k] # b[k] THEN a[k] < b[k] ELSE LessFrom(a, b, k - 1)
QLess(a, b) == LessFrom(a, b, Len(a))
RECURSIVE InsertSorted(_, _, _)
InsertSorted(s, x, chg) == IF s = <<>> THEN <<x>>
                           ELSE IF QLess(chg[x], chg[Head(s)]) THEN <<x>> \o s
                           ELSE <<Head(s)>> \o InsertSorted(Tail(s), x, chg)
RECURSIVE SortOrder(_, _)
\* order: Seq of conserve=None indices; result: the same indices stably sorted by chg[index]
SortOrder(order, chg) == IF order = <<>> THEN <<>>
                         ELSE InsertSorted(SortOrder(SubSeq(order, 1, Len(order) - 1), chg), order[Len(order)], chg)
Iota(d) == [k \in 1..d |-> k]

\* charge carried by an operator: charge(to) - charge(from) for its non-zero entries (a set: the rule is that it is a singleton)
OpCharges(A, chg, qmod) == {ValidQ([k \in 1..Len(qmod) |-> chg[p[1]][k] - chg[p[2]][k]], qmod) : p \in {p2 \in DOMAIN A : A[p2] # {}}}

------------------------------------------------------------------------------
\* charge_to_JW_parity: a vector, or not defined, or (after set_common_charges) not claimed by this spec
C2(v) == [def |-> "yes", v |-> v]
C2None == [def |-> "none", v |-> <<>>]
C2Unknown == [def |-> "unknown", v |-> <<>>]
\* the table of a site
St(labels, tag) == [labels |-> labels, tag |-> tag]
Table(cls, par, cons, Mod, states, qnames, qmod, chgraw, ops, jw, c2jw) ==
    LET d == Len(states)
        chg == [k \in 1..d |-> ValidQ(chgraw[k], qmod)]
        names == DOMAIN ops
    IN [cls |-> cls, par |-> par, cons |-> cons, Mod |-> Mod, d |-> d, states |-> states,
        qnames |-> qnames, qmod |-> qmod, chg |-> chg,
        order |-> SortOrder(Iota(d), chg),        \* order[new index] = conserve=None index  (Site.perm)
        sorted |-> TRUE,                          \* sort_charge=True (the default)
        ops |-> ops, jw |-> jw, c2jw |-> c2jw]
\* the same site built with sort_charge=False: the documented basis order is kept
Unsorted(T) == [T EXCEPT !.order = Iota(T.d), !.sorted = FALSE]

NoSite == [cls |-> "none"]
NoGrp == [kind |-> "none"]

\* ---- spins ---------------------------------------------------------------------------------
SpinOps(Sp, Sz, d, full) ==        \* Sm = Sp^dagger, S+- = Sx +- i Sy
    LET Sm == MDag(Sp, d, 4)
        Sx == MScale(Num(0, 1, 2), MAdd(Sp, Sm, d, 4), d, 4)
        Sy == MScale(Num(3, 1, 2), MSub(Sp, Sm, d, 4), d, 4)          \* (Sp - Sm) / (2i)
        base == [Id |-> MId(d), JW |-> MId(d), Sz |-> Sz, Sp |-> Sp, Sm |-> Sm]
    IN IF full THEN base @@ [Sx |-> Sx, Sy |-> Sy] ELSE base

SpinHalfTable(cons) ==
    LET Sp == [p \in Idx2(2) |-> IF p = <<1, 2>> THEN One ELSE {}]            \* S+|down> = |up>
        Sz == MDiag(2, LAMBDA k : Real(IF k = 1 THEN 1 ELSE -1, 2, 4))
        so == SpinOps(Sp, Sz, 2, cons # "Sz")
        two(A) == MScale(Num(0, 2, 1), A, 2, 4)
        ops == so @@ [Sigmaz |-> two(Sz)] @@ (IF cons # "Sz" THEN [Sigmax |-> two(so.Sx), Sigmay |-> two(so.Sy)] ELSE <<>>)
        states == <<St(<<"up", "0.5">>, 1), St(<<"down", "-0.5">>, -1)>>
    IN CASE cons = "Sz" -> Table("SpinHalfSite", <<>>, cons, 4, states, <<"2*Sz">>, <<1>>, <<<<1>>, <<-1>>>>, ops, {"JW"}, C2(<<0>>))
         [] cons = "parity" -> Table("SpinHalfSite", <<>>, cons, 4, states, <<"parity_Sz">>, <<2>>, <<<<1>>, <<0>>>>, ops, {"JW"}, C2(<<0>>))
         [] OTHER -> Table("SpinHalfSite", <<>>, cons, 4, states, <<>>, <<>>, <<<<>>, <<>>>>, ops, {"JW"}, C2(<<>>))

SpinTable(twoS, cons) ==
    LET d == twoS + 1
        \* state k (1..d) has Sz = (2(k-1) - twoS)/2;   S+|m> = sqrt(S(S+1) - m(m+1)) |m+1> = sqrt((2S-k0)(k0+1))
        Sp == [p \in Idx2(d) |-> IF p[1] = p[2] + 1 THEN {MonoSqrt(0, (twoS - (p[2] - 1)) * p[2], 1)} ELSE {}]
        Sz == MDiag(d, LAMBDA k : Real(2 * (k - 1) - twoS, 2, 4))
        ops == SpinOps(Sp, Sz, d, cons \notin {"Sz", "dipole"})
        states == [k \in 1..d |-> St(IF k = 1 THEN <<"down">> ELSE IF k = d THEN <<"up">> ELSE <<>>, 2 * (k - 1) - twoS)]
    IN CASE cons = "Sz" -> Table("SpinSite", <<twoS>>, cons, 4, states, <<"2*Sz">>, <<1>>, [k \in 1..d |-> <<2 * (k - 1) - twoS>>], ops, {"JW"}, C2(<<0>>))
         [] cons = "dipole" -> Table("SpinSite", <<twoS>>, cons, 4, states, <<"2*Sz", "dipole">>, <<1, 1>>,
                                     [k \in 1..d |-> <<2 * (k - 1) - twoS, 0>>], ops, {"JW"}, C2(<<0, 0>>))
         [] cons = "parity" -> Table("SpinSite", <<twoS>>, cons, 4, states, <<"parity_Sz">>, <<2>>, [k \in 1..d |-> <<(k - 1) % 2>>], ops, {"JW"}, C2(<<0>>))
         [] OTHER -> Table("SpinSite", <<twoS>>, cons, 4, states, <<>>, <<>>, [k \in 1..d |-> <<>>], ops, {"JW"}, C2(<<>>))

\* ---- fermions ------------------------------------------------------------------------------
\* filling f = <<p, r>>
FermionTable(cons, f) ==
    LET C == [p \in Idx2(2) |-> IF p = <<1, 2>> THEN One ELSE {}]              \* c|full> = |empty>
        Cd == MDag(C, 2, 4)
        N == MMul(Cd, C, 2, 4)
        JW == MSub(MId(2), MScale(Num(0, 2, 1), N, 2, 4), 2, 4)                \* (-1)^n
        dN == MSub(N, MScale(Real(f[1], f[2], 4), MId(2), 2, 4), 2, 4)
        ops == [Id |-> MId(2), JW |-> JW, C |-> C, Cd |-> Cd, N |-> N, dN |-> dN, dNdN |-> MMul(dN, dN, 2, 4)]
        states == <<St(<<"empty">>, 0), St(<<"full">>, 1)>>
        jw == {"C", "Cd", "JW"}
    IN CASE cons = "N" -> Table("FermionSite", f, cons, 4, states, <<"N">>, <<1>>, <<<<0>>, <<1>>>>, ops, jw, C2(<<1>>))
         [] cons = "parity" -> Table("FermionSite", f, cons, 4, states, <<"parity_N">>, <<2>>, <<<<0>>, <<1>>>>, ops, jw, C2(<<1>>))
         [] OTHER -> Table("FermionSite", f, cons, 4, states, <<>>, <<>>, <<<<>>, <<>>>>, ops, jw, C2None)

\* two modes (up before down): states empty(0,0) up(1,0) down(0,1) full(1,1) = index 1 + nu + 2 nd
NU(k) == (k - 1) % 2
ND(k) == (k - 1) \div 2
SHFOps(f) ==
    LET Cu == [p \in Idx2(4) |-> IF NU(p[2]) = 1 /\ p[1] = p[2] - 1 THEN One ELSE {}]       \* c_up: no mode before it
        \* c_down: sign (-1)^(n_up)  ("includes JWu")
        Cd == [p \in Idx2(4) |-> IF ND(p[2]) = 1 /\ p[1] = p[2] - 2 THEN Real(IF NU(p[2]) = 1 THEN -1 ELSE 1, 1, 4) ELSE {}]
        Cdu == MDag(Cu, 4, 4)
        Cdd == MDag(Cd, 4, 4)
        Nu == MMul(Cdu, Cu, 4, 4)
        Nd == MMul(Cdd, Cd, 4, 4)
        Ntot == MAdd(Nu, Nd, 4, 4)
        JWu == MSub(MId(4), MScale(Num(0, 2, 1), Nu, 4, 4), 4, 4)
        JWd == MSub(MId(4), MScale(Num(0, 2, 1), Nd, 4, 4), 4, 4)
        Sp == MMul(Cdu, Cd, 4, 4)
        Sm == MMul(Cdd, Cu, 4, 4)
    IN [Id |-> MId(4), JW |-> MMul(JWu, JWd, 4, 4), JWu |-> JWu, JWd |-> JWd, Cu |-> Cu, Cdu |-> Cdu, Cd |-> Cd, Cdd |-> Cdd,
        Nu |-> Nu, Nd |-> Nd, NuNd |-> MMul(Nu, Nd, 4, 4), Ntot |-> Ntot,
        dN |-> MSub(Ntot, MScale(Real(f[1], f[2], 4), MId(4), 4, 4), 4, 4),
        Sz |-> MScale(Num(0, 1, 2), MSub(Nu, Nd, 4, 4), 4, 4), Sp |-> Sp, Sm |-> Sm,
        Sx |-> MScale(Num(0, 1, 2), MAdd(Sp, Sm, 4, 4), 4, 4), Sy |-> MScale(Num(3, 1, 2), MSub(Sp, Sm, 4, 4), 4, 4)]
Restrict(A, d) == [p \in Idx2(d) |-> A[p]]
DropKeys(f, S) == [k \in DOMAIN f \ S |-> f[k]]
SHFCharges(consN, consSz, d) ==
    LET qn == (IF consN = "N" THEN <<"N">> ELSE IF consN = "parity" THEN <<"parity_N">> ELSE <<>>)
              \o (IF consSz = "Sz" THEN <<"2*Sz">> ELSE IF consSz = "parity" THEN <<"parity_Sz">> ELSE <<>>)
        qm == (IF consN = "N" THEN <<1>> ELSE IF consN = "parity" THEN <<2>> ELSE <<>>)
              \o (IF consSz = "Sz" THEN <<1>> ELSE IF consSz = "parity" THEN <<4>> ELSE <<>>)
        ch == [k \in 1..d |-> (IF consN \in {"N", "parity"} THEN <<NU(k) + ND(k)>> ELSE <<>>)
                               \o (IF consSz \in {"Sz", "parity"} THEN <<NU(k) - ND(k)>> ELSE <<>>)]
        c2 == IF consN \in {"N", "parity"} THEN (IF consSz \in {"Sz", "parity"} THEN C2(<<1, 0>>) ELSE C2(<<1>>)) ELSE C2None
    IN [qn |-> qn, qm |-> qm, ch |-> ch, c2 |-> c2]
SHFJW == {"Cu", "Cdu", "Cd", "Cdd", "JWu", "JWd", "JW"}
SpinHalfFermionTable(consN, consSz, f) ==
    LET q == SHFCharges(consN, consSz, 4)
        ops == IF consSz = "Sz" THEN DropKeys(SHFOps(f), {"Sx", "Sy"}) ELSE SHFOps(f)
        states == <<St(<<"empty">>, 0), St(<<"up">>, 1), St(<<"down">>, 1), St(<<"full">>, 2)>>
    IN Table("SpinHalfFermionSite", f, <<consN, consSz>>, 4, states, q.qn, q.qm, q.ch, ops, SHFJW, q.c2)
\* the same operators restricted to empty / singly occupied sites
SpinHalfHoleTable(consN, consSz, f) ==
    LET q == SHFCharges(consN, consSz, 3)
        full == DropKeys(SHFOps(f), {"NuNd"} \cup (IF consSz = "Sz" THEN {"Sx", "Sy"} ELSE {}))
        ops == [nm \in DOMAIN full |-> Restrict(full[nm], 3)]
        states == <<St(<<"empty">>, 0), St(<<"up">>, 1), St(<<"down">>, 1)>>
    IN Table("SpinHalfHoleSite", f, <<consN, consSz>>, 4, states, q.qn, q.qm, q.ch, ops, SHFJW, q.c2)

\* ---- bosons --------------------------------------------------------------------------------
BosonTable(Nmax, cons, f) ==
    LET d == Nmax + 1
        B == [p \in Idx2(d) |-> IF p[1] = p[2] - 1 THEN {MonoSqrt(0, p[2] - 1, 1)} ELSE {}]      \* b|n> = sqrt(n)|n-1>
        Bd == MDag(B, d, 4)
        N == MMul(Bd, B, d, 4)
        dN == MSub(N, MScale(Real(f[1], f[2], 4), MId(d), d, 4), d, 4)
        P == MDiag(d, LAMBDA k : Real(IF (k - 1) % 2 = 0 THEN 1 ELSE -1, 1, 4))
        ops == [Id |-> MId(d), JW |-> MId(d), B |-> B, Bd |-> Bd, N |-> N, NN |-> MMul(N, N, d, 4), dN |-> dN,
                dNdN |-> MMul(dN, dN, d, 4), P |-> P]
        states == [k \in 1..d |-> St(IF k = 1 THEN <<"vac">> ELSE <<>>, k - 1)]
        par == <<Nmax, f[1], f[2]>>
    IN CASE cons = "N" -> Table("BosonSite", par, cons, 4, states, <<"N">>, <<1>>, [k \in 1..d |-> <<k - 1>>], ops, {"JW"}, C2(<<0>>))
         [] cons = "dipole" -> Table("BosonSite", par, cons, 4, states, <<"N", "dipole">>, <<1, 1>>, [k \in 1..d |-> <<k - 1, 0>>], ops, {"JW"}, C2(<<0, 0>>))
         [] cons = "parity" -> Table("BosonSite", par, cons, 4, states, <<"parity_N">>, <<2>>, [k \in 1..d |-> <<(k - 1) % 2>>], ops, {"JW"}, C2(<<0>>))
         [] OTHER -> Table("BosonSite", par, cons, 4, states, <<>>, <<>>, [k \in 1..d |-> <<>>], ops, {"JW"}, C2(<<>>))

\* ---- clock ---------------------------------------------------------------------------------
\* phases are powers of w = exp(2 pi i / q):  Mod = q.   Z = diag(w^n),  X = eye(q, k=1) + eye(q, k=1-q)
ClockTable(q, cons) ==
    LET Z == MDiag(q, LAMBDA k : {Mono((k - 1) % q, 1, 1, 1)})
        X == [p \in Idx2(q) |-> IF p[2] - 1 = (p[1] - 1 + 1) % q THEN One ELSE {}]      \* X[i, i+1 mod q] = 1
        Xhc == MDag(X, q, q)
        Zhc == MDag(Z, q, q)
        base == [Id |-> MId(q), JW |-> MId(q), X |-> X, Z |-> Z, Xhc |-> Xhc, Zhc |-> Zhc]
        ops == IF cons = "Z" THEN base ELSE base @@ [Xphc |-> MAdd(X, Xhc, q, q), Zphc |-> MAdd(Z, Zhc, q, q)]
        states == [k \in 1..q |-> St(IF k = 1 THEN <<"up">> ELSE IF q % 2 = 0 /\ k - 1 = q \div 2 THEN <<"down">> ELSE <<>>, k - 1)]
    IN IF cons = "Z" THEN Table("ClockSite", <<q>>, cons, q, states, <<"clock_phase">>, <<q>>, [k \in 1..q |-> <<k - 1>>], ops, {"JW"}, C2None)
       ELSE Table("ClockSite", <<q>>, cons, q, states, <<>>, <<>>, [k \in 1..q |-> <<>>], ops, {"JW"}, C2None)


------------------------------------------------------------------------------
\* what is stored in the state (and compared with the implementation): operators as sparse tables,
\* plus the derived hermitian-conjugate pairs and operator charges
NoEdit == [kind |-> "none"]
HcPairs(T) == {pr \in (DOMAIN T.ops) \X (DOMAIN T.ops) : T.ops[pr[2]] = MDag(T.ops[pr[1]], T.d, T.Mod)}
Emit(T) ==
    [cls |-> T.cls, par |-> T.par, cons |-> T.cons, Mod |-> T.Mod, d |-> T.d, states |-> T.states,
     qnames |-> T.qnames, qmod |-> T.qmod, chg |-> T.chg, order |-> T.order, sorted |-> T.sorted,
     ops |-> [nm \in DOMAIN T.ops |-> Sparse(T.ops[nm])],
     hc |-> HcPairs(T),
     opq |-> [nm \in DOMAIN T.ops |-> OpCharges(T.ops[nm], T.chg, T.qmod)],
     jw |-> T.jw, c2jw |-> T.c2jw, edit |-> NoEdit]

\* dense matrix of a stored operator
Dense(sp, d) == Strict([p \in Idx2(d) |-> IF \E t \in sp : t[1] = p[1] /\ t[2] = p[2]
                                           THEN (CHOOSE t \in sp : t[1] = p[1] /\ t[2] = p[2])[3] ELSE {}], d)
Op(nm) == Dense(site.ops[nm], site.d)

------------------------------------------------------------------------------
\* set_common_charges and GroupedSite on stored tables
SpinConsSet == {"Sz", "parity", "None"}

\* catalogue of small heterogeneous sites offered for grouping
Cat == << Emit(SpinHalfTable("Sz")), Emit(SpinHalfTable("parity")), Emit(SpinTable(2, "Sz")), Emit(SpinTable(2, "parity")),
          Emit(FermionTable("N", <<1, 2>>)), Emit(FermionTable("parity", <<1, 2>>)), Emit(FermionTable("None", <<1, 2>>)),
          Emit(BosonTable(2, "N", <<0, 1>>)), Emit(BosonTable(2, "parity", <<0, 1>>)),
          Emit(SpinHalfFermionTable("N", "Sz", <<1, 1>>)), Emit(SpinHalfFermionTable("parity", "parity", <<1, 1>>)),
          Emit(SpinHalfHoleTable("N", "Sz", <<1, 1>>)), Emit(ClockTable(3, "Z")),
          \* members whose charges are NOT sorted (sort_charge=False): GroupedSite re-sorts local copies of them
          Emit(Unsorted(SpinHalfTable("Sz"))), Emit(Unsorted(SpinTable(2, "parity"))) >>

RECURSIVE Lcm3(_)
Lcm(a, b) == (a * b) \div Gcd(a, b)
Lcm3(sq) == IF sq = <<>> THEN 1 ELSE Lcm(Head(sq), Lcm3(Tail(sq)))

\* new_charges of set_common_charges: Seq of Seq of <<site, old charge index>>
RECURSIVE SameCharges(_, _, _, _)
SameCharges(tabs, s, i, acc) ==      \* acc: Seq of [name, parts]
    IF s > Len(tabs) THEN acc
    ELSE IF i > Len(tabs[s].qnames) THEN SameCharges(tabs, s + 1, 1, acc)
    ELSE LET nm == tabs[s].qnames[i]
             hit == {k \in 1..Len(acc) : acc[k].name = nm}
         IN IF hit = {} THEN SameCharges(tabs, s, i + 1, Append(acc, [name |-> nm, parts |-> <<<<s, i>>>>]))
            ELSE LET k == CHOOSE k \in hit : TRUE IN
                 SameCharges(tabs, s, i + 1, [acc EXCEPT ![k].parts = Append(@, <<s, i>>)])
RECURSIVE IndepCharges(_, _, _, _)
IndepCharges(tabs, s, i, acc) ==
    IF s > Len(tabs) THEN acc
    ELSE IF i > Len(tabs[s].qnames) THEN IndepCharges(tabs, s + 1, 1, acc)
    ELSE IndepCharges(tabs, s, i + 1, Append(acc, [name |-> tabs[s].qnames[i], parts |-> <<<<s, i>>>>]))
\* "diff": one explicit new charge  q = (first charge of site 0) - (first charge of site 1), i.e. the list
\* new_charges = [[(1, 0, 0), (-1, 1, 0)]]  (like 2*Sz = N_up - N_down of spin_half_species); a part is <<site, index, factor>>
NewCharges(tabs, pol) == CASE pol = "same" -> SameCharges(tabs, 1, 1, <<>>)
                           [] pol = "diff" -> <<[name |-> tabs[1].qnames[1], parts |-> <<<<1, 1, 1>>, <<2, 1, -1>>>>]>>
                           [] pol = "independent" -> IndepCharges(tabs, 1, 1, <<>>)
                           [] OTHER -> <<>>
SumParts(parts, s, q) ==      \* contribution of site s with old charge vector q
    LET mine == {k \in 1..Len(parts) : parts[k][1] = s} IN
    IF mine = {} THEN 0 ELSE LET pt == parts[CHOOSE k \in mine : TRUE] IN      \* a site contributes at most once per new charge here
                             (IF Len(pt) = 3 THEN pt[3] ELSE 1) * q[pt[2]]
SetCommon(tabs, pol) ==
    LET nc == NewCharges(tabs, pol)
        qmod == [k \in 1..Len(nc) |-> tabs[nc[k].parts[1][1]].qmod[nc[k].parts[1][2]]]
        err == \E k \in 1..Len(nc) : \E j \in 1..Len(nc[k].parts) : tabs[nc[k].parts[j][1]].qmod[nc[k].parts[j][2]] # qmod[k]
        newchg(s) == [x \in 1..tabs[s].d |-> ValidQ([k \in 1..Len(nc) |-> SumParts(nc[k].parts, s, tabs[s].chg[x])], qmod)]
    IN [kind |-> "common", pol |-> pol, err |-> err,      \* "Charges which get combined have different `mod` nature!"
        qnames |-> [k \in 1..Len(nc) |-> nc[k].name], qmod |-> qmod,
        tabs |-> IF err THEN <<>> ELSE
                 [s \in 1..Len(tabs) |-> [chg |-> newchg(s), order |-> SortOrder(tabs[s].order, newchg(s))]]]

\* product basis: member state indices (conserve=None order of each member), row-major
RECURSIVE ProdDim(_)
ProdDim(ds) == IF ds = <<>> THEN 1 ELSE Head(ds) * ProdDim(Tail(ds))
RECURSIVE Unravel(_, _)
Unravel(x0, ds) ==        \* 0-based flat index -> Seq of 1-based member indices
    IF ds = <<>> THEN <<>> ELSE LET r == ProdDim(Tail(ds)) IN <<(x0 \div r) + 1>> \o Unravel(x0 % r, Tail(ds))
Rescale(e, Mod, ModG) == {[m EXCEPT !.ph = m.ph * (ModG \div Mod)] : m \in e}
Kron2(A, B, dB, ModG) == {<<(a[1] - 1) * dB + b[1], (a[2] - 1) * dB + b[2], EMul(a[3], b[3], ModG)>> : a \in A, b \in B}
RECURSIVE KronSeq(_, _, _)
KronSeq(sps, ds, ModG) == IF Len(sps) = 1 THEN sps[1]
                          ELSE Kron2(sps[1], KronSeq(Tail(sps), Tail(ds), ModG), ProdDim(Tail(ds)), ModG)
RECURSIVE ConcatAll(_)
ConcatAll(sq) == IF sq = <<>> THEN <<>> ELSE Head(sq) \o ConcatAll(Tail(sq))
RECURSIVE SumQ(_, _)
SumQ(qs, k) == IF qs = <<>> THEN 0 ELSE Head(qs)[k] + SumQ(Tail(qs), k)

\* ms: Seq of member views [d, Mod, qnames, qmod, chg, ops, jw]  (charges possibly replaced by SetCommon)
GroupTab(ms, pol) ==
    LET n == Len(ms)
        ds == [s \in 1..n |-> ms[s].d]
        D == ProdDim(ds)
        ModG == Lcm3([s \in 1..n |-> ms[s].Mod])
        sp(s, nm) == {<<t[1], t[2], Rescale(t[3], ms[s].Mod, ModG)>> : t \in ms[s].ops[nm]}
        same == \A s \in 2..n : ms[s].qnames = ms[1].qnames /\ ms[s].qmod = ms[1].qmod
        err == pol = "same" /\ ~same                     \* sites must share their ChargeInfo
        qnames == CASE pol = "same" -> ms[1].qnames [] pol = "drop" -> <<>> [] OTHER -> ConcatAll([s \in 1..n |-> ms[s].qnames])
        qmod == CASE pol = "same" -> ms[1].qmod [] pol = "drop" -> <<>> [] OTHER -> ConcatAll([s \in 1..n |-> ms[s].qmod])
        idx(x) == Unravel(x - 1, ds)
        chg == [x \in 1..D |->
                  CASE pol = "same" -> ValidQ([k \in 1..Len(qmod) |-> SumQ([s \in 1..n |-> ms[s].chg[idx(x)[s]]], k)], qmod)
                    [] pol = "drop" -> <<>>
                    [] OTHER -> ConcatAll([s \in 1..n |-> ms[s].chg[idx(x)[s]]])]
        \* operator nm of member s: JW of the members left of it is folded in if nm needs a JW string
        one(s, nm) == KronSeq([s2 \in 1..n |-> IF s2 = s THEN sp(s, nm)
                                               ELSE IF s2 < s /\ nm \in ms[s].jw THEN sp(s2, "JW") ELSE sp(s2, "Id")], ds, ModG)
        ops == UNION {{[nm |-> nm, m |-> s - 1, jw |-> nm \in ms[s].jw, sp |-> one(s, nm)] : nm \in (DOMAIN ms[s].ops) \ {"Id"}} :
                         s \in 1..n}
        \* charge_to_JW_parity of the grouped site: inherited only where that is sound -- 'same': all members have the
        \* *same* vector (a bosonic member sharing the charge of a fermionic one makes the charge useless for JW signs);
        \* 'independent': concatenation; "unknown": left to the harness' semantic comparison (after set_common_charges)
        defd == \A s \in 1..n : ms[s].c2jw.def = "yes"
        c2jw == CASE \E s \in 1..n : ms[s].c2jw.def = "unknown" -> C2Unknown
                  [] pol = "same" -> IF defd /\ \A s \in 2..n : ms[s].c2jw = ms[1].c2jw THEN ms[1].c2jw ELSE C2None
                  [] pol = "independent" -> IF defd THEN C2(ConcatAll([s \in 1..n |-> ms[s].c2jw.v])) ELSE C2None
                  [] OTHER -> C2None
    IN [kind |-> "group", pol |-> pol, err |-> err, D |-> D, Mod |-> ModG, ds |-> ds, c2jw |-> IF err THEN C2None ELSE c2jw,
        qnames |-> IF err THEN <<>> ELSE qnames, qmod |-> IF err THEN <<>> ELSE qmod,
        chg |-> IF err THEN <<>> ELSE chg,
        ops |-> IF err THEN {} ELSE
                ops
                \cup {[nm |-> "Id", m |-> -1, jw |-> FALSE, sp |-> KronSeq([s \in 1..n |-> sp(s, "Id")], ds, ModG)],
                      [nm |-> "JW", m |-> -1, jw |-> TRUE, sp |-> KronSeq([s \in 1..n |-> sp(s, "JW")], ds, ModG)]}]

View(T) == [d |-> T.d, Mod |-> T.Mod, qnames |-> T.qnames, qmod |-> T.qmod, chg |-> T.chg, ops |-> T.ops, jw |-> T.jw, c2jw |-> T.c2jw]
MemberViews == [s \in 1..Len(members) |-> View(Cat[members[s]])]
CommonViews(c) == [s \in 1..Len(members) |-> [View(Cat[members[s]]) EXCEPT !.qnames = c.qnames, !.qmod = c.qmod, !.chg = c.tabs[s].chg, !.c2jw = C2Unknown]]

------------------------------------------------------------------------------
Init == site = NoSite /\ members = <<>> /\ grp = NoGrp /\ last = [op |-> "init"]

Fresh == site = NoSite /\ members = <<>>
Built(T, nm) == site' = Emit(T) /\ last' = [op |-> nm] /\ UNCHANGED <<members, grp>>

NewSpinHalf == Fresh /\ \E cons \in SpinConsSet, srt \in BOOLEAN :
                    Built(IF srt THEN SpinHalfTable(cons) ELSE Unsorted(SpinHalfTable(cons)), "SpinHalfSite")
NewSpin == Fresh /\ \E twoS \in 1..MaxTwoS, cons \in SpinConsSet \cup {"dipole"}, srt \in BOOLEAN :
                    /\ (~srt => cons = "parity")
                    /\ Built(IF srt THEN SpinTable(twoS, cons) ELSE Unsorted(SpinTable(twoS, cons)), "SpinSite")
NewFermion == Fresh /\ \E cons \in {"N", "parity", "None"}, f \in Fillings : Built(FermionTable(cons, f), "FermionSite")
NewSpinHalfFermion == Fresh /\ \E cn \in {"N", "parity", "None"}, cs \in SpinConsSet, f \in Fillings :
                                Built(SpinHalfFermionTable(cn, cs, f), "SpinHalfFermionSite")
NewSpinHalfHole == Fresh /\ \E cn \in {"N", "parity", "None"}, cs \in SpinConsSet, f \in Fillings :
                                Built(SpinHalfHoleTable(cn, cs, f), "SpinHalfHoleSite")
NewBoson == Fresh /\ \E nmax \in 1..MaxBoson, cons \in {"N", "parity", "None", "dipole"}, f \in Fillings :
                                Built(BosonTable(nmax, cons, f), "BosonSite")
NewClock == Fresh /\ \E q \in 2..MaxClock, cons \in {"Z", "None"} : Built(ClockTable(q, cons), "ClockSite")

\* groupings: pick 2..MaxGroup catalogue sites, then one charge policy
Pick == /\ site = NoSite /\ grp = NoGrp /\ Len(members) < MaxGroup
        /\ \E c \in 1..Len(Cat) :
              /\ ProdDim([s \in 1..Len(members) |-> Cat[members[s]].d]) * Cat[c].d <= 24
              /\ (Len(members) = 2 => (c <= 8 /\ members[1] <= 8 /\ members[2] <= 8))
              /\ members' = Append(members, c)
        /\ last' = [op |-> "pick"] /\ UNCHANGED <<site, grp>>
Pols == {"same", "independent", "drop"}
DoSetCommon == /\ Len(members) >= 2 /\ grp = NoGrp
               /\ \E pol \in Pols \cup {"diff"} :
                     /\ pol = "diff" => (Len(members) = 2 /\ \A s \in 1..2 : Len(Cat[members[s]].qnames) >= 1)
                     /\ grp' = SetCommon([s \in 1..Len(members) |-> Cat[members[s]]], pol)
               /\ last' = [op |-> "set_common_charges"] /\ UNCHANGED <<site, members>>
DoGroup == /\ Len(members) >= 2 /\ grp = NoGrp
           /\ \E pol \in Pols : grp' = GroupTab(MemberViews, pol)
           /\ last' = [op |-> "GroupedSite"] /\ UNCHANGED <<site, members>>
\* the documented way for heterogeneous sites: set_common_charges first, then GroupedSite(charges='same')
DoCommonThenGroup ==
           /\ Len(members) >= 2 /\ grp = NoGrp
           /\ \E pol \in Pols : LET c == SetCommon([s \in 1..Len(members) |-> Cat[members[s]]], pol) IN
                 /\ ~c.err
                 /\ grp' = [GroupTab(CommonViews(c), "same") EXCEPT !.kind = "common+group", !.pol = pol]
           /\ last' = [op |-> "set_common_charges+GroupedSite"] /\ UNCHANGED <<site, members>>

\* ---- the operator bookkeeping of a site as a small state machine: Site.rename_op / remove_op / add_op on a built site.
\* matrix, charge, need_JW flag and hermitian-conjugate pairing follow the operator.
DagSp(sp, Mod) == {<<t[2], t[1], EConj(t[3], Mod)>> : t \in sp}
HcPairsSp(ops, Mod) == {pr \in (DOMAIN ops) \X (DOMAIN ops) : ops[pr[2]] = DagSp(ops[pr[1]], Mod)}
Editable == site # NoSite /\ site.edit.kind = "none" /\ members = <<>>
            /\ (site.cls \in {"FermionSite", "SpinHalfSite", "ClockSite"}
                \/ (site.cls = "SpinHalfFermionSite" /\ site.cons = <<"N", "Sz">>)
                \/ (site.cls = "BosonSite" /\ site.par[1] = 1))
Edited(ops, opq, jw, ed) ==
    /\ site' = [site EXCEPT !.ops = ops, !.opq = opq, !.jw = jw, !.hc = HcPairsSp(ops, site.Mod), !.edit = ed]
    /\ UNCHANGED <<members, grp>>
EditNames == (DOMAIN site.ops) \ {"Id", "JW", "JWu", "JWd"}
\* site.rename_op(old, "Renamed")
RenameOp == /\ Editable
            /\ \E old \in EditNames :
                 LET new == "Renamed"
                     names == ((DOMAIN site.ops) \ {old}) \cup {new}
                     src(nm) == IF nm = new THEN old ELSE nm
                 IN Edited([nm \in names |-> site.ops[src(nm)]], [nm \in names |-> site.opq[src(nm)]],
                           (site.jw \ {old}) \cup (IF old \in site.jw THEN {new} ELSE {}),
                           [kind |-> "rename", old |-> old, new |-> new, wasjw |-> old \in site.jw, sp |-> site.ops[old]])
            /\ last' = [op |-> "rename_op"]
\* site.remove_op(nm)
RemoveOp == /\ Editable
            /\ \E old \in EditNames :
                 LET names == (DOMAIN site.ops) \ {old} IN
                 Edited([nm \in names |-> site.ops[nm]], [nm \in names |-> site.opq[nm]], site.jw \ {old},
                        [kind |-> "remove", old |-> old, new |-> old, wasjw |-> old \in site.jw, sp |-> site.ops[old]])
            /\ last' = [op |-> "remove_op"]
\* site.add_op("Added", <matrix of src>, need_JW = <flag of src>)   (hc auto-determined)
AddOp == /\ Editable
         /\ \E old \in EditNames :
                 LET new == "Added"
                     names == (DOMAIN site.ops) \cup {new}
                     src(nm) == IF nm = new THEN old ELSE nm
                 IN Edited([nm \in names |-> site.ops[src(nm)]], [nm \in names |-> site.opq[src(nm)]],
                           site.jw \cup (IF old \in site.jw THEN {new} ELSE {}),
                           [kind |-> "add", old |-> old, new |-> new, wasjw |-> old \in site.jw, sp |-> site.ops[old]])
         /\ last' = [op |-> "add_op"]

Next == RenameOp \/ RemoveOp \/ AddOp \/ NewSpinHalf \/ NewSpin \/ NewFermion \/ NewSpinHalfFermion \/ NewSpinHalfHole \/ NewBoson \/ NewClock
        \/ Pick \/ DoSetCommon \/ DoGroup \/ DoCommonThenGroup
Spec == Init /\ [][Next]_vars

------------------------------------------------------------------------------
\* Theorems.  All matrix identities are exact (canonical entries).
AnySite == site # NoSite
IsSite == site # NoSite /\ site.edit.kind = "none"             \* a site as built by its class
d == site.d
Md == site.Mod
Has(nm) == nm \in DOMAIN site.ops
R(p, q) == MScale(Real(p, q, Md), MId(d), d, Md)            \* rational multiple of the identity
I1 == Num(1, 1, 1)                                           \* the imaginary unit (Mod = 4)
Eq(A, B) == \A p \in Idx2(d) : A[p] = B[p]
Zero(A) == \A p \in Idx2(d) : A[p] = {}

\* hermitian conjugates: every operator has its conjugate among the named operators
HcComplete == IsSite => \A a \in DOMAIN site.ops : \E b \in DOMAIN site.ops : <<a, b>> \in site.hc
\* every named operator carries one definite charge: charge(to) - charge(from) is the same for all its entries
ChargeRule == AnySite => \A nm \in DOMAIN site.ops : Cardinality(site.opq[nm]) <= 1
\* the sorted basis is a permutation of the documented one, with non-decreasing charges
PermRule == AnySite =>
    /\ {site.order[k] : k \in 1..d} = 1..d
    /\ site.sorted => \A k \in 1..(d - 1) : ~QLess(site.chg[site.order[k + 1]], site.chg[site.order[k]])
\* operators flagged as fermionic are exactly those changing the fermion number by an odd amount (plus the JW signs)
JWFlags == (AnySite /\ site.cls \in {"FermionSite", "SpinHalfFermionSite", "SpinHalfHoleSite"}) =>
    LET JW == Op("JW") IN
    \A nm \in DOMAIN site.ops :
        LET A == Op(nm) IN
        IF nm \in {"JW", "JWu", "JWd"} THEN nm \in site.jw
        ELSE (nm \in site.jw) <=> (~Zero(A) /\ Zero(AComm(JW, A, d, Md)))      \* odd operators anticommute with (-1)^N

SpinAlgebra == (IsSite /\ Has("Sp") /\ Has("Sm") /\ Has("Sz")) =>
    LET Sp == Op("Sp")  Sm == Op("Sm")  Sz == Op("Sz") IN
    /\ Eq(Comm(Sp, Sm, d, Md), MScale(Num(0, 2, 1), Sz, d, Md))
    /\ Eq(Comm(Sz, Sp, d, Md), Sp)
    /\ Eq(Comm(Sz, Sm, d, Md), MNeg(Sm, d, Md))
    /\ (Has("Sx") /\ Has("Sy")) =>
         LET Sx == Op("Sx")  Sy == Op("Sy") IN
         /\ Eq(Comm(Sx, Sy, d, Md), MScale(I1, Sz, d, Md))
         /\ Eq(Comm(Sy, Sz, d, Md), MScale(I1, Sx, d, Md))
         /\ Eq(Comm(Sz, Sx, d, Md), MScale(I1, Sy, d, Md))
         /\ Eq(MAdd(Sx, MScale(I1, Sy, d, Md), d, Md), Sp)
    /\ (site.cls = "SpinSite") =>       \* Casimir S(S+1)
         Eq(MAdd(MMul(Sz, Sz, d, Md), MScale(Num(0, 1, 2), AComm(Sp, Sm, d, Md), d, Md), d, Md),
            R(site.par[1] * (site.par[1] + 2), 4))
    /\ (site.cls = "SpinHalfSite") =>
         /\ Eq(Op("Sigmaz"), MScale(Num(0, 2, 1), Sz, d, Md))
         /\ Eq(MMul(Op("Sigmaz"), Op("Sigmaz"), d, Md), MId(d))
         /\ Has("Sigmax") => /\ Eq(MMul(Op("Sigmax"), Op("Sigmay"), d, Md), MScale(I1, Op("Sigmaz"), d, Md))
                             /\ Eq(MMul(Op("Sigmax"), Op("Sigmax"), d, Md), MId(d))

FermionAlgebra == (IsSite /\ site.cls = "FermionSite") =>
    LET C == Op("C")  Cd == Op("Cd")  N == Op("N")  JW == Op("JW") IN
    /\ Eq(AComm(C, Cd, d, Md), MId(d))
    /\ Zero(MMul(C, C, d, Md)) /\ Zero(MMul(Cd, Cd, d, Md))
    /\ Eq(MMul(Cd, C, d, Md), N)
    /\ Zero(AComm(JW, C, d, Md)) /\ Zero(AComm(JW, Cd, d, Md)) /\ Eq(MMul(JW, JW, d, Md), MId(d))
    /\ Eq(MAdd(Op("dN"), R(site.par[1], site.par[2]), d, Md), N)
    /\ Eq(MMul(Op("dN"), Op("dN"), d, Md), Op("dNdN"))

SpinfulAlgebra == (IsSite /\ site.cls \in {"SpinHalfFermionSite", "SpinHalfHoleSite"}) =>
    LET Cu == Op("Cu")  Cdu == Op("Cdu")  Cd == Op("Cd")  Cdd == Op("Cdd")  JW == Op("JW")
        Nu == Op("Nu")  Nd == Op("Nd")
        full == site.cls = "SpinHalfFermionSite"
    IN
    \* CAR on the site (on the hole site projected on no double occupancy)
    /\ Eq(AComm(Cu, Cdu, d, Md), IF full THEN MId(d) ELSE MSub(MId(d), Nd, d, Md))
    /\ Eq(AComm(Cd, Cdd, d, Md), IF full THEN MId(d) ELSE MSub(MId(d), Nu, d, Md))
    /\ Zero(AComm(Cu, Cd, d, Md)) /\ Zero(AComm(Cdu, Cdd, d, Md))
    /\ (full => Zero(AComm(Cu, Cdd, d, Md)) /\ Zero(AComm(Cdu, Cd, d, Md)))
    /\ Zero(MMul(Cu, Cu, d, Md)) /\ Zero(MMul(Cd, Cd, d, Md))
    /\ Eq(MMul(Cdu, Cu, d, Md), Nu) /\ Eq(MMul(Cdd, Cd, d, Md), Nd)
    /\ Eq(MAdd(Nu, Nd, d, Md), Op("Ntot"))
    /\ (full => Eq(MMul(Nu, Nd, d, Md), Op("NuNd")))
    /\ (~full => Zero(MMul(Nu, Nd, d, Md)))
    /\ \A nm \in {"Cu", "Cdu", "Cd", "Cdd"} : Zero(AComm(JW, Op(nm), d, Md))
    /\ Eq(MMul(Op("JWu"), Op("JWd"), d, Md), JW) /\ Eq(MMul(JW, JW, d, Md), MId(d))
    /\ Eq(Op("Sp"), MMul(Cdu, Cd, d, Md)) /\ Eq(Op("Sm"), MMul(Cdd, Cu, d, Md))
    /\ Eq(MScale(Num(0, 2, 1), Op("Sz"), d, Md), MSub(Nu, Nd, d, Md))
    /\ Eq(MAdd(Op("dN"), R(site.par[1], site.par[2]), d, Md), Op("Ntot"))

BosonAlgebra == (IsSite /\ site.cls = "BosonSite") =>
    LET B == Op("B")  Bd == Op("Bd")  N == Op("N")  P == Op("P")
        cm == Comm(B, Bd, d, Md)
    IN
    \* [b, b+] = 1 below the cutoff; the truncation shows up only in the last state
    /\ \A p \in Idx2(d) : cm[p] = (IF p[1] # p[2] THEN {} ELSE IF p[1] < d THEN One ELSE Real(-(d - 1), 1, Md))
    /\ \A p \in Idx2(d) : N[p] = (IF p[1] = p[2] THEN Real(p[1] - 1, 1, Md) ELSE {})
    /\ Eq(Comm(N, B, d, Md), MNeg(B, d, Md))
    /\ Eq(MMul(N, N, d, Md), Op("NN"))
    /\ Zero(AComm(P, B, d, Md)) /\ Eq(MMul(P, P, d, Md), MId(d))
    /\ Eq(MAdd(Op("dN"), R(site.par[2], site.par[3]), d, Md), N)
    /\ Eq(MMul(Op("dN"), Op("dN"), d, Md), Op("dNdN"))

RECURSIVE MPow(_, _)
MPow(A, n) == IF n = 0 THEN MId(d) ELSE MMul(A, MPow(A, n - 1), d, Md)
ClockAlgebra == (IsSite /\ site.cls = "ClockSite") =>
    LET X == Op("X")  Z == Op("Z")  w == {Mono(1 % Md, 1, 1, 1)} IN
    /\ Eq(MMul(X, Z, d, Md), MScale(w, MMul(Z, X, d, Md), d, Md))          \* X Z = w Z X
    /\ Eq(MPow(X, d), MId(d)) /\ Eq(MPow(Z, d), MId(d))
    /\ Eq(MMul(Op("Xhc"), X, d, Md), MId(d)) /\ Eq(MMul(Op("Zhc"), Z, d, Md), MId(d))
    /\ Has("Xphc") => /\ Eq(Op("Xphc"), MAdd(X, Op("Xhc"), d, Md))
                      /\ Eq(Op("Zphc"), MAdd(Z, Op("Zhc"), d, Md))

\* renaming / copying / removing: matrix, JW flag and hermitian-conjugate pairing follow the operator
EditRule == (AnySite /\ site.edit.kind # "none") =>
    LET e == site.edit IN
    /\ (e.kind \in {"rename", "remove"}) => (e.old \notin DOMAIN site.ops /\ e.old \notin site.jw /\ \A pr \in site.hc : e.old \notin {pr[1], pr[2]})
    /\ (e.kind \in {"rename", "add"}) =>
          /\ site.ops[e.new] = e.sp
          /\ (e.new \in site.jw) = e.wasjw
          /\ \A b \in DOMAIN site.ops : (<<e.new, b>> \in site.hc) = (site.ops[b] = DagSp(e.sp, site.Mod))
          /\ Cardinality(site.opq[e.new]) <= 1
    /\ site.jw \subseteq DOMAIN site.ops

\* groupings: charges of the product states are sorted consistently and every grouped operator has a definite charge
GroupChargeRule == (grp.kind \in {"group", "common+group"} /\ ~grp.err) =>
    \A o \in grp.ops :
        Cardinality({ValidQ([k \in 1..Len(grp.qmod) |-> grp.chg[t[1]][k] - grp.chg[t[2]][k]], grp.qmod) : t \in o.sp}) <= 1
\* an inherited charge_to_JW_parity reproduces the JW operator of the grouped site:  (-1)^(charges . c2jw) = diag(JW)
RECURSIVE Dot(_, _, _)
Dot(a, b, k) == IF k = 0 THEN 0 ELSE a[k] * b[k] + Dot(a, b, k - 1)
GroupJWParity == (grp.kind \in {"group", "common+group"} /\ ~grp.err /\ grp.c2jw.def = "yes") =>
    LET jw == (CHOOSE o \in grp.ops : o.nm = "JW" /\ o.m = -1).sp IN
    \A t \in jw : t[1] = t[2] /\ t[3] = (IF Dot(grp.chg[t[1]], grp.c2jw.v, Len(grp.c2jw.v)) % 2 = 0 THEN One
                                          ELSE {Mono(Half(grp.Mod), 1, 1, 1)})
\* the folded JW strings make fermionic operators of different members anticommute
GroupAnticommute == (grp.kind \in {"group", "common+group"} /\ ~grp.err /\ grp.D <= 8) =>
    \A o1 \in grp.ops, o2 \in grp.ops :
        (o1.m >= 0 /\ o2.m >= 0 /\ o1.m < o2.m /\ o1.jw /\ o2.jw /\ o1.nm \notin {"JW", "JWu", "JWd"} /\ o2.nm \notin {"JW", "JWu", "JWd"}) =>
            LET D == grp.D
                A == Strict([p \in Idx2(D) |-> IF \E t \in o1.sp : t[1] = p[1] /\ t[2] = p[2]
                                               THEN (CHOOSE t \in o1.sp : t[1] = p[1] /\ t[2] = p[2])[3] ELSE {}], D)
                B == Strict([p \in Idx2(D) |-> IF \E t \in o2.sp : t[1] = p[1] /\ t[2] = p[2]
                                               THEN (CHOOSE t \in o2.sp : t[1] = p[1] /\ t[2] = p[2])[3] ELSE {}], D)
            IN \A p \in Idx2(D) : MulSum(A, B, p[1], p[2], 1, <<D, grp.Mod>>) = EMul(Real(-1, 1, grp.Mod), MulSum(B, A, p[1], p[2], 1, <<D, grp.Mod>>), grp.Mod)
=============================================================================
