"""C07: an MPS always denotes the state it was built from.

MC: TLC checks spec/MPSState.tla (representation invariant Rep, exact-domain invariant Divisible, form
conversions as stuttering steps, get_B invariance) on small integer instances: every boundary condition,
non-uniform bond dimensions, mixed canonical forms, charge sectors, all constructor routes, all sequences of
form conversions up to a bound.
REPLAY: every behaviour of the state-cover dump is stepped through the real tenpy.networks.mps.MPS; after every
step the harness' own contraction of psi._B / psi._S / psi.form (harness/mps.py) is compared with the spec's psi:
bit-exact on the multilinear routes, by the relations stated in the spec actions (proportionality, norm relation,
norm_test, Schmidt moments from the exact reduced density matrices) on the routes through SVD / QR.
"""
import shutil
import time

from harness import core, tlc, tlaval
from harness import mps as hm

SPEC = 'MPSState'
INVARIANTS = ['Rep', 'Divisible', 'Shape']
PROPERTIES = ['FormStutter', 'GetBInvariant']
ALL_CTORS = {'new', 'product', 'latproduct', 'singlets', 'covering', 'full', 'bflat'}


def cfg(seed, sample, maxl, maxconv, ctors, acts, bcs=('finite', 'segment', 'infinite')):
    return dict(spec='Spec', constants=dict(Seed=seed, Sample=sample, MaxL=maxl, MaxConv=maxconv, BCs=set(bcs),
                                            Ctors=set(ctors), Acts=set(acts)),
                invariants=INVARIANTS, properties=PROPERTIES, view='AbsView')


def is_leaf(st):
    if st['phase'] == 'done':
        return True
    return st['phase'] == 'live' and not st['R'].get('known', False)


class _Shadow:
    """context that only records whether a violation was raised (canary)"""

    def __init__(self, ctx):
        self.seed = ctx.seed
        self.tier = ctx.tier
        self.hits = []

    def violation(self, sig, detail):
        self.hits.append(sig)
        return True

    def case(self, *a, **k):
        pass


def canary(ctx, hist, spec, handlers):
    """corrupt one predicted amplitude of a behaviour: the replay has to reject it"""
    import copy
    h = copy.deepcopy(hist)
    for st in h:
        val = st['o']['psi']['val']
        if val and st['o']['mode'] in ('raw', 'unit'):
            k = max(range(len(val)), key=lambda j: abs(val[j][0]) + abs(val[j][1]))
            val[k] = [val[k][0] + 1, val[k][1] - 2] if st['o']['mode'] == 'raw' else [-3 * val[k][0] - 1, val[k][1] + 5]
            break
    else:
        return False
    sh = _Shadow(ctx)
    rp = hm.Replay(sh, spec, handlers, 'canary')
    try:
        rp.run(h)
    except core.MachineryError:
        raise
    except Exception:
        pass
    if not sh.hits:
        raise core.MachineryError('canary: a corrupted predicted state was accepted by the replay (%s)' % spec)
    ctx.notes['canary_corrupted_prediction_rejected'] = ctx.notes.get('canary_corrupted_prediction_rejected', 0) + 1
    return True


def mc_and_replay(ctx, name, c, spec=SPEC, handlers=None, leaf=is_leaf, sample_every=200, workers=6):
    handlers = handlers or hm.BASE_HANDLERS
    # recursive sums over a few hundred tensor entries: give the TLC worker threads a deeper stack
    res, dump, d = tlc.mc(spec, c, dump=True, workers=workers, env={'JAVA_TOOL_OPTIONS': '-Xss64m'})
    try:
        ctx.add_mc(name, res)
        if res.violated:
            ctx.violation(dict(kind='mc', spec=spec, invariant=res.violated[0]),
                          dict(run=name, trace=tlaval.to_jsonable(res.error_trace)))
        n = 0
        for st in tlaval.iter_dump(dump):
            if not st['hist'] or not leaf(st):
                continue
            n += 1
            rp = hm.Replay(ctx, spec, handlers, '%s/%d' % (name, n))
            try:
                rp.run(st['hist'])
            except core.MachineryError:
                raise
            except Exception as e:  # an exception of the code under test is an observable result
                import traceback
                rp.violation(st['hist'][rp.step]['l']['op'], 'exception',
                             dict(error=repr(e), tb=traceback.format_exc()[-1500:]), error=type(e).__name__)
            ctx.trace_ok(1)
            if n in (3, 40):
                canary(ctx, st['hist'], spec, handlers)
            if n % sample_every == 1:
                ctx.sample(dict(spec=spec, run=name, behaviour=[tlaval.to_jsonable(x['l'].get('op')) for x in st['hist']],
                                last=tlaval.to_jsonable(st['last'])))
        return n
    finally:
        shutil.rmtree(d, ignore_errors=True)


def check(ctx):
    quick = ctx.tier == 'quick'
    seed = ctx.seed % 1000
    ctx.rule = ('behaviours = paths of the TLC state-cover dump (constructor, <=MaxConv form conversions / set_B, then '
                'observers or canonical_form); a case is one replayed step or one compared observer value; distinct = '
                'distinct (behaviour, step, observer arguments)')
    ctx.assume('TLC model checker', 'projection harness/mps.py:dense_from_mps (explicit contraction of psi._B, psi._S, psi.form)',
               'specification modules MPSState, Dense, Exact', 'float64 is exact on Gaussian dyadic rationals of this size')
    ctx.exhaustive = False   # instances are a seeded sample of the case catalogue; operations on them are enumerated exhaustively
    t0 = time.time()
    acts = {'convert', 'setB', 'observe', 'canonical'}
    # wide: every constructor route, one state-changing step
    n1 = mc_and_replay(ctx, 'wide', cfg(seed, 151 if quick else 19, 4, 1, ALL_CTORS, acts))
    # deep: all sequences of <= 3 form conversions on raw-tensor MPS
    n2 = 0
    for k in range(3):   # densify the seeded sample if it left no case
        n2 += mc_and_replay(ctx, 'deep' if k == 0 else 'deep+%d' % k,
                            cfg(seed, max(2, (251 if quick else 31) // 5 ** k), 3, 3, {'new'}, {'convert', 'observe'}))
        if n2 > 0:
            break
    # repeated canonicalization of a segment (canonical_form inside non-unitary apply_local_op, spec MPSTransform): the state
    # is compared in the fixed outer Schmidt bases, U_L . psi . V_R with the accumulated segment_boundaries
    from checks import c09
    n3 = 0
    for k in range(4):
        n3 += mc_and_replay(ctx, 'segment-recanon' if k == 0 else 'segment-recanon+%d' % k,
                            c09.cfg(seed, max(2, (401 if quick else 53) // 2 ** k), 3, 2, ops={'apply_local_op', 'canonical_form', 'convert_form'},
                                    bcs=('segment',)),
                            spec=c09.SPEC, handlers=c09.HANDLERS, leaf=c09.leaf(2))
        if n3 > 0:
            break
    ctx.notes['uncovered_actions'] = sorted(a for a in ('DoNew', 'DoProduct', 'DoLatProduct', 'DoSinglets', 'DoCovering', 'DoFromFull',
                                                        'DoFromBflat', 'DoConvert', 'DoSetB', 'DoObserve', 'DoCanonical')
                                            if ctx.coverage_actions.get(a, (0, 0))[0] == 0)
    ctx.notes['behaviours'] = dict(wide=n1, deep=n2, segment_recanon=n3)
    ctx.notes['replay_wall_s'] = round(time.time() - t0, 1)


if __name__ == '__main__':
    core.main_wrapper('C07', check)
