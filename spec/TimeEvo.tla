------------------------------- MODULE TimeEvo -------------------------------
(* Accounting state machine of tenpy's time-evolution engines (property C14):

     TimeEvolutionAlgorithm.run / run_evolution / prepare_evolve / evolve / evolve_step,
     TimeDependentHAlgorithm.run_evolution / reinit_model,
     TEBDEngine (suzuki_trotter_time_steps / _decomposition, calc_U, evolve, evolve_step, update_bond),
     TDVPEngine.evolve + Sweep.sweep + update_local (Krylov forward / backward steps),
     ExpMPOEvolution.calc_U / evolve_step (MPO.apply).

   One named action per operation of the implementation.  What is abstracted away is the MPS itself;
   what is kept is exactly what the property talks about:
     t          the advertised evolved_time                   (in units of a base step dt0, <<re, im>>)
     bondT      for every "unit" (TEBD: bond, ExpMPO: the chain, TDVP: effective one/two/zero-site
                problem) the evolution time applied to it during the current evolve(), as a *symbolic*
                value: a 6-vector of integers in half units over the basis (1, s1, s2, s3, s4, i);
                s1 = t1 for order 4, (s1..s4) = (a1, b1, a2, b2) for order '4_opt', i = imaginary unit
     bondTot    the same accumulated over the life of the engine (in units of dt0/2)
     performed  bag of the step-truncation ids performed so far (every truncation gets the next id)
     terr       bag held by the engine's self.trunc_err
   Bags are sequences of multiplicities (bag[i] = multiplicity of id i).

   Acct = "spec": the accounting the documentation promises (each step error is added exactly once by
                  the time run_evolution returns).
   Acct = "impl": where the working tree adds (TEBDEngine.evolve adds *and* run_evolution adds;
                  TimeDependentHAlgorithm.run_evolution never adds) -- used to derive candidates. *)
EXTENDS Integers, Sequences, FiniteSets, TLC, IOUtils

CONSTANTS MaxN,       \* N_steps offered to run()/run_evolution() in model checking
          MaxCalls,   \* number of run()/run_evolution() calls in a behaviour
          Ks,         \* offered step sizes dt = k*dt0
          Acct,       \* "spec" | "impl"
          Configs     \* the engine configurations enumerated by Configure

VARIABLES cfg, mode, pc, t, asked, k, N, evN, left, viaRun, calls,
          sched, pos, cur, bset, ops, opos,
          bondT, bondTot,
          nerr, performed, terr, evRet, stRet, runRet,
          uDt, uModT, modT, force,
          last

vars == <<cfg, mode, pc, t, asked, k, N, evN, left, viaRun, calls, sched, pos, cur, bset, ops, opos,
          bondT, bondTot, nerr, performed, terr, evRet, stRet, runRet, uDt, uModT, modT, force, last>>

-----------------------------------------------------------------------------
\* symbolic times: 6-vectors in half units over (1, s1, s2, s3, s4, i)
VZero == <<0, 0, 0, 0, 0, 0>>
VAdd(u, v) == [j \in 1..6 |-> u[j] + v[j]]
VScale(n, v) == [j \in 1..6 |-> n * v[j]]
VSub(u, v) == VAdd(u, VScale(-1, v))
VReal(n) == <<2 * n, 0, 0, 0, 0, 0>>          \* n whole steps
VHalf(v) == [j \in 1..6 |-> v[j] \div 2]      \* only applied to vectors with even entries
VEven(v) == \A j \in 1..6 : v[j] % 2 = 0
Max2(a, b) == IF a >= b THEN a ELSE b

\* Gaussian-integer times <<re, im>> in units of dt0
TAdd(a, b) == <<a[1] + b[1], a[2] + b[2]>>
TSym(a) == <<2 * a[1], 0, 0, 0, 0, 2 * a[2]>>

\* bags
BGet(f, j) == IF j <= Len(f) THEN f[j] ELSE 0
BAdd(f, g) == [j \in 1..Max2(Len(f), Len(g)) |-> BGet(f, j) + BGet(g, j)]
BOne(i) == [j \in 1..i |-> IF j = i THEN 1 ELSE 0]
BInc(f, i) == [j \in 1..Max2(Len(f), i) |-> BGet(f, j) + (IF j = i THEN 1 ELSE 0)]    \* f (+) {i}
BScale(n, f) == [j \in 1..Len(f) |-> n * f[j]]
BEq(f, g) == \A j \in 1..Max2(Len(f), Len(g)) : BGet(f, j) = BGet(g, j)
BLe(f, g) == \A j \in 1..Max2(Len(f), Len(g)) : BGet(f, j) <= BGet(g, j)
\* run-length form used in traces: <<lo, hi, m>> : ids lo..hi with multiplicity m
RunsHi(runs) == IF runs = <<>> THEN 0 ELSE
                   LET S == {runs[j][2] : j \in 1..Len(runs)} IN CHOOSE x \in S : \A y \in S : y <= x
FromRuns(runs) == [i \in 1..RunsHi(runs) |->
                     LET hit == {j \in 1..Len(runs) : runs[j][1] <= i /\ i <= runs[j][2]} IN
                     IF hit = {} THEN 0 ELSE runs[CHOOSE j \in hit : TRUE][3]]

RECURSIVE Rep(_, _)
Rep(s, n) == IF n <= 0 THEN <<>> ELSE s \o Rep(s, n - 1)
RECURSIVE Flatten(_)
Flatten(ss) == IF ss = <<>> THEN <<>> ELSE Head(ss) \o Flatten(Tail(ss))

-----------------------------------------------------------------------------
\* Suzuki-Trotter data

\* TEBDEngine.suzuki_trotter_time_steps(order)  (index j of the code is j+1 here)
StepTimes(order) ==
    CASE order = "1" -> << VReal(1) >>
      [] order = "2" -> << <<1, 0, 0, 0, 0, 0>>, VReal(1) >>
      [] order = "4" -> << <<0, 1, 0, 0, 0, 0>>,      \* t1/2
                           <<0, 2, 0, 0, 0, 0>>,      \* t1
                           <<1, -3, 0, 0, 0, 0>>,     \* (t1+t3)/2 = (1-3 t1)/2
                           <<2, -8, 0, 0, 0, 0>> >>   \* t3 = 1 - 4 t1
      [] order = "4_opt" -> << <<0, 2, 0, 0, 0, 0>>,  \* a1
                               <<0, 0, 2, 0, 0, 0>>,  \* b1
                               <<0, 0, 0, 2, 0, 0>>,  \* a2
                               <<0, 0, 0, 0, 2, 0>>,  \* b2
                               <<1, -2, 0, -2, 0, 0>>,    \* a3 = 1/2 - a1 - a2
                               <<2, 0, -4, 0, -4, 0>>,    \* b3 = 1 - 2 b1 - 2 b2
                               <<0, 4, 0, 0, 0, 0>> >>    \* 2 a1

\* TEBDEngine.suzuki_trotter_decomposition(order, N): sequence of <<U_idx, odd>>
Decomp(order, n) ==
    IF n = 0 THEN <<>> ELSE
    CASE order = "1" -> Rep(<< <<0, 1>>, <<0, 0>> >>, n)
      [] order = "2" -> << <<0, 1>>, <<1, 0>> >> \o Rep(<< <<1, 1>>, <<1, 0>> >>, n - 1) \o << <<0, 1>> >>
      [] order = "4" ->
            LET a == <<0, 1>>  a2 == <<1, 1>>  b == <<1, 0>>  c == <<2, 1>>  d == <<3, 0>> IN
            <<a, b, a2, b, c, d, c, b, a2, b>> \o Rep(<<a2, b, a2, b, c, d, c, b, a2, b>>, n - 1) \o <<a>>
      [] order = "4_opt" ->
            LET a1 == <<0, 1>>  b1 == <<1, 0>>  a2 == <<2, 1>>  b2 == <<3, 0>>
                a3 == <<4, 1>>  b3 == <<5, 0>>  a1t == <<6, 1>> IN
            <<a1, b1, a2, b2, a3, b3, a3, b2, a2, b1>> \o Rep(<<a1t, b1, a2, b2, a3, b3, a3, b2, a2, b1>>, n - 1)
                \o <<a1>>

\* The published one-step formulas, as sequences of <<time, parity>> (parity 1 = H_odd):
\*   order 1: e^A e^B;  order 2: leapfrog U2(1);  order 4 (Suzuki 1991): U2(t1)U2(t1)U2(t3)U2(t1)U2(t1), t3 = 1-4t1;
\*   '4_opt' (Barthel-Zhang Eq. 30a): a1 b1 a2 b2 a3 b3 a3 b2 a2 b1 a1 with 2(a1+a2+a3) = 1 = 2(b1+b2)+b3
U2(tau) == << <<VHalf(tau), 1>>, <<tau, 0>>, <<VHalf(tau), 1>> >>
T1 == <<0, 2, 0, 0, 0, 0>>
T3 == VSub(VReal(1), VScale(4, T1))
Base(order) ==
    CASE order = "1" -> << <<VReal(1), 1>>, <<VReal(1), 0>> >>
      [] order = "2" -> U2(VReal(1))
      [] order = "4" -> U2(T1) \o U2(T1) \o U2(T3) \o U2(T1) \o U2(T1)
      [] order = "4_opt" ->
            LET A1 == <<0, 2, 0, 0, 0, 0>>  B1 == <<0, 0, 2, 0, 0, 0>>
                A2 == <<0, 0, 0, 2, 0, 0>>  B2 == <<0, 0, 0, 0, 2, 0>>
                A3 == VSub(VSub(VHalf(VReal(1)), A1), A2)
                B3 == VSub(VSub(VReal(1), VScale(2, B1)), VScale(2, B2)) IN
            << <<A1, 1>>, <<B1, 0>>, <<A2, 1>>, <<B2, 0>>, <<A3, 1>>, <<B3, 0>>,
               <<A3, 1>>, <<B2, 0>>, <<A2, 1>>, <<B1, 0>>, <<A1, 1>> >>

Resolve(order, s) == [j \in 1..Len(s) |-> <<StepTimes(order)[s[j][1] + 1], s[j][2]>>]
\* merge neighbouring exponentials of the same part of H (they commute: e^{xA} e^{yA} = e^{(x+y)A})
RECURSIVE MergeAcc(_, _)
MergeAcc(acc, s) ==
    IF s = <<>> THEN acc
    ELSE IF acc # <<>> /\ acc[Len(acc)][2] = Head(s)[2]
         THEN MergeAcc([acc EXCEPT ![Len(acc)] = <<VAdd(@[1], Head(s)[1]), @[2]>>], Tail(s))
         ELSE MergeAcc(Append(acc, Head(s)), Tail(s))
Merge(s) == MergeAcc(<<>>, s)

\* ExpMPOEvolution.calc_U: order 1: U(dt); order 2: U((1+i)/2 dt), U((1-i)/2 dt)
MPOSteps(order) == IF order = "1" THEN << VReal(1) >>
                   ELSE << <<1, 0, 0, 0, 0, 1>>, <<1, 0, 0, 0, 0, -1>> >>

\* the tables above, printed once per TLC run: the harness evaluates them against the floats of the code
SpecTables == << <<"StepTimes", "1", StepTimes("1")>>, <<"StepTimes", "2", StepTimes("2")>>,
                 <<"StepTimes", "4", StepTimes("4")>>, <<"StepTimes", "4_opt", StepTimes("4_opt")>>,
                 <<"MPOSteps", "1", MPOSteps("1")>>, <<"MPOSteps", "2", MPOSteps("2")>> >>
ASSUME PrintT(<<"TABLES", SpecTables>>)

-----------------------------------------------------------------------------
\* geometry

IsTEBD == cfg.fam = "TEBD"
IsMPO == cfg.fam = "ExpMPO"
IsTDVP == cfg.fam \in {"TDVP1", "TDVP2"}

AllBonds(c) == IF c.finite THEN 1..(c.L - 1) ELSE 0..(c.L - 1)
BondsOf(c, par) == {b \in AllBonds(c) : b % 2 = par % 2}     \* evolve_step: range(odd % 2, L, 2), None skipped
SitesOfBond(c, b) == {(b + c.L - 1) % c.L, b % c.L}

FwUnits(c) == CASE c.fam = "TEBD" -> {<<"bond", b>> : b \in AllBonds(c)}
                [] c.fam = "ExpMPO" -> {<<"mpo", 0>>}
                [] c.fam = "TDVP2" -> {<<"two", i>> : i \in 0..(c.L - 2)}
                [] c.fam = "TDVP1" -> {<<"one", i>> : i \in 0..(c.L - 1)}
                [] OTHER -> {}
BwUnits(c) == CASE c.fam = "TDVP2" -> {<<"one", i>> : i \in 1..(c.L - 2)}
                [] c.fam = "TDVP1" -> {<<"zero", i>> : i \in 1..(c.L - 1)}
                [] OTHER -> {}
Units(c) == FwUnits(c) \cup BwUnits(c)

\* TDVP: the micro-operations of one sweep, from get_sweep_schedule + update_local:
\* <<kind, x, h>>: Krylov evolution of the kind-site problem at x by h * (dt/2)  (h < 0: backward), <<"upd", i0, 0>>: update_local(i0) returns
SweepOps(c) ==
    LET L == c.L IN
    IF c.fam = "TDVP2" THEN
        LET M == 2 * L - 3
            I0(j) == IF j <= L - 2 THEN j - 1 ELSE 2 * L - 3 - j
            MR(j) == IF j <= L - 2 THEN "R" ELSE IF j <= 2 * L - 4 THEN "L" ELSE "N"
            For(j) == << <<"two", I0(j), IF I0(j) = L - 2 THEN 2 ELSE 1>> >>
                      \o (IF MR(j) = "R" THEN << <<"one", I0(j) + 1, -1>> >>
                          ELSE IF MR(j) = "L" THEN << <<"one", I0(j), -1>> >> ELSE <<>>)
                      \o << <<"upd", I0(j), 0>> >>
        IN Flatten([j \in 1..M |-> For(j)])
    ELSE
        LET M == 2 * L - 1
            I0(j) == IF j <= L - 1 THEN j - 1 ELSE 2 * L - 1 - j
            MR(j) == IF j <= L - 1 THEN "R" ELSE IF j <= 2 * L - 2 THEN "L" ELSE "N"
            For(j) == << <<"one", I0(j), IF I0(j) = L - 1 THEN 2 ELSE 1>> >>
                      \o (IF MR(j) = "R" THEN << <<"zero", I0(j) + 1, -1>> >>
                          ELSE IF I0(j) # 0 THEN << <<"zero", I0(j), -1>> >> ELSE <<>>)
                      \o << <<"upd", I0(j), 0>> >>
        IN Flatten([j \in 1..M |-> For(j)])

\* where the accumulated error is added to self.trunc_err
AddInEvolve == Acct = "impl" /\ cfg.fam = "TEBD"            \* TEBDEngine.evolve
AddInRunEvo == Acct = "spec" \/ ~cfg.td                     \* (TimeDependentHAlgorithm.)run_evolution
Adds == (IF AddInEvolve THEN 1 ELSE 0) + (IF AddInRunEvo THEN 1 ELSE 0)
\* the same for Acct = "impl" as a table (printed; the check compares it with what the traces of each engine show)
ImplAdds(fam, td) == (IF fam = "TEBD" THEN 1 ELSE 0) + (IF td THEN 0 ELSE 1)
ASSUME PrintT(<<"IMPLADDS", {<<f, td, ImplAdds(f, td)>> : f \in {"TEBD", "TDVP1", "TDVP2", "ExpMPO"}, td \in BOOLEAN}>>)
ASSUME Acct = "impl" => \A c \in Configs : ImplAdds(c.fam, c.td) = (IF c.fam = "TEBD" THEN 1 ELSE 0) + (IF ~c.td THEN 1 ELSE 0)

HasU == cfg.fam \in {"TEBD", "ExpMPO"}
NeedRecalc(kk) == HasU /\ (force \/ uDt # kk \/ mode.imag)  \* calc_U: cached unless params changed / force_prepare_evolve

NoCfg == [fam |-> "none", order |-> "-", L |-> 2, finite |-> TRUE, td |-> FALSE, t0 |-> <<0, 0>>, zero |-> {}]

NoMode == [imag |-> FALSE, direct |-> FALSE, sweep |-> FALSE]
Init == /\ cfg = NoCfg /\ mode = NoMode /\ pc = "new" /\ t = <<0, 0>> /\ asked = <<0, 0>> /\ k = 0 /\ N = 0 /\ evN = 0 /\ left = 0
        /\ viaRun = FALSE /\ calls = 0 /\ sched = <<>> /\ pos = 0 /\ cur = <<0, 0>> /\ bset = {} /\ ops = <<>> /\ opos = 0
        /\ bondT = <<>> /\ bondTot = <<>> /\ nerr = 0 /\ performed = <<>> /\ terr = <<>> /\ evRet = <<>>
        /\ stRet = <<>> /\ runRet = <<>> /\ uDt = 0 /\ uModT = <<0, 0>> /\ modT = <<0, 0>> /\ force = FALSE
        /\ last = [op |-> "init"]

-----------------------------------------------------------------------------
\* actions.  Every action is  G<Name>(args) /\ effect ; the guards are separate so that the trace spec can
\* tell "this event cannot happen here" (control) from "it happened with a wrong observable" (a clause).

\* engine construction (TimeEvolutionAlgorithm.__init__, TimeDependentHAlgorithm.__init__ -> reinit_model)
GConfigure(c) == pc = "new"
SetUp(c) ==
    /\ cfg' = c /\ mode' = NoMode /\ pc' = "idle" /\ t' = c.t0 /\ asked' = <<0, 0>>
    /\ bondT' = [u \in Units(c) |-> VZero] /\ bondTot' = [u \in Units(c) |-> VZero]
    /\ modT' = c.t0 /\ uModT' = c.t0 /\ force' = c.td /\ uDt' = 0
    /\ k' = 0 /\ N' = 0 /\ evN' = 0 /\ left' = 0 /\ viaRun' = FALSE /\ calls' = 0 /\ sched' = <<>> /\ pos' = 0
    /\ cur' = <<0, 0>> /\ bset' = {} /\ ops' = <<>> /\ opos' = 0 /\ nerr' = 0 /\ performed' = <<>> /\ terr' = <<>>
    /\ evRet' = <<>> /\ stRet' = <<>> /\ runRet' = <<>>
    /\ last' = [op |-> "Configure"]
Configure(c) == GConfigure(c) /\ SetUp(c)

\* run(): reads dt, N_steps from the options, calls run_evolution
GRunBegin(n, kk) == pc = "idle" /\ calls < MaxCalls
RunBegin(n, kk) ==
    /\ GRunBegin(n, kk)
    /\ pc' = "run" /\ N' = n /\ k' = kk /\ viaRun' = TRUE /\ calls' = calls + 1
    /\ last' = [op |-> "RunBegin"]
    /\ UNCHANGED <<cfg, mode, t, asked, evN, left, sched, pos, cur, bset, ops, opos, bondT, bondTot, nerr, performed, terr,
                   evRet, stRet, runRet, uDt, uModT, modT, force>>

GRunEvoBegin(n, kk) == (pc = "run" /\ n = N /\ kk = k) \/ (pc = "idle" /\ calls < MaxCalls)
RunEvoBegin(n, kk) ==
    /\ GRunEvoBegin(n, kk)
    /\ pc' = "runevo" /\ N' = n /\ k' = kk /\ left' = n /\ runRet' = <<>> /\ evRet' = <<>>
    /\ viaRun' = (pc = "run") /\ calls' = IF pc = "idle" THEN calls + 1 ELSE calls
    /\ asked' = TAdd(asked, <<n * kk, 0>>)
    /\ last' = [op |-> "RunEvoBegin"]
    /\ UNCHANGED <<cfg, mode, t, evN, sched, pos, cur, bset, ops, opos, bondT, bondTot, nerr, performed, terr, stRet,
                   uDt, uModT, modT, force>>

\* prepare_evolve(dt) -> calc_U; recalc says whether U was (re)computed
GPrepare(kk, recalc) == pc = "runevo" /\ kk = k /\ (cfg.td => left > 0) /\ (recalc => HasU)
Prepare(kk, recalc) ==
    /\ GPrepare(kk, recalc)
    /\ pc' = "prepared"
    /\ IF recalc THEN uDt' = kk /\ uModT' = modT /\ force' = FALSE /\ mode' = [mode EXCEPT !.imag = FALSE]
                 ELSE UNCHANGED <<uDt, uModT, force, mode>>
    /\ last' = [op |-> "Prepare", recalc |-> recalc]
    /\ UNCHANGED <<cfg, t, asked, k, N, evN, left, viaRun, calls, sched, pos, cur, bset, ops, opos, bondT, bondTot,
                   nerr, performed, terr, evRet, stRet, runRet, modT>>

\* a direct call of TEBDEngine.calc_U(order, delta_t, type_evo) (what run_GS does before evolve / update_imag)
GCalcU(kk, imag, recalc) == pc = "idle" /\ IsTEBD /\ ~cfg.td /\ calls < MaxCalls
CalcU(kk, imag, recalc) ==
    /\ GCalcU(kk, imag, recalc)
    /\ calls' = calls + 1
    /\ IF recalc THEN uDt' = kk /\ uModT' = modT /\ force' = FALSE /\ mode' = [mode EXCEPT !.imag = imag]
                 ELSE UNCHANGED <<uDt, uModT, force, mode>>
    /\ last' = [op |-> "CalcU", recalc |-> recalc, needed |-> (force \/ uDt # kk \/ mode.imag # imag)]
    /\ UNCHANGED <<cfg, pc, t, asked, k, N, evN, left, viaRun, sched, pos, cur, bset, ops, opos, bondT, bondTot, nerr,
                   performed, terr, evRet, stRet, runRet, modT>>

\* tau = dt (real time) or -i dt (imaginary time)
Dir(x) == IF mode.imag THEN <<0, -x>> ELSE <<x, 0>>
Rot(v) == IF mode.imag THEN <<0, 0, 0, 0, 0, -v[1]>> ELSE v       \* (-i) * v for a purely real v
\* update_imag(N): N times a sweep over the bonds to the right and back to the left, each with U(dt/2)
ImagSweepOps(c, n) == LET L == c.L IN Rep([j \in 1..(2 * (L - 1)) |-> IF j <= L - 1 THEN j ELSE 2 * L - 1 - j], n)

\* evolve(N, dt) from run_evolution, or called directly after calc_U (TEBD only); sweep: update_imag(N)
GEvolveBegin(n, kk, sweep) ==
    \/ pc = "prepared" /\ kk = k /\ n = (IF cfg.td THEN 1 ELSE N) /\ ~sweep
    \/ pc = "idle" /\ IsTEBD /\ ~cfg.td /\ uDt = kk /\ calls < MaxCalls
        /\ (sweep => cfg.finite /\ cfg.order = "2" /\ mode.imag)
EvolveBegin(n, kk, sweep) ==
    /\ GEvolveBegin(n, kk, sweep)
    /\ pc' = "evolve" /\ evN' = n /\ pos' = 1 /\ evRet' = <<>> /\ stRet' = <<>>
    /\ mode' = [mode EXCEPT !.direct = (pc = "idle"), !.sweep = sweep]
    /\ calls' = IF pc = "idle" THEN calls + 1 ELSE calls
    /\ asked' = IF pc = "idle" THEN TAdd(asked, Dir(n * kk)) ELSE asked
    /\ k' = kk
    /\ sched' = IF IsTEBD /\ ~sweep THEN Decomp(cfg.order, n) ELSE <<>>
    /\ ops' = IF sweep THEN ImagSweepOps(cfg, n) ELSE ops
    /\ opos' = 1
    /\ bondT' = [u \in Units(cfg) |-> VZero]
    /\ uDt' = IF IsTDVP THEN kk ELSE uDt                       \* TDVPEngine.evolve: self.dt = dt
    /\ last' = [op |-> "EvolveBegin"]
    /\ UNCHANGED <<cfg, t, N, left, viaRun, cur, bset, bondTot, nerr, performed, terr,
                   runRet, uModT, modT, force>>

\* a step truncation: err = 0 (nothing discarded / not observable) or the next id
ErrOK(err) == err = 0 \/ err = nerr + 1
TakeErr(err) ==
    IF err = 0 THEN UNCHANGED <<nerr, performed, stRet>>
    ELSE /\ nerr' = err /\ performed' = BInc(performed, err) /\ stRet' = BInc(stRet, err)

\* ---- TEBD: evolve_step(U_idx_dt, odd) / update_bond
GStepBegin(uidx, odd) == pc = "evolve" /\ (IsTEBD \/ IsMPO) /\ ~mode.sweep
StepBegin(uidx, odd) ==
    /\ GStepBegin(uidx, odd)
    /\ pc' = "step" /\ cur' = <<uidx, odd>> /\ stRet' = <<>>
    /\ bset' = IF IsTEBD THEN BondsOf(cfg, odd) ELSE {}
    /\ ops' = IF IsMPO THEN MPOSteps(cfg.order) ELSE ops
    /\ opos' = 1
    /\ last' = [op |-> "StepBegin", got |-> <<uidx, odd>>,
                exp |-> IF IsTEBD THEN (IF pos <= Len(sched) THEN sched[pos] ELSE <<-1, -1>>) ELSE <<uidx, odd>>]
    /\ UNCHANGED <<cfg, mode, t, asked, k, N, evN, left, viaRun, calls, sched, pos, bondT, bondTot, nerr, performed, terr,
                   evRet, runRet, uDt, uModT, modT, force>>

GUpdateBond(b, err) == pc = "step" /\ IsTEBD /\ b \in bset /\ ErrOK(err)
UpdateBond(b, uidx, dts, uk, umt, uim, err) ==
    /\ GUpdateBond(b, err)
    /\ bset' = bset \ {b}
    /\ bondT' = [bondT EXCEPT ![<<"bond", b>>] = VAdd(@, dts)]
    /\ TakeErr(err)
    /\ last' = [op |-> "UpdateBond", b |-> b, uidx |-> uidx, expuidx |-> cur[1], dts |-> dts, uk |-> uk, umt |-> umt,
                uim |-> uim]
    /\ UNCHANGED <<cfg, mode, pc, t, asked, k, N, evN, left, viaRun, calls, sched, pos, cur, ops, opos, bondTot, terr, evRet,
                   runRet, uDt, uModT, modT, force>>

\* ---- TEBD update_imag: update_bond_imag(i, U[0][i]) along the sweep
GUpdateBondImag(b, err) == pc = "evolve" /\ IsTEBD /\ mode.sweep /\ b \in AllBonds(cfg) /\ ErrOK(err)
UpdateBondImag(b, uidx, dts, uk, umt, uim, err) ==
    /\ GUpdateBondImag(b, err)
    /\ bondT' = [bondT EXCEPT ![<<"bond", b>>] = VAdd(@, dts)]
    /\ opos' = opos + 1
    /\ IF err = 0 THEN UNCHANGED <<nerr, performed, evRet>>
       ELSE nerr' = err /\ performed' = BInc(performed, err) /\ evRet' = BInc(evRet, err)
    /\ last' = [op |-> "UpdateBondImag", b |-> b, exp |-> IF opos <= Len(ops) THEN ops[opos] ELSE -1, uidx |-> uidx,
                dts |-> dts, uk |-> uk, umt |-> umt, uim |-> uim]
    /\ UNCHANGED <<cfg, mode, pc, t, asked, k, N, evN, left, viaRun, calls, sched, pos, cur, bset, ops, bondTot, terr, stRet,
                   runRet, uDt, uModT, modT, force>>

\* ---- ExpMPO: evolve_step(dt): for U in _U_MPO: U.apply(psi)
GApplyU(err) == pc = "step" /\ IsMPO /\ ErrOK(err)
ApplyU(dts, uk, umt, err) ==
    /\ GApplyU(err)
    /\ bondT' = [bondT EXCEPT ![<<"mpo", 0>>] = VAdd(@, dts)]
    /\ opos' = opos + 1
    /\ TakeErr(err)
    /\ last' = [op |-> "ApplyU", dts |-> dts, exp |-> IF opos <= Len(ops) THEN ops[opos] ELSE VZero, uk |-> uk, umt |-> umt]
    /\ UNCHANGED <<cfg, mode, pc, t, asked, k, N, evN, left, viaRun, calls, sched, pos, cur, bset, ops, bondTot, terr, evRet,
                   runRet, uDt, uModT, modT, force>>

GStepEnd == pc = "step" /\ bset = {}
StepEnd(hasret, ret) ==
    /\ GStepEnd
    /\ pc' = "evolve" /\ pos' = pos + 1 /\ evRet' = BAdd(evRet, stRet)
    /\ last' = [op |-> "StepEnd", hasret |-> hasret, ret |-> ret, done |-> (IsMPO => opos = Len(ops) + 1)]
    /\ UNCHANGED <<cfg, mode, t, asked, k, N, evN, left, viaRun, calls, sched, cur, bset, ops, opos, bondT, bondTot, nerr,
                   performed, terr, stRet, runRet, uDt, uModT, modT, force>>

\* ---- TDVP: evolve: for N: sweep(); sweep: update_local per schedule entry; Krylov steps inside
GSweepBegin == pc = "evolve" /\ IsTDVP
SweepBegin ==
    /\ GSweepBegin
    /\ pc' = "sweep" /\ ops' = SweepOps(cfg) /\ opos' = 1 /\ stRet' = <<>>
    /\ last' = [op |-> "SweepBegin"]
    /\ UNCHANGED <<cfg, mode, t, asked, k, N, evN, left, viaRun, calls, sched, pos, cur, bset, bondT, bondTot, nerr, performed,
                   terr, evRet, runRet, uDt, uModT, modT, force>>

ExpOp == IF opos <= Len(ops) THEN ops[opos] ELSE <<"none", 0, 0>>
GKrylov(kind, x) == pc = "sweep" /\ <<kind, x>> \in Units(cfg)
Krylov(kind, x, h, umt) ==
    /\ GKrylov(kind, x)
    /\ bondT' = [bondT EXCEPT ![<<kind, x>>] = VAdd(@, <<h, 0, 0, 0, 0, 0>>)]
    /\ opos' = opos + 1
    /\ last' = [op |-> "Krylov", got |-> <<kind, x, h>>, exp |-> ExpOp, umt |-> umt]
    /\ UNCHANGED <<cfg, mode, pc, t, asked, k, N, evN, left, viaRun, calls, sched, pos, cur, bset, ops, bondTot, nerr, performed,
                   terr, evRet, stRet, runRet, uDt, uModT, modT, force>>

GUpdateLocal(err) == pc = "sweep" /\ ErrOK(err)
UpdateLocal(i0, err) ==
    /\ GUpdateLocal(err)
    /\ opos' = opos + 1
    /\ TakeErr(err)
    /\ last' = [op |-> "UpdateLocal", got |-> <<"upd", i0, 0>>, exp |-> ExpOp]
    /\ UNCHANGED <<cfg, mode, pc, t, asked, k, N, evN, left, viaRun, calls, sched, pos, cur, bset, ops, bondT, bondTot, terr,
                   evRet, runRet, uDt, uModT, modT, force>>

GSweepEnd == pc = "sweep"
SweepEnd ==
    /\ GSweepEnd
    /\ pc' = "evolve" /\ pos' = pos + 1 /\ evRet' = BAdd(evRet, stRet)
    /\ last' = [op |-> "SweepEnd", done |-> (opos = Len(ops) + 1)]
    /\ UNCHANGED <<cfg, mode, t, asked, k, N, evN, left, viaRun, calls, sched, cur, bset, ops, opos, bondT, bondTot, nerr,
                   performed, terr, stRet, runRet, uDt, uModT, modT, force>>

\* ---- evolve returns: evolved_time advances by N*dt; the error of this evolve is returned
GEvolveEnd == pc = "evolve"
AddAtEvolveEnd == AddInEvolve \/ (Acct = "spec" /\ mode.direct)     \* the outermost public call accounts for its errors
EvolveEnd(tobs, hasret, ret) ==
    /\ GEvolveEnd
    /\ pc' = IF mode.direct THEN "idle" ELSE "evolved"
    /\ t' = TAdd(t, Dir(evN * k))
    /\ bondTot' = [u \in Units(cfg) |-> VAdd(bondTot[u], Rot(VScale(k, bondT[u])))]
    /\ terr' = IF AddAtEvolveEnd THEN BAdd(terr, evRet) ELSE terr
    /\ last' = [op |-> "EvolveEnd", t |-> tobs, hasret |-> hasret, ret |-> ret,
                done |-> IF mode.sweep THEN opos = Len(ops) + 1 ELSE pos = (IF IsTEBD THEN Len(sched) ELSE evN) + 1]
    /\ UNCHANGED <<cfg, mode, asked, k, N, evN, left, viaRun, calls, sched, pos, cur, bset, ops, opos, bondT, nerr, performed,
                   evRet, stRet, runRet, uDt, uModT, modT, force>>

\* ---- TimeDependentHAlgorithm: reinit_model() after every single step: H(t) at the *new* evolved_time
GReinit == pc = "evolved" /\ cfg.td
Reinit(mt) ==
    /\ GReinit
    /\ pc' = "runevo" /\ left' = left - 1 /\ runRet' = BAdd(runRet, evRet)
    /\ modT' = t
    /\ force' = (force \/ modT # t)
    /\ uModT' = IF IsTDVP THEN t ELSE uModT                  \* TDVP: reinit_model also rebuilds the environment
    /\ last' = [op |-> "Reinit", mt |-> mt]
    /\ UNCHANGED <<cfg, mode, t, asked, k, N, evN, viaRun, calls, sched, pos, cur, bset, ops, opos, bondT, bondTot, nerr,
                   performed, terr, evRet, stRet, uDt>>

GRunEvoEnd == IF cfg.td THEN pc = "runevo" /\ left = 0 ELSE pc = "evolved"
TerrAfterRunEvo == IF AddInRunEvo THEN BAdd(terr, IF cfg.td THEN runRet ELSE evRet) ELSE terr
RunEvoEnd(tobs, hasrep, rep, ovok) ==
    /\ GRunEvoEnd
    /\ terr' = TerrAfterRunEvo
    /\ pc' = IF viaRun THEN "runret" ELSE "idle"
    /\ last' = [op |-> "RunEvoEnd", t |-> tobs, hasrep |-> hasrep, rep |-> rep, ovok |-> ovok]
    /\ UNCHANGED <<cfg, mode, t, asked, k, N, evN, left, viaRun, calls, sched, pos, cur, bset, ops, opos, bondT, bondTot, nerr,
                   performed, evRet, stRet, runRet, uDt, uModT, modT, force>>

GRunEnd == pc = "runret"
RunEnd ==
    /\ GRunEnd
    /\ pc' = "idle"
    /\ last' = [op |-> "RunEnd"]
    /\ UNCHANGED <<cfg, mode, t, asked, k, N, evN, left, viaRun, calls, sched, pos, cur, bset, ops, opos, bondT, bondTot, nerr,
                   performed, terr, evRet, stRet, runRet, uDt, uModT, modT, force>>

-----------------------------------------------------------------------------
\* model checking: arguments that the implementation computes are computed from the state here
MinOf(S) == CHOOSE x \in S : \A y \in S : x <= y
DoConfigure == \E c \in Configs : Configure(c)
DoRunBegin == \E n \in 0..MaxN, kk \in Ks : RunBegin(n, kk)
DoRunEvoBegin == \/ pc = "run" /\ RunEvoBegin(N, k)
                 \/ pc = "idle" /\ \E n \in 0..MaxN, kk \in Ks : RunEvoBegin(n, kk)
DoPrepare == Prepare(k, NeedRecalc(k))
\* (direct calc_U / evolve / update_imag calls are explored for Acct = "spec" only: ErrMultiplicity characterises run())
DoCalcU == Acct = "spec" /\ \E kk \in Ks, im \in BOOLEAN : CalcU(kk, im, force \/ uDt # kk \/ mode.imag # im)
DoEvolveBegin == \/ pc = "prepared" /\ EvolveBegin(IF cfg.td THEN 1 ELSE N, k, FALSE)
                 \/ pc = "idle" /\ Acct = "spec" /\ uDt # 0 /\ \E n \in 0..MaxN, sw \in BOOLEAN : EvolveBegin(n, uDt, sw)
DoStepBegin == \/ IsTEBD /\ pos <= Len(sched) /\ StepBegin(sched[pos][1], sched[pos][2])
               \/ IsMPO /\ pos <= evN /\ StepBegin(0, 0)
DoUpdateBond == /\ pc = "step" /\ IsTEBD /\ bset # {}
                /\ LET b == MinOf(bset) IN
                   UpdateBond(b, cur[1], StepTimes(cfg.order)[cur[1] + 1], uDt, uModT, mode.imag,
                              IF b \in cfg.zero THEN 0 ELSE nerr + 1)
DoUpdateBondImag == /\ pc = "evolve" /\ mode.sweep /\ opos <= Len(ops)
                    /\ UpdateBondImag(ops[opos], 0, StepTimes("2")[1], uDt, uModT, mode.imag,
                                      IF ops[opos] \in cfg.zero THEN 0 ELSE nerr + 1)
DoApplyU == pc = "step" /\ IsMPO /\ opos <= Len(ops) /\ ApplyU(ops[opos], uDt, uModT, nerr + 1)
DoStepEnd == (IsMPO => opos = Len(ops) + 1) /\ StepEnd(TRUE, stRet)
DoSweepBegin == pos <= evN /\ SweepBegin
DoKrylov == pc = "sweep" /\ opos <= Len(ops) /\ ops[opos][1] # "upd"
            /\ Krylov(ops[opos][1], ops[opos][2], ops[opos][3], uModT)
DoUpdateLocal == pc = "sweep" /\ opos <= Len(ops) /\ ops[opos][1] = "upd"
                 /\ UpdateLocal(ops[opos][2], IF cfg.fam = "TDVP2" /\ ops[opos][2] \notin cfg.zero THEN nerr + 1 ELSE 0)
DoSweepEnd == opos = Len(ops) + 1 /\ SweepEnd
DoEvolveEnd == /\ IF mode.sweep THEN opos = Len(ops) + 1 ELSE pos = (IF IsTEBD THEN Len(sched) ELSE evN) + 1
               /\ EvolveEnd(TAdd(t, Dir(evN * k)), TRUE, evRet)
DoReinit == Reinit(t)
DoRunEvoEnd == RunEvoEnd(t, TRUE, TerrAfterRunEvo, TRUE)
DoRunEnd == RunEnd

Next == \/ DoConfigure \/ DoRunBegin \/ DoRunEvoBegin \/ DoPrepare \/ DoCalcU \/ DoEvolveBegin \/ DoStepBegin \/ DoUpdateBond
        \/ DoUpdateBondImag
        \/ DoApplyU \/ DoStepEnd \/ DoSweepBegin \/ DoKrylov \/ DoUpdateLocal \/ DoSweepEnd \/ DoEvolveEnd \/ DoReinit
        \/ DoRunEvoEnd \/ DoRunEnd
Spec == Init /\ [][Next]_vars

-----------------------------------------------------------------------------
\* Properties
AtRest == pc \in {"idle", "runret"}

\* the advertised time is the number of steps times the step, however the time was split into calls
TimeAdvance == AtRest => t = TAdd(cfg.t0, asked)
\* ... and it is the time every unit has actually been evolved for (backward units: minus that)
TimeIsEvolved == AtRest => /\ \A u \in FwUnits(cfg) : bondTot[u] = TSym(asked)
                           /\ \A u \in BwUnits(cfg) : bondTot[u] = VScale(-1, TSym(asked))
\* after each evolve(N) every unit has been evolved for exactly N*dt: identity in the symbolic parameters
ScheduleComposes == last.op = "EvolveEnd" => /\ \A u \in FwUnits(cfg) : bondT[u] = VReal(evN)
                                             /\ \A u \in BwUnits(cfg) : bondT[u] = VScale(-1, VReal(evN))
                                             /\ last.done
\* the N-step schedule of the code is the published one-step formula repeated N times, neighbours merged
\* (a fact about the tables only: evaluated once per TLC run for n <= MaxSched)
Orders == {"1", "2", "4", "4_opt"}
PublishedOK(o, n) == Merge(Resolve(o, Decomp(o, n))) = Merge(Rep(Base(o), n))
MaxSched == 4
PublishedTable == [o \in Orders |-> [n \in 0..MaxSched |-> PublishedOK(o, n)]]
SchedulePublished == (pc = "evolve" /\ pos = 1 /\ IsTEBD /\ ~mode.sweep) =>
                        /\ sched = Decomp(cfg.order, evN)
                        /\ IF evN <= MaxSched THEN PublishedTable[cfg.order][evN] ELSE PublishedOK(cfg.order, evN)
\* the published formulas themselves: each part of H gets exactly one step; they are palindromes for order >= 2
BaseComposes == \A o \in Orders :
                   /\ \A par \in {0, 1} :
                        LET s == Base(o)
                            RECURSIVE Sum(_)
                            Sum(j) == IF j = 0 THEN VZero
                                      ELSE VAdd(Sum(j - 1), IF s[j][2] = par THEN s[j][1] ELSE VZero)
                        IN Sum(Len(s)) = VReal(1)
                   /\ o # "1" => \A j \in 1..Len(Base(o)) : Base(o)[j] = Base(o)[Len(Base(o)) + 1 - j]
\* the engine follows the schedule: half steps in order, with the U computed for that entry's time step
ScheduleOrder == last.op = "StepBegin" => last.got = last.exp
StepTimeOK == /\ last.op = "UpdateBond" =>
                    /\ last.uidx = last.expuidx
                    /\ last.uidx + 1 \in 1..Len(StepTimes(cfg.order))
                    /\ last.dts = StepTimes(cfg.order)[last.uidx + 1]
              \* update_imag: always the half step U[0], bonds in sweep order
              /\ last.op = "UpdateBondImag" => last.b = last.exp /\ last.uidx = 0 /\ last.dts = StepTimes("2")[1]
MPOOrder == (last.op = "ApplyU" => last.dts = last.exp) /\ (last.op = "StepEnd" => last.done)
TDVPOrder == (last.op \in {"Krylov", "UpdateLocal"} => last.got = last.exp) /\ (last.op = "SweepEnd" => last.done)
\* gates applied in one evolve_step act on disjoint sites
NoOverlap == (pc = "step" /\ IsTEBD) =>
                \A b1, b2 \in BondsOf(cfg, cur[2]) : b1 # b2 => SitesOfBond(cfg, b1) \cap SitesOfBond(cfg, b2) = {}
\* what is applied was computed for the current dt and (time dependent H) from H(evolved_time)
UFresh == /\ last.op \in {"UpdateBond", "ApplyU"} => last.uk = k /\ (cfg.td => last.umt = t)
          /\ last.op \in {"UpdateBond", "UpdateBondImag"} =>
                last.uk = k /\ last.uim = mode.imag /\ (~mode.direct => ~last.uim)     \* run() evolves in real time
          /\ last.op = "CalcU" => (last.needed => last.recalc)
          /\ last.op = "Krylov" => (cfg.td => last.umt = t)
ModelTime == last.op = "Reinit" => last.mt = t /\ modT = t
\* the reported accumulated error is the bag of all step errors performed, each exactly once
ErrAccounting == AtRest => BEq(terr, performed)
\* what the working tree does instead (Acct = "impl"): every step error Adds times
ErrMultiplicity == AtRest => BEq(terr, BScale(Adds, performed))
StepReturn == (last.op = "StepEnd" /\ last.hasret) => BEq(last.ret, stRet)
EvolveReturn == (last.op = "EvolveEnd" /\ last.hasret) => BEq(last.ret, evRet)
\* observations of the implementation (trace validation; trivially true in model checking)
ObservedTime == last.op \in {"EvolveEnd", "RunEvoEnd"} => last.t = t
ObservedErr == (last.op = "RunEvoEnd" /\ last.hasrep) => BEq(last.rep, terr) /\ last.ovok

InvNames == {"TimeAdvance", "TimeIsEvolved", "ScheduleComposes", "SchedulePublished", "ScheduleOrder", "StepTimeOK",
             "MPOOrder", "TDVPOrder", "NoOverlap", "UFresh", "ModelTime", "ErrAccounting", "StepReturn", "EvolveReturn",
             "ObservedTime", "ObservedErr"}
Holds(n) == CASE n = "TimeAdvance" -> TimeAdvance [] n = "TimeIsEvolved" -> TimeIsEvolved
              [] n = "ScheduleComposes" -> ScheduleComposes [] n = "SchedulePublished" -> SchedulePublished
              [] n = "ScheduleOrder" -> ScheduleOrder [] n = "StepTimeOK" -> StepTimeOK [] n = "MPOOrder" -> MPOOrder
              [] n = "TDVPOrder" -> TDVPOrder [] n = "NoOverlap" -> NoOverlap [] n = "UFresh" -> UFresh
              [] n = "ModelTime" -> ModelTime [] n = "ErrAccounting" -> ErrAccounting [] n = "StepReturn" -> StepReturn
              [] n = "EvolveReturn" -> EvolveReturn [] n = "ObservedTime" -> ObservedTime [] n = "ObservedErr" -> ObservedErr
Broken == {n \in InvNames : ~Holds(n)}

\* how a wrong report relates to what was performed (for the verdict of a rejected trace)
ErrKind(rep, perf) == IF BEq(rep, perf) THEN "ok"
                      ELSE IF BLe(perf, rep) /\ BLe(rep, BScale(2, perf)) THEN "double-count"   \* some ids twice, none lost
                      ELSE IF BLe(rep, perf) THEN "dropped"
                      ELSE "mismatch"

-----------------------------------------------------------------------------
\* Solvable instance (all gates commute, so every Suzuki-Trotter order is exact iff each bond gets exactly t):
\*   H = -J sum_b X_b X_(b+1) on an open chain of L sites (TFIChain, g = 0), |psi0> = |up ... up> = 2^(-L/2) sum_s |s>_x.
\*   Each x-basis state s (bit i of `code` = 0: eigenvalue +1 of X_i) is an eigenstate with the integer energy
\*   -J E(s), E(s) = sum_b s_b s_(b+1)  -- the certificate is this definition over the integers.
\*   At J t = m pi/4:  <s| exp(-iHt) |psi0> = 2^(-L/2) w^(m E(s)),  w = exp(i pi/4): an exponent mod 8.
RECURSIVE Pow2(_)
Pow2(n) == IF n = 0 THEN 1 ELSE 2 * Pow2(n - 1)
SpinOf(code, i) == IF (code \div Pow2(i)) % 2 = 0 THEN 1 ELSE -1
RECURSIVE IsingSum(_, _, _)
IsingSum(L, code, b) == IF b > L - 2 THEN 0 ELSE SpinOf(code, b) * SpinOf(code, b + 1) + IsingSum(L, code, b + 1)
IsingE(L, code) == IsingSum(L, code, 0)
IsingPhases(L, m) == [c \in 1..Pow2(L) |-> (m * IsingE(L, c - 1)) % 8]       \* entry code+1
ASSUME ("C14_SOLVABLE" \in DOMAIN IOEnv) =>
          PrintT(<<"ISING", [L \in 2..6 |-> [m \in 1..4 |-> IsingPhases(L, m)]]>>)

-----------------------------------------------------------------------------
\* configurations for model checking
MkCfg(f, o, l, fin, td, t0, z) == [fam |-> f, order |-> o, L |-> l, finite |-> fin, td |-> td, t0 |-> t0, zero |-> z]
TEBDConfigs(Ls, InfLs) ==
    {MkCfg("TEBD", o, l, TRUE, td, <<0, 0>>, {}) : o \in Orders, l \in Ls, td \in BOOLEAN}
    \cup {MkCfg("TEBD", o, l, FALSE, td, <<0, 0>>, {}) : o \in Orders, l \in InfLs, td \in BOOLEAN}
TDVPConfigs(Ls) == {MkCfg(f, "-", l, TRUE, td, <<0, 0>>, {}) : f \in {"TDVP1", "TDVP2"}, l \in Ls, td \in BOOLEAN}
MPOConfigs == {MkCfg("ExpMPO", o, 4, fin, td, <<0, 0>>, {}) : o \in {"1", "2"}, fin \in BOOLEAN, td \in BOOLEAN}
ExtraConfigs == {MkCfg("TEBD", "2", 5, TRUE, TRUE, <<3, 0>>, {1, 4}), MkCfg("TEBD", "4", 4, FALSE, FALSE, <<1, 0>>, {0}),
                 MkCfg("TDVP2", "-", 4, TRUE, TRUE, <<2, 0>>, {0}), MkCfg("ExpMPO", "2", 4, TRUE, TRUE, <<1, 0>>, {})}
QuickConfigs == TEBDConfigs({2, 3, 4}, {2, 4}) \cup TDVPConfigs({2, 3, 4}) \cup MPOConfigs \cup ExtraConfigs
ThoroughConfigs == TEBDConfigs(2..7, {2, 4, 6}) \cup TDVPConfigs(2..6) \cup MPOConfigs \cup ExtraConfigs
TinyTEBD == {MkCfg("TEBD", "2", 4, TRUE, FALSE, <<0, 0>>, {})}
TinyTD == {MkCfg("TDVP2", "-", 3, TRUE, TRUE, <<0, 0>>, {}), MkCfg("ExpMPO", "2", 4, TRUE, TRUE, <<0, 0>>, {})}
=============================================================================
