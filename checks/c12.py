"""C12: local Hilbert spaces (operator algebra, basis bookkeeping) and fermionic signs.

Stages: MC of spec/Sites.tla (site tables, algebra theorems, charge rule, permutations, grouped sites)
and spec/Fermion.tla (genuine Fock space, CAR, tenpy's Jordan-Wigner routes), then REPLAY of every
TLC state into the real tenpy objects:
  * Sites: state labels, leg charges, perm, every named operator (phase exact, |entry|^2 rational),
    hc_ops, need_JW_string, opnames; set_common_charges / GroupedSite / kron in the label basis.
  * Fermion: for every TLC-enumerated term the dense many-body matrix obtained through each tenpy
    route (order_combine_term + *_handle_JW, TermList -> MPOGraph -> MPO, CouplingModel.add_*,
    expectation_value_term, apply_local_term, correlation_function, GroupedSite chains) must equal
    the spec's signed partial permutation matrix exactly.
"""
import random
import shutil
import time
import warnings

import numpy as np

from harness import core, tlc, tlaval
from harness import sites as hs

# ------------------------------------------------------------------------------------------------
# Fermion
# ------------------------------------------------------------------------------------------------
FERM_INV = ['MatIsFock', 'LocalTablesRight', 'CAR', 'CARInProducts', 'NumberIsCdC', 'OrderCombineCorrect',
            'OrderCombineContract', 'OrderCombineIdempotent', 'OrderCombineShift', 'SplitProduct', 'JWRouteCorrect', 'JWRouteOddRejected', 'TermOpsCorrect', 'CorrCorrect', 'HcCorrect']


def ferm_cfg(L, K, names, maxlen, spin_at=()):
    return dict(spec='Spec', constants=dict(L=L, K=K, Names=set(names), MaxLen=maxlen, SpinAt=set(spin_at)), invariants=FERM_INV)


K1_CONS = ['N', 'parity', None]
K2_CONS = [('N', 'Sz'), ('parity', 'parity'), (None, None), ('N', None), (None, 'Sz'), ('parity', 'Sz')]
# T + T^dagger only has a definite charge if T is neutral; otherwise use options where every even term is neutral
K1_CONS_HC = ['parity', None]
K2_CONS_HC = [('parity', None), (None, None)]


def term_neutral(term, K):
    """same number of creators and annihilators for every spin species"""
    bal = {}
    for nm, _ in term:
        if K == 1:
            sp, d = 0, {'C': -1, 'Cd': 1}.get(nm, 0)
        else:
            sp, d = {'Cu': (0, -1), 'Cdu': (0, 1), 'Cd': (1, -1), 'Cdd': (1, 1)}.get(nm, (0, 0))
        bal[sp] = bal.get(sp, 0) + d
    return all(v == 0 for v in bal.values())


class FermEnv:
    """The real tenpy objects for one (K, L, conserve) plus the label-based basis maps."""

    def __init__(self, K, L, cons, spin_at=()):
        from tenpy.networks import site as ts
        from tenpy.models.lattice import Lattice
        from tenpy.models.model import CouplingModel
        self.K, self.L, self.cons, self.spin_at = K, L, cons, tuple(spin_at)
        self.M = M = K * L
        if K == 1:
            self.site = ts.FermionSite(conserve=cons)
        else:
            self.site = ts.SpinHalfFermionSite(cons_N=cons[0], cons_Sz=cons[1])
        self.sites = [self.site] * L
        self.labels = [hs.occupations_to_labels(hs.bits_of(x, M), K) for x in range(2 ** M)]
        if spin_at:
            # heterogeneous chain: SpinHalfSites at `spin_at`; one common ChargeInfo through set_common_charges
            spin = ts.SpinHalfSite(conserve={'N': 'Sz', 'parity': 'parity', None: None}[cons])
            if cons is not None:
                ts.set_common_charges([self.site, spin], 'same')
            self.sites = [spin if i in spin_at else self.site for i in range(L)]
            self.labels = [[('up' if b else 'down') if i in spin_at else lab for i, (b, lab) in enumerate(zip(hs.bits_of(x, M), labs))]
                           for x, labs in enumerate(self.labels)]
        self.s2i = np.array([hs.product_basis_index(self.sites, lab) for lab in self.labels])
        self.lat = Lattice([1], self.sites, bc='open', bc_MPS='finite')
        self.model = CouplingModel(self.lat)
        self.model_phc = None
        self._psi = {}
        self._grouped = {}
        # (on a chain without charges nothing can provide the JW signs of an open string)
        self.has_c2jw = cons not in (None, (None, None), (None, 'Sz')) and getattr(self.site, 'charge_to_JW_parity', None) is not None

    def expected(self, mat, s2i=None):
        s2i = self.s2i if s2i is None else s2i
        n = len(mat)
        E = np.zeros((n, n))
        for x, v in enumerate(mat):
            if v:
                E[s2i[abs(v) - 1], s2i[x]] = 1.0 if v > 0 else -1.0
        return E

    def psi(self, x):
        from tenpy.networks.mps import MPS
        p = self._psi.get(x)
        if p is None:
            p = self._psi[x] = MPS.from_product_state(self.sites, self.labels[x], 'finite')
        return p

    def grouped(self, n):
        g = self._grouped.get(n)
        if g is None:
            from tenpy.networks.site import group_sites
            gs = group_sites(self.sites, n)
            glabels = []
            for lab in self.labels:
                gl = []
                for a in range(0, self.L, n):
                    gl.append(' '.join('%s_%d' % (lab[a + k], k) for k in range(min(n, self.L - a))))
                glabels.append(gl)
            s2i = np.array([hs.product_basis_index(gs, gl) for gl in glabels])
            g = self._grouped[n] = (gs, s2i)
        return g


def _tterm(term):
    return [(str(nm), int(i)) for nm, i in term]


def _fail(ctx, route, clause, env, st, got, exp, extra=None):
    sig = dict(kind='replay', spec='Fermion', route=route, clause=clause, K=env.K)
    if extra:
        sig.update(extra)
    if env.spin_at:
        sig['hetero'] = True
    det = dict(term=_tterm(st['term']), L=env.L, K=env.K, conserve=env.cons, spin_sites=list(env.spin_at), got=got, expected=exp,
               spec_last=tlaval.to_jsonable({k: v for k, v in st['last'].items() if k != 'mat'}),
               spec_mat=list(st['last']['mat']))
    ctx.violation(sig, det)


def _nz(D):
    """compact description of a dense matrix for replay files"""
    r, c = np.nonzero(D)
    return [[int(a), int(b), complex(D[a, b]).real, complex(D[a, b]).imag] for a, b in zip(r, c)][:200]


def route_structure(ctx, env, st, key, dense=True):
    """order_combine_term + coupling_term_handle_JW / multi_coupling_term_handle_JW."""
    from tenpy.networks.terms import order_combine_term, CouplingTerms, MultiCouplingTerms
    last = st['last']
    term = _tterm(st['term'])
    comb, sign = order_combine_term(list(term), env.sites)
    expanded = [(nm, i) for (op, i) in comb for nm in op.split()]
    spec_sorted = _tterm(last['oc']['t'])
    ctx.case(('ferm', key, 'oc'), action='Fermion.order_combine_term')
    same_structure = expanded == spec_sorted
    if same_structure and sign != last['oc']['sg']:
        _fail(ctx, 'order_combine_term', 'overall_sign', env, st, dict(combined=comb, sign=sign),
              dict(sorted=spec_sorted, sign=last['oc']['sg']))
        return False
    if any(a[1] >= b[1] for a, b in zip(comb, comb[1:])):
        _fail(ctx, 'order_combine_term', 'not-strictly-ascending', env, st, dict(combined=comb), dict(sorted=spec_sorted))
        return False
    hj = last['hj']
    got = None
    try:
        if len(comb) == 1:
            per = {comb[0][1]: comb[0][0]}
            strs = []
            got = ('ok', [comb[0][1]], [comb[0][0].split()], [])
        elif len(comb) == 2:
            _, i, j, op_i, op_j, op_str = CouplingTerms(env.L).coupling_term_handle_JW(1.0, comb, env.sites)
            got = ('ok', [i, j], [op_i.split(), op_j.split()], [op_str])
        else:
            _, ijkl, ops, op_str = MultiCouplingTerms(env.L).multi_coupling_term_handle_JW(1.0, comb, env.sites)
            got = ('ok', list(ijkl), [o.split() for o in ops], list(op_str))
    except ValueError as e:
        got = ('ValueError', str(e))
    ctx.case(('ferm', key, 'hj'), action='Fermion.handle_JW')
    if hj['err']:
        if got[0] != 'ValueError':
            _fail(ctx, 'handle_JW', 'missing-error', env, st, got, 'ValueError')
            return False
        return True
    if got[0] != 'ok':
        _fail(ctx, 'handle_JW', 'spurious-error', env, st, got, tlaval.to_jsonable(hj))
        return False
    if same_structure and (got[1], got[2], got[3]) == (list(hj['i']), [list(o) for o in hj['ops']], list(hj['str'])):
        ctx.notes['fermion_structure_equal'] = ctx.notes.get('fermion_structure_equal', 0) + 1
    else:
        ctx.notes['fermion_structure_differs'] = ctx.notes.get('fermion_structure_differs', 0) + 1
    if last.get('xjw'):
        # an explicit op_string must be inserted on every segment, also between purely bosonic operators
        try:
            _, ijkl, ops, op_str = MultiCouplingTerms(env.L).multi_coupling_term_handle_JW(1.0, comb, env.sites, op_string='JW')
            per = ['Id'] * env.L
            for k_, i in enumerate(ijkl):
                per[i] = ops[k_]
            for k_, s_ in enumerate(op_str):
                for r in range(ijkl[k_] + 1, ijkl[k_ + 1]):
                    per[r] = s_
            gotx = ('ok', sign * hs.kron_named(env.sites, per), list(op_str))
        except ValueError as e:
            gotx = ('ValueError', str(e), None)
        ctx.case(('ferm', key, 'hj-explicit'), action='Fermion.handle_JW.explicit_op_string')
        Ex = env.expected(last['xjw'])
        if gotx[0] != 'ok' or not np.array_equal(gotx[1], Ex):
            _fail(ctx, 'handle_JW-explicit-op_string', 'dense', env, st,
                  dict(op_string_given='JW', op_string_returned=gotx[2], nonzero=_nz(gotx[1]) if gotx[0] == 'ok' else gotx[1]),
                  dict(op_string=['JW'] * (len(comb) - 1), nonzero=_nz(Ex)))
    if not dense or last['odd']:
        return True
    # meaning of the returned arguments: tensor product of the named operators, strings in between
    per = ['Id'] * env.L
    for k, i in enumerate(got[1]):
        per[i] = ' '.join(got[2][k])
    for k, s in enumerate(got[3]):
        for r in range(got[1][k] + 1, got[1][k + 1]):
            per[r] = s
    D = sign * hs.kron_named(env.sites, per)
    E = env.expected(last['mat'])
    ctx.case(('ferm', key, 'hj-dense'), action='Fermion.handle_JW.dense')
    if not np.array_equal(D, E):
        _fail(ctx, 'handle_JW', 'dense', env, st, dict(args=got, sign=sign, nonzero=_nz(D)), dict(nonzero=_nz(E)))
        return False
    return True


def route_termlist_mpo(ctx, env, st, key, group=1):
    """TermList -> to_OnsiteTerms_CouplingTerms -> MPOGraph -> MPO -> dense (optionally on a chain of GroupedSites)."""
    from tenpy.networks.terms import TermList
    from tenpy.networks.mpo import MPOGraph
    last = st['last']
    term = _tterm(st['term'])
    if group == 1:
        sites, s2i = env.sites, env.s2i
        route = 'TermList-MPO'
    else:
        sites, s2i = env.grouped(group)
        term = [(nm + str(i % group), i // group) for nm, i in term]
        route = 'GroupedSite-TermList-MPO'
    if last['odd'] and group != 1:
        return True
    if last['odd'] and last['nsite'] < 2:
        return True  # a single fermionic on-site operator: no contract for the TermList route
    try:
        ot, ct = TermList([list(term)], [1.0]).to_OnsiteTerms_CouplingTerms(sites)
        H = MPOGraph.from_terms((ot, ct), sites, 'finite').build_MPO()
        got = ('ok', hs.mpo_dense(H))
    except ValueError as e:
        got = ('ValueError', str(e))
    ctx.case(('ferm', key, route, group), action='Fermion.' + route)
    if last['odd']:
        if got[0] != 'ValueError':
            _fail(ctx, route, 'missing-error', env, st, 'no exception', 'ValueError', dict(group=group))
            return False
        return True
    if got[0] != 'ok':
        _fail(ctx, route, 'spurious-error', env, st, got, 'dense matrix', dict(group=group))
        return False
    E = env.expected(last['mat'], s2i)
    if not np.array_equal(got[1], E):
        _fail(ctx, route, 'dense', env, st, dict(tenpy_term=term, nonzero=_nz(got[1])), dict(nonzero=_nz(E)), dict(group=group))
        return False
    return True


def route_model(ctx, env, st, key, plus_hc=False):
    """CouplingModel.add_local_term / add_coupling / add_multi_coupling (auto JW) -> calc_H_MPO -> dense."""
    last = st['last']
    term = _tterm(st['term'])
    if last['odd']:
        return True
    E = env.expected(last['mat'])
    if plus_hc:
        E = E + E.T  # theorem HcCorrect: the matrix of the hc term is the transpose
    M = env.model
    usites = sorted(set(i for _, i in term))
    calls = ['add_local_term']
    if len(usites) >= 2:
        calls.append('add_multi_coupling')
        if len(term) == 2:
            calls.append('add_coupling')
            if all(env.sites[i_].op_needs_JW(nm) for nm, i_ in term):
                calls.append('add_coupling-opstrJW')      # the explicit op_string='JW' must mean the same
    ok = True
    for call in calls:
        M.onsite_terms = {}
        M.coupling_terms = {}
        try:
            if call == 'add_local_term':
                M.add_local_term(1.0, [(nm, [0, i]) for nm, i in term], plus_hc=plus_hc)
            elif call == 'add_multi_coupling':
                M.add_multi_coupling(1.0, [(nm, [0], i) for nm, i in term], plus_hc=plus_hc)
            elif call == 'add_coupling':
                (a, i), (b, j) = term
                M.add_coupling(1.0, i, a, j, b, [0], plus_hc=plus_hc)
            else:
                (a, i), (b, j) = term
                M.add_coupling(1.0, i, a, j, b, [0], op_string='JW', plus_hc=plus_hc)
            got = ('ok', hs.mpo_dense(M.calc_H_MPO()))
        except ValueError as e:
            got = ('ValueError', str(e))
        ctx.case(('ferm', key, call, plus_hc), action='Fermion.CouplingModel.' + call)
        if got[0] != 'ok':
            _fail(ctx, 'CouplingModel.' + call, 'spurious-error', env, st, got, 'dense matrix', dict(plus_hc=plus_hc))
            ok = False
        elif not np.array_equal(got[1], E):
            _fail(ctx, 'CouplingModel.' + call, 'dense', env, st, dict(nonzero=_nz(got[1])), dict(nonzero=_nz(E)),
                  dict(plus_hc=plus_hc))
            ok = False
    return ok


def route_mps(ctx, env, st, key, xs, rng):
    """expectation_value_term, apply_local_term, correlation_function on basis product states."""
    from tenpy.networks.mps import MPSEnvironment
    last = st['last']
    term = _tterm(st['term'])
    mat = last['mat']
    ok = True
    for x in xs:
        v = mat[x]
        y = abs(v) - 1 if v else x
        s = 0 if v == 0 else (1 if v > 0 else -1)
        ket = env.psi(x)
        bra = env.psi(y)
        # ---- expectation_value_term: diagonal element with the MPS itself, off-diagonal with an environment
        if not last['odd']:
            for name, obj, exp in (('MPS', ket, s if y == x else 0), ('MPSEnvironment', None, s)):
                if name == 'MPSEnvironment':
                    if y == x:
                        continue
                    obj = MPSEnvironment(bra, ket)
                try:
                    got = complex(obj.expectation_value_term(list(term)))
                except ValueError as e:
                    got = 'ValueError: %s' % e
                ctx.case(('ferm', key, 'evt', name, x), action='Fermion.expectation_value_term')
                if got != exp:
                    _fail(ctx, 'expectation_value_term', 'value', env, st, dict(got=str(got), via=name, ket=env.labels[x], bra=env.labels[y]),
                          exp)
                    ok = False
        else:
            try:
                got = complex(ket.expectation_value_term(list(term)))
            except ValueError as e:
                got = 'ValueError'
            ctx.case(('ferm', key, 'evt', 'odd', x), action='Fermion.expectation_value_term')
            if got != 'ValueError':
                _fail(ctx, 'expectation_value_term', 'missing-error', env, st, dict(got=str(got), ket=env.labels[x]), 'ValueError')
                ok = False
        # ---- term_correlation_function_right: T = T_L T_R with relative indices + offsets i_L, j_R
        if not last['odd']:
            for h in sorted(last['splits']):
                i_L = rng.choice([-1, 0, 1, 2, 3])
                j_R = rng.choice([1, 2, 3, 4, 5])
                tL = [(nm, i - i_L) for nm, i in term[:h]]
                tR = [(nm, i - j_R) for nm, i in term[h:]]
                obj = ket if y == x else MPSEnvironment(bra, ket)
                try:
                    got = complex(obj.term_correlation_function_right(tL, tR, i_L, [j_R])[0])
                except ValueError as e:
                    got = 'ValueError: %s' % e
                ctx.case(('ferm', key, 'tcf', h, x), action='Fermion.term_correlation_function_right')
                if got != s:
                    _fail(ctx, 'term_correlation_function_right', 'value', env, st,
                          dict(got=str(got), term_L=tL, term_R=tR, i_L=i_L, j_R=[j_R], ket=env.labels[x], bra=env.labels[y]), s)
                    ok = False
        # ---- apply_local_term (absolute indices, and relative indices with i_offset)
        for canon in (False, True):
            p = ket.copy()
            off = 0 if canon else rng.choice([0, 1, -1, 2, 3])
            try:
                if off:
                    p.apply_local_term([(nm, i - off) for nm, i in term], i_offset=off, canonicalize=canon)
                else:
                    p.apply_local_term(list(term), canonicalize=canon)
                if canon:
                    got = complex(bra.overlap(p))
                else:
                    got = complex(hs.product_state_coeff(p, env.labels[y]))
            except ValueError as e:
                got = 'ValueError'
            ctx.case(('ferm', key, 'alt', canon, x), action='Fermion.apply_local_term')
            if last['odd'] and not env.has_c2jw:
                # charge_to_JW_signs undefined: must refuse -- or be right anyway (no fermion left of the term) -- but never drop the string
                good = (got == 'ValueError' or (s != 0 and got == s) or (s == 0 and got == 0))
                exp = 'ValueError or %d' % s
            elif s == 0:
                good = (got == 'ValueError' or got == 0)
                exp = 0
            else:
                good = (got == s)
                exp = s
            if not good:
                _fail(ctx, 'apply_local_term', 'value', env, st,
                      dict(got=str(got), ket=env.labels[x], overlap_with=env.labels[y], canonicalize=canon, i_offset=off), exp,
                      dict(odd=bool(last['odd']), charges='none' if env.cons in (None, (None, None)) else 'some'))
                ok = False
        # ---- correlation_function
        if last['len'] == 2:
            (a, i), (b, j) = term
            mixed = env.sites[i].op_needs_JW(a) != env.sites[j].op_needs_JW(b)
            forms = [('scalar', a, b)]
            la = ['Id'] * env.L
            lb = ['Id'] * env.L
            la[i] = a
            lb[j] = b
            forms.append(('list', la, lb))
            for form, o1, o2 in forms:
                obj = ket if y == x else MPSEnvironment(bra, ket)
                try:
                    got = complex(obj.correlation_function(o1, o2, sites1=[i], sites2=[j])[0, 0])
                except ValueError as e:
                    got = 'ValueError'
                ctx.case(('ferm', key, 'corr', form, x), action='Fermion.correlation_function')
                if mixed:
                    if got != 'ValueError':
                        _fail(ctx, 'correlation_function', 'missing-error', env, st,
                              dict(got=str(got), ops1=o1, ops2=o2, sites1=[i], sites2=[j]), 'ValueError', dict(form=form))
                        ok = False
                elif got == 'ValueError':
                    _fail(ctx, 'correlation_function', 'spurious-error', env, st,
                          dict(got=got, ops1=o1, ops2=o2, sites1=[i], sites2=[j], ket=env.labels[x]), s, dict(form=form))
                    ok = False
                elif got != s:
                    _fail(ctx, 'correlation_function', 'value', env, st,
                          dict(got=str(got), ops1=o1, ops2=o2, sites1=[i], sites2=[j], ket=env.labels[x], bra=env.labels[y]), s,
                          dict(form=form))
                    ok = False
    return ok


def fermion_configs(ctx):
    """(L, K, names, maxlen, share of the terms sent through the expensive routes)"""
    if ctx.tier == 'quick':
        return [
            (6, 1, ['C', 'Cd'], 2, 0.5, ()),
            (6, 1, ['C', 'Cd'], 4, 0.008, ()),
            (6, 1, ['C', 'Cd'], 4, 0.06, (0, 2, 4)),            # spin, fermion, spin, fermion, ... : 1554 terms
            (4, 1, ['C', 'Cd', 'Sigmaz'], 3, 0.3, (1, 3)),
            (4, 1, ['C', 'Cd', 'N'], 3, 0.06, ()),
            (3, 2, ['Cu', 'Cdu', 'Cd', 'Cdd'], 2, 0.4, ()),
            (2, 2, ['Cu', 'Cdu', 'Cd', 'Cdd'], 4, 0.02, ()),
        ]
    return [
        (6, 1, ['C', 'Cd'], 4, 0.2, ()),
        (6, 1, ['C', 'Cd'], 4, 0.5, (0, 2, 4)),
        (6, 1, ['C', 'Cd', 'Sigmaz'], 4, 0.15, (1, 4)),
        (4, 1, ['C', 'Cd', 'N'], 4, 0.15, ()),
        (3, 2, ['Cu', 'Cdu', 'Cd', 'Cdd'], 4, 0.12, ()),
        (2, 2, ['Cu', 'Cdu', 'Cd', 'Cdd', 'Nu', 'Nd'], 4, 0.15, ()),
    ]


def _elem(mat, x, y):
    """<y|T|x> from the spec's column encoding"""
    v = mat[x]
    if v == 0 or abs(v) - 1 != y:
        return 0
    return 1 if v > 0 else -1


def _valid(env, term):
    return all(0 <= i < env.L and env.sites[i].valid_opname(nm) for nm, i in term)


def route_corr_family(ctx, env, st, key, xs, rng, lookup):
    """term_correlation_function_left / _right with lists of offsets, term_list_correlation_function_right:
    every returned number is a matrix element of a product term (another state of the model) or a bilinear sum of such."""
    from tenpy.networks.mps import MPSEnvironment
    from tenpy.networks.terms import TermList
    last = st['last']
    if last['odd'] or not last['splits']:
        return True
    term = _tterm(st['term'])
    mat = last['mat']
    ok = True

    def shifted(t, k):
        return [(nm, i + k) for nm, i in t]

    def rel(t, o):
        return [(nm, i - o) for nm, i in t]

    def look(t):
        return lookup.get(tuple(t))

    for x in xs:
        v = mat[x]
        y = abs(v) - 1 if v else x
        ket, bra = env.psi(x), env.psi(y)
        obj = ket if y == x else MPSEnvironment(bra, ket)
        who = dict(ket=env.labels[x], bra=env.labels[y])
        for h in sorted(last['splits']):
            tL, tR = term[:h], term[h:]
            i0 = rng.choice([-1, 0, 1, 2])
            j0 = rng.choice([0, 1, 2, 3, 5])
            # ---- term_correlation_function_left: the left term moves over i_L (descending), the right one is fixed
            iLs, exp = [i0], [_elem(mat, x, y)]
            tL2 = shifted(tL, -1)
            if _valid(env, tL2) and look(tL2 + tR) is not None:
                iLs.append(i0 - 1)
                exp.append(_elem(look(tL2 + tR), x, y))
            try:
                got = [complex(c) for c in obj.term_correlation_function_left(rel(tL, i0), rel(tR, j0), iLs, j0)]
            except ValueError as e:
                got = 'ValueError: %s' % e
            ctx.case(('ferm', key, 'tcfl', h, x), action='Fermion.term_correlation_function_left')
            if got != exp:
                _fail(ctx, 'term_correlation_function_left', 'value', env, st,
                      dict(got=str(got), term_L=rel(tL, i0), term_R=rel(tR, j0), i_L=iLs, j_R=j0, **who), exp)
                ok = False
            # ---- term_correlation_function_right over a list of j_R
            jRs, exp = [j0], [_elem(mat, x, y)]
            tR2 = shifted(tR, 1)
            if _valid(env, tR2) and look(tL + tR2) is not None:
                jRs.append(j0 + 1)
                exp.append(_elem(look(tL + tR2), x, y))
            try:
                got = [complex(c) for c in obj.term_correlation_function_right(rel(tL, i0), rel(tR, j0), i0, jRs)]
            except ValueError as e:
                got = 'ValueError: %s' % e
            ctx.case(('ferm', key, 'tcfr', h, x), action='Fermion.term_correlation_function_right')
            if got != exp:
                _fail(ctx, 'term_correlation_function_right', 'value-list', env, st,
                      dict(got=str(got), term_L=rel(tL, i0), term_R=rel(tR, j0), i_L=i0, j_R=jRs, **who), exp)
                ok = False
            # ---- term_list_correlation_function_right: sums of terms with prefactors given as arrays
            Ls, Rs = [tL], [tR]
            if _valid(env, tL2) and all(look(tL2 + r) is not None for r in [tR, tR2] if _valid(env, r)):
                Ls.append(tL2)
            if _valid(env, tR2) and all(look(l + tR2) is not None for l in Ls):
                Rs.append(tR2)
            a = np.array([2.0, -0.5][:len(Ls)])
            b = np.array([1.0, 4.0][:len(Rs)])
            a0, b0 = a.copy(), b.copy()
            prods = {(k_, l_): (look(Ls[k_] + Rs[l_]) if (k_ or l_) else mat) for k_ in range(len(Ls)) for l_ in range(len(Rs))}
            # bra/ket taken from each product term in turn (so that every summand is seen with a non-zero weight)
            for (k0, l0), mp in sorted(prods.items()):
                if (k0, l0) == (0, 0):
                    xs_, ys_ = x, y
                else:
                    nzp = [c for c in range(len(mp)) if mp[c]]
                    if not nzp:
                        continue
                    xs_ = rng.choice(nzp)
                    ys_ = abs(mp[xs_]) - 1
                obj2 = env.psi(xs_) if ys_ == xs_ else MPSEnvironment(env.psi(ys_), env.psi(xs_))
                exp = sum(a[k_] * b[l_] * _elem(m_, xs_, ys_) for (k_, l_), m_ in prods.items())
                try:
                    got = complex(obj2.term_list_correlation_function_right(TermList([rel(t, i0) for t in Ls], a),
                                                                            TermList([rel(t, j0) for t in Rs], b), i0, [j0])[0])
                except ValueError as e:
                    got = 'ValueError: %s' % e
                ctx.case(('ferm', key, 'tlcf', h, x, k0, l0), action='Fermion.term_list_correlation_function_right')
                if got != exp or not (np.array_equal(a, a0) and np.array_equal(b, b0)):
                    _fail(ctx, 'term_list_correlation_function_right', 'value' if got != exp else 'caller-array-mutated', env, st,
                          dict(got=str(got), terms_L=[rel(t, i0) for t in Ls], strength_L=a0.tolist(), terms_R=[rel(t, j0) for t in Rs],
                               strength_R=b0.tolist(), arrays_after=[a.tolist(), b.tolist()], i_L=i0, j_R=[j0],
                               ket=env.labels[xs_], bra=env.labels[ys_]), complex(exp))
                    ok = False
    return ok


def route_termlist_history(ctx, env, st, key, x, rng, infinite=False):
    """Histories of TermLists built from ONE caller-owned prefactor array: two lists from the same array, a shifted
    copy, repeated order_combine, conversion to an MPO, repeated expectation_value_terms_sum (finite and infinite MPS).
    Each list must carry strength*sign exactly once; the caller's array must never change."""
    from tenpy.networks.terms import TermList
    from tenpy.networks.mpo import MPOGraph
    from tenpy.networks.mps import MPS
    last = st['last']
    if last['odd']:
        return True
    term = _tterm(st['term'])
    a = rng.choice([1.0, 2.0, -0.5])
    arr = np.array([a])
    arr0 = arr.copy()
    sg = last['oc']['sg']
    spec_sorted = _tterm(last['oc']['t'])
    ok = True

    def bad(step, got, exp):
        nonlocal ok
        ok = False
        _fail(ctx, 'TermList-history', step, env, st, dict(got=got, strength_array_given=arr0.tolist(), array_now=arr.tolist()), exp)

    def expanded(tl):
        return [(nm, i) for (op, i) in tl.terms[0] for nm in op.split()]

    ctx.case(('ferm', key, 'tlh'), action='Fermion.TermList-history')
    tlA = TermList([list(term)], arr)
    tlB = TermList([list(term)], arr)
    kmax = env.L - 1 - max(i for _, i in term)
    kmin = -min(i for _, i in term)
    ks = [k_ for k_ in range(kmax, kmin - 1, -1) if k_ != 0 and _valid(env, [(nm, i + k_) for nm, i in term])]
    k = ks[0] if ks else 0          # (on a heterogeneous chain only shifts that keep every operator on its kind of site)
    tlS = tlA.shift(k)
    tlS.order_combine(env.sites)                     # the shifted copy is ordered first
    if expanded(tlS) == [(nm, i + k) for nm, i in spec_sorted] and tlS.strength.tolist() != [a * sg]:
        bad('shifted-copy-strength', tlS.strength.tolist(), [a * sg])
    if tlA.strength.tolist() != [a] or tlB.strength.tolist() != [a] or not np.array_equal(arr, arr0):
        bad('aliasing-after-shift', dict(A=tlA.strength.tolist(), B=tlB.strength.tolist()), [a])
    tlA.order_combine(env.sites)
    same = expanded(tlA) == spec_sorted
    if same and tlA.strength.tolist() != [a * sg]:
        bad('order_combine-strength', tlA.strength.tolist(), [a * sg])
    tlA.order_combine(env.sites)                     # idempotent
    if same and tlA.strength.tolist() != [a * sg]:
        bad('order_combine-twice', tlA.strength.tolist(), [a * sg])
    if tlB.strength.tolist() != [a] or not np.array_equal(arr, arr0):
        bad('aliasing-after-order_combine', dict(B=tlB.strength.tolist()), [a])
    # the second list (still unsorted) -> MPO: a * T
    E = a * env.expected(last['mat'])
    try:
        ot, ct = tlB.to_OnsiteTerms_CouplingTerms(env.sites)
        D = hs.mpo_dense(MPOGraph.from_terms((ot, ct), env.sites, 'finite').build_MPO())
        if not np.array_equal(D, E):
            bad('second-list-MPO', dict(nonzero=_nz(D)), dict(nonzero=_nz(E)))
    except ValueError as e:
        bad('second-list-MPO', 'ValueError: %s' % e, 'dense matrix')
    # repeated expectation_value_terms_sum with the caller's array
    expv = a * _elem(last['mat'], x, x)
    psi = env.psi(x)
    got = []
    for rep in range(2):
        try:
            got.append(complex(psi.expectation_value_terms_sum(TermList([list(term)], arr))[0]))
        except ValueError as e:
            got.append('ValueError: %s' % e)
    if got != [expv, expv] or not np.array_equal(arr, arr0):
        bad('expectation_value_terms_sum-repeated', [str(g) for g in got], [expv, expv])
    if infinite:
        # the same term one unit cell to the left on the infinite product state (an even term carries no string out of the cell)
        ipsi = env._psi.get(('inf', x))
        if ipsi is None:
            ipsi = env._psi[('inf', x)] = MPS.from_product_state(env.sites, env.labels[x], 'infinite')
        tl = TermList([[(nm, i - env.L) for nm, i in term]], arr)
        got = []
        for rep in range(2):
            try:
                got.append(complex(ipsi.expectation_value_terms_sum(tl)[0]))
            except ValueError as e:
                got.append('ValueError: %s' % e)
        ctx.case(('ferm', key, 'tlh-inf'), action='Fermion.TermList-history.infinite')
        if got != [expv, expv] or not np.array_equal(arr, arr0):
            bad('expectation_value_terms_sum-infinite-repeated', [str(g) for g in got], [expv, expv])
    return ok


def get_env(ctx, envs, K, L, cons, spin_at=()):
    k = (K, L, cons, tuple(spin_at))
    env = envs.get(k)
    if env is None:
        try:
            env = envs[k] = FermEnv(K, L, cons, spin_at)
        except Exception as e:  # noqa  the documented site / chain cannot even be built
            ctx.violation(dict(kind='replay', spec='Fermion', route='site-constructor', clause='exception', K=K),
                          dict(K=K, L=L, conserve=cons, spin_sites=list(spin_at), got='%s: %s' % (type(e).__name__, e)))
            envs[k] = env = False
    return env or None


def run_fermion(ctx, configs, futures):
    quick = ctx.tier == 'quick'
    rng = random.Random(ctx.seed * 7919 + 12)
    envs = {}
    nstates = 0
    for (L, K, names, maxlen, share, spin_at), fut in zip(configs, futures):
        t0 = time.time()
        res, dump, d = fut.result()
        name = 'Fermion(L=%d,K=%d,%s,len<=%d%s)' % (L, K, '/'.join(names), maxlen, ',spin@%s' % (list(spin_at),) if spin_at else '')
        if res.violated:
            ctx.violation(dict(kind='mc', spec='Fermion', invariant=res.violated[0]),
                          dict(config=name, trace=tlaval.to_jsonable(res.error_trace)))
        conss = K1_CONS if K == 1 else K2_CONS
        n = 0
        cov = {}
        states = [st for st in tlaval.iter_dump(dump) if st['term']]
        lookup = {tuple(_tterm(st['term'])): st['last']['mat'] for st in states}      # product terms are states themselves
        for st in states:
            n += 1
            nm_last = st['term'][-1][0]
            act = 'AppendSpin' if nm_last == 'Sigmaz' else 'AppendNum' if nm_last in ('N', 'Nu', 'Nd') else ('AppendAnn' if nm_last in ('C', 'Cu') or (nm_last == 'Cd' and K == 2) else 'AppendCre')
            cov[act] = cov.get(act, 0) + 1
            cons = conss[(n + ctx.seed) % len(conss)]
            env = get_env(ctx, envs, K, L, cons, spin_at)
            if env is None:
                continue
            if CORRUPT and n == 40:
                st['last']['mat'] = [-v for v in st['last']['mat']]       # canary: a corrupted prediction must be rejected
            key = (K, L, repr(st['term']))
            last = st['last']
            heavy = rng.random() < share
            route_structure(ctx, env, st, key, dense=(heavy or last['len'] <= 2 or rng.random() < (2 if quick else 4) * share))
            if heavy:
                route_termlist_mpo(ctx, env, st, key)
                route_model(ctx, env, st, key, plus_hc=False)
                if rng.random() < 0.5:
                    env2 = env
                    if not term_neutral(_tterm(st['term']), K):
                        c2 = (K1_CONS_HC if K == 1 else K2_CONS_HC)[n % 2]
                        env2 = get_env(ctx, envs, K, L, c2, spin_at)
                    if env2 is not None:
                        route_model(ctx, env2, st, key, plus_hc=True)
                for g in (2, 3):
                    if g <= L and rng.random() < 0.7:
                        route_termlist_mpo(ctx, env, st, key, group=g)
                nb = 2 ** env.M
                nz = [x for x in range(nb) if last['mat'][x]]
                xs = set(rng.sample(nz, min(len(nz), 2 if quick else 4)))
                xs.add(rng.randrange(nb))
                route_mps(ctx, env, st, key, sorted(xs), rng)
                route_corr_family(ctx, env, st, key, sorted(xs)[:2], rng, lookup)
                diag = [x for x in nz if abs(last['mat'][x]) - 1 == x]
                route_termlist_history(ctx, env, st, key, rng.choice(diag) if diag else rng.randrange(nb), rng,
                                       infinite=bool(diag) and not spin_at and rng.random() < 0.5)
            if n == 77:
                ctx.sample(dict(spec='Fermion', config=name, term=_tterm(st['term']),
                                last=tlaval.to_jsonable({k: v for k, v in last.items()})))
        ctx.trace_ok(n)
        nstates += n
        shutil.rmtree(d, ignore_errors=True)
        # action coverage measured on the dumped state graph (TLC's own -coverage switches off its caching of
        # lazily evaluated values, which makes these table-heavy specs ~50x slower)
        res.coverage = {k: (v, v) for k, v in cov.items()}
        ctx.add_mc(name, res)
        print('  %s: %d terms, MC %.1fs, replay %.1fs' % (name, n, res.wall, time.time() - t0), flush=True)
    ctx.notes['fermion_terms_replayed'] = ctx.notes.get('fermion_terms_replayed', 0) + nstates


# ------------------------------------------------------------------------------------------------
# Sites
# ------------------------------------------------------------------------------------------------
SITES_INV = ['HcComplete', 'ChargeRule', 'PermRule', 'JWFlags', 'SpinAlgebra', 'FermionAlgebra', 'SpinfulAlgebra',
             'BosonAlgebra', 'ClockAlgebra', 'GroupChargeRule', 'GroupAnticommute', 'GroupJWParity', 'EditRule']
UNITS4 = [1, 1j, -1, -1j]
import os
CORRUPT = bool(os.environ.get('VERIF_C12_CORRUPT'))      # self-test: corrupt one predicted value per spec, expect VIOLATION


def sites_cfg(max_two_s, max_boson, max_clock, fillings, max_group):
    return dict(spec='Spec', constants=dict(MaxTwoS=max_two_s, MaxBoson=max_boson, MaxClock=max_clock,
                                            Fillings='<-' + fillings, MaxGroup=max_group), invariants=SITES_INV)


def _cons(c):
    return None if c == 'None' else c


def make_site(T):
    """The real tenpy site for the (class, parameters, conserve) of a spec table."""
    from tenpy.networks import site as ts
    cls, par, cons = T['cls'], T['par'], T['cons']
    if cls == 'SpinHalfSite':
        return ts.SpinHalfSite(conserve=_cons(cons), sort_charge=T.get('sorted', True))
    if cls == 'SpinSite':
        return ts.SpinSite(S=par[0] / 2., conserve=_cons(cons), sort_charge=T.get('sorted', True))
    if cls == 'FermionSite':
        return ts.FermionSite(conserve=_cons(cons), filling=par[0] / par[1])
    if cls == 'SpinHalfFermionSite':
        return ts.SpinHalfFermionSite(cons_N=_cons(cons[0]), cons_Sz=_cons(cons[1]), filling=par[0] / par[1])
    if cls == 'SpinHalfHoleSite':
        return ts.SpinHalfHoleSite(cons_N=_cons(cons[0]), cons_Sz=_cons(cons[1]), filling=par[0] / par[1])
    if cls == 'BosonSite':
        return ts.BosonSite(Nmax=par[0], conserve=_cons(cons), filling=par[1] / par[2])
    if cls == 'ClockSite':
        return ts.ClockSite(q=par[0], conserve=_cons(cons))
    raise core.MachineryError('unknown site class %r' % cls)


def state_labels_of(T, k):
    """all documented labels of the state with conserve=None index k (0-based)"""
    stt = T['states'][k]
    labs = list(stt['labels'])
    if T['cls'] == 'SpinSite':
        labs.insert(0, str(stt['tag'] / 2.))
    elif T['cls'] in ('BosonSite', 'ClockSite'):
        labs.insert(0, str(stt['tag']))
    return labs


def entry_value(entry, mod):
    v = 0
    for m in entry:
        u = UNITS4[m['ph']] if mod == 4 else np.exp(2j * np.pi * m['ph'] / mod)
        v = v + u * m['c'] * np.sqrt(m['rad']) / m['den']
    return v


def entry_matches(got, entry, mod, exact_units=True):
    """exact comparison of one matrix element with the spec's canonical sum of monomials"""
    got = complex(got)
    if not entry:
        return got == 0
    if len(entry) == 1:
        m = entry[0]
        mag2 = m['c'] ** 2 * m['rad'] / m['den'] ** 2          # rational |entry|^2
        if abs(abs(got) ** 2 - mag2) > 1e-13 * max(1., mag2):
            return False
        if mod == 4 and exact_units:                          # sign / factor i exactly
            u = UNITS4[m['ph']]
            return (got.imag == 0 and got.real * u.real > 0) if u.imag == 0 else (got.real == 0 and got.imag * u.imag > 0)
        u = np.exp(2j * np.pi * m['ph'] / mod)
        return abs(got / abs(got) - u) < 1e-13
    return abs(got - entry_value(entry, mod)) < 1e-13 * max(1., abs(got))


def compare_matrix(M, sparse, mod, pos, exact_units=True):
    """M: dense matrix in the implementation's basis; sparse: spec triples (to, from, entry) over spec
    indices (1-based); pos[spec index - 1] = implementation index.  Returns None or a description."""
    D = len(pos)
    if M.shape != (D, D):
        return dict(what='shape', got=list(M.shape), expected=[D, D])
    seen = np.zeros((D, D), bool)
    for to, fr, entry in sparse:
        a, b = pos[to - 1], pos[fr - 1]
        seen[a, b] = True
        if not entry_matches(M[a, b], entry, mod, exact_units):
            return dict(what='entry', to=to, frm=fr, got=str(complex(M[a, b])), expected=tlaval.to_jsonable(entry), mod=mod)
    # (operators built from np.exp / np.cos -- clock sites -- carry rounding noise of a few ulp instead of exact zeros)
    rest = np.argwhere(((M != 0) if exact_units else (np.abs(M) > 1e-14)) & ~seen)
    if len(rest):
        a, b = rest[0]
        return dict(what='extra-nonzero', impl_to=int(a), impl_from=int(b), got=str(complex(M[a, b])))
    return None


def site_fail(ctx, stage, clause, T, got, exp, extra=None):
    sig = dict(kind='replay', spec='Sites', stage=stage, clause=clause, cls=T.get('cls', 'group'))
    if extra:
        sig.update(extra)
    ctx.violation(sig, dict(cls=T.get('cls'), par=T.get('par'), cons=T.get('cons'), got=got, expected=exp))
    return False


def check_table(ctx, site, T, key, stage, order, chg, qnames, qmod, extra=None):
    """Compare a real site with a spec table, using `order`/`chg` (possibly replaced by set_common_charges)."""
    d = T['d']
    ok = True

    def bad(clause, got, exp):
        nonlocal ok
        ok = False
        return site_fail(ctx, stage, clause, T, got, exp, extra)

    ctx.case((stage, key, 'basis'), action='Sites.%s.basis' % stage)
    if site.dim != d:
        return bad('dim', site.dim, d)
    pos = [None] * d          # pos[None-index] = index in the sorted basis
    for new, old in enumerate(order):
        pos[old - 1] = new
    exp_labels = {}
    for k in range(d):
        for lab in state_labels_of(T, k):
            exp_labels[lab] = pos[k]
    got_labels = {str(a): int(b) for a, b in site.state_labels.items()}
    if got_labels != exp_labels:
        bad('state_labels', got_labels, exp_labels)
    if [int(x) for x in site.perm] != [o - 1 for o in order]:
        bad('perm', [int(x) for x in site.perm], [o - 1 for o in order])
    ctx.case((stage, key, 'charges'), action='Sites.%s.charges' % stage)
    chinfo = site.leg.chinfo
    if [str(n) for n in chinfo.names] != list(qnames) or [int(m) for m in chinfo.mod] != list(qmod):
        bad('chinfo', dict(names=list(chinfo.names), mod=[int(m) for m in chinfo.mod]), dict(names=list(qnames), mod=list(qmod)))
    else:
        qflat = site.leg.to_qflat().tolist()
        expq = [list(chg[order[new] - 1]) for new in range(d)]
        if qflat != expq:
            bad('charges', qflat, expq)
        if site.leg.qconj != 1:
            bad('qconj', site.leg.qconj, 1)
    ctx.case((stage, key, 'opnames'), action='Sites.%s.opnames' % stage)
    if set(site.opnames) != set(T['ops']):
        bad('opnames', sorted(site.opnames), sorted(T['ops']))
    for nm in sorted(set(T['ops']) & set(site.opnames)):
        ctx.case((stage, key, 'op', nm), action='Sites.%s.operator' % stage)
        r = compare_matrix(site.get_op(nm).to_ndarray(), T['ops'][nm], T['Mod'], pos, T['cls'] != 'ClockSite')  # clock phases come from np.exp
        if r is not None:
            bad('operator', dict(op=nm, **r), 'spec table')
    # hermitian conjugates
    pairs = set((a, b) for a, b in T['hc'])
    ctx.case((stage, key, 'hc'), action='Sites.%s.hc_ops' % stage)
    for nm in T['ops']:
        h = site.hc_ops.get(nm)
        partners = sorted(b for a, b in pairs if a == nm)      # (only after remove_op an operator can be left without partner)
        lenient = bool(extra) and extra.get('edit') == 'remove'     # remove_op also drops the partner's declaration
        if (h is None and partners and not lenient) or (h is not None and (nm, h) not in pairs):
            bad('hc_ops', dict(op=nm, hc=h), partners)
    if set(site.need_JW_string) != set(T['jw']):
        bad('need_JW_string', sorted(site.need_JW_string), sorted(T['jw']))
    # charge_to_JW_parity: if defined it must reproduce the diagonal of JW; fermionic sites with N/parity must define it
    ctx.case((stage, key, 'c2jw'), action='Sites.%s.charge_to_JW_signs' % stage)
    c2 = getattr(site, 'charge_to_JW_parity', None)
    if c2 is not None:
        signs = site.charge_to_JW_signs(site.leg.to_qflat())
        jw = {to: entry_value(e, T['Mod']) for to, fr, e in T['ops']['JW']}
        expd = [complex(jw[order[new]]).real for new in range(d)]
        if list(signs) != expd:
            bad('charge_to_JW_signs', list(signs), expd)
    elif stage == 'site' and T['c2jw']['def'] == 'yes' and any(T['c2jw']['v']):
        bad('charge_to_JW_parity-missing', None, list(T['c2jw']['v']))
    # add_op with a matrix written in the documented (conserve=None) basis order: the default must account for
    # the permutation the sorting of the charges caused (used_sort_charge / perm)
    for nm in ('Sp', 'Cd', 'Cdu', 'Bd', 'X'):
        if nm in T['ops']:
            A = np.zeros((d, d), complex)
            for to, fr, e in T['ops'][nm]:
                A[to - 1, fr - 1] = entry_value(e, T['Mod'])
            ctx.case((stage, key, 'add_op'), action='Sites.%s.add_op' % stage)
            try:
                site.add_op('VerifNew', A if np.any(A.imag) else A.real)
                r = compare_matrix(site.get_op('VerifNew').to_ndarray(), T['ops'][nm], T['Mod'], pos, False)
                site.remove_op('VerifNew')
            except ValueError as e:
                r = dict(what='ValueError', got=str(e)[:300])
            if r is not None:
                bad('add_op-after-sort', dict(copy_of=nm, perm=[int(x) for x in site.perm], used_sort_charge=bool(site.used_sort_charge), **r),
                    'the same operator as %s' % nm)
            break
    return ok


def replay_site(ctx, T, key):
    try:
        site = make_site(T)
        site.test_sanity()
    except core.MachineryError:
        raise
    except Exception as e:  # noqa  a documented site that cannot be built / fails its own sanity check
        return site_fail(ctx, 'site', 'constructor-or-sanity', T, '%s: %s' % (type(e).__name__, e), 'a valid site')
    return check_table(ctx, site, T, key, 'site', T['order'], T['chg'], T['qnames'], T['qmod'])


def make_sites(ctx, tabs, stage):
    try:
        return [make_site(T) for T in tabs]
    except core.MachineryError:
        raise
    except Exception as e:  # noqa
        site_fail(ctx, stage, 'constructor-or-sanity', dict(cls='members', par=[T['cls'] for T in tabs]),
                  '%s: %s' % (type(e).__name__, e), 'valid sites')
        return None


def replay_edit(ctx, T, key):
    """Site.rename_op / remove_op / add_op on a freshly built site; then the whole table is compared again."""
    from tenpy.networks.terms import order_combine_term
    e = T['edit']
    sig_extra = dict(edit=e['kind'], wasjw=bool(e['wasjw']))
    try:
        site = make_site(T)
        if e['kind'] == 'rename':
            site.rename_op(e['old'], e['new'])
        elif e['kind'] == 'remove':
            site.remove_op(e['old'])
        else:
            site.add_op(e['new'], site.get_op(e['old']).copy(), need_JW=bool(e['wasjw']))
        site.test_sanity()
    except core.MachineryError:
        raise
    except Exception as ex:  # noqa
        return site_fail(ctx, 'edit', 'exception', T, '%s: %s' % (type(ex).__name__, ex), 'edited site', sig_extra)
    ok = check_table(ctx, site, T, key, 'edit', T['order'], T['chg'], T['qnames'], T['qmod'], sig_extra)
    if e['kind'] in ('rename', 'add'):
        # the (new) name used on two sites: exchanging two fermionic operators costs a sign
        ctx.case(('edit', key, 'oc'), action='Sites.edit.order_combine_term')
        _, sign = order_combine_term([(e['new'], 1), (e['new'], 0)], [site, site])
        if sign != (-1 if e['wasjw'] else 1):
            ok = site_fail(ctx, 'edit', 'order_combine_term-sign', T, dict(term=[(e['new'], 1), (e['new'], 0)], sign=sign),
                           -1 if e['wasjw'] else 1, sig_extra)
    return ok


def replay_common(ctx, tabs, grp, key):
    from tenpy.networks.site import set_common_charges
    sites = make_sites(ctx, tabs, 'common')
    if sites is None:
        return False
    sig_extra = dict(pol=grp['pol'])
    ctx.case(('common', key), action='Sites.set_common_charges')
    try:
        perms = set_common_charges(sites, [[(1, 0, 0), (-1, 1, 0)]] if grp['pol'] == 'diff' else grp['pol'])
        got = 'ok'
    except ValueError as e:
        got = 'ValueError: %s' % e
    G = dict(cls='set_common_charges', par=[T['cls'] for T in tabs], cons=[T['cons'] for T in tabs])
    if grp['err']:
        if got == 'ok':
            return site_fail(ctx, 'common', 'missing-error', G, got, 'ValueError', sig_extra)
        return True
    if got != 'ok':
        return site_fail(ctx, 'common', 'spurious-error', G, got, 'ok', sig_extra)
    ok = True
    for s, (site, T) in enumerate(zip(sites, tabs)):
        try:
            site.test_sanity()
        except Exception as e:  # noqa
            ok = site_fail(ctx, 'common', 'test_sanity', T, '%s: %s' % (type(e).__name__, e), 'a valid site', sig_extra)
            continue
        ok &= check_table(ctx, site, T, key + (s,), 'common', grp['tabs'][s]['order'], grp['tabs'][s]['chg'], grp['qnames'],
                          grp['qmod'], sig_extra)
    if ok and len(sites) == 2:
        ok &= hetero_cell_correlations(ctx, sites, tabs, key, sig_extra)
    return ok


def hetero_cell_correlations(ctx, sites, tabs, key, sig_extra):
    """<Id_0 A_j> for j = 1, 2, 3 on the chain a b a b, A a diagonal operator name both sites define (with their own
    matrices): the correlation-function family must use the operator of the site it lands on."""
    from tenpy.networks.mps import MPS
    from tenpy.networks.terms import TermList
    diag = []
    for nm in sorted(set(tabs[0]['ops']) & set(tabs[1]['ops']) - {'Id', 'JW'}):
        if all(to == fr for T in tabs for to, fr, e in T['ops'][nm]) and not any(nm in T['jw'] for T in tabs):
            diag.append(nm)
    if not diag:
        return True
    ks = [T['d'] for T in tabs]                       # the last documented state of each site
    labs = [state_labels_of(T, k - 1)[0] for T, k in zip(tabs, ks)]
    chain = [sites[0], sites[1]] * 2
    psi = MPS.from_product_state(chain, labs * 2, 'finite')
    ok = True
    for nm in diag:
        vals = []
        for T, k in zip(tabs, ks):
            e = [en for to, fr, en in T['ops'][nm] if to == k]
            vals.append(complex(entry_value(e[0], T['Mod'])) if e else 0j)
        exp = [vals[1], vals[0], vals[1]]
        for route in ('term_correlation_function_right', 'term_list_correlation_function_right'):
            ctx.case(('common', key, route, nm), action='Sites.hetero-cell.' + route)
            try:
                if route == 'term_correlation_function_right':
                    got = psi.term_correlation_function_right([('Id', 0)], [(nm, 0)], 0, [1, 2, 3])
                else:
                    got = psi.term_list_correlation_function_right(TermList([[('Id', 0)]], [1.]), TermList([[(nm, 0)]], [1.]), 0, [1, 2, 3])
                got = [complex(g) for g in got]
                good = all(abs(g - e) < 1e-13 for g, e in zip(got, exp))
            except Exception as e:  # noqa
                got, good = '%s: %s' % (type(e).__name__, e), False
            if not good:
                ok = site_fail(ctx, 'common', 'hetero-cell-' + route, dict(cls='chain', par=[T['cls'] for T in tabs], cons=[T['cons'] for T in tabs]),
                               dict(op=nm, product_state=labs * 2, j_R=[1, 2, 3], got=str(got)), [str(e) for e in exp], sig_extra)
    return ok


def _dagger(sparse, mod):
    out = set()
    for to, fr, entry in sparse:
        out.add((fr, to, frozenset((((mod - m['ph']) % mod), m['c'], m['rad'], m['den']) for m in entry)))
    return out


def _canon(sparse):
    return set((to, fr, frozenset((m['ph'], m['c'], m['rad'], m['den']) for m in entry)) for to, fr, entry in sparse)


def replay_group(ctx, tabs, grp, key):
    from tenpy.networks.site import set_common_charges, GroupedSite, kron
    sites = make_sites(ctx, tabs, 'group')
    if sites is None:
        return False
    kind, pol = grp['kind'], grp['pol']
    sig_extra = dict(kind_=kind, pol=pol, n=len(tabs))
    G = dict(cls='GroupedSite', par=[[T['cls'], T['par']] for T in tabs], cons=[T['cons'] for T in tabs])
    ctx.case(('group', key), action='Sites.GroupedSite.' + kind)
    sig_extra['same_dims'] = len(set(T['d'] for T in tabs)) == 1
    exc = None
    try:
        if kind == 'common+group':
            set_common_charges(sites, pol)
            sig_extra['c2jw_type'] = type(getattr(sites[0], 'charge_to_JW_parity', None)).__name__
            try:
                g = GroupedSite(sites, charges='same')
            except TypeError as e:
                if sig_extra['c2jw_type'] != 'list':
                    raise
                # report, then continue the comparison with the attribute converted to the documented 1D array
                site_fail(ctx, 'group', 'spurious-error', G, 'TypeError: %s' % e, 'ok', dict(sig_extra, exc='TypeError'))
                for s_ in sites:
                    s_.charge_to_JW_parity = np.asarray(s_.charge_to_JW_parity)
                g = GroupedSite(sites, charges='same')
        else:
            g = GroupedSite(sites, charges=pol)
        got = 'ok'
    except Exception as e:  # noqa  (any exception of the code under test is an observable result)
        got = '%s: %s' % (type(e).__name__, e)
        exc = type(e).__name__
    if grp['err']:
        if got == 'ok':
            return site_fail(ctx, 'group', 'missing-error', G, got, 'an exception (different ChargeInfo)', sig_extra)
        return True
    if got != 'ok':
        return site_fail(ctx, 'group', 'spurious-error', G, got, 'ok', dict(sig_extra, exc=exc))
    ok = True

    def bad(clause, gotv, exp):
        nonlocal ok
        ok = False
        return site_fail(ctx, 'group', clause, G, gotv, exp, sig_extra)

    try:
        g.test_sanity()
    except Exception as e:  # noqa
        return bad('test_sanity', '%s: %s' % (type(e).__name__, e), 'a valid site')
    D, ds = grp['D'], grp['ds']
    if g.dim != D:
        return bad('dim', g.dim, D)
    # product states addressed by their labels
    pos = []
    idxs = []
    for x in range(D):
        idx = []
        r = x
        for dd in reversed(ds):
            idx.append(r % dd)
            r //= dd
        idx = idx[::-1]
        idxs.append(idx)
        lab = ' '.join('%s_%d' % (state_labels_of(T, k)[0], s) for s, (T, k) in enumerate(zip(tabs, idx)))
        if lab not in g.state_labels:
            return bad('state_labels', sorted(g.state_labels)[:20], lab)
        pos.append(int(g.state_labels[lab]))
    if sorted(pos) != list(range(D)):
        return bad('state_labels-not-bijective', pos, 'a permutation')
    ctx.case(('group', key, 'charges'), action='Sites.GroupedSite.charges')
    chinfo = g.leg.chinfo
    if [str(n) for n in chinfo.names] != list(grp['qnames']) or [int(m) for m in chinfo.mod] != list(grp['qmod']):
        bad('chinfo', dict(names=list(chinfo.names), mod=[int(m) for m in chinfo.mod]), dict(names=list(grp['qnames']), mod=list(grp['qmod'])))
    else:
        qflat = g.leg.to_qflat().tolist()
        gotq = [qflat[pos[x]] for x in range(D)]
        expq = [list(c) for c in grp['chg']]
        if gotq != expq:
            bad('charges', gotq, expq)
    specops = {}
    for o in grp['ops']:
        specops[o['nm'] + (str(o['m']) if o['m'] >= 0 else '')] = o
    ctx.case(('group', key, 'opnames'), action='Sites.GroupedSite.opnames')
    if set(g.opnames) != set(specops):
        bad('opnames', sorted(g.opnames), sorted(specops))
    for nm in sorted(set(specops) & set(g.opnames)):
        ctx.case(('group', key, 'op', nm), action='Sites.GroupedSite.operator')
        r = compare_matrix(g.get_op(nm).to_ndarray(), specops[nm]['sp'], grp['Mod'], pos, grp['Mod'] == 4)
        if r is not None:
            bad('operator', dict(op=nm, **r), 'kron with JW of the left members folded in')
    if set(g.need_JW_string) != set(n for n, o in specops.items() if o['jw']):
        bad('need_JW_string', sorted(g.need_JW_string), sorted(n for n, o in specops.items() if o['jw']))
    ctx.case(('group', key, 'hc'), action='Sites.GroupedSite.hc_ops')
    canon = {n: _canon(o['sp']) for n, o in specops.items()}
    for nm in specops:
        h = g.hc_ops.get(nm)
        if h is None or h not in specops or canon[h] != _dagger(specops[nm]['sp'], grp['Mod']):
            bad('hc_ops', dict(op=nm, hc=h), 'the operator whose table is the conjugate transpose')
    c2 = getattr(g, 'charge_to_JW_parity', None)
    if c2 is not None and grp['c2jw']['def'] == 'none':
        # the spec finds no sound charge -> parity rule for this grouping: claiming one is only fine if it is right (checked next)
        ctx.notes['grouped_c2jw_defined_beyond_spec'] = ctx.notes.get('grouped_c2jw_defined_beyond_spec', 0) + 1
    if c2 is not None:
        ctx.case(('group', key, 'c2jw'), action='Sites.GroupedSite.charge_to_JW_signs')
        signs = g.charge_to_JW_signs(g.leg.to_qflat())
        jw = {to: entry_value(e, grp['Mod']) for to, fr, e in specops['JW']['sp']}
        expd = [None] * D
        for x in range(D):
            expd[pos[x]] = complex(jw[x + 1]).real
        if list(signs) != expd:
            bad('charge_to_JW_signs', list(signs), expd)
    # kron() of the members' operators (sites with common charges): the same tensor product without folded strings
    if kind == 'common+group':
        ctx.case(('group', key, 'kron'), action='Sites.kron')
        for nm in ('Id', 'JW'):
            opl = [s_.get_op(nm) for s_ in sites]
            K = kron(*opl, group=False).to_ndarray()      # legs p0, p0*, p1, p1*, ...
            n = len(sites)
            K = K.transpose(list(range(0, 2 * n, 2)) + list(range(1, 2 * n, 2))).reshape(D, D)
            # basis of K: product of the members' *sorted* bases
            mpos = []
            for idx in idxs:
                f = 0
                for s_, T, k in zip(sites, tabs, idx):
                    f = f * s_.dim + int(s_.state_labels[state_labels_of(T, k)[0]])
                mpos.append(f)
            r = compare_matrix(K, specops[nm]['sp'], grp['Mod'], mpos)
            if r is not None:
                bad('kron', dict(op=nm, **r), 'tensor product')
            Kg = kron(*opl, group=True)
            pipe = Kg.legs[0]
            gpos = []
            for idx in idxs:
                loc = [int(s_.state_labels[state_labels_of(T, k)[0]]) for s_, T, k in zip(sites, tabs, idx)]
                gpos.append(int(pipe.map_incoming_flat(loc)))
            r = compare_matrix(Kg.to_ndarray(), specops[nm]['sp'], grp['Mod'], gpos)
            if r is not None:
                bad('kron-grouped', dict(op=nm, **r), 'tensor product')
    return ok


def sites_config(ctx):
    if ctx.tier == 'quick':
        return sites_cfg(6, 4, 5, 'FillSmall', 2)
    return sites_cfg(6, 4, 5, 'FillAll', 3)


def run_sites(ctx, fut):
    quick = ctx.tier == 'quick'
    rng = random.Random(ctx.seed * 104729 + 5)
    t0 = time.time()
    res, dump, d = fut.result()
    if res.violated:
        ctx.violation(dict(kind='mc', spec='Sites', invariant=res.violated[0]), dict(trace=tlaval.to_jsonable(res.error_trace)))
    cat = None
    counts = {}
    states = list(tlaval.iter_dump(dump))
    shutil.rmtree(d, ignore_errors=True)
    t1 = time.time()
    # the catalogue used for groupings: the spec's Cat, recovered from the single-member states is not possible
    # (members are indices) -> the tables of the catalogue are dumped by the states themselves: see below
    n = 0
    for st in states:
        op = st['last']['op']
        counts[op] = counts.get(op, 0) + 1
        if op in ('init', 'pick'):
            continue
        direct_same = (op == 'GroupedSite' and st['grp']['pol'] == 'same') or st['grp'].get('pol') == 'diff'   # always replayed
        if op == 'GroupedSite' and any(m >= 14 for m in st['members']):
            direct_same = True                                  # groupings with an unsorted member: always replayed
        if op in ('set_common_charges', 'GroupedSite', 'set_common_charges+GroupedSite') and quick and not direct_same \
                and rng.random() > 0.15:
            continue      # quick tier: a seeded share of the other groupings is replayed (all of them are model-checked)
        n += 1
        if op in ('set_common_charges', 'GroupedSite', 'set_common_charges+GroupedSite'):
            tabs = [CAT_TABLES(ctx)[m - 1] for m in st['members']]
            key = (tuple(st['members']), st['grp']['kind'], st['grp']['pol'])
            if op == 'set_common_charges':
                replay_common(ctx, tabs, st['grp'], key)
            else:
                replay_group(ctx, tabs, st['grp'], key)
        elif op in ('rename_op', 'remove_op', 'add_op'):
            T = st['site']
            replay_edit(ctx, T, (T['cls'], repr(T['par']), repr(T['cons']), op, T['edit']['old']))
        else:
            T = st['site']
            if CORRUPT and T['cls'] == 'SpinSite' and T['par'] == [2] and T['cons'] == 'Sz':
                T['ops']['Sp'][0][2][0]['rad'] = 3                          # canary: sqrt(2) -> sqrt(3)
            replay_site(ctx, T, (T['cls'], repr(T['par']), repr(T['cons']), T['sorted']))
            if T['cls'] == 'SpinSite' and T['par'] == [3] and T['cons'] == 'parity':
                ctx.sample(dict(spec='Sites', cls=T['cls'], par=T['par'], cons=T['cons'], order=T['order'],
                                Sp=tlaval.to_jsonable(T['ops']['Sp'])))
    res.coverage = {k: (v, v) for k, v in counts.items() if k != 'init'}
    ctx.add_mc('Sites', res)
    ctx.trace_ok(n)
    print('  Sites: %d states (%s), MC %.1fs, replay %.1fs' % (len(states), counts, t1 - t0, time.time() - t1), flush=True)


_CAT = {}


def CAT_TABLES(ctx):
    """The catalogue `Cat` of spec/Sites.tla: evaluated once by TLC (a tiny extra run printing it)."""
    if 'cat' not in _CAT:
        import os
        d = tlc.scratch('SitesCat')
        try:
            shutil.copy(os.path.join(tlc.SPEC_DIR, 'Sites.tla'), d)
            with open(os.path.join(d, 'SitesCat.tla'), 'w') as f:
                f.write('---- MODULE SitesCat ----\nEXTENDS Sites\nVARIABLE cat\nCInit == Init /\\ cat = Cat\nCNext == UNCHANGED <<vars, cat>>\n====\n')
            with open(os.path.join(d, 'SitesCat.cfg'), 'w') as f:
                f.write('CONSTANTS MaxTwoS = 1 MaxBoson = 1 MaxClock = 2 MaxGroup = 0 Fillings <- FillSmall\nINIT CInit\nNEXT CNext\n')
            r = tlc.run(os.path.join(d, 'SitesCat.tla'), os.path.join(d, 'SitesCat.cfg'), workers=1, dump=os.path.join(d, 'cat'),
                        coverage=False)
            tlc.require_clean(r, 'SitesCat')
            sts = list(tlaval.iter_dump(os.path.join(d, 'cat.dump')))
            _CAT['cat'] = sts[0]['cat']
        finally:
            shutil.rmtree(d, ignore_errors=True)
    return _CAT['cat']


# ------------------------------------------------------------------------------------------------
def check(ctx):
    ctx.rule = ('a case is one (TLC state, tenpy route/attribute) comparison; behaviours = TLC states of the exhaustive runs '
                '(a Fermion state is a term built operator by operator, a Sites state is a site table or a grouping); '
                'distinct = distinct (state, route) keys')
    ctx.assume('TLC model checker', 'projection functions in harness/sites.py (label-addressed dense matrices)',
               'the specification modules Sites, Fermion')
    warnings.simplefilter('ignore')
    stages = ctx.only or {'sites', 'fermion'}
    # all TLC runs are started up-front (3 at a time) and overlap with the single-threaded replay
    from concurrent.futures import ThreadPoolExecutor
    with ThreadPoolExecutor(max_workers=3) as ex:
        fs = ff = None
        if 'fermion' in stages:
            ff = [ex.submit(tlc.mc, 'Fermion', ferm_cfg(L, K, names, maxlen, spin_at), dump=True, workers=6, coverage=False)
                  for (L, K, names, maxlen, share, spin_at) in fermion_configs(ctx)]
        if 'sites' in stages:
            fs = ex.submit(tlc.mc, 'Sites', sites_config(ctx), dump=True, workers=6, coverage=False)
        try:
            if ff is not None:
                cfgs = fermion_configs(ctx)
                big = [k for k, c in enumerate(cfgs) if c[3] == 4 and c[0] * c[1] == 6 and not c[5]]
                small = [k for k in range(len(cfgs)) if k not in big]
                run_fermion(ctx, [cfgs[k] for k in small], [ff[k] for k in small])     # while the larger TLC runs go on
            if fs is not None:
                run_sites(ctx, fs)
            if ff is not None:
                run_fermion(ctx, [cfgs[k] for k in big], [ff[k] for k in big])
        finally:      # never leave TLC scratch directories behind, whatever happened above
            for f in ([fs] if fs is not None else []) + (ff or []):
                try:
                    shutil.rmtree(f.result()[2], ignore_errors=True)
                except Exception:  # noqa
                    pass
    ctx.exhaustive = ctx.tier != 'quick'
    ctx.notes['replay_sampling'] = ('every TLC state is model-checked and replayed through the cheap routes (site tables; '
                                    'order_combine_term/handle_JW); the expensive routes (MPO, CouplingModel, MPS, GroupedSite chains) and, '
                                    'in the quick tier, the groupings are replayed for a VERIF_SEED-chosen share')


if __name__ == '__main__':
    core.main_wrapper('C12', check)
