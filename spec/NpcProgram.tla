----------------------------- MODULE NpcProgram -----------------------------
(* Programs of tensor operations over a pool of slots: the state machine whose behaviours are
   replayed into tenpy.linalg.np_conserved (C01 dense agreement, C02 charge rule / qtotal rule,
   C03 operands untouched, C04 both kernels).  One named action per public operation. *)
EXTENDS Npc

CONSTANTS InitTensors,   \* sequence of tensors initially in the pool (slots 1..Len)
          InitShared,    \* pairs {s1, s2} of initial slots that are shallow copies of each other
          NSlots, MaxOps, MaxRank, MaxSize, MaxAbs

Slots == 1..NSlots
Null == [legs |-> <<>>, qtotal |-> QZero, labels |-> <<>>, val |-> [shape |-> <<>>, val |-> <<>>]]

VARIABLES pool, used, shared, cls, pending, last, nops, hist
vars == <<pool, used, shared, cls, pending, last, nops, hist>>
AbsView == <<pool, used, shared, cls, pending, nops, last>>   \* `last` is kept: distinct operations reaching the same pool are distinct cases for the replay
Nil == [op |-> "nil"]

Init == /\ pool = [s \in Slots |-> IF s <= Len(InitTensors) THEN InitTensors[s] ELSE Null]
        /\ used = 1..Len(InitTensors)
        /\ shared = InitShared
        /\ cls = "none"
        /\ pending = Nil
        /\ last = [op |-> "init", out |-> 0, inplace |-> FALSE]
        /\ nops = 0
        /\ hist = <<>>

\* where a new result goes: lowest free slot, else round robin
OutSlot == IF used # Slots THEN CHOOSE s \in Slots \ used : \A s2 \in Slots \ used : s <= s2
           ELSE (nops % NSlots) + 1

SmallEnough(t) == /\ TRank(t) <= MaxRank /\ Size(t.val.shape) <= MaxSize
                  /\ \A n \in 1..Len(t.val.val) : IAbs(t.val.val[n][1]) <= MaxAbs /\ IAbs(t.val.val[n][2]) <= MaxAbs

\* a pure operation: result stored in OutSlot
Skipped == /\ UNCHANGED <<pool, used>> /\ last' = [op |-> "skipped", out |-> 0, inplace |-> FALSE]
Store(t, desc) ==
    IF SmallEnough(t) THEN
        /\ pool' = [pool EXCEPT ![OutSlot] = t]
        /\ used' = used \cup {OutSlot}
        /\ last' = desc @@ [out |-> OutSlot, inplace |-> FALSE]
    ELSE Skipped
\* an in-place method on slot s
Update(s, t, desc) ==
    IF SmallEnough(t) THEN
        /\ pool' = [pool EXCEPT ![s] = t]
        /\ used' = used
        /\ last' = desc @@ [out |-> s, inplace |-> TRUE]
    ELSE Skipped
\* an observer returning a scalar
Observe(desc) == /\ UNCHANGED <<pool, used>> /\ last' = desc @@ [out |-> 0, inplace |-> FALSE]

Perms(n) == {p \in [1..n -> 1..n] : {p[k] : k \in 1..n} = 1..n}
InjSeqs(n, k) == {q \in [1..k -> 1..n] : \A i, j \in 1..k : i # j => q[i] # q[j]}
Scalars == {<<1, 0>>, <<2, 0>>, <<-1, 0>>, <<0, 1>>, <<1, -1>>}

T(s) == pool[s]
R(s) == TRank(pool[s])

Conj(s) == Store(OpConj(T(s)), [op |-> "conj", a |-> s])
IConj(s) == Update(s, OpConj(T(s)), [op |-> "iconj", a |-> s])
ComplexConj(s) == Store(OpComplexConj(T(s)), [op |-> "complex_conj", a |-> s])
ConjNoCC(s) == Store(OpConjNoCC(T(s)), [op |-> "conj_nocc", a |-> s])
Transpose(s, p) == Store(OpTranspose(T(s), p), [op |-> "transpose", a |-> s, perm |-> p])
ITranspose(s, p) == Update(s, OpTranspose(T(s), p), [op |-> "itranspose", a |-> s, perm |-> p])
Tensordot(a, b, axa, axb) ==
    /\ CanTensordot(T(a), T(b), axa, axb)
    /\ R(a) + R(b) - 2 * Len(axa) >= 1
    /\ Store(OpTensordot(T(a), T(b), axa, axb), [op |-> "tensordot", a |-> a, b |-> b, axa |-> axa, axb |-> axb])
Inner(a, b, dc) ==
    /\ CanInner(T(a), T(b), dc)
    /\ Observe([op |-> "inner", a |-> a, b |-> b, do_conj |-> dc, value |-> OpInner(T(a), T(b), dc)])
Trace(s, x, y) ==
    /\ R(s) >= 3 /\ CanTrace(T(s), x, y)
    /\ Store(OpTrace(T(s), x, y), [op |-> "trace", a |-> s, x |-> x, y |-> y])
AddScaled(a, z, b) ==
    /\ CanAddL(T(a), T(b))
    /\ Store(OpAddScaledL(T(a), z, T(b)), [op |-> "add_scaled", a |-> a, b |-> b, z |-> z])
IAddScaled(a, z, b) ==
    /\ CanAddL(T(a), T(b))
    /\ Update(a, OpAddScaledL(T(a), z, T(b)), [op |-> "iadd_prefactor_other", a |-> a, b |-> b, z |-> z])
AddByLabels(a, z, b, inpl) ==
    /\ CanAddByLabels(T(a), T(b))
    /\ IF inpl THEN Update(a, OpAddByLabels(T(a), z, T(b)), [op |-> "iadd_by_labels", a |-> a, b |-> b, z |-> z])
       ELSE Store(OpAddByLabels(T(a), z, T(b)), [op |-> "add_by_labels", a |-> a, b |-> b, z |-> z])
Scale(s, z) == Store(OpScale(T(s), z), [op |-> "scale", a |-> s, z |-> z])
IScale(s, z) == Update(s, OpScale(T(s), z), [op |-> "iscale_prefactor", a |-> s, z |-> z])
Combine(s, g, flip) ==
    /\ CanCombine(T(s), g)
    /\ LET qc == IF flip THEN -T(s).legs[g[1]].qconj ELSE T(s).legs[g[1]].qconj IN
       Store(OpCombine(T(s), g, qc, TRUE, TRUE), [op |-> "combine_legs", a |-> s, group |-> g, qconj |-> qc])
\* combine_legs(group, new_axes=[na]) with an explicit position of the pipe in the result (the harness passes it as a
\* non-negative or as the equivalent negative index, counted from the end of the RESULT)
CombineAt(s, g, na, neg) ==
    /\ CanCombine(T(s), g)
    /\ LET qc == T(s).legs[g[1]].qconj IN
       Store(OpCombineG(T(s), <<g>>, <<qc>>, <<na>>, TRUE, TRUE),
             [op |-> "combine_legs_at", a |-> s, group |-> g, qconj |-> qc, na |-> na, neg |-> neg])
Split(s, x) == /\ CanSplit(T(s), x)
               /\ Store(OpSplit(T(s), x), [op |-> "split_legs", a |-> s, x |-> x])
TakeSlice(s, i, x) ==
    /\ R(s) >= 2
    /\ Store(OpTakeSlice(T(s), i, x), [op |-> "take_slice", a |-> s, i |-> i, x |-> x])
Project(s, keep, x) ==
    Update(s, OpProject(T(s), keep, x), [op |-> "iproject", a |-> s, keep |-> keep, x |-> x])
Permute(s, p, x) == Store(OpPermute(T(s), p, x), [op |-> "permute", a |-> s, perm |-> p, x |-> x])
SortLeg(s, x, so, bu) ==
    LET r == OpSortLeg(T(s), x, so, bu) IN
    Store(r.tensor, [op |-> "sort_legcharge", a |-> s, x |-> x, sort |-> so, bunch |-> bu, perm |-> r.perm])
ScaleAxis(s, x, cplx) ==
    LET sv == [i \in 1..IndLen(T(s).legs[x]) |-> IF cplx THEN <<i, 1 - i>> ELSE <<i + 1, 0>>] IN
    Store(OpScaleAxis(T(s), sv, x), [op |-> "scale_axis", a |-> s, x |-> x, s |-> sv])
Concat(a, b, x) ==
    /\ CanConcat(T(a), T(b), x)
    /\ Store(OpConcat(T(a), T(b), x), [op |-> "concatenate", a |-> a, b |-> b, x |-> x])
AddTrivialLeg(s, x, qc) ==
    LET lab == IF \E a \in 1..R(s) : T(s).labels[a] = <<"t">> THEN NoneLabel ELSE <<"t">> IN
    Store(OpAddTrivialLeg(T(s), x, lab, qc), [op |-> "add_trivial_leg", a |-> s, x |-> x, qconj |-> qc, label |-> lab])
Squeeze(s, x) == /\ CanSqueeze(T(s), x)
                 /\ Store(OpSqueeze(T(s), x), [op |-> "squeeze", a |-> s, x |-> x])
Gauge(s, x, nq, flip) ==
    Store(OpGauge(T(s), x, nq, IF flip THEN -T(s).legs[x].qconj ELSE T(s).legs[x].qconj),
          [op |-> "gauge_total_charge", a |-> s, x |-> x, newq |-> nq,
           newqconj |-> IF flip THEN -T(s).legs[x].qconj ELSE T(s).legs[x].qconj])
SetEntry(s, idx, z) ==
    /\ CanSetEntry(T(s), idx)
    /\ Update(s, OpSetEntry(T(s), idx, z), [op |-> "setitem", a |-> s, idx |-> idx, z |-> z])
Combine2(s, g1, g2, f1, f2) ==
    LET groups == <<g1, g2>>
        qcs == <<IF f1 THEN -T(s).legs[g1[1]].qconj ELSE T(s).legs[g1[1]].qconj,
                 IF f2 THEN -T(s).legs[g2[1]].qconj ELSE T(s).legs[g2[1]].qconj>>
    IN Store(OpCombineG(T(s), groups, qcs, DefaultNewAxes(T(s), groups), TRUE, TRUE),
             [op |-> "combine_legs2", a |-> s, groups |-> groups, qconj |-> qcs])
GetItem(s, spec) == Store(OpGetItem(T(s), spec), [op |-> "getitem", a |-> s, spec |-> spec])
ScaleItems(s, spec, z) == Update(s, OpScaleItems(T(s), spec, z), [op |-> "setitem_scaled", a |-> s, spec |-> spec, z |-> z])
SetItemsFrom(s, b, spec) == Update(s, OpSetItemsFrom(T(s), T(b), spec), [op |-> "setitem_from", a |-> s, b |-> b, spec |-> spec])
SwapAxes(s, x, y) == Update(s, OpTranspose(T(s), [a \in 1..R(s) |-> IF a = x THEN y ELSE IF a = y THEN x ELSE a]),
                           [op |-> "iswapaxes", a |-> s, x |-> x, y |-> y])
Touch(s, o) == Update(s, T(s), [op |-> o, a |-> s])           \* isort_qdata / ipurge_zeros: no observable change
Extend(s, x, extra) == Store(OpExtend(T(s), x, extra), [op |-> "extend", a |-> s, x |-> x, extra |-> extra])
AddLeg(s, b, y, i, x) ==
    LET lab == IF \E a \in 1..R(s) : T(s).labels[a] = <<"n">> THEN NoneLabel ELSE <<"n">> IN
    Store(OpAddLeg(T(s), T(b).legs[y], i, x, lab), [op |-> "add_leg", a |-> s, b |-> b, y |-> y, i |-> i, x |-> x, label |-> lab])
\* copy(deep=True) / copy(deep=False): the shallow copy shares the tensor entries (and internally the block index) with
\* the original; in-place operations that only re-index (iproject, itranspose, iswapaxes) on one of them must leave the
\* other intact ("Array views may share _qdata views, so make a copy of _qdata before manipulating")
CopyOp(s, o) == Store(T(s), [op |-> o, a |-> s])
Norm2(s) == Observe([op |-> "norm2", a |-> s, value |-> <<OpNorm2(T(s)), 0>>])

\* --- two phases: Choose* picks an operation and its arguments (cheap: only the preconditions are
\* evaluated), Exec performs the pending operation (one tensor computation per step).  In simulation
\* mode TLC therefore computes one result per step instead of one per enabled operation.
\* three phases per operation: PickClass (which kind of operation; uniform over kinds in simulation),
\* Ch* (its arguments; only preconditions are evaluated), Exec (one tensor computation)
CanChoose(c) == pending = Nil /\ nops < MaxOps /\ cls = c
Choose(p) == /\ pending' = p
             /\ cls' = "none"
             /\ UNCHANGED <<pool, used, shared, last, nops, hist>>
U == used
\* slots whose tensor entries may be shared with another slot (results of operations documented to return
\* shallow copies).  In-place methods are not applied to them: what happens then is documented as unspecified.
ShallowOps == {"gauge_total_charge", "add_trivial_leg", "sort_legcharge", "shallow_copy"}
Free(s) == \A p \in shared : s \notin p
ChConj == CanChoose("Conj") /\ \E s \in U, o \in {"conj", "iconj", "complex_conj", "conj_nocc"} : (o = "iconj" => Free(s)) /\ Choose([op |-> o, a |-> s])
ChTranspose == CanChoose("Transpose") /\ \E s \in U : \E p \in Perms(R(s)), o \in {"transpose", "itranspose"} : Choose([op |-> o, a |-> s, perm |-> p])
ChTensordot == CanChoose("Tensordot") /\ \E a, b \in U : \E k \in 0..2 : k <= R(a) /\ k <= R(b) /\
                  \E axa \in InjSeqs(R(a), k), axb \in InjSeqs(R(b), k) :
                      /\ (k = 2 => axa[1] < axa[2])
                      /\ CanTensordot(T(a), T(b), axa, axb)
                      /\ R(a) + R(b) - 2 * k >= 1 /\ R(a) + R(b) - 2 * k <= MaxRank
                      /\ Choose([op |-> "tensordot", a |-> a, b |-> b, axa |-> axa, axb |-> axb])
ChInner == CanChoose("Inner") /\ \E a, b \in U, dc \in BOOLEAN : CanInner(T(a), T(b), dc) /\ Choose([op |-> "inner", a |-> a, b |-> b, do_conj |-> dc])
ChTrace == CanChoose("Trace") /\ \E s \in U : \E x, y \in 1..R(s) : R(s) >= 3 /\ CanTrace(T(s), x, y) /\ Choose([op |-> "trace", a |-> s, x |-> x, y |-> y])
ChAdd == CanChoose("Add") /\ \E a, b \in U, z \in Scalars \cup {<<0, 0>>}, o \in {"add_scaled", "iadd_prefactor_other"} :
            CanAddL(T(a), T(b)) /\ (o = "iadd_prefactor_other" => Free(a)) /\ Choose([op |-> o, a |-> a, b |-> b, z |-> z])
ChAddByLabels == CanChoose("AddByLabels") /\ \E a, b \in U, z \in {<<1, 0>>, <<-1, 0>>, <<0, 1>>}, inpl \in BOOLEAN :
                    CanAddByLabels(T(a), T(b)) /\ (inpl => Free(a)) /\ Choose([op |-> "add_by_labels", a |-> a, b |-> b, z |-> z, inpl |-> inpl])
ChScale == CanChoose("Scale") /\ \E s \in U, z \in (Scalars \ {<<1, 0>>}) \cup {<<0, 0>>}, o \in {"scale", "iscale_prefactor"} : (o = "iscale_prefactor" => Free(s)) /\ Choose([op |-> o, a |-> s, z |-> z])
ChCombine == CanChoose("Combine") /\ \E s \in U : \E k \in 1..3 : k <= R(s) /\ \E g \in InjSeqs(R(s), k), flip \in BOOLEAN :
                \/ Choose([op |-> "combine_legs", a |-> s, group |-> g, flip |-> flip])
                \/ (k >= 2 /\ \E na \in 1..(R(s) - k + 1) : Choose([op |-> "combine_legs_at", a |-> s, group |-> g, na |-> na, neg |-> flip]))
ChSplit == CanChoose("Split") /\ \E s \in U : \E x \in 1..R(s) : CanSplit(T(s), x) /\ Choose([op |-> "split_legs", a |-> s, x |-> x])
ChTakeSlice == CanChoose("TakeSlice") /\ \E s \in U : \E x \in 1..R(s) : R(s) >= 2 /\ \E i \in 0..(IndLen(T(s).legs[x]) - 1) :
                  Choose([op |-> "take_slice", a |-> s, i |-> i, x |-> x])
\* masks: every proper subset for short legs, a few patterns (drop one index, every second index, nothing) for long ones
Masks(n) == IF n <= 4 THEN (SUBSET (0..(n - 1))) \ {0..(n - 1)}
            ELSE {(0..(n - 1)) \ {i} : i \in 0..(n - 1)} \cup {{i \in 0..(n - 1) : i % 2 = 0}, {i \in 0..(n - 1) : i % 3 = 1}, {}}
ChProject == CanChoose("Project") /\ \E s \in U : \E x \in 1..R(s) : \E K \in Masks(IndLen(T(s).legs[x])) :
                Choose([op |-> "iproject", a |-> s, keep |-> SortedSeqOf(K), x |-> x])
ChPermute == CanChoose("Permute") /\ \E s \in U : \E x \in 1..R(s) : LET n == IndLen(T(s).legs[x]) IN
                n >= 2 /\ \E p \in {[i \in 1..n |-> n - i], [i \in 1..n |-> i % n], [i \in 1..n |-> IF i = 1 THEN 1 ELSE IF i = 2 THEN 0 ELSE i - 1]} :
                    Choose([op |-> "permute", a |-> s, perm |-> p, x |-> x])
ChSortLeg == CanChoose("SortLeg") /\ \E s \in U : \E x \in 1..R(s) : \E so, bu \in BOOLEAN : (so \/ bu) /\ Choose([op |-> "sort_legcharge", a |-> s, x |-> x, sort |-> so, bunch |-> bu])
ChScaleAxis == CanChoose("ScaleAxis") /\ \E s \in U : \E x \in 1..R(s), c \in BOOLEAN : Choose([op |-> "scale_axis", a |-> s, x |-> x, cplx |-> c])
ChConcat == CanChoose("Concat") /\ \E a, b \in U : \E x \in 1..R(a) : CanConcat(T(a), T(b), x) /\ Choose([op |-> "concatenate", a |-> a, b |-> b, x |-> x])
ChTrivialLeg == CanChoose("TrivialLeg") /\ \E s \in U : \E x \in 1..(R(s) + 1), qc \in {1, -1} : R(s) < MaxRank /\ Choose([op |-> "add_trivial_leg", a |-> s, x |-> x, qconj |-> qc])
ChSqueeze == CanChoose("Squeeze") /\ \E s \in U : \E x \in 1..R(s) : CanSqueeze(T(s), x) /\ Choose([op |-> "squeeze", a |-> s, x |-> x])
ChGauge == CanChoose("Gauge") /\ \E s \in U : \E x \in 1..R(s), flip \in BOOLEAN : \E nq \in {QZero, MakeValid([k \in 1..QN |-> 1])} :
              Choose([op |-> "gauge_total_charge", a |-> s, x |-> x, newq |-> nq, flip |-> flip])
ChSetEntry == CanChoose("SetEntry") /\ \E s \in U : \E idx \in Indices(T(s).val.shape) : \E z \in {<<7, 0>>, <<0, 0>>, <<3, -2>>} :
                 Free(s) /\ CanSetEntry(T(s), idx) /\ Choose([op |-> "setitem", a |-> s, idx |-> idx, z |-> z])
ChCopy == CanChoose("Copy") /\ \E s \in U, o \in {"copy", "shallow_copy"} : Choose([op |-> o, a |-> s])
ChNorm == CanChoose("Norm") /\ \E s \in U : Choose([op |-> "norm2", a |-> s])
ChCombine2 == CanChoose("Combine2") /\ \E s \in U : R(s) >= 3 /\ \E g \in InjSeqs(R(s), 3), f1, f2 \in BOOLEAN :
                 \/ Choose([op |-> "combine_legs2", a |-> s, g1 |-> <<g[1], g[2]>>, g2 |-> <<g[3]>>, f1 |-> f1, f2 |-> f2])
                 \/ Choose([op |-> "combine_legs2", a |-> s, g1 |-> <<g[1]>>, g2 |-> <<g[2], g[3]>>, f1 |-> f1, f2 |-> f2])
\* index specs per axis: everything, one int, or one of a few selections (ascending = mask/slice, reversed slice, unsorted)
AxisSpecs(n) == {[k |-> "all"]} \cup {[k |-> "int", i |-> i] : i \in {0, n - 1} \cap (0..(n - 1))}   \* none on a leg of length 0
                \cup (IF n >= 2 THEN {[k |-> "sel", sel |-> [j \in 1..(n - 1) |-> j]],                   \* 1:
                                       [k |-> "sel", sel |-> [j \in 1..(n - 1) |-> n - 1 - j]],           \* -2::-1
                                       [k |-> "sel", sel |-> [j \in 1..((n + 1) \div 2) |-> 2 * (j - 1)]], \* ::2
                                       [k |-> "sel", sel |-> [j \in 1..n |-> (j + (n \div 2)) % n]]}       \* rotated index array
                      ELSE {})
IndexSpecs(t) == {sp \in [1..TRank(t) -> UNION {AxisSpecs(IndLen(t.legs[a])) : a \in 1..TRank(t)}] :
                     /\ \A a \in 1..TRank(t) : sp[a] \in AxisSpecs(IndLen(t.legs[a]))
                     /\ \E a \in 1..TRank(t) : sp[a].k # "int"
                     /\ \E a \in 1..TRank(t) : sp[a].k # "all"
                     /\ Cardinality({a \in 1..TRank(t) : sp[a].k = "sel"}) <= 1
                     /\ Cardinality({a \in 1..TRank(t) : sp[a].k = "int"}) <= 1}
ChGetItem == CanChoose("GetItem") /\ \E s \in U : R(s) <= 3 /\ \E sp \in IndexSpecs(T(s)) : Choose([op |-> "getitem", a |-> s, spec |-> sp])
ChScaleItems == CanChoose("ScaleItems") /\ \E s \in U : R(s) <= 3 /\ Free(s) /\ \E sp \in IndexSpecs(T(s)), z \in {<<2, 0>>, <<0, 1>>} :
                   Choose([op |-> "setitem_scaled", a |-> s, spec |-> sp, z |-> z])
ChSetItemsFrom == CanChoose("SetItemsFrom") /\ \E s, b \in U : s # b /\ R(s) <= 3 /\ Free(s) /\ CanAdd(T(s), T(b)) /\
                     \E sp \in IndexSpecs(T(s)) : Choose([op |-> "setitem_from", a |-> s, b |-> b, spec |-> sp])
ChSwapAxes == CanChoose("SwapAxes") /\ \E s \in U : \E x, y \in 1..R(s) : x < y /\ Choose([op |-> "iswapaxes", a |-> s, x |-> x, y |-> y])
ChTouch == CanChoose("Touch") /\ \E s \in U, o \in {"isort_qdata", "ipurge_zeros"} : Choose([op |-> o, a |-> s])
ChExtend == CanChoose("Extend") /\ \E s, b \in U : \E x \in 1..R(s), y \in 1..R(b) :
               /\ T(b).legs[y].qconj = T(s).legs[x].qconj /\ ~IsPipe(T(b).legs[y]) /\ ~IsPipe(T(s).legs[x])
               /\ Choose([op |-> "extend", a |-> s, x |-> x, extra |-> T(b).legs[y]])
ChAddLeg == CanChoose("AddLeg") /\ \E s, b \in U : R(s) < MaxRank /\ \E y \in 1..R(b), x \in 1..R(s) : \E i \in 0..(IndLen(T(b).legs[y]) - 1) :
               ~IsPipe(T(b).legs[y]) /\ Choose([op |-> "add_leg", a |-> s, b |-> b, y |-> y, i |-> i, x |-> x])

Classes == {"Conj", "Transpose", "Tensordot", "Inner", "Trace", "Add", "AddByLabels", "Scale", "Combine", "Split", "TakeSlice", "Project", "Permute", "SortLeg", "ScaleAxis", "Concat", "TrivialLeg", "Squeeze", "Gauge", "SetEntry", "Norm", "Combine2", "GetItem", "ScaleItems", "SetItemsFrom", "SwapAxes", "Touch", "Extend", "AddLeg", "Copy"}
PickClass == /\ cls = "none" /\ pending = Nil /\ nops < MaxOps
             /\ \E c \in Classes : cls' = c
             /\ UNCHANGED <<pool, used, shared, pending, last, nops, hist>>
\* a class without any enabled instance (or simply a change of mind) is abandoned
Abandon == /\ cls # "none" /\ pending = Nil
           /\ cls' = "none"
           /\ UNCHANGED <<pool, used, shared, pending, last, nops, hist>>

P == pending
Perform ==
    CASE P.op = "conj" -> Conj(P.a)
      [] P.op = "iconj" -> IConj(P.a)
      [] P.op = "complex_conj" -> ComplexConj(P.a)
      [] P.op = "conj_nocc" -> ConjNoCC(P.a)
      [] P.op = "transpose" -> Transpose(P.a, P.perm)
      [] P.op = "itranspose" -> ITranspose(P.a, P.perm)
      [] P.op = "tensordot" -> Tensordot(P.a, P.b, P.axa, P.axb)
      [] P.op = "inner" -> Inner(P.a, P.b, P.do_conj)
      [] P.op = "trace" -> Trace(P.a, P.x, P.y)
      [] P.op = "add_scaled" -> AddScaled(P.a, P.z, P.b)
      [] P.op = "iadd_prefactor_other" -> IAddScaled(P.a, P.z, P.b)
      [] P.op = "add_by_labels" -> AddByLabels(P.a, P.z, P.b, P.inpl)
      [] P.op = "scale" -> Scale(P.a, P.z)
      [] P.op = "iscale_prefactor" -> IScale(P.a, P.z)
      [] P.op = "combine_legs" -> Combine(P.a, P.group, P.flip)
      [] P.op = "split_legs" -> Split(P.a, P.x)
      [] P.op = "combine_legs_at" -> CombineAt(P.a, P.group, P.na, P.neg)
      [] P.op = "take_slice" -> TakeSlice(P.a, P.i, P.x)
      [] P.op = "iproject" -> Project(P.a, P.keep, P.x)
      [] P.op = "permute" -> Permute(P.a, P.perm, P.x)
      [] P.op = "sort_legcharge" -> SortLeg(P.a, P.x, P.sort, P.bunch)
      [] P.op = "scale_axis" -> ScaleAxis(P.a, P.x, P.cplx)
      [] P.op = "concatenate" -> Concat(P.a, P.b, P.x)
      [] P.op = "add_trivial_leg" -> AddTrivialLeg(P.a, P.x, P.qconj)
      [] P.op = "squeeze" -> Squeeze(P.a, P.x)
      [] P.op = "gauge_total_charge" -> Gauge(P.a, P.x, P.newq, P.flip)
      [] P.op = "setitem" -> SetEntry(P.a, P.idx, P.z)
      [] P.op = "norm2" -> Norm2(P.a)
      [] P.op = "combine_legs2" -> Combine2(P.a, P.g1, P.g2, P.f1, P.f2)
      [] P.op = "getitem" -> GetItem(P.a, P.spec)
      [] P.op = "setitem_scaled" -> ScaleItems(P.a, P.spec, P.z)
      [] P.op = "iswapaxes" -> SwapAxes(P.a, P.x, P.y)
      [] P.op = "setitem_from" -> SetItemsFrom(P.a, P.b, P.spec)
      [] P.op \in {"isort_qdata", "ipurge_zeros"} -> Touch(P.a, P.op)
      [] P.op = "extend" -> Extend(P.a, P.x, P.extra)
      [] P.op = "add_leg" -> AddLeg(P.a, P.b, P.y, P.i, P.x)
      [] P.op \in {"copy", "shallow_copy"} -> CopyOp(P.a, P.op)
Exec == /\ pending # Nil
        /\ Perform
        /\ pending' = Nil
        /\ cls' = cls
        /\ shared' = IF last'.out = 0 \/ last'.inplace THEN shared
                     ELSE LET o == last'.out
                              base == {p \in shared : o \notin p}
                          IN IF P.op \in ShallowOps
                             THEN IF o = P.a THEN shared
                                  ELSE base \cup {{o, P.a}} \cup {{o, x} : x \in {y \in Slots : {P.a, y} \in base}}
                             ELSE base
        /\ nops' = nops + 1
        /\ hist' = Append(hist, [l |-> last', t |-> IF last'.out = 0 THEN Null ELSE pool'[last'.out], sh |-> shared'])

Next == \/ ChConj \/ ChTranspose \/ ChTensordot \/ ChInner \/ ChTrace \/ ChAdd \/ ChAddByLabels \/ ChScale \/ ChCombine \/ ChSplit
        \/ ChTakeSlice \/ ChProject \/ ChPermute \/ ChSortLeg \/ ChScaleAxis \/ ChConcat \/ ChTrivialLeg \/ ChSqueeze
        \/ ChGauge \/ ChSetEntry \/ ChNorm \/ ChCombine2 \/ ChGetItem \/ ChScaleItems \/ ChSetItemsFrom \/ ChSwapAxes \/ ChTouch
        \/ ChExtend \/ ChAddLeg \/ ChCopy \/ PickClass \/ Abandon \/ Exec
Spec == Init /\ [][Next]_vars
-----------------------------------------------------------------------------
\* C02 (design level): every tensor in the pool obeys the charge rule and is well formed
PoolChargeRule == \A s \in used : ChargeRule(pool[s])
PoolWellFormed == \A s \in used : WellFormed(pool[s])
\* C03 (design level): a pure operation leaves every other slot untouched; an in-place one touches only its target
OnlyOutChanges == [][\A s \in Slots : s # last'.out => pool'[s] = pool[s]]_vars
\* C06 inside C01: splitting what was just combined restores the tensor (checked on the fly)
SplitAfterCombine ==
    \A s \in used : \A x \in 1..TRank(pool[s]) :
        (IsPipe(pool[s].legs[x]) /\ Len(pool[s].legs[x].pipe) = 1) =>
            OpSplit(pool[s], x).val.shape = ShapeOf(OpSplit(pool[s], x).legs)
=============================================================================
