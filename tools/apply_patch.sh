#!/bin/sh
# tools/apply_patch.sh <finding-id>: apply build/patches/<id>.diff to /repo as one fix commit and mark the finding fixed
id="$1"
d=/verif/build/patches
git -C /repo diff --quiet || { echo "/repo has uncommitted changes"; exit 2; }
git -C /repo apply --check "$d/$id.diff" || { echo "patch $id does not apply"; exit 1; }
git -C /repo apply "$d/$id.diff" && git -C /repo add -A tenpy && git -C /repo commit -q -F "$d/$id.msg" || exit 1
c=$(git -C /repo log --format=%h -1)
head -1 "$d/$id.msg" | grep -q '^fix:' || echo "WARNING: message of $id does not start with fix:"
/venv/bin/python /verif/tools/markfixed.py "$id" "$c"
mkdir -p /verif/build/patches/applied && mv "$d/$id.diff" "$d/$id.msg" /verif/build/patches/applied/
