"""C14 trace recorder: runs the real tenpy time-evolution engines under run-time interposition and
records the accounting events that spec/TimeEvo.tla talks about (ndjson, validated by TLC against
spec/TraceTimeEvo.tla).

Nothing in here judges: the recorder only *projects* what the engine did / reported to the value of a
spec variable (times as integers in units of dt0, applied time steps as symbolic 6-vectors, the
reported TruncationError as a bag of step ids).

Two ways of making the reported error decodable:
  mode 'tag'   : the TruncationError returned by each step truncation gets eps := 16^-(id+8) as an exact
                 number (class Tag); the engine's own `+`/`*` accumulate exactly, so the reported eps is
                 decoded digit by digit (base 16) into multiplicities; ov must equal prod (1-2 eps_i)^m_i.
  mode 'float' : the real eps are kept; the reported eps is decomposed over the per-run_evolution totals
                 with multiplicities 0..3 each (unique when the totals are incommensurate; otherwise the
                 report is logged as not decoded and no claim is made).
"""
import functools
import itertools
import json
import math
import warnings
from fractions import Fraction

from . import core

DT0 = Fraction(1, 64)
TAG_OFF = 8
TAG_BASE = 16


# ------------------------------------------------------------------------------------------------
class Tag:
    """Exact rational that survives `float + Tag`, `1 - 2 * Tag`, `float * Tag` (always returns Tag)."""
    __slots__ = ('f',)
    __array_priority__ = 1000

    def __init__(self, f):
        self.f = Fraction(f)

    @staticmethod
    def _c(o):
        if isinstance(o, Tag):
            return o.f
        if isinstance(o, (int, Fraction)):
            return Fraction(o)
        if isinstance(o, float):
            return Fraction(o)
        try:
            import numpy as np
            if isinstance(o, (np.floating, np.integer)):
                return Fraction(float(o))
        except Exception:  # pragma: no cover
            pass
        return None

    def _bin(self, o, fn):
        c = Tag._c(o)
        if c is None:
            return NotImplemented
        return Tag(fn(self.f, c))

    def __add__(self, o): return self._bin(o, lambda a, b: a + b)
    def __radd__(self, o): return self._bin(o, lambda a, b: b + a)
    def __sub__(self, o): return self._bin(o, lambda a, b: a - b)
    def __rsub__(self, o): return self._bin(o, lambda a, b: b - a)
    def __mul__(self, o): return self._bin(o, lambda a, b: a * b)
    def __rmul__(self, o): return self._bin(o, lambda a, b: b * a)
    def __truediv__(self, o): return self._bin(o, lambda a, b: a / b)
    def __neg__(self): return Tag(-self.f)
    def __abs__(self): return Tag(abs(self.f))
    def __float__(self): return float(self.f)

    def _cmp(self, o, fn):
        c = Tag._c(o)
        if c is None:
            return NotImplemented
        return fn(self.f, c)

    def __lt__(self, o): return self._cmp(o, lambda a, b: a < b)
    def __le__(self, o): return self._cmp(o, lambda a, b: a <= b)
    def __gt__(self, o): return self._cmp(o, lambda a, b: a > b)
    def __ge__(self, o): return self._cmp(o, lambda a, b: a >= b)
    def __eq__(self, o):
        c = Tag._c(o)
        return NotImplemented if c is None else self.f == c
    def __hash__(self): return hash(self.f)
    def __format__(self, spec): return format(float(self.f), spec)
    def __repr__(self): return 'Tag(%r)' % (self.f,)

    @property
    def real(self): return self
    @property
    def imag(self): return 0.0


def tag_eps(i):
    return Fraction(1, TAG_BASE ** (i + TAG_OFF))


def decode_tag(v, n):
    """exact value -> multiplicity list m[1..n] with v = sum m_i * tag_eps(i), or None."""
    if isinstance(v, Tag):
        f = v.f
    elif isinstance(v, (int, float)) and v == 0:
        return [0] * n
    else:
        return None
    if f < 0:
        return None
    x = f * TAG_BASE ** (n + TAG_OFF)
    if x.denominator != 1:
        return None
    x = x.numerator
    m = []
    for _ in range(n):  # least significant digit belongs to id n
        m.append(x % TAG_BASE)
        x //= TAG_BASE
    if x != 0:
        return None
    return m[::-1]


def runs_of(m):
    """multiplicity list -> [[lo, hi, mult], ...] (ids 1-based, zero multiplicities omitted)."""
    out = []
    for i, x in enumerate(m, start=1):
        if x == 0:
            continue
        if out and out[-1][1] == i - 1 and out[-1][2] == x:
            out[-1][1] = i
        else:
            out.append([i, i, x])
    return out


# ------------------------------------------------------------------------------------------------
# numeric values of the symbolic basis (1, s1..s4, i) and the float <-> symbolic projection
def _t1_exact():
    # t1 = 1/(4 - 4^(1/3)) to ~60 digits with integer arithmetic (Newton for the cube root)
    P = 10 ** 60
    x = int(round((4 ** (1 / 3.0)) * P))
    for _ in range(6):  # cube root of 4*P^3
        x = (2 * x + (4 * P ** 3) // (x * x)) // 3
    return Fraction(P, 1) / (4 * P - x)


PUBLISHED = {  # Barthel & Zhang, arXiv:1901.04974, Eq. (30a)
    'a1': '0.095848502741203681182', 'b1': '0.42652466131587616168',
    'a2': '-0.078111158921637922695', 'b2': '-0.12039526945509726545'}


def basis_values(order):
    """exact rationals for (s1..s4) of the given order"""
    if order == '4':
        return [_t1_exact(), Fraction(0), Fraction(0), Fraction(0)]
    if order == '4_opt':
        return [Fraction(PUBLISHED[k]) for k in ('a1', 'b1', 'a2', 'b2')]
    return [Fraction(0)] * 4


def sym_value(v, order):
    """exact (complex as pair) value of the symbolic half-unit vector v"""
    b = basis_values(order)
    re = Fraction(v[0], 2) + sum(Fraction(v[j + 1], 2) * b[j] for j in range(4))
    return re, Fraction(v[5], 2)


ULP1 = 2.0 ** -52


def match_sym(x, table, order):
    """the entry of the spec's table whose value is the float x (to 1 ulp of 1.0), else the 'unknown' vector"""
    hits = []
    for v in table:
        re, im = sym_value(v, order)
        if im == 0 and abs(Fraction(x) - re) <= Fraction(ULP1):
            hits.append(list(v))
    if len(hits) >= 1:
        # identical values can only come from identical vectors in the spec's tables
        return hits[0]
    return [99, 99, 99, 99, 99, 99]


def rat_units(x, unit=DT0):
    """float/complex time -> [re, im] integers in units of dt0; [-999, -999] when not an integer multiple"""
    z = complex(x)
    out = []
    for c in (z.real, z.imag):
        q = Fraction(c) / unit
        if q.denominator != 1 or abs(q) > 10 ** 6:
            return [-999, -999]
        out.append(int(q))
    return out


# ------------------------------------------------------------------------------------------------
ENGINES = {
    # name: (module, family, time dependent)
    'TEBDEngine': ('tebd', 'TEBD', False),
    'QRBasedTEBDEngine': ('tebd', 'TEBD', False),
    'TimeDependentTEBD': ('tebd', 'TEBD', True),
    'SingleSiteTDVPEngine': ('tdvp', 'TDVP1', False),
    'TwoSiteTDVPEngine': ('tdvp', 'TDVP2', False),
    'TimeDependentSingleSiteTDVP': ('tdvp', 'TDVP1', True),
    'TimeDependentTwoSiteTDVP': ('tdvp', 'TDVP2', True),
    'ExpMPOEvolution': ('mpo_evolution', 'ExpMPO', False),
    'TimeDependentExpMPOEvolution': ('mpo_evolution', 'ExpMPO', True),
}

_TD_MODELS = {}


def td_model_class(kind):
    """A nearest-neighbour model whose couplings depend on options['time'] (exactly, for dyadic times)."""
    if kind in _TD_MODELS:
        return _TD_MODELS[kind]
    from tenpy.models.model import CouplingMPOModel, NearestNeighborModel
    from tenpy.networks.site import SpinHalfSite

    class DrivenXXZ(CouplingMPOModel, NearestNeighborModel):
        default_lattice = 'Chain'
        force_default_lattice = True

        def init_sites(self, model_params):
            return SpinHalfSite(conserve=model_params.get('conserve', 'Sz', str))

        def init_terms(self, model_params):
            tm = model_params.get('time', 0.0, 'real')
            Jxx = model_params.get('Jxx', 1.0, 'real')
            Jz = model_params.get('Jz', 0.5, 'real')
            hz = model_params.get('hz', 0.25, 'real')
            self.add_coupling(0.5 * Jxx * (1.0 + tm), 0, 'Sp', 0, 'Sm', 1, plus_hc=True)
            self.add_coupling(Jz, 0, 'Sz', 0, 'Sz', 1)
            self.add_onsite(-hz * (1.0 + 2.0 * tm), 0, 'Sz')

    if kind.endswith('-inplace'):
        from tenpy.models.model import CouplingModel

        class DrivenXXZInPlace(DrivenXXZ):
            """same Hamiltonian; update_time_parameter uses the documented freedom to update `self` in place and return it"""

            def update_time_parameter(self, new_time):
                self.options['time'] = new_time
                CouplingModel.__init__(self, self.lat, explicit_plus_hc=self.explicit_plus_hc)
                self.init_terms(self.options)
                self.init_H_from_terms()  # new self.H_MPO and self.H_bond
                return self

        _TD_MODELS[kind] = DrivenXXZInPlace
        return DrivenXXZInPlace
    _TD_MODELS[kind] = DrivenXXZ
    return DrivenXXZ


def make_model(prog):
    L, bc = prog['L'], prog['bc']
    kind = prog['model']
    if prog['td'] or kind == 'driven':
        cls = td_model_class('xxz-inplace' if prog.get('inplace') else 'xxz')
        return cls(dict(L=L, bc_MPS=bc, Jxx=1.0, Jz=0.5, hz=0.25, conserve=prog.get('conserve', 'Sz')))
    if kind == 'xxz':
        from tenpy.models.xxz_chain import XXZChain
        return XXZChain(dict(L=L, bc_MPS=bc, Jxx=1.0, Jz=0.75, hz=0.125))
    if kind == 'tfi':
        from tenpy.models.tf_ising import TFIChain
        return TFIChain(dict(L=L, bc_MPS=bc, J=1.0, g=1.5, conserve=prog.get('conserve', 'parity')))
    if kind == 'spin1':
        from tenpy.models.spins import SpinChain
        return SpinChain(dict(L=L, bc_MPS=bc, S=1, Jx=1.0, Jy=1.0, Jz=0.5, D=0.25, conserve='Sz'))
    raise core.MachineryError('unknown model %r' % kind)


def make_psi(prog, M):
    from tenpy.networks.mps import MPS
    L = prog['L']
    kind = prog['model']
    if prog['td'] or kind in ('xxz', 'driven'):
        st = (['up', 'down'] * L)[:L]
    elif kind == 'tfi':
        st = (['up', 'up', 'down'] * L)[:L]
    else:
        st = ([1, 0, 2, 1] * L)[:L]  # spin-1: indices
        if kind == 'spin1':
            st = (['0.0', '1.0', '-1.0'] * L)[:L]
    psi = MPS.from_product_state(M.lat.mps_sites(), st, bc=M.lat.bc_MPS, unit_cell_width=M.lat.mps_unit_cell_width)
    pre = prog.get('pre', 0)
    if pre:
        import numpy as np
        from tenpy.algorithms.tebd import RandomUnitaryEvolution
        st = np.random.get_state()
        np.random.seed(prog.get('seed', 0) + 17)
        try:
            RandomUnitaryEvolution(psi, dict(N_steps=pre, trunc_params=dict(chi_max=prog.get('pre_chi', 8)))).run()
            psi.canonical_form()
        finally:
            np.random.set_state(st)
    return psi


# ------------------------------------------------------------------------------------------------
class Recorder:
    def __init__(self, prog, tables):
        self.prog = prog
        self.mode = prog['mode']
        self.tables = tables  # spec tables: {'StepTimes': {order: [...]}, 'MPOSteps': {order: [...]}}
        self.events = []
        self.eng = None
        self.active = False
        self.steps = []  # per step id (1-based): dict(eps=float, ov=float)
        self.uinfo = {}  # id(U object) -> dict(obj=, step=float|complex, k=int, mt=[re, im])
        self.calc_count = 0
        self.in_prepare = 0
        self.run_ranges = []  # per run_evolution: (first id, last id)
        self.notes = dict(ambiguous=0, float_decoded=0)
        self._patched = []

    # -- events
    def emit(self, ev, **kw):
        kw['ev'] = ev
        self.events.append(kw)

    # -- step errors
    def new_step(self, err):
        """register one step truncation; returns (id, error object to hand on)"""
        from tenpy.linalg.truncation import TruncationError
        eps = float(err.eps)
        if self.mode == 'float':
            if not (eps > 1e-14):
                return 0, err
            self.steps.append(dict(eps=eps, ov=float(err.ov)))
            return len(self.steps), err
        self.steps.append(dict(eps=eps, ov=float(err.ov)))
        i = len(self.steps)
        e = Tag(tag_eps(i))
        return i, TruncationError(e, 1 - 2 * e)

    def bag_of(self, err):
        """TruncationError -> (decoded?, multiplicity list, ov consistent?)"""
        n = len(self.steps)
        if self.mode == 'tag':
            m = decode_tag(err.eps, n)
            if m is None:
                return False, [], False
            ov = Fraction(1)
            for i, x in enumerate(m, start=1):
                ov *= (1 - 2 * tag_eps(i)) ** x
            got = err.ov.f if isinstance(err.ov, Tag) else Fraction(err.ov)
            return True, m, got == ov
        return None, [], True

    def single_id(self, err, ids):
        """id of the step error that `err` (returned by update_bond / update_local / apply) is, or -1"""
        if self.mode == 'tag':
            ok, m, ovok = self.bag_of(err)
            if not ok or not ovok:
                return -1
            nz = [i for i, x in enumerate(m, start=1) if x]
            if not nz:
                return 0 if not ids else -1
            if len(nz) == 1 and m[nz[0] - 1] == 1 and ids == [nz[0]]:
                return nz[0]
            return -1
        ids = [i for i in ids if i]
        if not ids:
            return 0 if not (float(err.eps) > 1e-14) else -1
        if len(ids) == 1 and float(err.eps) == self.steps[ids[0] - 1]['eps'] and float(err.ov) == self.steps[ids[0] - 1]['ov']:
            return ids[0]
        return -1

    def report(self, err):
        """projection of the engine's self.trunc_err: dict(hasrep, bad, rep(runs), ovok)"""
        n = len(self.steps)
        if self.mode == 'tag':
            ok, m, ovok = self.bag_of(err)
            if not ok:
                return dict(hasrep=False, bad=True, rep=[], ovok=False)
            return dict(hasrep=True, bad=False, rep=runs_of(m), ovok=bool(ovok))
        # float mode: decompose over the per-run totals
        R = float(err.eps)
        Rov = float(err.ov)
        tot = []
        for (a, b) in self.run_ranges:
            e = math.fsum(self.steps[i - 1]['eps'] for i in range(a, b + 1))
            o = 1.0
            for i in range(a, b + 1):
                o *= self.steps[i - 1]['ov']
            tot.append((a, b, e, o))
        live = [x for x in tot if x[1] >= x[0]]
        scale = max([R] + [x[2] for x in live] + [1e-300])
        cands = []
        for ks in itertools.product(range(4), repeat=len(live)):
            s = math.fsum(kk * x[2] for kk, x in zip(ks, live))
            if abs(s - R) <= 1e-9 * scale:
                cands.append(ks)
        if len(cands) == 0:
            return dict(hasrep=False, bad=True, rep=[], ovok=False)
        if len(cands) > 1:
            self.notes['ambiguous'] += 1
            return dict(hasrep=False, bad=False, rep=[], ovok=True)
        ks = cands[0]
        m = [0] * n
        ov = 1.0
        for kk, x in zip(ks, live):
            for i in range(x[0], x[1] + 1):
                m[i - 1] = kk
            ov *= x[3] ** kk
        self.notes['float_decoded'] += 1
        return dict(hasrep=True, bad=False, rep=runs_of(m), ovok=bool(abs(ov - Rov) <= 1e-9))

    # -- projections of engine state
    def kof(self, dt):
        q = Fraction(complex(dt).real) / DT0
        if complex(dt).imag != 0 or q.denominator != 1:
            return -999
        return int(q)

    def model_time(self, model):
        opts = getattr(model, 'options', None)
        tm = None
        if opts is not None:
            try:
                tm = opts.get('time', None)
            except Exception:
                tm = None
        if tm is None:
            return [0, 0] if not self.prog['td'] else [-998, -998]
        return rat_units(tm)


def _owner(cls, name):
    for k in cls.__mro__:
        if name in k.__dict__:
            return k
    raise core.MachineryError('interposition point %s.%s missing' % (cls.__name__, name))


def _unwrap_H(H):
    seen = 0
    while seen < 5:
        for attr in ('original_operator', 'orig_operator', 'orig_op'):
            if hasattr(H, attr):
                H = getattr(H, attr)
                break
        else:
            return H
        seen += 1
    return H


def install(rec, eng_cls, skip=()):
    """wrap the methods of the working tree's classes; returns an undo function"""
    from tenpy.algorithms import tebd as tebd_mod, tdvp as tdvp_mod
    from tenpy.networks import mpo as mpo_mod
    fam = ENGINES[eng_cls.__name__][1]
    undo = []

    def patch(owner, name, make):
        orig = owner.__dict__[name]
        is_static = isinstance(orig, staticmethod)
        f = orig.__func__ if is_static else orig
        new = functools.wraps(f)(make(f))
        setattr(owner, name, staticmethod(new) if is_static else new)
        undo.append((owner, name, orig))

    def wrap_method(name, make):
        if name in skip:
            return
        patch(_owner(eng_cls, name), name, make)

    def mine(self):
        return rec.active and self is rec.eng

    # ---- run / run_evolution / prepare_evolve / evolve
    def mk_run(f):
        def run(self, *a, **kw):
            if not mine(self):
                return f(self, *a, **kw)
            rec.emit('RunBegin', N=int(self.options['N_steps']), k=rec.kof(self.options['dt']))
            r = f(self, *a, **kw)
            rec.emit('RunEnd')
            return r
        return run

    def mk_run_evolution(f):
        def run_evolution(self, N_steps, dt):
            if not mine(self):
                return f(self, N_steps, dt)
            rec.emit('RunEvoBegin', N=int(N_steps), k=rec.kof(dt))
            first = len(rec.steps) + 1
            r = f(self, N_steps, dt)
            rec.run_ranges.append((first, len(rec.steps)))
            rep = rec.report(self.trunc_err)
            rec.emit('RunEvoEnd', t=rat_units(self.evolved_time), **rep)
            return r
        return run_evolution

    def mk_prepare(f):
        def prepare_evolve(self, dt):
            if not mine(self):
                return f(self, dt)
            c0 = rec.calc_count
            rec.in_prepare += 1
            try:
                r = f(self, dt)
            finally:
                rec.in_prepare -= 1
            rec.emit('Prepare', k=rec.kof(dt), recalc=bool(rec.calc_count > c0))
            return r
        return prepare_evolve

    def ret_fields(err):
        ok, m, ovok = rec.bag_of(err)
        if ok is None:
            return dict(hasret=False, ret=[])
        if not ok or not ovok:
            return dict(hasret=True, ret=[[1, 1, 99]])
        return dict(hasret=True, ret=runs_of(m))

    def mk_evolve(f):
        def evolve(self, N_steps, dt):
            if not mine(self):
                return f(self, N_steps, dt)
            rec.emit('EvolveBegin', N=int(N_steps), k=rec.kof(dt), sweep=False)
            r = f(self, N_steps, dt)
            rec.emit('EvolveEnd', t=rat_units(self.evolved_time), **ret_fields(r))
            return r
        return evolve

    wrap_method('run', mk_run)
    wrap_method('run_evolution', mk_run_evolution)
    wrap_method('prepare_evolve', mk_prepare)
    wrap_method('evolve', mk_evolve)

    # ---- step truncations: replace the module attributes the engines call
    def mk_trunc(f, pos):
        def trunc(*a, **kw):
            res = f(*a, **kw)
            if not rec.active:
                return res
            i, err = rec.new_step(res[pos])
            rec.pending.append(i)
            res = list(res)
            res[pos] = err
            return tuple(res)
        return trunc

    def patch_attr(mod, name, pos):
        if not hasattr(mod, name):
            raise core.MachineryError('interposition point %s.%s missing' % (mod.__name__, name))
        orig = getattr(mod, name)
        setattr(mod, name, functools.wraps(orig)(mk_trunc(orig, pos)))
        undo.append((mod, name, orig))

    rec.pending = []

    if fam == 'TEBD':
        patch_attr(tebd_mod, 'svd_theta', 3)
        patch_attr(tebd_mod, 'decompose_theta_qr_based', 4)

        def mk_calc_U_bond(f):
            def _calc_U_bond(self, i_bond, dt, type_evo, E_offset):
                r = f(self, i_bond, dt, type_evo, E_offset)
                if mine(self):
                    rec.calc_count += 1
                    if r is not None:
                        delta_t = self._U_param['delta_t']
                        rec.uinfo[id(r)] = dict(obj=r, step=dt / delta_t, k=rec.kof(delta_t), mt=rec.model_time(self.model),
                                                order=str(self._U_param['order']), imag=bool(type_evo == 'imag'))
                return r
            return _calc_U_bond

        def mk_evolve_step(f):
            def evolve_step(self, U_idx_dt, odd):
                if not mine(self):
                    return f(self, U_idx_dt, odd)
                rec.emit('StepBegin', uidx=int(U_idx_dt), odd=int(odd) % 2)
                r = f(self, U_idx_dt, odd)
                rec.emit('StepEnd', **ret_fields(r))
                return r
            return evolve_step

        def mk_update_bond(evname):
            def mk(f):
                def update_bond(self, i, U_bond):
                    if not mine(self):
                        return f(self, i, U_bond)
                    rec.pending = []
                    r = f(self, i, U_bond)
                    info = rec.uinfo.get(id(U_bond))
                    uidx = -1
                    for j, Us in enumerate(self._U or []):
                        if int(i) < len(Us) and Us[int(i)] is U_bond:
                            uidx = j
                            break
                    if info is None or info['obj'] is not U_bond:
                        dts, uk, umt, uim = [98] * 6, -1, [-997, -997], False
                    else:
                        dts = match_sym(info['step'], rec.tables['StepTimes'][info['order']], info['order'])
                        uk, umt, uim = info['k'], info['mt'], info['imag']
                    rec.emit(evname, b=int(i), uidx=uidx, dts=dts, uk=uk, umt=umt, uim=uim, err=rec.single_id(r, rec.pending))
                    return r
                return update_bond
            return mk

        def mk_calc_U(f):
            def calc_U(self, order, delta_t, type_evo='real', E_offset=None):
                if not mine(self) or rec.in_prepare:
                    return f(self, order, delta_t, type_evo, E_offset)
                c0 = rec.calc_count
                r = f(self, order, delta_t, type_evo, E_offset)
                rec.emit('CalcU', k=rec.kof(delta_t), imag=bool(type_evo == 'imag'), recalc=bool(rec.calc_count > c0),
                         order=str(order))
                return r
            return calc_U

        def mk_update_imag(f):
            def update_imag(self, N_steps, *a, **kw):
                if not mine(self):
                    return f(self, N_steps, *a, **kw)
                rec.emit('EvolveBegin', N=int(N_steps), k=rec.kof(self._U_param['delta_t']), sweep=True)
                r = f(self, N_steps, *a, **kw)
                rec.emit('EvolveEnd', t=rat_units(self.evolved_time), **ret_fields(r))
                return r
            return update_imag

        wrap_method('_calc_U_bond', mk_calc_U_bond)
        wrap_method('evolve_step', mk_evolve_step)
        wrap_method('update_bond', mk_update_bond('UpdateBond'))
        wrap_method('update_bond_imag', mk_update_bond('UpdateBondImag'))
        wrap_method('calc_U', mk_calc_U)
        wrap_method('update_imag', mk_update_imag)

    if fam in ('TDVP1', 'TDVP2'):
        patch_attr(tdvp_mod, 'svd_theta', 3)

        def mk_sweep(f):
            def sweep(self, *a, **kw):
                if not mine(self):
                    return f(self, *a, **kw)
                rec.emit('SweepBegin')
                r = f(self, *a, **kw)
                rec.emit('SweepEnd')
                return r
            return sweep

        def mk_update_local(f):
            def update_local(self, theta, **kw):
                if not mine(self):
                    return f(self, theta, **kw)
                rec.pending = []
                i0 = int(self.i0)
                r = f(self, theta, **kw)
                err = r.get('err', None) if isinstance(r, dict) else None
                if err is None:
                    e = 0 if not rec.pending else -1
                else:
                    e = rec.single_id(err, rec.pending)
                rec.emit('UpdateLocal', i0=i0, err=e)
                return r
            return update_local

        def mk_krylov(f):
            def _krylov_evolve(self, H, theta, dt):
                if mine(self):
                    H0 = _unwrap_H(H)
                    kind = {'TwoSiteH': 'two', 'OneSiteH': 'one', 'ZeroSiteH': 'zero'}.get(type(H0).__name__, 'other')
                    z = complex(dt) / (-0.5j * complex(self.dt))
                    h = int(round(z.real)) if abs(z.imag) < 1e-12 and abs(z.real - round(z.real)) < 1e-12 else 99
                    envH = getattr(self.env, 'H', None)
                    umt = rec.model_time(self.model) if envH is self.model.H_MPO else [-997, -997]
                    rec.emit('Krylov', kind=kind, x=int(getattr(H0, 'i0', -1)), h=h, umt=umt)
                return f(self, H, theta, dt)
            return _krylov_evolve

        wrap_method('sweep', mk_sweep)
        wrap_method('update_local', mk_update_local)
        wrap_method('_krylov_evolve', mk_krylov)

    if fam == 'ExpMPO':
        MPO = mpo_mod.MPO

        def mk_make_U(f):
            def make_U(self, dt, *a, **kw):
                r = f(self, dt, *a, **kw)
                eng = rec.eng
                if rec.active and eng is not None and self is eng.model.H_MPO:
                    rec.calc_count += 1
                    rec.uinfo[id(r)] = dict(obj=r, step=complex(dt), k=rec.kof(eng._U_param['dt']), dt=eng._U_param['dt'],
                                            mt=rec.model_time(eng.model), order=str(eng._U_param['order']))
                return r
            return make_U

        def mk_apply(f):
            def apply(self, psi, options):
                eng = rec.eng
                if not (rec.active and eng is not None and psi is eng.psi and id(self) in rec.uinfo
                        and rec.uinfo[id(self)]['obj'] is self):
                    return f(self, psi, options)
                info = rec.uinfo[id(self)]
                r = f(self, psi, options)
                i, err = rec.new_step(r)
                c = info['step'] / (-1j * complex(info['dt']))
                v = [Fraction(c.real) * 2, Fraction(c.imag) * 2]
                if all(q.denominator == 1 for q in v):
                    dts = [int(v[0]), 0, 0, 0, 0, int(v[1])]
                else:
                    dts = [99] * 6
                rec.emit('ApplyU', dts=dts, uk=info['k'], umt=info['mt'], err=i)
                return err
            return apply

        def mk_evolve_step_mpo(f):
            def evolve_step(self, dt):
                if not mine(self):
                    return f(self, dt)
                rec.emit('StepBegin', uidx=0, odd=0)
                r = f(self, dt)
                rec.emit('StepEnd', **ret_fields(r))
                return r
            return evolve_step

        patch(MPO, 'make_U', mk_make_U)
        patch(MPO, 'apply', mk_apply)
        wrap_method('evolve_step', mk_evolve_step_mpo)

    if ENGINES[eng_cls.__name__][2]:
        def mk_reinit(f):
            def reinit_model(self):
                r = f(self)
                if mine(self):
                    rec.emit('Reinit', mt=rec.model_time(self.model))
                return r
            return reinit_model
        wrap_method('reinit_model', mk_reinit)

    def undo_all():
        for owner, name, orig in reversed(undo):
            setattr(owner, name, orig)
    return undo_all


# ------------------------------------------------------------------------------------------------
def engine_class(name):
    import importlib
    mod = importlib.import_module('tenpy.algorithms.' + ENGINES[name][0])
    if not hasattr(mod, name):
        raise core.MachineryError('engine class %s missing' % name)
    return getattr(mod, name)


def engine_options(prog):
    fam = ENGINES[prog['engine']][1]
    opts = dict(dt=float(DT0), N_steps=1, trunc_params=dict(chi_max=prog.get('chi_max', 4), svd_min=1e-12),
                max_trunc_err=1e9)
    if prog.get('t0'):
        opts['start_time'] = float(DT0 * prog['t0'])
    if prog.get('preserve_norm') is not None:
        opts['preserve_norm'] = prog['preserve_norm']
    if fam == 'TEBD':
        o = prog['order']
        opts['order'] = o if o == '4_opt' else int(o)
    elif fam == 'ExpMPO':
        opts['order'] = int(prog['order'])
        opts['approximation'] = prog.get('approx', 'II')
        opts['compression_method'] = prog.get('compression', 'SVD')
        if opts['compression_method'] != 'SVD':
            opts['max_sweeps'] = 2
            opts['min_sweeps'] = 1
            opts['m_temp'] = 2
    else:
        opts['lanczos_params'] = dict(N_min=2, N_max=12)
    return opts


def total_charge(psi):
    """physical total charge (finite) / charge per unit cell (infinite): projection used by the charge-conservation relation"""
    return [int(q) for q in psi.get_total_charge(only_physical_legs=(psi.bc == 'finite'))]


def record(prog, tables):
    """run one program on the real engine; returns (events, info)"""
    name = prog['engine']
    cls = engine_class(name)
    fam, td = ENGINES[name][1], ENGINES[name][2]
    prog = dict(prog, td=td)
    rec = Recorder(prog, tables)
    with warnings.catch_warnings():
        warnings.simplefilter('ignore')
        M = make_model(prog)
        psi = make_psi(prog, M)
        undo = install(rec, cls, skip=prog.get('skip', ()))
        try:
            eng = cls(psi, M, engine_options(prog))
            rec.eng = eng
            t0 = rat_units(eng.evolved_time)
            order = str(prog.get('order', '-')) if fam in ('TEBD', 'ExpMPO') else '-'
            charge0 = total_charge(psi)
            rec.emit('Begin', fam=fam, order=order, L=int(prog['L']), finite=bool(prog['bc'] == 'finite'), td=bool(td),
                     t0=t0, mt0=rec.model_time(eng.model) if td else t0, cls=name)
            rec.active = True
            obs = []
            raised = None
            for call in prog['calls']:
                kind, N, k = call[0], int(call[1]), int(call[2])
                dt = float(DT0 * k)
                if kind not in ('run', 'runevo', 'direct', 'imag', 'imagsweep'):
                    raise core.MachineryError('unknown call %r' % (call,))
                try:
                    if kind == 'run':
                        eng.options['dt'] = dt
                        eng.options['N_steps'] = N
                        eng.run()
                    elif kind == 'runevo':
                        eng.run_evolution(N, dt)
                    elif kind == 'imagsweep':     # what run_GS does for finite systems and order 2
                        eng.calc_U(2, dt, type_evo='imag')
                        eng.update_imag(N)
                    else:                          # what run_GS does otherwise / a direct evolve() in real time
                        o = prog['order']
                        eng.calc_U(o if o == '4_opt' else int(o), dt, type_evo='imag' if kind == 'imag' else 'real')
                        eng.evolve(N, dt)
                except core.MachineryError:
                    raise
                except Exception as e:  # the engine refused a legal call: an observation, reported by the check
                    import traceback
                    raised = dict(call=call, exc=type(e).__name__, msg=str(e)[:300], tb=traceback.format_exc()[-1200:])
                    break
                obs.append(dict(norm=float(psi.norm), chi=[int(c) for c in psi.chi],
                                charge=total_charge(psi)))
            rec.active = False
            rec.emit('End')
        finally:
            rec.active = False
            undo()
    info = dict(notes=rec.notes, nsteps=len(rec.steps), obs=obs, raised=raised, charge0=charge0,
                eps=[s['eps'] for s in rec.steps][:50], reported_eps=float(eng.trunc_err.eps),
                evolved_time=[float(complex(eng.evolved_time).real), float(complex(eng.evolved_time).imag)])
    return rec.events, info


def record_safe(args):
    """pool worker: (prog, tables) -> dict(events=..., info=...) or dict(error=...)"""
    prog, tables = args
    try:
        ev, info = record(prog, tables)
        return dict(events=ev, info=info)
    except core.MachineryError as e:
        return dict(machinery=str(e))
    except Exception as e:  # the engine itself failed: reported as machinery (nothing was observed)
        import traceback
        return dict(machinery='engine run failed for %s: %s\n%s' % (json.dumps(prog, default=str), e, traceback.format_exc()[-1500:]))


# ------------------------------------------------------------------------------------------------
def check_tables(tables):
    """Relation between the spec's symbolic tables and the floats of the working tree:
    suzuki_trotter_time_steps(order)[j] == value(StepTimes(order)[j+1]) to 1 ulp; returns list of failures."""
    from tenpy.algorithms.tebd import TEBDEngine
    bad = []
    n = 0
    for order, tab in tables['StepTimes'].items():
        o = order if order == '4_opt' else int(order)
        fl = TEBDEngine.suzuki_trotter_time_steps(o)
        if len(fl) != len(tab):
            bad.append(dict(order=order, what='length', got=len(fl), expected=len(tab)))
            continue
        for j, (x, v) in enumerate(zip(fl, tab)):
            re, im = sym_value(v, order)
            n += 1
            if abs(Fraction(x) - re) > Fraction(ULP1) or im != 0:
                bad.append(dict(order=order, index=j, got=x, expected=float(re), sym=list(v)))
    return n, bad


# ------------------------------------------------------------------------------------------------
# REPLAY of exactly solvable / conservative evolutions (observations only; the check compares them with the
# spec's tables or with each other)
def solvable_ising(job):
    """job: dict(engine, order, L, m, split=[N1, ...]). Evolve |up..up> under H = -sum XX for J t = m pi/4 with the real
    engine; returns the amplitudes * 2^(L/2) in the x basis (code bit i = 0: X_i = +1), the norm, reported eps."""
    import numpy as np
    from tenpy.models.tf_ising import TFIChain
    from tenpy.networks.mps import MPS
    with warnings.catch_warnings():
        warnings.simplefilter('ignore')
        L, m = job['L'], job['m']
        M = TFIChain(dict(L=L, J=1.0, g=0.0, bc_MPS='finite', conserve=None))
        psi = MPS.from_product_state(M.lat.mps_sites(), ['up'] * L, bc='finite', unit_cell_width=L)
        cls = engine_class(job['engine'])
        ntot = sum(job['split'])
        dt = m * math.pi / 4 / ntot
        o = job['order']
        eng = cls(psi, M, dict(order=o if o == '4_opt' else int(o), dt=dt, N_steps=1, preserve_norm=False,
                               trunc_params=dict(chi_max=64, svd_min=1e-13)))
        for n in job['split']:
            eng.options['N_steps'] = n
            eng.run()
        amps = []
        for code in range(2 ** L):
            st = [np.array([1.0, 1.0 if (code >> i) & 1 == 0 else -1.0]) / np.sqrt(2) for i in range(L)]
            ps = MPS.from_product_state(M.lat.mps_sites(), st, bc='finite', unit_cell_width=L)
            a = complex(ps.overlap(psi)) * 2 ** (L / 2)
            amps.append([a.real, a.imag])
        return dict(amps=amps, norm=float(psi.norm), evolved_time=float(complex(eng.evolved_time).real),
                    t_expected=m * math.pi / 4)


def conservative_run(job):
    """job: dict(engine, L, model, pre_chi, N, k). Real-time evolution without truncation; returns energy, norm and total
    charge before and after."""
    with warnings.catch_warnings():
        warnings.simplefilter('ignore')
        prog = dict(engine=job['engine'], L=job['L'], bc='finite', model=job['model'], td=False, pre=2, pre_chi=job['pre_chi'],
                    seed=job.get('seed', 0), order=job.get('order', '2'), chi_max=256)
        M = make_model(prog)
        psi = make_psi(prog, M)
        before = dict(E=float(M.H_MPO.expectation_value(psi).real), norm=float(psi.norm), charge=total_charge(psi))
        opts = engine_options(prog)
        opts['trunc_params'] = dict(chi_max=256, svd_min=1e-14)
        opts['preserve_norm'] = False
        opts['dt'] = float(DT0 * job['k'])
        opts['N_steps'] = job['N']
        eng = engine_class(job['engine'])(psi, M, opts)
        eng.run()
        after = dict(E=float(M.H_MPO.expectation_value(psi).real), norm=float(psi.norm), charge=total_charge(psi))
        return dict(before=before, after=after, chi=[int(c) for c in psi.chi], eps=float(eng.trunc_err.eps))


def phys_safe(args):
    kind, job = args
    try:
        return dict(res=(solvable_ising if kind == 'ising' else conservative_run)(job))
    except Exception as e:
        import traceback
        return dict(raised=dict(exc=type(e).__name__, msg=str(e)[:300], tb=traceback.format_exc()[-1200:]))
