"""C08: MPS measurements equal dense quantum mechanics.

MC: TLC evaluates spec/MPSMeasure.tla: for every generated state (finite / segment integer MPS with non-uniform
bond dimensions, mixed forms, charge sectors, bosonic and fermionic sites; infinite product states on a window)
the catalogue of measurements as operators on the dense state psi -- exact numerators <psi|O|psi> and the
denominator <psi|psi> over the Gaussian integers -- plus design-level identities (hermiticity, anticommutation,
trace of the reduced density matrices).
REPLAY: the real MPS is built from the spec's tensors, brought to canonical form, and every measurement function of
tenpy is called with every option value of the catalogue; the float result must equal the exact ratio (rtol 1e-10).
MPSEnvironment / overlap with a different bra are evaluated on the raw integer tensors and must be bit-exact up to
the final products (rtol 1e-12).
"""
import time

import numpy as np

from harness import core
from harness import mps as hm
from checks.c07 import mc_and_replay

SPEC = 'MPSMeasure'
INVARIANTS = ['Rep', 'Shape', 'RealNorm', 'HermitianReal', 'CorrHermitian', 'Anticommute', 'RhoTrace']
RTOL = 1e-10


def cfg(seed, sample, maxl, ops=('measure', 'measure_env'), bcs=('finite', 'segment', 'infinite')):
    return dict(spec='Spec8', constants=dict(Seed=seed, Sample=sample, MaxL=maxl, MaxConv=1, BCs=set(bcs),
                                             Ctors={'new', 'product'}, Acts=set(), Ops=set(ops)),
                invariants=INVARIANTS, properties=[], view='AbsView')


def items(tab):
    """TLA function value -> list of (key, value); keys are tuples / ints / strings"""
    if isinstance(tab, dict):
        return list(tab.items())
    return [(k + 1, v) for k, v in enumerate(tab)]   # sequence = function with domain 1..n


class M:
    """comparison helper for one measure step"""

    def __init__(self, rp, l, env=False, unit_norms=True):
        self.rp = rp
        self.env = env
        self.unit_norms = unit_norms
        self.l = l
        self.ok = True
        self.bc = l['bc']
        self.cons = l['cons']
        self.kinds = list(l['kinds'])

    def cmp(self, what, got, num, den, rtol=RTOL, **sig):
        want = np.asarray(num, dtype=complex) / den
        got = np.asarray(got, dtype=complex)
        self.rp.ctx.case((self.rp.origin, self.rp.step, what, str(sorted(sig.items()))), action='%s.%s' % (SPEC, what))
        scale = max(1.0, float(np.max(np.abs(want))) if want.size else 1.0)
        if got.shape != want.shape or not np.all(np.abs(got - want) <= rtol * scale):
            s = dict(what=what, kind0=self.kinds[0], uniform=len(set(self.kinds)) == 1, env=self.env,
                     unit_norms=self.unit_norms)
            s.update(sig)
            self.rp.violation(what, 'value', dict(got=np.asarray(got).tolist().__repr__()[:1500],
                                                  expected=want.tolist().__repr__()[:1500], args=sig), **s)
            self.ok = False
            return False
        return True


def two_site_op(s0, s1, n0, n1):
    from tenpy.linalg import np_conserved as npc
    return npc.outer(s0.get_op(n0).replace_labels(['p', 'p*'], ['p0', 'p0*']),
                     s1.get_op(n1).replace_labels(['p', 'p*'], ['p1', 'p1*']))


def rho_to_std(rho, sites):
    k = len(sites)
    a, lab = hm.npc_to_std(rho, {'p%d' % j: sites[j] for j in range(k)})
    a = np.transpose(a, [lab.index('p%d' % j) for j in range(k)] + [lab.index('p%d*' % j) for j in range(k)])
    D = int(np.prod(a.shape[:k]))
    return a.reshape(D, D)


def half_factor(kinds, term, offset=0):
    """the spec's "Sz" on a spin-1/2 site is twice tenpy's Sz: factor (1/2)^(#Sz acting on H sites)"""
    return 0.5 ** sum(1 for nm, i in term if nm == 'Sz' and kinds[(i + offset) % len(kinds)] == 'H')


def measure_common(m, obj, psi, tab, den, sites_n, env=False):
    """obj: MPS or MPSEnvironment (same measurement API); den: exact denominator (complex)"""
    from tenpy.networks.terms import TermList
    rp = m.rp
    kinds = m.kinds
    n = len(kinds)
    sites = [psi.sites[k % psi.L] for k in range(n)]
    # ---- expectation_value, single site
    by_name = {}
    for (i, nm), num in items(tab['ev1']):
        by_name.setdefault(nm, {})[i] = hm.gi(num)
    for nm, d in by_name.items():
        idx = sorted(d)
        got = hm.quiet(obj.expectation_value, nm, sites=idx)
        m.cmp('expectation_value', got, [d[i] for i in idx], den, name=nm)
    # ---- a LIST of operators is indexed by the site (ops[(j mod L) mod len(ops)] for site j), whatever `sites` selects
    if len(set(kinds)) == 1 and n >= 3 and by_name:
        nm = sorted(by_name)[0]
        d = by_name[nm]
        Dnum = hm.gi(tab['D'])
        for sel in ([1, 2], list(range(n - 1, -1, -1))):
            got = hm.quiet(obj.expectation_value, [nm, 'Id'], sites=sel)
            m.cmp('expectation_value', got, [d[j] if (j % psi.L) % 2 == 0 else Dnum for j in sel], den, name=nm, ops_list=True)
    # ---- two-site operators
    for (i, pr), num in items(tab['ev2']):
        op = two_site_op(sites[i], sites[i + 1], pr[0], pr[1])
        got = hm.quiet(obj.expectation_value, op, sites=[i])
        m.cmp('expectation_value_2site', got, [hm.gi(num)], den, names='%s %s' % tuple(pr))
    for i0, rec in items(tab['multi']):
        got = hm.quiet(obj.expectation_value_multi_sites, list(rec['names']), i0)
        m.cmp('expectation_value_multi_sites', got, hm.gi(rec['val']), den)
    # ---- terms
    terms, vals = [], []
    for t, num in items(tab['term']):
        term = [(x[0], x[1]) for x in t]
        got = hm.quiet(obj.expectation_value_term, term)
        order = '<' if term[0][1] < term[-1][1] else ('=' if term[0][1] == term[-1][1] else '>')
        m.cmp('expectation_value_term', got, hm.gi(num), den, ops=' '.join(x[0] for x in term), order=order)
        terms.append(term)
        vals.append(hm.gi(num))
    if terms and psi.bc != 'segment':
        # prefactors as an ndarray that the caller keeps; a measurement is a stuttering step: evaluating the same
        # TermList again, or a new TermList built from the same array, gives the same value and leaves the array alone
        strength = np.array([1.0 + 0.5 * k for k in range(len(terms))])
        keep = strength.copy()
        want = sum(s * v for s, v in zip(keep, vals))
        tl = TermList(terms, strength)
        for rnd, tlx in enumerate((tl, tl, None)):
            try:
                got, _ = hm.quiet(obj.expectation_value_terms_sum, tlx if tlx is not None else TermList(terms, strength))
            except Exception as e:  # an exception of the code under test is an observable result
                rp.violation('expectation_value_terms_sum', 'exception', dict(error=repr(e), terms=repr(terms)[:400]),
                             error=type(e).__name__, L=psi.L)
                m.ok = False
                break
            # (documented: the MPSEnvironment variant does not include the norms of bra and ket)
            m.cmp('expectation_value_terms_sum', got, want, 1.0 if env else den, rtol=1e-9, evaluation=rnd)
            if not np.array_equal(strength, keep):
                rp.violation('expectation_value_terms_sum', 'caller-array-modified', dict(got=strength.tolist(), expected=keep.tolist()),
                             evaluation=rnd)
                m.ok = False
                break
    # ---- correlation functions
    for key, mat in items(tab['corr']):
        n1, n2, st, sof = key
        C = np.array([[hm.gi(z) for z in row] for row in mat])
        variants = []
        if st == 'none':
            variants.append(dict(opstr=None, str_on_first=True, autoJW=True))
            variants.append(dict(opstr=None, str_on_first=False, autoJW=False))
        elif st == 'JW':
            variants.append(dict(opstr=None, str_on_first=True, autoJW=True))
            variants.append(dict(opstr='JW', str_on_first=True, autoJW=False))
        else:
            variants.append(dict(opstr=st, str_on_first=sof, autoJW=True))
        for kw in variants:
            got = hm.quiet(obj.correlation_function, n1, n2, sites1=list(range(n)), sites2=list(range(n)), **kw)
            off = ~np.eye(n, dtype=bool)
            m.cmp('correlation_function', got[off], C[off], den, ops='%s %s' % (n1, n2), opstr=str(kw['opstr']),
                  str_on_first=kw['str_on_first'], autoJW=kw['autoJW'], part='offdiagonal')
            m.cmp('correlation_function', np.diag(got), np.diag(C), den, ops='%s %s' % (n1, n2), part='diagonal')
        if (n1, n2) in (('Sp', 'Sm'), ('Cd', 'C')) and not env:
            got = hm.quiet(obj.correlation_function, n1, n2, sites1=list(range(n)), sites2=list(range(n)), hermitian=True)
            m.cmp('correlation_function', got, C, den, ops='%s %s' % (n1, n2), hermitian=True)
        if n >= 3:
            s1, s2 = [0, n - 1], [1, n - 1]
            got = hm.quiet(obj.correlation_function, n1, n2, sites1=s1, sites2=s2, **variants[0])
            m.cmp('correlation_function', got[:, 0], C[np.ix_(s1, s2)][:, 0], den, ops='%s %s' % (n1, n2), subset=True, part='offdiagonal')
            m.cmp('correlation_function', got[1, 1], C[n - 1, n - 1], den, ops='%s %s' % (n1, n2), subset=True, part='diagonal')
    # ---- term correlation functions
    for tp, row in items(tab['tcorr']):
        tL = [(x[0], x[1]) for x in tp[0]]
        tR = [(x[0], x[1]) for x in tp[1]]
        js = sorted(k for k, _ in items(row))
        if js:
            got = hm.quiet(obj.term_correlation_function_right, tL, tR, 0, js)
            d = dict(items(row))
            m.cmp('term_correlation_function_right', got, [hm.gi(d[j]) * half_factor(kinds, tL) * half_factor(kinds, tR, j) for j in js], den,
                  left=' '.join(x[0] for x in tL), right=' '.join(x[0] for x in tR), uniform_chain=len(set(kinds)) == 1)
    for tp, row in items(tab['tcorrL']):
        tL = [(x[0], x[1]) for x in tp[0]]
        tR = [(x[0], x[1]) for x in tp[1]]
        is_ = sorted((k for k, _ in items(row)), reverse=True)
        if is_:
            jfix = n - 1 - max(x[1] for x in tR)
            got = hm.quiet(obj.term_correlation_function_left, tL, tR, is_, jfix)
            d = dict(items(row))
            m.cmp('term_correlation_function_left', got, [hm.gi(d[i]) * half_factor(kinds, tL, i) * half_factor(kinds, tR, jfix) for i in is_], den,
                  left=' '.join(x[0] for x in tL), right=' '.join(x[0] for x in tR))
    # ---- correlation functions of term lists (sums of terms with prefactors)
    tlc = tab.get('tlc', {})
    row = dict(items(tlc.get('val', [])))
    if row:
        js = sorted(row)
        Lt = [[(x[0], x[1]) for x in t] for t in tlc['tl']]
        Rt = [[(x[0], x[1]) for x in t] for t in tlc['tr']]
        sL = np.array([float(x) for x in tlc['sL']])
        sR = np.array([float(x) for x in tlc['sR']])
        keepL, keepR = sL.copy(), sR.copy()
        for rnd in range(2):
            got = hm.quiet(obj.term_list_correlation_function_right, TermList(Lt, sL), TermList(Rt, sR), 0, js)
            m.cmp('term_list_correlation_function_right', got, [hm.gi(row[j]) for j in js], den, rtol=1e-9, evaluation=rnd,
                  ops=' '.join(t[0][0] for t in Lt + Rt))
            if not (np.array_equal(sL, keepL) and np.array_equal(sR, keepR)):
                rp.violation('term_list_correlation_function_right', 'caller-array-modified', dict(sL=sL.tolist(), sR=sR.tolist()), evaluation=rnd)
                m.ok = False
                break
        rowd = dict(items(tlc.get('valdef', [])))
        if rowd and psi.bc != 'infinite':
            # default j_R of a finite MPS: the right terms (here starting at relative site 1) start right of the left terms
            Rt1 = [[(x[0], x[1]) for x in t] for t in tlc['tr1']]
            jd = sorted(rowd)
            sig = dict(default_j_R=True, ops=' '.join(t[0][0] for t in Lt + Rt1))
            try:
                got = hm.quiet(obj.term_list_correlation_function_right, TermList(Lt, keepL.copy()), TermList(Rt1, keepR.copy()))
                m.cmp('term_list_correlation_function_right', got, [hm.gi(rowd[j]) for j in jd], den, rtol=1e-9, **sig)
            except Exception as e:  # an exception of the code under test is an observable result
                rp.violation('term_list_correlation_function_right', 'exception', dict(error=repr(e)), error=type(e).__name__, **sig)
                m.ok = False


def list_corr(m, obj, tab, den):
    """correlation_function with lists of operator names (site i uses ops[(i mod L) mod len(ops)])"""
    for (ops1, ops2, i, j), num in items(tab):
        sig = dict(ops='%s | %s' % (' '.join(ops1), ' '.join(ops2)), list_ops=True, outside_unit_cell=max(i, j) >= m.rp.psi.L)
        try:
            got = hm.quiet(obj.correlation_function, list(ops1), list(ops2), sites1=[i], sites2=[j])
        except Exception as e:  # an exception of the code under test is an observable result
            m.rp.ctx.case((m.rp.origin, m.rp.step, 'lcorr', str(sig)), action='%s.correlation_function' % SPEC)
            m.rp.violation('correlation_function', 'exception', dict(error=repr(e), i=i, j=j), error=type(e).__name__, **sig)
            m.ok = False
            continue
        m.cmp('correlation_function', np.asarray(got).reshape(-1), [hm.gi(num)], den, **sig)


def sample_with_ops(m, psi, tab, den, n):
    """sample_measurements(first_site, last_site, ops): eigenvalues of the documented operator per site, weight^2 = Born probability"""
    sample_ops = [['Sigmaz', 'Sz'], ['Sigmax', 'Sigmaz'], ['Sigmax', 'Sigmay', 'Sigmaz']]
    for (o, f), probs in items(tab):
        ops = sample_ops[o - 1]
        table = {tuple(k): hm.gi(v).real for k, v in items(probs)}
        for trial in range(3):
            rng = np.random.default_rng(7919 * m.rp.ctx.seed + 31 * trial + o)
            amp = trial != 2
            sig = dict(with_ops=True, first_site=f, n_ops=len(ops), complex_amplitude=amp, L1=False,
                       leaves_unit_cell=n > psi.L)
            sigmas, w = hm.quiet(psi.sample_measurements, first_site=f, last_site=n - 1, ops=ops, rng=rng, complex_amplitude=amp)
            lam = []
            good = True
            for k, sv in enumerate(sigmas):
                nm = ops[k % len(ops)]              # documented: ops[(i - first_site) % len(ops)]
                x = float(np.real(sv)) * (2.0 if nm == 'Sz' else 1.0)
                if abs(abs(x) - 1.0) > 1e-9:
                    good = False
                lam.append(int(round(x)))
            m.rp.ctx.case((m.rp.origin, m.rp.step, 'sample-ops', o, f, trial), action='%s.sample_measurements' % SPEC)
            if not good:
                m.rp.violation('sample_measurements', 'eigenvalue-of-wrong-operator', dict(sigmas=[float(np.real(x)) for x in sigmas], ops=ops), **sig)
                m.ok = False
                continue
            prob = table[tuple(lam)] / (2.0 ** len(lam) * den)
            got = abs(w) ** 2 if amp else w
            m.cmp('sample_measurements', got, prob, 1.0, rtol=1e-9, **sig)


def h_measure(rp, l, o):
    psi = rp.psi
    m = M(rp, l)
    tab = l['tab']
    den = hm.gi(tab['D']).real
    P = hm.tensor_from_spec(o['psi'])
    n = len(m.kinds)
    if psi.bc != 'infinite':
        hm.quiet(psi.canonical_form)
    else:
        # product state (chi = 1, S = 1): normalize the local wave functions, as canonical_form would
        from tenpy.linalg import np_conserved as npc
        for k in range(psi.L):
            psi._B[k] = psi._B[k] / npc.norm(psi._B[k])
    measure_common(m, psi, psi, tab, den, n)
    list_corr(m, psi, l.get('lcorr', {}), den)
    sites = [psi.sites[k % psi.L] for k in range(n)]
    # ---- reduced density matrices, Renyi-2 mutual information
    pur = {}
    for seg, mat in items(l['rho']):
        seg = list(seg)
        R = hm.matrix_from_spec(mat)
        got = rho_to_std(hm.quiet(psi.get_rho_segment, seg), [sites[s] for s in seg])
        m.cmp('get_rho_segment', got, R, den, consecutive=all(b == a + 1 for a, b in zip(seg, seg[1:])), k=len(seg))
        pur[tuple(seg)] = np.trace(R @ R).real / den ** 2
    if psi.bc == 'finite' and n >= 2:
        coords, mi = hm.quiet(psi.mutinf_two_site, n=2)
        for (i, j), val in zip(coords, mi):
            i, j = int(i), int(j)
            if (i,) in pur and (j,) in pur and (i, j) in pur:
                want = -np.log(pur[(i,)]) - np.log(pur[(j,)]) + np.log(pur[(i, j)])
                m.cmp('mutinf_two_site', val, want, 1.0, rtol=1e-8)
    # ---- charge statistics
    for b, probs in items(l['charge']):
        pr = {int(q): float(v) / den for q, v in items(probs)}
        qs, ps = hm.quiet(psi.probability_per_charge, b)
        got = {}
        for q, p in zip(qs[:, 0], ps):
            got[int(q)] = got.get(int(q), 0.0) + float(p)
        keys = sorted(set(k for k, v in pr.items() if v > 1e-14) | set(k for k, v in got.items() if v > 1e-12))
        m.cmp('probability_per_charge', [got.get(k, 0.0) for k in keys], [pr.get(k, 0.0) for k in keys], 1.0)
        mean = sum(q * p for q, p in pr.items())
        var = sum(p * (q - mean) ** 2 for q, p in pr.items())
        if m.cons == 'U1':    # (for Z_2 the mean of a charge defined mod 2 is not a dense observable)
            m.cmp('average_charge', hm.quiet(psi.average_charge, b), [mean], 1.0)
            m.cmp('charge_variance', hm.quiet(psi.charge_variance, b), [var], 1.0)
    sample_with_ops(m, psi, l.get('sample', {}), den, n)
    # ---- sampling: the weight is the Born amplitude / probability of the sampled outcome
    nrm = np.sqrt(den)
    maps = [hm.std_to_impl(s) for s in sites]
    inv = [np.argsort(mp) for mp in maps]      # impl index -> std index
    for trial in range(4):
        rng = np.random.default_rng(1000 * rp.ctx.seed + trial)
        for amp in (True, False):
            if psi.bc == 'infinite':
                continue
            sig, w = hm.quiet(psi.sample_measurements, rng=rng, complex_amplitude=amp)
            idx = tuple(int(inv[k][int(s)]) for k, s in enumerate(sig))
            if psi.bc == 'finite':
                a = P[(0,) + idx + (0,)] / nrm
                want = a if amp else abs(a) ** 2
            else:
                pr = float(np.sum(np.abs(P[(slice(None),) + idx + (slice(None),)]) ** 2)) / den
                want = np.sqrt(pr) if amp else pr
            m.cmp('sample_measurements', w, want, 1.0, rtol=1e-9, complex_amplitude=amp, full=True, L1=(n == 1))
        if n >= 3:
            sig, w = hm.quiet(psi.sample_measurements, first_site=1, last_site=n - 2, rng=rng)
            idx = tuple(int(inv[k + 1][int(s)]) for k, s in enumerate(sig))
            sl = (slice(None), slice(None)) + idx + (slice(None), slice(None))
            pr = float(np.sum(np.abs(P[sl]) ** 2)) / den
            m.cmp('sample_measurements', w, np.sqrt(pr), 1.0, rtol=1e-9, complex_amplitude=True, full=False)
    return dict(skip_state=True) if m.ok else False


def h_measure_env(rp, l, o):
    from tenpy.networks.mps import MPSEnvironment
    ket = rp.psi
    bra = hm.build_mps(hm.rep_to_rec(l['bra'], l['bnrm']))
    m = M(rp, l, env=True, unit_norms=float(l['f12']) == 1.0)
    tab = l['tab']
    f12 = float(l['f12'])
    D = hm.gi(tab['D'])
    fps = dict(bra=(bra, hm.fingerprint(bra)), ket=(ket, hm.fingerprint(ket)))
    gauge_shift = l['bra']['qb'][0] != [0] * len(l['bra']['qb'][0])

    def operands_unchanged(after):
        # measurements are stuttering steps: no operand MPS changes (state, norm, total charge, legs / qtotal of the tensors)
        for name, (obj, fp) in fps.items():
            ch = hm.operand_changed(fp, obj)
            rp.ctx.case((rp.origin, rp.step, 'operand', after, name), action='%s.operand_unchanged' % SPEC)
            if ch:
                rp.violation(after, 'operand-changed', dict(operand=name, changed=ch), operand=name, cons=m.cons, gauge_shift=gauge_shift)
                m.ok = False
                return False
        return True
    ov = hm.quiet(bra.overlap, ket)
    m.cmp('overlap', ov, D * f12, 1.0, rtol=1e-12)
    if not operands_unchanged('overlap'):
        return False
    ov2 = hm.quiet(ket.overlap, bra)
    m.cmp('overlap', ov2, np.conj(D) * f12, 1.0, rtol=1e-12, swapped=True)
    if not operands_unchanged('overlap'):
        return False
    env = hm.quiet(MPSEnvironment, bra, ket)
    if not operands_unchanged('MPSEnvironment'):
        return False
    m.cmp('full_contraction', hm.quiet(env.full_contraction, 0), D * f12, 1.0, rtol=1e-12)
    # den = 1/f12: the environment variants return <bra|O|ket> * bra.norm * ket.norm
    measure_common(m, env, ket, tab, 1.0 / f12, len(m.kinds), env=True)
    if not operands_unchanged('MPSEnvironment-measurements'):
        return False
    return dict(skip_state=True) if m.ok else False


HANDLERS = dict(hm.BASE_HANDLERS)
HANDLERS.update({'measure': h_measure, 'measure_env': h_measure_env})


def check(ctx):
    quick = ctx.tier == 'quick'
    seed = ctx.seed % 1000
    ctx.rule = ('behaviours = constructor + Measure / MeasureEnv of the TLC state-cover dump; a case is one compared '
                'measurement call (function, option values, operators); distinct = distinct (behaviour, function, arguments)')
    ctx.assume('TLC model checker', 'specification modules MPSMeasure, MPSTransform, MPSState, Dense, Exact',
               'canonical_form (bound by C07) is used to prepare the state for the MPS measurement functions',
               'float comparison rtol 1e-10 (final division / normalization only)')
    ctx.exhaustive = False   # instances are a seeded sample of the case catalogue; operations on them are enumerated exhaustively
    t0 = time.time()

    def leaf(st):
        return st['phase'] == 'done'
    n1 = mc_and_replay(ctx, 'measure', cfg(seed, 31 if quick else 5, 4), spec=SPEC, handlers=HANDLERS, leaf=leaf, sample_every=50)
    ctx.notes['behaviours'] = dict(measure=n1)
    ctx.notes['replay_wall_s'] = round(time.time() - t0, 1)


if __name__ == '__main__':
    core.main_wrapper('C08', check)
