----------------------------- MODULE MPSTransform -----------------------------
(* C09: transformations of an MPS as maps on the abstract state psi of MPSState.
   Every action states (a) the documented map on psi -- for finite / segment bc independently of the
   representation, (b) where the implementation is multilinear, also the new representation, so that the
   invariant Rep of MPSState (contraction of the representation = psi) checks that tensors, bond values and form
   labels travel together.  Actions that go through SVD / QR forget the representation (R.known = FALSE, only the
   frame bc / kinds / cons stays) and switch `mode` (see MPSState). *)
EXTENDS MPSState

CONSTANTS Ops          \* names of the transformations offered

Frame(Rr) == [known |-> FALSE, bc |-> Rr.bc, kinds |-> Rr.kinds, cons |-> Rr.cons]
FrameK(Rr, kinds) == [known |-> FALSE, bc |-> Rr.bc, kinds |-> kinds, cons |-> Rr.cons]

-----------------------------------------------------------------------------
\* site operators in the standard basis (integer / Gaussian-integer entries)
Z0 == GZero
I1 == GOne
OpMat(kind, name) ==
    CASE name = "Id" -> MId(Dim(kind))
      [] name = "Sigmaz" -> << <<I1, Z0>>, <<Z0, <<-1, 0>>>> >>
      [] name = "Sigmax" -> << <<Z0, I1>>, <<I1, Z0>> >>
      [] name = "Sigmay" -> << <<Z0, <<0, -1>>>>, <<<<0, 1>>, Z0>> >>
      [] name = "Sp" -> << <<Z0, I1>>, <<Z0, Z0>> >>
      [] name = "Sm" -> << <<Z0, Z0>>, <<I1, Z0>> >>
      [] name = "JW" -> IF kind = "F" THEN << <<I1, Z0>>, <<Z0, <<-1, 0>>>> >>
                        ELSE IF kind = "E" THEN << <<I1, Z0, Z0, Z0>>, <<Z0, <<-1, 0>>, Z0, Z0>>, <<Z0, Z0, <<-1, 0>>, Z0>>, <<Z0, Z0, Z0, I1>> >>
                        ELSE MId(Dim(kind))
      [] name = "C" -> << <<Z0, I1>>, <<Z0, Z0>> >>
      [] name = "Cd" -> << <<Z0, Z0>>, <<I1, Z0>> >>
      [] name = "N" -> << <<Z0, Z0>>, <<Z0, I1>> >>
      [] name = "Ntot" -> << <<Z0, Z0, Z0, Z0>>, <<Z0, I1, Z0, Z0>>, <<Z0, Z0, I1, Z0>>, <<Z0, Z0, Z0, <<2, 0>>>> >>
      \* "Sz": spin-1 diag(-1, 0, 1); on a spin-1/2 site TWICE the operator (the harness halves per occurrence)
      [] name = "Sz" -> IF kind = "T" THEN << <<<<-1, 0>>, Z0, Z0>>, <<Z0, Z0, Z0>>, <<Z0, Z0, I1>> >>
                        ELSE << <<I1, Z0>>, <<Z0, <<-1, 0>>>> >>
OpNames(kind, cons) ==
    CASE kind = "H" -> IF cons = "U1" THEN {"Sigmaz", "Sp", "Sm"} ELSE {"Sigmaz", "Sigmax", "Sigmay", "Sp", "Sm"}
      [] kind = "F" -> {"C", "Cd", "N"}
      [] kind = "E" -> {"Ntot"}
      [] OTHER -> {"Sz"}
NeedsJW(kind, name) == kind = "F" /\ name \in {"C", "Cd"}
IsUnitary(name) == name \in {"Id", "Sigmaz", "Sigmax", "Sigmay", "JW"}
\* occupation number used for fermionic signs (Site.JW_exponent)
NFerm(kind, s) == IF kind = "F" THEN s ELSE IF kind = "E" THEN (IF s \in {1, 2} THEN 1 ELSE 0) ELSE 0

\* window sites (0-based) equivalent to site i
WinSites(Rr, i) == {w \in 0..(NWin(Rr) - 1) : IF Inf(Rr) THEN w % NL(Rr) = i % NL(Rr) ELSE w = i}
RECURSIVE ApplyOnSites(_, _, _)
ApplyOnSites(P, ws, O) == IF ws = {} THEN P ELSE LET w == CHOOSE w \in ws : TRUE IN ApplyOnSites(ApplyOp1(P, w + 1, O), ws \ {w}, O)
ApplyAt(P, Rr, i, O) == ApplyOnSites(P, WinSites(Rr, i), O)

\* Jordan-Wigner string on all sites left of site i (finite / segment: for a segment the parity of the environment
\* is the charge parity qL[a] of the outer left index a)
JWString(P, kinds, qL, i) ==
    Eager(Mk(P.shape, LAMBDA idx :
        LET par == (ISumSeq([k \in 1..i |-> NFerm(kinds[k], idx[k + 1])]) + qL[idx[1] + 1]) % 2
        IN IF par = 0 THEN At(P, idx) ELSE GNeg(At(P, idx))))
\* fermionic operator: c_i = (prod_{k<i} JW_k) C_i
ApplyFerm(P, kinds, qL, i, name) ==
    LET Q == ApplyOp1(P, i + 1, OpMat(kinds[i + 1], name))
    IN IF NeedsJW(kinds[i + 1], name) THEN JWString(Q, kinds, qL, i) ELSE Q
QL(Rr) == IF Rr.known THEN [a \in 1..Len(Rr.qb[1]) |-> Rr.qb[1][a] % 2] ELSE <<0>>

\* representation level: op applied to the stored tensor of site index j (1-based), optionally with the JW signs
\* on the left bond (MPS.apply_JW_string_left_of_virt_leg)
OpOnB(Bi, O) == TLCEval([s \in 1..Len(Bi) |-> [a \in 1..Len(Bi[1]) |-> [b \in 1..Len(Bi[1][1]) |->
                    GSumSeq([u \in 1..Len(Bi) |-> GMul(O[s][u], Bi[u][a][b])])]]])
SignL(Bi, q) == TLCEval([s \in 1..Len(Bi) |-> [a \in 1..Len(Bi[1]) |-> [b \in 1..Len(Bi[1][1]) |->
                    IF q[a] % 2 = 0 THEN Bi[s][a][b] ELSE GNeg(Bi[s][a][b])]]])

-----------------------------------------------------------------------------
\* number of Jordan-Wigner-string operators applied so far
JWCount == Cardinality({k \in 1..Len(hist) : "jw" \in DOMAIN hist[k].l /\ hist[k].l.jw})

\* norm bookkeeping shared by all steps that end in canonical_form(renormalize)
Step(big) == /\ nops' = nops + 1 /\ phase' = phase /\ Rec(big)
Live == phase = "live" /\ nops < MaxConv

\* apply_local_op(i, opname, unitary, renormalize) -- single site operator given by name
\*   unitary = "true": tensors are only multiplied;  "auto": canonical_form iff the operator is not unitary;
\*   "false": canonical_form always
LocalOp(i, name, uni, rn) ==
    /\ Live /\ "apply_local_op" \in Ops /\ ValidSite(R, i) /\ i >= 0 /\ i < NL(R)
    /\ name \in OpNames(R.kinds[i + 1], R.cons)
    /\ LET kind == R.kinds[i + 1]
           jw == NeedsJW(kind, name)
           canon == (uni = "false") \/ (uni = "auto" /\ ~IsUnitary(name))
           O == OpMat(kind, name)
           P1 == IF jw THEN ApplyFerm(psi, R.kinds, QL(R), i, name) ELSE ApplyAt(psi, R, i, O)
           R1 == IF R.known /\ ~canon
                 THEN [R EXCEPT !.B[i + 1] = IF jw THEN OpOnB(SignL(@, R.qb[i + 1]), O) ELSE OpOnB(@, O)]
                 ELSE Frame(R)
       \* JW strings are read off the bond charges: documented to be reliable only while no tensor carries a total charge
       \* (first fermionic operator of a history, bond charges that count the particles to the left)
       IN /\ (jw => (~Inf(R) /\ R.cons # "none" /\ (R.bc = "segment" => R.known) /\ JWCount = 0 /\ (R.known => ZeroQtotal(R))))
          /\ (Inf(R) => (R.known /\ ~canon))
          /\ (canon => ~Inf(R) /\ NL(R) >= 2)
          /\ (~canon => mode \in {"raw", "loose"} \/ IsUnitary(name))
          /\ ~TIsZero(P1) /\ AbsLE(P1, 400)
          /\ R' = R1 /\ psi' = P1 /\ nrm' = nrm
          /\ mode' = IF canon THEN CanonMode(mode, R) ELSE mode
          /\ last' = [op |-> "apply_local_op", i |-> i, name |-> name, unitary |-> uni, renormalize |-> rn]
          /\ Step(IF canon THEN last' @@ [nfac |-> CanonFac(mode, rn, psi, P1), jw |-> jw, canon |-> TRUE]
                  ELSE last' @@ [jw |-> jw, canon |-> FALSE])

\* apply_local_op(i, op, unitary=None, renormalize) with a two-site operator op = O1 (x) O2 given as an array (no JW
\* strings for arrays): theta is split again by from_full (SVD); canonical_form iff the operator is not unitary
LocalOp2(i, n1, n2, rn) ==
    /\ Live /\ "apply_local_op2" \in Ops /\ ~Inf(R) /\ i >= 0 /\ i + 1 < NL(R)
    /\ n1 \in OpNames(R.kinds[i + 1], R.cons) \cup {"Id"} /\ n2 \in OpNames(R.kinds[i + 2], R.cons)
    /\ LET canon == ~(IsUnitary(n1) /\ IsUnitary(n2))
           P1 == ApplyOp1(ApplyOp1(psi, i + 1, OpMat(R.kinds[i + 1], n1)), i + 2, OpMat(R.kinds[i + 2], n2))
       IN /\ ~TIsZero(P1) /\ AbsLE(P1, 400)
          /\ (rn => canon)
          /\ R' = Frame(R) /\ psi' = P1 /\ nrm' = nrm
          /\ mode' = IF canon THEN CanonMode(mode, R) ELSE (IF mode = "raw" THEN "loose" ELSE mode)
          /\ last' = [op |-> "apply_local_op2", i |-> i, n1 |-> n1, n2 |-> n2, renormalize |-> rn]
          /\ Step(last' @@ [nfac |-> IF canon THEN CanonFac(mode, rn, psi, P1) ELSE <<1, 1>>, canon |-> canon])

\* apply_product_op(ops, unitary=None, renormalize): converts to form B, multiplies every tensor, no JW strings
OpSeq(kind, cons) ==
    CASE kind = "H" -> IF cons = "U1" THEN <<"Sigmaz", "Id", "Sigmaz", "Sp">> ELSE <<"Sigmax", "Sigmaz", "Id", "Sigmay", "Sm">>
      [] kind = "F" -> <<"JW", "Id", "N", "JW">>
      [] kind = "E" -> <<"Id", "JW", "Ntot">>
      [] OTHER -> <<"Id", "Sz">>
\* v = 0: unitary operators only (the unitary ones are in the leading positions)
ProductOpNames(Rr, v) == [i \in 1..NL(Rr) |-> LET sq == OpSeq(Rr.kinds[i], Rr.cons) IN
                            sq[((i * 3 + v * (i + 1) + Seed) % (IF v = 0 THEN (IF Rr.kinds[i] = "T" THEN 1 ELSE 2) ELSE Len(sq))) + 1]]
\* (unitary=None: the implementation ends with canonical_form whatever the operators are; unitary=True: never)
ProductOp(v, uni, rn) ==
    /\ Live /\ "apply_product_op" \in Ops
    /\ LET names == ProductOpNames(R, v)
           canon == (uni = "auto")
           RECURSIVE Ap(_, _)
           Ap(P, i) == IF i = 0 THEN P ELSE Ap(ApplyAt(P, R, i - 1, OpMat(R.kinds[i], names[i])), i - 1)
           P1 == Ap(psi, NL(R))
           R1 == IF R.known /\ ~canon
                 THEN [R EXCEPT !.form = [i \in 1..NL(R) |-> "B"],
                                !.B = [i \in 1..NL(R) |-> OpOnB(GetB(R, i - 1, "B"), OpMat(R.kinds[i], names[i]))]]
                 ELSE Frame(R)
       IN /\ (Inf(R) => (R.known /\ ~canon)) /\ (canon => NL(R) >= 2)
          /\ (~canon => (mode \in {"raw", "loose"} \/ \A i \in 1..NL(R) : IsUnitary(names[i])))
          /\ ~TIsZero(P1) /\ AbsLE(P1, 400)
          /\ R' = R1 /\ psi' = P1 /\ nrm' = nrm
          /\ mode' = IF canon THEN CanonMode(mode, R) ELSE mode
          /\ last' = [op |-> "apply_product_op", names |-> names, unitary |-> uni, renormalize |-> rn]
          /\ Step(IF canon THEN last' @@ [nfac |-> CanonFac(mode, rn, psi, P1), canon |-> TRUE] ELSE last' @@ [canon |-> FALSE])

\* apply_local_term(term, autoJW=True, canonicalize, renormalize): term = <<<<name, site>>, ..>>, the last entry acts
\* first; fermionic operators carry their Jordan-Wigner strings
TermsFor(Rr) ==
    LET n == NL(Rr) IN
    IF \A i \in 1..n : Rr.kinds[i] = "F" THEN
        {<<<<"Cd", i>>, <<"C", j>>>> : i \in 0..(n - 1), j \in 0..(n - 1)} \cup {<<<<"C", i>>, <<"Cd", (i + 1) % n>>>> : i \in 0..(n - 1)}
        \cup {<<<<"N", i>>, <<"Cd", (i + 1) % n>>, <<"C", 0>>>> : i \in 0..(n - 1)}
    ELSE IF \A i \in 1..n : Rr.kinds[i] = "H" THEN
        {<<<<"Sp", i>>, <<"Sm", (i + 1) % n>>>> : i \in 0..(n - 1)} \cup {<<<<"Sp", i>>, <<"Sm", (i + 2) % n>>>> : i \in 0..(n - 1)} \cup {<<<<"Sigmaz", i>>, <<"Sigmaz", (i + 1) % n>>>> : i \in 0..(n - 1)}
    ELSE {}
RECURSIVE ApplyTerm(_, _, _, _)
ApplyTerm(P, kinds, qL, term) ==   \* the last operator of the term acts first
    IF term = <<>> THEN P
    ELSE ApplyTerm(ApplyFerm(P, kinds, qL, term[Len(term)][2], term[Len(term)][1]), kinds, qL, SubSeq(term, 1, Len(term) - 1))
LocalTerm(term, canon, rn) ==
    /\ Live /\ "apply_local_term" \in Ops /\ ~Inf(R) /\ NL(R) >= 2
    /\ term \in TermsFor(R)
    /\ LET P1 == ApplyTerm(psi, R.kinds, QL(R), term)
           allUnitary == \A k \in 1..Len(term) : IsUnitary(term[k][1])
       IN /\ (R.bc = "segment" => R.known)
          /\ (~canon => (mode \in {"raw", "loose"} \/ allUnitary))
          /\ ~TIsZero(P1) /\ AbsLE(P1, 400)
          /\ R' = Frame(R) /\ psi' = P1 /\ nrm' = nrm
          /\ mode' = IF canon THEN CanonMode(mode, R) ELSE mode
          /\ last' = [op |-> "apply_local_term", term |-> term, canonicalize |-> canon, renormalize |-> rn]
          /\ Step(IF canon THEN last' @@ [nfac |-> CanonFac(mode, rn, psi, P1)] ELSE last')

\* swap_sites(i, swap_op='auto'): sites i, i+1 exchanged, sign (-1)^(n_i n_{i+1}) for fermions; through SVD
SwapAxes(P, kinds, k) ==  \* exchange physical axes k, k+1 (1-based sites), with the fermionic sign
    LET sh == [a \in 1..Len(P.shape) |-> IF a = k + 1 THEN P.shape[k + 2] ELSE IF a = k + 2 THEN P.shape[k + 1] ELSE P.shape[a]]
    IN Eager(Mk(sh, LAMBDA idx :
          LET old == [a \in 1..Len(idx) |-> IF a = k + 1 THEN idx[k + 2] ELSE IF a = k + 2 THEN idx[k + 1] ELSE idx[a]]
              sg == NFerm(kinds[k], old[k + 1]) * NFerm(kinds[k + 1], old[k + 2])
          IN IF sg % 2 = 0 THEN At(P, old) ELSE GNeg(At(P, old))))
SwapKinds(kinds, k) == [a \in 1..Len(kinds) |-> IF a = k THEN kinds[k + 1] ELSE IF a = k + 1 THEN kinds[k] ELSE kinds[a]]
Swap(i) ==
    /\ Live /\ "swap_sites" \in Ops /\ ~Inf(R) /\ i >= 0 /\ i + 1 < NL(R)
    /\ R' = FrameK(R, SwapKinds(R.kinds, i + 1)) /\ psi' = SwapAxes(psi, R.kinds, i + 1) /\ nrm' = nrm
    /\ mode' = IF mode = "raw" THEN "loose" ELSE mode
    /\ last' = [op |-> "swap_sites", i |-> i]
    /\ Step(last' @@ [nfac |-> <<1, 1>>])

\* permute_sites(perm): site i moves to position perm[i] (the direction the implementation, its tests and compute_K
\* use; the docstring that promised the inverse is corrected by the fix of C09-permute-sites-inverse);
\* sign = product over inverted pairs of (-1)^(n n').  PermutePsi(P, kinds, q): new site k is old site q[k].
InvPerm(p) == [k \in 1..Len(p) |-> (CHOOSE j \in 1..Len(p) : p[j] = k - 1) - 1]
Perms(n) == CASE n = 2 -> {<<1, 0>>} [] n = 3 -> {<<1, 2, 0>>, <<2, 1, 0>>, <<0, 2, 1>>}
              [] n = 4 -> {<<1, 0, 3, 2>>, <<3, 0, 1, 2>>, <<2, 3, 0, 1>>} [] OTHER -> {}
PermutePsi(P, kinds, perm) ==
    LET n == Len(perm)
        sh == <<P.shape[1]>> \o [k \in 1..n |-> P.shape[perm[k] + 2]] \o <<P.shape[n + 2]>>
    IN Eager(Mk(sh, LAMBDA idx :
          LET old == [a \in 1..(n + 2) |-> IF a = 1 \/ a = n + 2 THEN idx[a]
                                          ELSE idx[(CHOOSE k \in 1..n : perm[k] = a - 2) + 1]]
              inv == Cardinality({pr \in (1..n) \X (1..n) : pr[1] < pr[2] /\ perm[pr[1]] > perm[pr[2]]
                                   /\ NFerm(kinds[perm[pr[1]] + 1], idx[pr[1] + 1]) * NFerm(kinds[perm[pr[2]] + 1], idx[pr[2] + 1]) = 1})
          IN IF inv % 2 = 0 THEN At(P, old) ELSE GNeg(At(P, old))))
Permute(perm) ==
    /\ Live /\ "permute_sites" \in Ops /\ ~Inf(R) /\ perm \in Perms(NL(R))
    /\ R' = FrameK(R, [k \in 1..NL(R) |-> R.kinds[InvPerm(perm)[k] + 1]]) /\ psi' = PermutePsi(psi, R.kinds, InvPerm(perm)) /\ nrm' = nrm
    /\ mode' = IF mode = "raw" THEN "loose" ELSE mode
    /\ last' = [op |-> "permute_sites", perm |-> perm]
    /\ Step(last' @@ [nfac |-> <<1, 1>>])

\* a second state on the same sites for binary operations (add, overlap, MPSEnvironment): same bond dimensions; with
\* conserved charges the same selection rule, but all bond charges shifted by `sh` -- a different, equally valid gauge of
\* the charges (the outer virtual legs differ, the implementation has to re-gauge a COPY of the operand)
OtherRep(Rr, v, sh) ==
    LET n == NL(Rr)
        chis == [b \in 1..(n + 1) |-> Len(Rr.S[b])]
        f == FormPat(3 + 2 * v, n)
    IN IF Rr.cons = "none" THEN MkRepChis(Rr.bc, Rr.kinds, chis, "none", f, v + 2, TRUE)
       ELSE LET Gm == GenB(Rr.kinds, Rr.cons, chis, Rr.qb, v + 2, TRUE)
            IN [Rr EXCEPT !.form = f,
                          !.B = [i \in 1..n |-> ScaleB(Gm[i], Rr.S[i], Rr.S[i + 1], Nu2(f[i])[1], Nu2(f[i])[2])],
                          !.qb = [b \in 1..(n + 1) |-> [k \in 1..Len(Rr.qb[b]) |-> QNorm(Rr.qb[b][k] + sh, Rr.cons)]]]

\* add(other, alpha, beta): alpha |self> + beta |other>, norms included; through canonical_form(renormalize=False);
\* the operands do not change
Coefs == {<<GOne, GOne>>, <<GOne, <<-1, 0>>>>, <<<<2, 0>>, GI>>, <<<<0, -1>>, <<3, 0>>>>}
Add(cf, v, n2) ==
    /\ Live /\ "add" \in Ops /\ R.known /\ mode = "raw" /\ ~Inf(R) /\ NL(R) >= 2 /\ cf \in Coefs
    /\ ZeroQtotal(R)        \* both operands in the same charge sector (no charged operator was applied before)
    /\ LET R2 == OtherRep(R, v, v)
           P2 == Contract(R2)
           P1 == TAdd(TScale(GMul(cf[1], GInt(nrm)), psi), TScale(GMul(cf[2], GInt(n2)), P2))
       IN /\ ~TIsZero(P2) /\ ~TIsZero(P1) /\ AbsLE(P1, 400)
          /\ R' = Frame(R) /\ psi' = P1 /\ nrm' = 1
          /\ mode' = IF R.bc = "finite" THEN "unit" ELSE "unitnn"
          /\ last' = [op |-> "add", alpha |-> cf[1], beta |-> cf[2], v |-> v, n2 |-> n2]
          /\ Step(last' @@ [other |-> R2, onrm |-> n2, nabs |-> <<TNorm2(P1), 1>>])

\* group_sites(n) (terminal here): the same state with n neighbouring sites merged into one (C order of the indices)
GroupShape(sh, n) ==
    LET L0 == Len(sh) - 2
        ng == (L0 + n - 1) \div n
    IN <<sh[1]>> \o [g \in 1..ng |-> IProdSeq(SubSeq(sh, (g - 1) * n + 2, IMin(g * n, L0) + 1))] \o <<sh[L0 + 2]>>
Group(n) ==
    /\ Live /\ "group_sites" \in Ops /\ ~Inf(R) /\ NL(R) >= n /\ mode = "raw"
    /\ R' = Frame(R) /\ psi' = TReshape(psi, GroupShape(psi.shape, n)) /\ nrm' = nrm /\ mode' = mode
    /\ last' = [op |-> "group_sites", n |-> n]
    /\ nops' = nops + 1 /\ phase' = "done" /\ Rec(last')
\* group_sites(n) followed by group_split(): the state does not change
GroupSplit(n) ==
    /\ Live /\ "group_split" \in Ops /\ ~Inf(R) /\ NL(R) >= n
    /\ R' = Frame(R) /\ psi' = psi /\ nrm' = nrm
    /\ mode' = IF mode = "raw" THEN "loose" ELSE mode
    /\ last' = [op |-> "group_split", n |-> n]
    /\ Step(last' @@ [nfac |-> <<1, 1>>])

\* enlarge_chi(extra_legs): zero columns / orthogonal rows are added, the state does not change
EnlargeChi(v) ==
    /\ Live /\ "enlarge_chi" \in Ops /\ R.cons = "none" /\ mode = "raw" /\ ~Inf(R)
    /\ R' = Frame(R) /\ UNCHANGED <<psi, nrm, mode>>
    /\ last' = [op |-> "enlarge_chi", extra |-> [b \in 1..(NL(R) + 1) |-> IF b = 1 \/ b = NL(R) + 1 THEN 0 ELSE 1 + ((b + v) % 2)]]
    \* (terminal: the new bond values are exactly zero, further form conversions would divide by them)
    /\ nops' = nops + 1 /\ phase' = "done" /\ Rec(last')

\* compress_svd(trunc_par) (terminal): relation between the exact dense states and the REPORTED TruncationError:
\* the sweep projects the state, so the fidelity F = |<psi|psi'>|^2 / (<psi|psi><psi'|psi'>) = prod_k (1 - eps_k) over
\* the truncated bonds, the recorded norm is multiplied by sqrt(F), and the reported eps = sum_k eps_k and
\* ov = prod_k (1 - 2 eps_k) obey   1 - F <= eps <= -ln F   and   ov <= F
Compress(chimax) ==
    /\ Live /\ "compress_svd" \in Ops /\ R.bc = "finite" /\ NL(R) >= 2
    /\ R' = Frame(R) /\ UNCHANGED <<psi, nrm>> /\ mode' = "loose"
    /\ last' = [op |-> "compress_svd", chi_max |-> chimax]
    /\ nops' = nops + 1 /\ phase' = "done" /\ Rec(last' @@ [n2 |-> TNorm2(psi)])

\* convert_form(f) inside a history of transformations: every stored tensor is rescaled (copy semantics: tensors
\* that other sites / copies still reference must not change); the state, the norm and the mode do not change
Convert9(f) ==
    /\ Live /\ "convert_form" \in Ops /\ f \in Forms /\ (Inf(R) => R.known)
    /\ (R.known => \E i \in 1..NL(R) : R.form[i] # f)
    /\ R' = IF R.known THEN [R EXCEPT !.form = [i \in 1..NL(R) |-> f], !.B = [i \in 1..NL(R) |-> GetB(R, i - 1, f)]]
             ELSE Frame(R)
    /\ UNCHANGED <<psi, nrm, mode>>
    /\ last' = [op |-> "convert_form", form |-> [i \in 1..NL(R) |-> f]]
    /\ Step(last')

\* canonical_form(renormalize) as an intermediate step
Canon(rn) ==
    /\ Live /\ "canonical_form" \in Ops /\ ~Inf(R) /\ NL(R) >= 2 /\ mode \in {"raw", "loose"}
    /\ R' = Frame(R) /\ UNCHANGED <<psi, nrm>> /\ mode' = CanonMode(mode, R)
    /\ last' = [op |-> "canonical_form9", renormalize |-> rn]
    /\ Step(last' @@ [nfac |-> CanonFac(mode, rn, psi, psi)])

\* spatial_inversion(): site i <-> L-1-i; tensors, form labels (exponents exchanged) and bond values travel together
Reverse(P) == LET r == Len(P.shape) IN Eager(TTranspose(P, [a \in 1..r |-> r + 1 - a]))
RevSeq(s) == [k \in 1..Len(s) |-> s[Len(s) + 1 - k]]
SwapForm(f) == CASE f = "A" -> "B" [] f = "B" -> "A" [] OTHER -> f
FlipB(Bi) == TLCEval([s \in 1..Len(Bi) |-> [b \in 1..Len(Bi[1][1]) |-> [a \in 1..Len(Bi[1]) |-> Bi[s][a][b]]]])
InvRep(Rr) ==
    LET n == NL(Rr) IN
    [Rr EXCEPT !.kinds = RevSeq(Rr.kinds), !.form = [i \in 1..n |-> SwapForm(Rr.form[n + 1 - i])],
               !.B = [i \in 1..n |-> FlipB(Rr.B[n + 1 - i])],
               \* new bond b (left of new site b) is the old bond L - b; for infinite bc bond 0 stays bond 0
               !.S = IF Inf(Rr) THEN [b \in 1..n |-> Rr.S[((n - (b - 1)) % n) + 1]] ELSE RevSeq(Rr.S),
               !.qb = RevSeq(Rr.qb)]
Inversion ==
    /\ Live /\ "spatial_inversion" \in Ops /\ (Inf(R) => R.known)
    /\ R' = IF R.known THEN InvRep(R) ELSE FrameK(R, RevSeq(R.kinds))
    /\ psi' = IF Inf(R) THEN Contract(InvRep(R)) ELSE Reverse(psi)
    /\ UNCHANGED <<nrm, mode>>
    /\ last' = [op |-> "spatial_inversion"]
    /\ Step(last')

\* roll_mps_unit_cell(shift): new site k is old site k - shift; tensors, forms and bond values travel together
RollRep(Rr, sh) ==
    LET n == NL(Rr)
        src(k) == ((k - 1 - sh) % n) + 1
    IN [Rr EXCEPT !.kinds = [k \in 1..n |-> Rr.kinds[src(k)]], !.form = [k \in 1..n |-> Rr.form[src(k)]],
                  !.B = [k \in 1..n |-> Rr.B[src(k)]], !.S = [k \in 1..n |-> Rr.S[src(k)]],
                  !.qb = [k \in 1..(n + 1) |-> Rr.qb[src(((k - 1) % n) + 1)]]]
Roll(sh) ==
    /\ Live /\ "roll_mps_unit_cell" \in Ops /\ Inf(R) /\ R.known /\ sh % NL(R) # 0
    /\ R' = RollRep(R, sh) /\ psi' = Contract(RollRep(R, sh)) /\ UNCHANGED <<nrm, mode>>
    /\ last' = [op |-> "roll_mps_unit_cell", shift |-> sh]
    /\ Step(last')

\* enlarge_mps_unit_cell(factor): the unit cell is repeated
EnlargeRep(Rr, f) ==
    LET n == NL(Rr)
        src(k) == ((k - 1) % n) + 1
    IN [Rr EXCEPT !.kinds = [k \in 1..(f * n) |-> Rr.kinds[src(k)]], !.form = [k \in 1..(f * n) |-> Rr.form[src(k)]],
                  !.B = [k \in 1..(f * n) |-> Rr.B[src(k)]], !.S = [k \in 1..(f * n) |-> Rr.S[src(k)]],
                  !.qb = [k \in 1..(f * n + 1) |-> Rr.qb[src(k)]]]
Enlarge(f) ==
    /\ Live /\ "enlarge_mps_unit_cell" \in Ops /\ Inf(R) /\ R.known /\ f * NL(R) <= 4
    /\ SizeOK(EnlargeRep(R, f))
    /\ R' = EnlargeRep(R, f) /\ psi' = Contract(EnlargeRep(R, f)) /\ UNCHANGED <<nrm, mode>>
    /\ last' = [op |-> "enlarge_mps_unit_cell", factor |-> f]
    /\ Step(last')

\* extract_segment(first, last): a segment MPS (form B) whose state tensor is the window of the old state
SegRep(Rr, first, lst) ==
    LET n == lst - first + 1 IN
    [known |-> TRUE, bc |-> "segment", kinds |-> [k \in 1..n |-> Rr.kinds[SiteIx(Rr, first + k - 1)]], cons |-> Rr.cons,
     form |-> [k \in 1..n |-> "B"],
     S |-> [b \in 1..(n + 1) |-> IF b <= n THEN SLof(Rr, first + b - 1) ELSE SRof(Rr, lst)],
     qb |-> [b \in 1..(n + 1) |-> Rr.qb[IF b <= n THEN SiteIx(Rr, first + b - 1) ELSE SiteIx(Rr, lst) + 1]],
     B |-> [k \in 1..n |-> GetB(Rr, first + k - 1, "B")]]
Extract(first, lst) ==
    /\ Live /\ "extract_segment" \in Ops /\ R.known /\ mode = "raw" /\ first <= lst
    /\ (~Inf(R) => (first >= 0 /\ lst < NL(R))) /\ lst - first + 1 <= 4
    /\ SizeOK(SegRep(R, first, lst))
    /\ R' = SegRep(R, first, lst) /\ psi' = Window(R, first, lst - first + 1) /\ UNCHANGED <<nrm, mode>>
    /\ last' = [op |-> "extract_segment", first |-> first, last |-> lst]
    /\ Step(last')

\* seg = extract_segment(first, last); seg.apply_local_op(i, non-unitary op) (canonical_form: segment_boundaries set);
\* seg.extract_enlarged_segment(psi, psi, first, last, new_first_last = (nf, nl)): the enlarged segment denotes the
\* window nf..nl of the background state with the operator applied on site i (in the outer Schmidt bases of the window)
ExtractEnlarged(first, lst, i, name, nf, nl) ==
    /\ Live /\ "extract_enlarged_segment" \in Ops /\ R.known /\ mode = "raw"
    /\ nf <= first /\ first <= i /\ i <= lst /\ first < lst /\ lst <= nl /\ (nf < first \/ lst < nl) /\ nl - nf + 1 <= 4
    /\ (~Inf(R) => (nf >= 0 /\ nl < NL(R)))
    /\ LET n == nl - nf + 1
           kinds == [k \in 1..n |-> R.kinds[SiteIx(R, nf + k - 1)]]
           kind == kinds[i - nf + 1]
       IN /\ name \in OpNames(kind, R.cons) /\ ~IsUnitary(name) /\ ~NeedsJW(kind, name)
          /\ SizeOK(SegRep(R, nf, nl))
          /\ LET P1 == ApplyOp1(Window(R, nf, n), i - nf + 1, OpMat(kind, name))
             IN /\ ~TIsZero(P1) /\ AbsLE(P1, 400)
                /\ R' = [known |-> FALSE, bc |-> IF R.bc = "finite" /\ nf = 0 /\ nl = NL(R) - 1 THEN "finite" ELSE "segment",
                          kinds |-> kinds, cons |-> R.cons]
                /\ psi' = P1 /\ nrm' = nrm /\ mode' = "unitnn"
                /\ last' = [op |-> "extract_enlarged_segment", first |-> first, last |-> lst, i |-> i, name |-> name, nf |-> nf, nl |-> nl]
                /\ Step(last')

-----------------------------------------------------------------------------
Start9 == phase = "init" /\
    \/ \E bc \in BCs, n \in 1..MaxL, cp \in 1..2, kp \in 1..6, cn \in 0..2, fp \in 1..6, v \in 0..1, cx \in 0..1, nr \in {1, 3} :
            /\ (bc # "infinite" => n >= 2) /\ (nr = 3 => (fp + v) % 3 = 0) /\ (kp = 6 => cn = 0)
            /\ New(bc, n, cp, kp, cn, fp, v, cx, nr)
    \/ \E bc \in BCs, n \in 2..MaxL, kp \in {2}, cn \in {1, 2}, f \in {"B", "A"}, v \in 0..1, how \in {"int", "label"} :
            Product(bc, n, kp, cn, f, v, how)
DoStart == Start9
DoLocalOp == Live /\ \E i \in 0..(MaxL - 1), name \in {"Sigmaz", "Sigmax", "Sigmay", "Sp", "Sm", "C", "Cd", "N", "Sz", "Ntot"},
                uni \in {"true", "auto", "false"}, rn \in BOOLEAN :
                /\ (uni = "false" => (rn /\ name \in {"Sigmaz", "N", "Sz", "Ntot"}))     \* "false" only adds the forced canonical_form
                /\ (rn => (uni = "false" \/ (uni = "auto" /\ ~IsUnitary(name))))   \* renormalize only matters with canonical_form
                /\ (nops >= 1 => ((i + Seed) % 2 = 0 /\ uni # "false" /\ ~rn))        \* later steps: a thinner alphabet
                /\ LocalOp(i, name, uni, rn)
DoLocalOp2 == Live /\ \E i \in 0..(MaxL - 2), n1 \in {"Id", "Sigmaz", "Sigmax", "Sp", "N", "C", "Sz"}, n2 \in {"Sigmaz", "Sigmay", "Sm", "N", "Cd", "Sz"}, rn \in BOOLEAN :
                (nops >= 1 => (i = 0 /\ ~rn)) /\ LocalOp2(i, n1, n2, rn)
DoProductOp == Live /\ \E v \in 0..1, uni \in {"true", "auto"}, rn \in BOOLEAN : (uni = "true" => ~rn) /\ ProductOp(v, uni, rn)
DoLocalTerm == Live /\ \E term \in TermsFor(R), canon \in BOOLEAN, rn \in BOOLEAN : (rn => canon) /\ LocalTerm(term, canon, rn)
DoSwap == Live /\ \E i \in 0..(MaxL - 2) : Swap(i)
DoPermute == Live /\ \E perm \in Perms(NL(R)) : Permute(perm)
DoAdd == Live /\ \E cf \in Coefs, v \in 0..1, n2 \in {1, 2} : (n2 = 2 => v = 1) /\ Add(cf, v, n2)
DoGroup == Live /\ \E n \in 2..3 : Group(n)
DoGroupSplit == Live /\ \E n \in 2..3 : GroupSplit(n)
DoEnlargeChi == Live /\ \E v \in 0..1 : EnlargeChi(v)
DoCompress == Live /\ \E c \in 1..3 : Compress(c)
DoConvert9 == Live /\ \E f \in Forms : Convert9(f)
DoCanon == Live /\ \E rn \in BOOLEAN : Canon(rn)
DoInversion == Live /\ Inversion
DoRoll == Live /\ \E sh \in {-2, -1, 1, 2, 3} : Roll(sh)
DoEnlarge == Live /\ \E f \in 2..3 : Enlarge(f)
DoExtract == Live /\ \E first \in (0 - 2)..3, lst \in (0 - 1)..5 : (nops >= 1 => first \in {0 - 1, 0}) /\ Extract(first, lst)

DoExtractEnlarged == Live /\ nops = 0 /\ \E first \in 0..2, lst \in 1..3, i \in 0..3, name \in {"Sp", "Sm", "N", "Sz"}, nf \in (0 - 1)..2, nl \in 1..4 :
                        ExtractEnlarged(first, lst, i, name, nf, nl)
Next9 == DoExtractEnlarged \/ DoStart \/ DoLocalOp \/ DoLocalOp2 \/ DoProductOp \/ DoLocalTerm \/ DoSwap \/ DoPermute \/ DoAdd \/ DoGroup \/ DoGroupSplit
         \/ DoEnlargeChi \/ DoCompress \/ DoConvert9 \/ DoCanon \/ DoInversion \/ DoRoll \/ DoEnlarge \/ DoExtract
Spec9 == Init /\ [][Next9]_vars

-----------------------------------------------------------------------------
\* Properties (in addition to Divisible, Shape of MPSState)
\* Rep up to the documented caveat of apply_JW_string_left_of_virt_leg: the signs are read off the charges of the
\* bond, which no longer count the fermions once an operator changed the total charge of a tensor -- from the second
\* Jordan-Wigner string of a history on, an overall sign may be lost (TLC finds the counterexample for plain Rep)
Rep9 == (phase # "init" /\ R.known) => (Contract(R) = psi \/ (JWCount >= 2 /\ Contract(R) = TScale(<<-1, 0>>, psi)))
\* spatial inversion is an involution on the representation and on the state
InversionInvolution == (phase # "init" /\ R.known) => InvRep(InvRep(R)) = R
InversionInvolutionPsi == (phase # "init" /\ ~Inf(R)) => Reverse(Reverse(psi)) = psi
\* rolling by shift s relabels every window: Window(R', a, n) = Window(R, a - s, n)
RollRelabels == [][ (last'.op = "roll_mps_unit_cell") =>
                      \A a \in 0..1 : Window(R', a, NL(R)) = Window(R, a - last'.shift, NL(R)) ]_vars
\* enlarging the unit cell changes no window
EnlargeKeeps == [][ (last'.op = "enlarge_mps_unit_cell") => Window(R', 0, NL(R) + 1) = Window(R, 0, NL(R) + 1) ]_vars
\* swapping twice is the identity (fermionic signs square to one)
SwapInvolution == (phase # "init" /\ ~Inf(R) /\ NL(R) >= 2) => SwapAxes(SwapAxes(psi, R.kinds, 1), SwapKinds(R.kinds, 1), 1) = psi
\* the norm is only touched by add
NormKept == [][ (last'.op # "add" /\ last'.op # "new" /\ phase = "live") => nrm' = nrm ]_vars
=============================================================================
