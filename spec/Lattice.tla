------------------------------- MODULE Lattice -------------------------------
(* tenpy.models.lattice: geometry of a lattice, its MPS ordering and the couplings it admits.

   Declarative reading of the documentation of Lattice / SimpleLattice / Chain / Ladder /
   NLegLadder / Square / Triangular / Honeycomb / Kagome / MultiSpeciesLattice /
   IrregularLattice / HelicalLattice (class and method docstrings):

   * a site is a lattice index <<x_1, ..., x_D, u>> (0-based values, u = index in the unit cell);
   * `order` is the sequence of lattice indices along the MPS; MPS index i <-> order[i+1];
   * for bc_MPS # "finite" the MPS repeats along the first direction: the site at x_1 + Ls[1] has
     MPS index i + N;
   * boundary conditions per direction: "open" / "periodic", a shift s_a for a >= 2 means that going
     once around direction a moves the site by -s_a along direction 1:
            (x_1, .., x_a + L_a, ..)  ==  (x_1 - s_a, .., x_a, ..)
   * a coupling (u1, u2, dx) exists for every existing site (x, u1) whose partner (x + dx, u2)
     exists under these identifications; each one exactly once; for an infinite MPS the pair is
     translated by whole MPS unit cells such that 0 <= min(i, j) < N;
   * the strength array of a coupling is indexed by the lower left corner of the box spanned by the
     operators, modulo the coupling shape (L_a - extent for open, L_a for periodic directions);
   * neighbour classes are the k-th smallest non-zero Euclidean distances, computed exactly through
     an integer quadratic form (Gram matrix of a frame in which basis and positions are rational).

   The state machine only serves to enumerate cases (one per TLC state, fanned out level by level so
   that all workers are busy): root -> class -> size -> variant -> bc -> built -> query result.
   Every state is self-contained (the path to it is recorded in `cfg`, so no separate history variable
   is needed): `cfg` is the constructor input, `order`/`full` the expected order, `last` the query with
   the expected answer.  All dumped values are records / sequences / integers / strings / booleans
   (no sets) so that the harness can read them quickly.

   Theorems (INVARIANTs, evaluated on every enumerated case): OrderIsBijection, RoundTrip, HelixFormula,
   StdOrderMeaning, EachPairExactlyOnce (constructive enumeration = brute force over all pairs of sites),
   InfiniteBoundaryPairInOneCell, FlipSymmetry, AnchorsArePlacements, StrengthIndex, CountNeighbors.

   Remarks on the reading of the documentation:
   * 'Fstyle' is Fortran order of *all* directions including u (get_order: priority (dim, ..., 1, 0));
     the table in Lattice.ordering claims priority (dim-1, ..., 0, dim), which differs for Lu > 1.
   * the geometry tables (Geo) are the basis / unit cell positions of the class constructors; the replay
     binds them to the implementation through Lattice.distance / Lattice.position. *)
EXTENDS Integers, Sequences, FiniteSets, TLC

CONSTANTS Classes,      \* top level classes to enumerate
          MaxL,         \* 1D lattices: L in 1..MaxL
          MaxLx, MaxLy, \* 2D lattices
          NLegs,        \* set of leg numbers for NLegLadder
          NLegSpacing,  \* "squeezed" | "unit": geometry of NLegLadder (see Geo)
          MaxN,         \* bound on the number of sites of the (regular) lattice
          MaxShift,     \* bc_shift in -MaxShift..MaxShift
          BcMode,       \* "all": every combination; "periodic": only fully periodic, no shift
          BcMpsSet,     \* subset of {"finite", "infinite", "segment"}
          OrderMode,    \* "all" | "basic"
          PermMults,    \* multipliers for pseudo-random custom permutations
          Queries,      \* subset of {"index", "couplings", "multi", "neighbors", "values"}
          DxCap,        \* |dx_a| <= Min(L_a + DxExtra, DxCap)
          DxExtra,      \* 0 | 1: also displacements / boxes that exceed the lattice by one
          EnlargeSet,   \* factors for enlarge_mps_unit_cell (applied once to built infinite lattices)
          EnlargeVia,   \* subset of {"inplace", "copy", "segment"}: on the lattice itself, on lat.copy(), or through
                        \* lat.extract_segment(enlarge=f) (an enlarged copy with bc_MPS = "segment")
          GroupSet,     \* group sizes for with_grouped_sites
          MultiMod, MultiRes,   \* sampling of the multi-coupling catalogue
          BFMaxN,       \* brute-force theorems evaluated when N <= BFMaxN
          MaxRemove, MaxAdd,    \* IrregularLattice: number of removed / added sites
          IrrMod, IrrRes        \* sampling of the IrregularLattice variants

VARIABLES stage, cfg, order, full, last
vars == <<stage, cfg, order, full, last>>

------------------------------------------------------------------------------
\* generic helpers
Min2(a, b) == IF a <= b THEN a ELSE b
Max2(a, b) == IF a >= b THEN a ELSE b
Abs(a) == IF a < 0 THEN -a ELSE a

RECURSIVE ProdSeq(_)
ProdSeq(s) == IF s = <<>> THEN 1 ELSE Head(s) * ProdSeq(Tail(s))
RECURSIVE SumSeq(_)
SumSeq(s) == IF s = <<>> THEN 0 ELSE Head(s) + SumSeq(Tail(s))
RECURSIVE ConcatAll(_)
ConcatAll(ss) == IF ss = <<>> THEN <<>> ELSE Head(ss) \o ConcatAll(Tail(ss))
RECURSIVE SetToSeq(_)
SetToSeq(S) == IF S = {} THEN <<>> ELSE LET x == CHOOSE x \in S : TRUE IN <<x>> \o SetToSeq(S \ {x})
Range(s) == {s[k] : k \in 1..Len(s)}
Has(s, x) == \E k \in 1..Len(s) : s[k] = x
IndexOf(s, x) == CHOOSE k \in 1..Len(s) : s[k] = x
NoDup(s) == \A a, b \in 1..Len(s) : s[a] = s[b] => a = b
Neg(v) == [a \in 1..Len(v) |-> -v[a]]
Zero(n) == [a \in 1..n |-> 0]
Unit(n, d) == [a \in 1..n |-> IF a = d THEN 1 ELSE 0]

\* lexicographic order on integer sequences of equal length
RECURSIVE LexLess(_, _)
LexLess(a, b) == IF a = <<>> THEN FALSE
                 ELSE IF Head(a) # Head(b) THEN Head(a) < Head(b) ELSE LexLess(Tail(a), Tail(b))

\* C-style (row-major) decoding of a flat index p (0-based) in `shape`
RECURSIVE CDecode(_, _)
CDecode(shape, p) == IF shape = <<>> THEN <<>>
                     ELSE LET B == ProdSeq(Tail(shape)) IN <<p \div B>> \o CDecode(Tail(shape), p % B)
RECURSIVE CFlat(_, _)
CFlat(shape, idx) == IF shape = <<>> THEN 0 ELSE Head(idx) * ProdSeq(Tail(shape)) + CFlat(Tail(shape), Tail(idx))
Box(shape) == [p \in 1..ProdSeq(shape) |-> CDecode(shape, p - 1)]     \* all index tuples, C order

------------------------------------------------------------------------------
\* the lattice classes: dimension, unit cell, geometry
RegularClasses == {"Chain", "Ladder", "NLegLadder", "Square", "Triangular", "Honeycomb", "Kagome", "General", "Cubic"}

Dim(base) == CASE base \in {"Chain", "Ladder", "NLegLadder"} -> 1
               [] base \in {"Square", "Triangular", "Honeycomb", "Kagome", "General"} -> 2
               [] base = "Cubic" -> 3
BaseNu(base, nleg) == CASE base \in {"Chain", "Square", "Triangular", "Cubic"} -> 1
                        [] base \in {"Ladder", "Honeycomb", "General"} -> 2
                        [] base = "Kagome" -> 3
                        [] base = "NLegLadder" -> nleg
\* classes derived from SimpleLattice: order tuples / mps2lat_values only talk about the spatial directions
IsSimple(base) == base \in {"Chain", "Square", "Triangular", "Cubic"}

I2 == << <<1, 0>>, <<0, 1>> >>
I3 == << <<1, 0, 0>>, <<0, 1, 0>>, <<0, 0, 1>> >>
\* Geometry: a frame with integer Gram matrix G (gs * true Gram matrix), basis vectors B[a] and unit
\* cell positions P[u+1] as integer frame coordinates over the common denominator den:
\*      true squared length of the frame vector w/den  =  (w G w) / (gs * den^2)
Geo(base, nleg) ==
    CASE base = "Chain"      -> [G |-> << <<1>> >>, gs |-> 1, den |-> 1, B |-> << <<1>> >>, P |-> << <<0>> >>]
      [] base = "Ladder"     -> [G |-> I2, gs |-> 1, den |-> 1, B |-> << <<1, 0>> >>, P |-> << <<0, 0>>, <<0, 1>> >>]
      \* legs at y = u/(nleg-1) ("squeezed", ladder of total width 1) or at y = u ("unit", rungs as long as the
      \* steps along the legs): the harness selects the variant from unit_cell_positions of the implementation
      [] base = "NLegLadder" -> IF NLegSpacing = "unit"
                                THEN [G |-> I2, gs |-> 1, den |-> 1, B |-> << <<1, 0>> >>, P |-> [u \in 1..nleg |-> <<0, u - 1>>]]
                                ELSE [G |-> I2, gs |-> 1, den |-> nleg - 1, B |-> << <<nleg - 1, 0>> >>,
                                      P |-> [u \in 1..nleg |-> <<0, u - 1>>]]
      [] base = "Square"     -> [G |-> I2, gs |-> 1, den |-> 1, B |-> I2, P |-> << <<0, 0>> >>]
      \* basis (sqrt3/2, 1/2), (0, 1): frame = basis, Gram = [[1, 1/2], [1/2, 1]]
      [] base = "Triangular" -> [G |-> << <<2, 1>>, <<1, 2>> >>, gs |-> 2, den |-> 1, B |-> I2, P |-> << <<0, 0>> >>]
      \* same basis; positions -delta/2, +delta/2 with delta = (b_1 + b_2)/3
      [] base = "Honeycomb"  -> [G |-> << <<2, 1>>, <<1, 2>> >>, gs |-> 2, den |-> 6, B |-> << <<6, 0>>, <<0, 6>> >>,
                                 P |-> << <<-1, -1>>, <<1, 1>> >>]
      \* basis (2, 0), (1, sqrt3); positions 0, b_1/2, b_2/2
      [] base = "Kagome"     -> [G |-> << <<4, 2>>, <<2, 4>> >>, gs |-> 1, den |-> 2, B |-> << <<2, 0>>, <<0, 2>> >>,
                                 P |-> << <<0, 0>>, <<1, 0>>, <<0, 1>> >>]
      \* a general Lattice with a two-site unit cell: basis (2, 0), (1, 3); positions (0, 0), (1, 1)
      [] base = "General"    -> [G |-> I2, gs |-> 1, den |-> 1, B |-> << <<2, 0>>, <<1, 3>> >>, P |-> << <<0, 0>>, <<1, 1>> >>]
      [] base = "Cubic"      -> [G |-> I3, gs |-> 1, den |-> 1, B |-> I3, P |-> << <<0, 0, 0>> >>]

\* names of the predefined pair lists, closest first
PairNames(base) ==
    CASE base \in {"Chain", "Ladder", "Square", "Triangular", "Kagome"} ->
              <<"nearest_neighbors", "next_nearest_neighbors", "next_next_nearest_neighbors">>
      [] base = "Honeycomb" -> <<"nearest_neighbors", "next_nearest_neighbors", "next_next_nearest_neighbors",
                                 "fourth_nearest_neighbors", "fifth_nearest_neighbors">>
      [] base = "NLegLadder" -> <<"nearest_neighbors">>
      [] OTHER -> <<>>

------------------------------------------------------------------------------
\* orderings
\* directions sorted by ascending priority: slowest first ("the direction with the highest priority
\* increases fastest")
DirsByPrio(prio) == [k \in 1..Len(prio) |->
                        CHOOSE d \in 1..Len(prio) : Cardinality({e \in 1..Len(prio) : prio[e] < prio[d]}) = k - 1]
RECURSIVE BlockSize(_, _, _)
BlockSize(shape, dirs, k) == IF k >= Len(dirs) THEN 1 ELSE shape[dirs[k + 1]] * BlockSize(shape, dirs, k + 1)
\* the p-th site (0-based) of the standard order: mixed-radix digits from the slowest direction on;
\* "snake" in a direction: that direction (with everything faster) is traversed back and forth,
\* i.e. backwards whenever the coordinate of the next slower direction is odd
RECURSIVE SiteAt(_, _, _, _, _, _)
SiteAt(shape, snake, dirs, k, p, acc) ==
    IF k > Len(dirs) THEN acc
    ELSE LET B == BlockSize(shape, dirs, k)
             v == p \div B
             r == p % B
             back == k < Len(dirs) /\ snake[dirs[k + 1]] /\ v % 2 = 1
         IN SiteAt(shape, snake, dirs, k + 1, IF back THEN B - 1 - r ELSE r, [acc EXCEPT ![dirs[k]] = v])
StdOrder(shape, snake, prio) ==
    LET dirs == DirsByPrio(prio)
    IN [p \in 1..ProdSeq(shape) |-> SiteAt(shape, snake, dirs, 1, p - 1, Zero(Len(shape)))]

CPrio(n) == [d \in 1..n |-> d - 1]
FPrio(n) == [d \in 1..n |-> n - d]
AllB(n, b) == [d \in 1..n |-> b]

\* get_order_grouped: first within a group, then along the last spatial direction, then the next group,
\* finally C-style along the remaining spatial directions
GroupedOrder(shape, groups) ==
    LET n == Len(shape)
        Lu == shape[n]
        Ly == shape[n - 1]
        outer == SubSeq(shape, 1, n - 2)
        blk == Ly * Lu
        GStart(g) == Ly * SumSeq([h \in 1..(g - 1) |-> Len(groups[h])])
        GroupOf(r) == CHOOSE g \in 1..Len(groups) : GStart(g) <= r /\ r < GStart(g) + Ly * Len(groups[g])
        Inner(r) == LET g == GroupOf(r)
                        q == r - GStart(g)
                    IN <<q \div Len(groups[g]), groups[g][(q % Len(groups[g])) + 1]>>
    IN [p \in 1..ProdSeq(shape) |-> CDecode(outer, (p - 1) \div blk) \o Inner((p - 1) % blk)]

\* 'folded': unit cells 0, L-1, 1, L-2, ..., L \div 2
FoldedOrder(shape) ==
    LET L == shape[1]
        Lu == shape[2]
    IN [p \in 1..(L * Lu) |-> LET c == (p - 1) \div Lu
                              IN <<IF c % 2 = 0 THEN c \div 2 ELSE L - 1 - ((c - 1) \div 2), (p - 1) % Lu>>]

\* an "arbitrary" permutation of the C-style order: sort by (k * mult) mod 211 (211 prime > N)
PermOrder(shape, mult) ==
    LET n == ProdSeq(shape)
        key(k) == (k * mult) % 211
        pos(k) == Cardinality({j \in 1..n : key(j) < key(k)}) + 1
        c == Box(shape)
    IN [p \in 1..n |-> c[CHOOSE k \in 1..n : pos(k) = p]]

NamedOrder(base, shape, name) ==
    LET n == Len(shape) IN
    CASE name = "default" -> IF base = "Honeycomb" THEN StdOrder(shape, AllB(n, FALSE), <<0, 2, 1>>)
                             ELSE StdOrder(shape, AllB(n, FALSE), CPrio(n))
      [] name = "Cstyle" -> StdOrder(shape, AllB(n, FALSE), CPrio(n))
      [] name = "snakeCstyle" -> StdOrder(shape, AllB(n, TRUE), CPrio(n))
      [] name = "snake" -> IF base = "Honeycomb" THEN StdOrder(shape, <<FALSE, FALSE, TRUE>>, <<0, 2, 1>>)
                           ELSE StdOrder(shape, AllB(n, TRUE), CPrio(n))
      [] name = "Fstyle" -> StdOrder(shape, AllB(n, FALSE), FPrio(n))
      [] name = "snakeFstyle" -> StdOrder(shape, AllB(n, TRUE), FPrio(n))
      [] name = "folded" -> FoldedOrder(shape)
      [] name = "rings" -> IF base = "Honeycomb" THEN StdOrder(shape, AllB(n, FALSE), <<0, 2, 1>>)
                           ELSE GroupedOrder(shape, << <<0, 2>>, <<1>> >>)       \* Kagome
      [] name = "snake_rings" -> StdOrder(shape, <<FALSE, FALSE, TRUE>>, <<0, 2, 1>>)

OrderOf(base, shape, ord) ==
    CASE ord.kind = "name" -> NamedOrder(base, shape, ord.name)
      [] ord.kind = "standard" -> StdOrder(shape, ord.snake, ord.prio)
      [] ord.kind = "grouped" -> GroupedOrder(shape, ord.groups)
      [] ord.kind = "perm" -> PermOrder(shape, ord.mult)

NamesFor(base) ==
    {"default", "Cstyle", "snake", "snakeCstyle", "Fstyle", "snakeFstyle"}
        \cup (IF base \in {"Chain", "Ladder", "NLegLadder"} THEN {"folded"} ELSE {})
        \cup (IF base = "Honeycomb" THEN {"rings", "snake_rings"} ELSE {})
        \cup (IF base = "Kagome" THEN {"rings"} ELSE {})

Perms(n) == {f \in [1..n -> 0..(n - 1)] : \A a, b \in 1..n : f[a] = f[b] => a = b}
\* custom ('standard', snake_winding, priority) tuples; for SimpleLattice classes only the spatial
\* directions are free (u is appended with snake = FALSE and the highest priority)
StdDescr(base, n) ==
    IF IsSimple(base)
    THEN {[kind |-> "standard", snake |-> Append(s, FALSE), prio |-> Append(p, n - 1)] :
              s \in [1..(n - 1) -> BOOLEAN], p \in Perms(n - 1)}
    ELSE {[kind |-> "standard", snake |-> s, prio |-> p] : s \in [1..n -> BOOLEAN], p \in Perms(n)}
GroupDescr(base, nu) ==
    IF nu = 2 THEN {[kind |-> "grouped", groups |-> << <<1, 0>> >>], [kind |-> "grouped", groups |-> << <<1>>, <<0>> >>]}
    ELSE IF nu = 3 THEN {[kind |-> "grouped", groups |-> << <<0, 2>>, <<1>> >>], [kind |-> "grouped", groups |-> << <<2, 0, 1>> >>],
                         [kind |-> "grouped", groups |-> << <<1>>, <<2, 0>> >>]}
    ELSE {}

------------------------------------------------------------------------------
\* the case under consideration
Cfg0 == [cls |-> "none", base |-> "none", Ls |-> <<>>, nleg |-> 0, nsp |-> 1, removed |-> <<>>, added |-> <<>>,
         hcells |-> 0, bc |-> <<>>, shift |-> <<>>, bcmps |-> "finite", ord |-> [kind |-> "none"],
         \* derived lattices: `parent` is the case the lattice was derived from by enlarge_mps_unit_cell(enl)
         \* or with_grouped_sites (groups of grp sites, gnu groups); Ls, removed, added, hcells describe the result
         enl |-> 1, via |-> "none", grp |-> 0, gnu |-> 0, parent |-> <<>>]

D == Len(cfg.Ls)
Ls == cfg.Ls
RegNu == BaseNu(cfg.base, cfg.nleg)
\* size of the final unit cell
Nu == CASE cfg.cls = "Grouped" -> cfg.gnu
        [] cfg.cls = "Multi" -> RegNu * cfg.nsp
        [] cfg.cls = "Irregular" -> RegNu + (IF cfg.added = <<>> THEN 0 ELSE 1)
        [] OTHER -> RegNu
N == Len(order)          \* sites in the MPS unit cell
Nfull == Len(full)       \* sites of the underlying regular lattice (differs from N only for "Helical")
Extended == cfg.bcmps # "finite"

ClassBases(c) == CASE c = "Multi" -> {"Chain", "Square", "Honeycomb"}
                   [] c = "Irregular" -> {"Chain", "Ladder", "Square", "Honeycomb"}
                   [] c = "Helical" -> {"Square", "Honeycomb", "Kagome"}
                   [] OTHER -> {c}

SizesFor(base) == CASE Dim(base) = 1 -> {<<l>> : l \in 1..MaxL}
                    [] Dim(base) = 2 -> {<<lx, ly>> : lx \in 1..MaxLx, ly \in 1..MaxLy}
                    [] Dim(base) = 3 -> {<<lx, ly, lz>> : lx \in 1..2, ly \in 1..2, lz \in 1..2}

\* ---- orders of derived lattices
\* MultiSpeciesLattice: every site of the simple lattice is replaced by its species, kept together
MultiOrder(simple, nsp) ==
    [p \in 1..(Len(simple) * nsp) |->
        LET l == simple[((p - 1) \div nsp) + 1]
            n == Len(l)
        IN [l EXCEPT ![n] = @ * nsp + ((p - 1) % nsp)]]

\* IrregularLattice: regular order without the removed sites; an added site is sorted in by its
\* position k + 1/2 (between regular MPS sites k and k+1), or (where = 999, `None`) directly after
\* the last unit-cell site of its cell in the regular order
IrregOrder(reg, removed, added, regnu) ==
    LET KeyReg(r) == <<2 * (r - 1), 0, 0>>
        KeyAdd(m) == LET a == added[m]
                     IN IF a.where = 999
                        THEN <<2 * (IndexOf(reg, [a.lat EXCEPT ![Len(a.lat)] = regnu - 1]) - 1), 1, m>>
                        ELSE <<2 * a.where + 1, 1, m>>
        items == {[key |-> KeyReg(r), lat |-> reg[r]] : r \in {r \in 1..Len(reg) : ~Has(removed, reg[r])}}
                    \cup {[key |-> KeyAdd(m), lat |-> added[m].lat] : m \in 1..Len(added)}
        n == Cardinality(items)
    IN [p \in 1..n |-> (CHOOSE it \in items : Cardinality({o \in items : LexLess(o.key, it.key)}) = p - 1).lat]

------------------------------------------------------------------------------
\* index maps (of the built lattice: `order`, `full`)
Mps2Lat(i) == IF Extended
              THEN LET k == i % Nfull
                       c == i \div Nfull
                   IN [full[k + 1] EXCEPT ![1] = @ + c * Ls[1]]
              ELSE full[i + 1]
WrapX(l) == [l EXCEPT ![1] = @ % Ls[1]]
SiteExists(l) == Has(full, IF Extended THEN WrapX(l) ELSE l)
MpsOf(l) == IF Extended THEN IndexOf(full, WrapX(l)) - 1 + (l[1] \div Ls[1]) * Nfull
            ELSE IndexOf(full, l) - 1
FixU(u) == SelectSeq([k \in 1..N |-> k - 1], LAMBDA i : order[i + 1][D + 1] = u)     \* ascending

Window == IF Extended THEN (-2 * N)..(3 * N - 1) ELSE 0..(N - 1)
WinSeq == IF Extended THEN [k \in 1..(5 * N) |-> k - 1 - 2 * N] ELSE [k \in 1..N |-> k - 1]

------------------------------------------------------------------------------
\* identification of an unreduced cell position y under the boundary conditions
RECURSIVE SumFrom(_, _)
SumFrom(f, a) == IF a > Len(f) THEN 0 ELSE f[a] + SumFrom(f, a + 1)
Reduce(y) ==
    LET nw == [a \in 1..D |-> IF a = 1 THEN 0 ELSE y[a] \div Ls[a]]           \* times around direction a
        okHigh == \A a \in 2..D : cfg.bc[a] = "periodic" \/ nw[a] = 0
        x1 == y[1] - SumFrom([a \in 1..D |-> nw[a] * cfg.shift[a]], 2)
        ok1 == cfg.bc[1] = "periodic" \/ (0 <= x1 /\ x1 < Ls[1])
    IN [ok |-> okHigh /\ ok1,
        z |-> [a \in 1..D |-> IF a = 1 THEN (IF Extended THEN x1 ELSE x1 % Ls[1]) ELSE y[a] % Ls[a]]]

\* a shifted boundary combined with an open first direction: the box picture of the documentation
\* (coupling_shape) does not describe the geometry any more
TwistedOpen == cfg.bc[1] = "open" /\ \E a \in 1..D : cfg.shift[a] # 0

\* translate a tuple of MPS indices by whole unit cells (of n sites) such that 0 <= min < n
RECURSIVE MinSeq(_)
MinSeq(s) == IF Len(s) = 1 THEN s[1] ELSE Min2(Head(s), MinSeq(Tail(s)))
NormTo(ij, n) == LET sh == (MinSeq(ij) \div n) * n IN [k \in 1..Len(ij) |-> ij[k] - sh]
Normalise(ij) == IF Extended THEN NormTo(ij, Nfull) ELSE ij

\* ---- couplings: ops = sequence of <<dx, u>>; operator m acts on the site (x + dx_m, u_m)
MultiMin(ops) == [a \in 1..D |-> MinSeq([m \in 1..Len(ops) |-> ops[m][1][a]])]
MultiMax(ops) == [a \in 1..D |-> -MinSeq([m \in 1..Len(ops) |-> -ops[m][1][a]])]
\* shape of the strength array: how far the box spanned by the operators can be moved
MultiShape(ops) == [a \in 1..D |-> IF cfg.bc[a] = "open" THEN Ls[a] - (MultiMax(ops)[a] - MultiMin(ops)[a]) ELSE Ls[a]]
CouplingShape(dx) == MultiShape(<< <<Zero(D), 0>>, <<dx, 0>> >>)

\* strength index of the box whose lower left corner is the (unreduced) cell position c: the lattice
\* index of that corner under the identifications of the boundary conditions, modulo the shape
CornerIndex(c, shape) ==
    LET nw == [a \in 1..D |-> IF a = 1 \/ cfg.bc[a] = "open" THEN 0 ELSE c[a] \div Ls[a]]
        x1 == c[1] - SumFrom([a \in 1..D |-> nw[a] * cfg.shift[a]], 2)
    IN [a \in 1..D |-> (IF a = 1 THEN x1 ELSE c[a]) % shape[a]]

\* every placement of the operators exactly once, parametrised by the (existing) site of the first
\* operator; rows <<ijkl, lat>> with lat = strength index
PlacementRows(ops) ==
    LET shape == MultiShape(ops)
        mn == MultiMin(ops)
        d1 == ops[1][1]
        src == SelectSeq(full, LAMBDA l : l[D + 1] = ops[1][2])
        RowOf(l) == LET rs == [m \in 1..Len(ops) |-> Reduce([a \in 1..D |-> l[a] + ops[m][1][a] - d1[a]])]
                        ts == [m \in 1..Len(ops) |-> Append(rs[m].z, ops[m][2])]
                    IN IF \A m \in 1..Len(ops) : rs[m].ok /\ SiteExists(ts[m])
                       THEN LET ijkl == Normalise([m \in 1..Len(ops) |-> MpsOf(ts[m])])
                            IN IF MinSeq(ijkl) < N          \* only relevant for "Helical" (N < Nfull)
                               THEN << <<ijkl, CornerIndex([a \in 1..D |-> l[a] - d1[a] + mn[a]], shape)>> >>
                               ELSE <<>>
                       ELSE <<>>
    IN IF \E a \in 1..D : shape[a] <= 0 THEN <<>>
       ELSE ConcatAll([k \in 1..Len(src) |-> RowOf(src[k])])

\* the same, parametrised by the position of the box ("how much the box can be shifted around without
\* hitting a boundary"): one candidate per entry of the strength array
AnchorRows(ops) ==
    LET shape == MultiShape(ops)
        mn == MultiMin(ops)
        RowOf(c) == LET rs == [m \in 1..Len(ops) |-> Reduce([a \in 1..D |-> c[a] + ops[m][1][a] - mn[a]])]
                        ts == [m \in 1..Len(ops) |-> Append(rs[m].z, ops[m][2])]
                    IN IF \A m \in 1..Len(ops) : rs[m].ok /\ SiteExists(ts[m])
                       THEN LET ijkl == Normalise([m \in 1..Len(ops) |-> MpsOf(ts[m])])
                            IN IF MinSeq(ijkl) < N THEN << <<ijkl, c>> >> ELSE <<>>
                       ELSE <<>>
        cs == Box(shape)
    IN IF \E a \in 1..D : shape[a] <= 0 THEN <<>>
       ELSE ConcatAll([k \in 1..Len(cs) |-> RowOf(cs[k])])

\* two-site couplings (u1, u2, dx): rows <<i, j, lat, term>>.  term = the Hamiltonian term that
\* add_coupling(S, u1, 'Sp', u2, 'Sm', dx) creates for this row with the injective strength array
\* S[lat] = 1 + C-style flat index of lat:  <<i', op_i', j', op_j', strength>> with the operator on the
\* smaller MPS index first (strengths of identical terms add up)
CouplingRows(u1, u2, dx) ==
    LET pr == PlacementRows(<< <<Zero(D), u1>>, <<dx, u2>> >>)
        shape == CouplingShape(dx)
    IN [k \in 1..Len(pr) |->
           LET i == pr[k][1][1]
               j == pr[k][1][2]
               st == 1 + CFlat(shape, pr[k][2])
           IN <<i, j, pr[k][2], IF i < j THEN <<i, "Sp", j, "Sm", st>> ELSE <<j, "Sm", i, "Sp", st>> >>]

\* brute force: all pairs of existing sites (i, j) in a window with 0 <= min(i, j) < N whose lattice
\* indices differ by dx up to going around periodic directions
Separated(s, t, dx) ==
    LET d == [a \in 1..D |-> s[a] + dx[a] - t[a]]
        nw == [a \in 1..D |-> IF a = 1 THEN 0 ELSE d[a] \div Ls[a]]
        d1 == d[1] - SumFrom([a \in 1..D |-> nw[a] * cfg.shift[a]], 2)
    IN /\ \A a \in 2..D : d[a] % Ls[a] = 0 /\ (cfg.bc[a] = "periodic" \/ nw[a] = 0)
       /\ IF cfg.bc[1] = "periodic" /\ ~Extended THEN d1 % Ls[1] = 0 ELSE d1 = 0
BigWindow == IF Extended THEN (-4 * Nfull)..(5 * Nfull - 1) ELSE 0..(N - 1)
BrutePairs(u1, u2, dx) ==
    LET ok(i, j) == LET s == Mps2Lat(i)
                        t == Mps2Lat(j)
                    IN s[D + 1] = u1 /\ t[D + 1] = u2 /\ Separated(s, t, dx)
    IN {<<i, j>> \in (0..(N - 1)) \X BigWindow : i <= j /\ ok(i, j)}
           \cup {<<i, j>> \in BigWindow \X (0..(N - 1)) : j < i /\ ok(i, j)}

------------------------------------------------------------------------------
\* Euclidean geometry in integers
GeoC == Geo(cfg.base, cfg.nleg)
RegU(u) == IF cfg.cls = "Multi" THEN u \div cfg.nsp ELSE u
\* scaled squared distance between (x, u1) and (x + dx, u2):  true d^2 = Dist2 / (gs * den^2)
Dist2(u1, u2, dx) ==
    LET g == GeoC
        fd == Len(g.G)
        w == [k \in 1..fd |-> SumSeq([a \in 1..D |-> dx[a] * g.B[a][k]]) + g.P[RegU(u2) + 1][k] - g.P[RegU(u1) + 1][k]]
    IN SumSeq([k \in 1..fd |-> SumSeq([l \in 1..fd |-> w[k] * g.G[k][l] * w[l]])])
NbrBox == IF D = 1 THEN 4 ELSE 2
Triples == {<<u1, u2, dx>> : u1 \in 0..(Nu - 1), u2 \in 0..(Nu - 1), dx \in [1..D -> (-NbrBox)..NbrBox]}
Flip(t) == <<t[2], t[1], Neg(t[3])>>
Key(t) == <<t[1], t[2]>> \o t[3]
Canon(t) == IF LexLess(Key(Flip(t)), Key(t)) THEN Flip(t) ELSE t
RECURSIVE SortedSeq(_)
SortedSeq(S) == IF S = {} THEN <<>> ELSE LET m == CHOOSE x \in S : \A y \in S : x <= y IN <<m>> \o SortedSeq(S \ {m})
\* the distinct non-zero squared distances within the box, ascending
NbrData == [kth |-> SortedSeq({Dist2(t[1], t[2], t[3]) : t \in Triples} \ {0})]
\* undirected pairs at the k-th smallest distance, each once (canonical direction)
NbrClass(nd, k) == {Canon(t) : t \in {t \in Triples : Dist2(t[1], t[2], t[3]) = nd.kth[k]}}
\* number of k-th neighbours of a bulk site of type u
NbrCount(nd, u, k) == Cardinality({t \in Triples : t[1] = u /\ Dist2(t[1], t[2], t[3]) = nd.kth[k]})

------------------------------------------------------------------------------
\* enumeration
Init == /\ stage = "root"
        /\ cfg = Cfg0
        /\ order = <<>>
        /\ full = <<>>
        /\ last = [op |-> "init"]

ChooseClass ==
    /\ stage = "root"
    /\ \E c \in Classes : \E b \in ClassBases(c) :
          cfg' = [cfg EXCEPT !.cls = c, !.base = b]
    /\ stage' = "class"
    /\ last' = [op |-> "class"]
    /\ UNCHANGED <<order, full>>

ChooseSize ==
    /\ stage = "class"
    /\ \E sz \in SizesFor(cfg.base) : \E nl \in (IF cfg.base = "NLegLadder" THEN NLegs ELSE {0}) :
          /\ ProdSeq(sz) * BaseNu(cfg.base, nl) * (IF cfg.cls = "Multi" THEN 2 ELSE 1) <= MaxN
          /\ cfg' = [cfg EXCEPT !.Ls = sz, !.nleg = nl]
    /\ stage' = "size"
    /\ last' = [op |-> "size"]
    /\ UNCHANGED <<order, full>>

RegSites == LET shape == Ls \o <<RegNu>> IN Range(Box(shape))
SmallSubsets(S, m) == {{}} \cup {{a} : a \in S} \cup (IF m >= 2 THEN {{a, b} : a \in S, b \in S} ELSE {})
AddChoices ==
    LET cells == Range(Box(Ls))
        nreg == ProdSeq(Ls) * RegNu
        one == {<<[lat |-> Append(c, RegNu), where |-> w]>> : c \in cells, w \in {999, -1, nreg \div 2, nreg - 1}}
        two == IF MaxAdd >= 2
               THEN {<<[lat |-> Append(cc[1], RegNu), where |-> 999], [lat |-> Append(cc[2], RegNu), where |-> 0]>> :
                        cc \in {cc \in cells \X cells : cc[1] # cc[2]}}
               ELSE {}
    IN {<<>>} \cup (IF MaxAdd >= 1 THEN one ELSE {}) \cup two

VariantHash(rem, add) ==
    LET shape == Ls \o <<RegNu + 1>>
        r == SetToSeq(rem)
    IN SumSeq([k \in 1..Len(r) |-> 7 * (CFlat(shape, r[k]) + 1) * (CFlat(shape, r[k]) + 3)])
         + SumSeq([k \in 1..Len(add) |-> 13 * (CFlat(shape, add[k].lat) + 1) * (CFlat(shape, add[k].lat) + 2)
                                            + 3 * (add[k].where % 5)])
         + 5 * ProdSeq(Ls) + RegNu

ChooseVariant ==
    /\ stage = "size"
    /\ CASE cfg.cls = "Multi" -> cfg' = [cfg EXCEPT !.nsp = 2]
         [] cfg.cls = "Irregular" ->
               \E rem \in SmallSubsets(RegSites, MaxRemove) : \E add \in AddChoices :
                   /\ rem # {} \/ add # <<>>
                   /\ Cardinality(rem) < Cardinality(RegSites)
                   \* a sample of the variants, and always the one with just the first site removed
                   /\ \/ VariantHash(rem, add) % IrrMod = IrrRes
                      \/ (add = <<>> /\ rem = {Zero(D + 1)})
                   /\ cfg' = [cfg EXCEPT !.removed = SetToSeq(rem), !.added = add]
         [] cfg.cls = "Helical" ->
               \E hc \in 1..ProdSeq(Ls) : ProdSeq(Ls) % hc = 0 /\ cfg' = [cfg EXCEPT !.hcells = hc]
         [] OTHER -> cfg' = cfg
    /\ stage' = "variant"
    /\ last' = [op |-> "variant"]
    /\ UNCHANGED <<order, full>>

BcChoices(dim) ==
    IF BcMode = "periodic" THEN {[bc |-> [a \in 1..dim |-> "periodic"], shift |-> Zero(dim)]}
    ELSE {[bc |-> b, shift |-> s] : b \in [1..dim -> {"open", "periodic"}], s \in [1..dim -> (-MaxShift)..MaxShift]}
ValidBc(x) == /\ x.shift[1] = 0
              /\ \A a \in 1..Len(x.bc) : x.shift[a] # 0 => x.bc[a] = "periodic"

ChooseBC ==
    /\ stage = "variant"
    /\ IF cfg.cls = "Helical"
       THEN cfg' = [cfg EXCEPT !.bc = <<"periodic", "periodic">>, !.shift = <<0, -1>>, !.bcmps = "infinite"]
       ELSE \E x \in BcChoices(D) : \E m \in BcMpsSet :
               /\ ValidBc(x)
               /\ m # "finite" => x.bc[1] = "periodic"
               /\ cfg' = [cfg EXCEPT !.bc = x.bc, !.shift = x.shift, !.bcmps = m]
    /\ stage' = "bc"
    /\ last' = [op |-> "bc"]
    /\ UNCHANGED <<order, full>>

OrdersFor ==
    LET n == D + 1
        named == {[kind |-> "name", name |-> nm] : nm \in NamesFor(cfg.base)}
        basic == {[kind |-> "name", name |-> "default"], [kind |-> "name", name |-> "snakeFstyle"]}
        perms == {[kind |-> "perm", mult |-> m] : m \in PermMults}
    IN CASE cfg.cls = "Helical" ->
                {[kind |-> "name", name |-> "Cstyle"]}
                   \cup (IF RegNu = 2 THEN {[kind |-> "grouped", groups |-> << <<1, 0>> >>]} ELSE {})
                   \cup (IF RegNu = 3 THEN {[kind |-> "grouped", groups |-> << <<2, 0, 1>> >>]} ELSE {})
         [] cfg.cls = "Irregular" -> IF OrderMode = "all" THEN named ELSE basic
         [] OTHER -> IF OrderMode = "all"
                     THEN named \cup StdDescr(cfg.base, n) \cup GroupDescr(cfg.base, RegNu) \cup perms
                     ELSE basic \cup perms

Build ==
    /\ stage = "bc"
    /\ \E o \in OrdersFor :
         LET shape == Ls \o <<RegNu>>
             reg == OrderOf(cfg.base, shape, o)
         IN /\ cfg' = [cfg EXCEPT !.ord = o]
            /\ CASE cfg.cls = "Multi" ->
                      LET ord == IF o.kind = "perm" THEN PermOrder(Ls \o <<RegNu * cfg.nsp>>, o.mult)
                                 ELSE MultiOrder(reg, cfg.nsp)
                      IN order' = ord /\ full' = ord
                 [] cfg.cls = "Irregular" ->
                      LET ord == IrregOrder(reg, cfg.removed, cfg.added, RegNu)
                      IN order' = ord /\ full' = ord
                 [] cfg.cls = "Helical" ->
                      /\ order' = SubSeq(reg, 1, cfg.hcells * RegNu)
                      /\ full' = reg
                 [] OTHER -> order' = reg /\ full' = reg
    /\ stage' = "built"
    /\ last' = [op |-> "build"]

\* ---- lattices derived from a built one
\* enlarge_mps_unit_cell(f) (infinite MPS only): "the new number of sites in the MPS unit cell will be increased
\* from N_sites to factor*N_sites ... the lattice shape goes from (Lx, Ly, ..., Lu) to (Lx*factor, Ly, ..., Lu)":
\* the order is repeated f times, shifted by Lx each time.  For the helix the number of cells is multiplied and
\* the underlying regular lattice only grows if the new unit cell does not fit / divide it any more.
\* `reorder` = what ordering(order) of the enlarged lattice means: the named order of the enlarged shape.
\* `porder` = the order of the lattice the new one was derived from: deriving a lattice from a copy must leave
\* the original (and the lattices it is built on) as they were -- in the spec the parent state simply persists.
ReorderOf(c, regLs) ==
    LET regnu == BaseNu(c.base, c.nleg)
        reg == OrderOf(c.base, regLs \o <<regnu>>, c.ord)
    IN CASE c.cls = "Multi" -> MultiOrder(reg, c.nsp)
         [] c.cls = "Irregular" -> IF c.added = <<>> THEN IrregOrder(reg, c.removed, <<>>, regnu) ELSE <<>>
         [] c.cls = "Helical" -> SubSeq(reg, 1, c.hcells * regnu)
         [] OTHER -> reg

EnlargeMPSUnitCell ==
    /\ stage = "built"
    /\ cfg.enl = 1 /\ cfg.cls # "Grouped" /\ cfg.bcmps = "infinite" /\ cfg.ord.kind # "perm"
    /\ \E f \in EnlargeSet, via \in EnlargeVia :
         LET newLs == [Ls EXCEPT ![1] = @ * f]
             mps == IF via = "segment" THEN "segment" ELSE cfg.bcmps
             ShiftC(l, i) == [l EXCEPT ![1] = @ + i * Ls[1]]
             Copies(sq) == ConcatAll([i \in 1..f |-> [k \in 1..Len(sq) |-> ShiftC(sq[k], i - 1)]])
         IN IF cfg.cls = "Helical"
            THEN LET cells == ProdSeq(Ls)
                     hc == cfg.hcells * f
                     grow == hc > cells \/ cells % hc # 0
                     newfull == IF grow THEN Copies(full) ELSE full
                     c == [cfg EXCEPT !.parent = cfg, !.enl = f, !.via = via, !.bcmps = mps, !.hcells = hc,
                                      !.Ls = IF grow THEN newLs ELSE Ls]
                 IN /\ cfg' = c
                    /\ full' = newfull
                    /\ order' = SubSeq(newfull, 1, hc * RegNu)
                    /\ last' = [op |-> "build", reorder |-> ReorderOf(c, c.Ls), porder |-> order]
            ELSE LET c == [cfg EXCEPT !.parent = cfg, !.enl = f, !.via = via, !.bcmps = mps, !.Ls = newLs,
                                      !.removed = Copies(cfg.removed),
                                      !.added = ConcatAll([i \in 1..f |-> [k \in 1..Len(cfg.added) |->
                                                   [lat |-> ShiftC(cfg.added[k].lat, i - 1), where |-> cfg.added[k].where]]])]
                 IN /\ cfg' = c
                    /\ order' = Copies(order)
                    /\ full' = Copies(order)
                    \* "repeat the unit cell": whatever belongs to a site (e.g. its position_disorder) is that of
                    \* the site it is a copy of: dsrc[k] = lattice index in the original of the k-th site
                    /\ last' = [op |-> "build", reorder |-> ReorderOf(c, newLs), porder |-> order,
                                dsrc |-> [k \in 1..(f * Len(order)) |-> order[((k - 1) % Len(order)) + 1]]]
    /\ stage' = "built"

\* with_grouped_sites: "a trivial lattice with the grouped_sites as sites and the same bc_MPS": one unit cell
\* (Ls = <<1>>) holding the groups in MPS order; its lattice indices are <<x_0, group>>, and the next MPS unit
\* cell is x_0 + 1 of *this* lattice (mps_unit_cell_width keeps the width of the original lattice)
GroupSites ==
    /\ stage = "built"
    /\ cfg.cls # "Grouped" /\ cfg.ord.kind # "perm"
    /\ \E n \in GroupSet :
         /\ n <= N
         /\ LET g == (N + n - 1) \div n
                ord == [k \in 1..g |-> <<0, k - 1>>]
            IN /\ cfg' = [cfg EXCEPT !.parent = cfg, !.cls = "Grouped", !.grp = n, !.gnu = g, !.Ls = <<1>>,
                                     !.bc = <<"periodic">>, !.shift = <<0>>, !.removed = <<>>, !.added = <<>>]
               /\ order' = ord
               /\ full' = ord
    /\ stage' = "built"
    /\ last' = [op |-> "build", porder |-> order]

\* ---- queries (one result state each)
Done(l) == /\ stage = "built"
           /\ stage' = "done"
           /\ last' = l
           /\ UNCHANGED <<cfg, order, full>>

QIndex ==
    /\ stage = "built"
    /\ "index" \in Queries
    /\ Done([op |-> "index", lo |-> (IF Extended THEN -2 * N ELSE 0),
             m2l |-> [k \in 1..Len(WinSeq) |-> Mps2Lat(WinSeq[k])],
             fixu |-> [u \in 1..Nu |-> FixU(u - 1)]])

DxSet == {dx \in [1..D -> (-DxCap)..DxCap] : \A a \in 1..D : Abs(dx[a]) <= Ls[a] + DxExtra}

QCouplings ==
    /\ stage = "built"
    /\ "couplings" \in Queries /\ cfg.cls # "Grouped"
    /\ \E u1 \in 0..(Nu - 1), u2 \in 0..(Nu - 1), dx \in DxSet :
         Done([op |-> "couplings", u1 |-> u1, u2 |-> u2, dx |-> dx, shape |-> CouplingShape(dx),
               rows |-> CouplingRows(u1, u2, dx)])

\* catalogue of operator lists <<dx, u>>: triples with displacements in {-1,0,1}^D, plaquettes
OpsHash(ops) == SumSeq([m \in 1..Len(ops) |->
                    (7 * m + 1) * (SumSeq([a \in 1..D |-> (ops[m][1][a] + 2) * (5 * a + 1)]) + 11 * ops[m][2])])
Triple3 == {<< <<d1, v1>>, <<d2, v2>>, <<d3, v3>> >> :
               d1 \in {Zero(D), Unit(D, 1)}, d2 \in [1..D -> -1..1], d3 \in [1..D -> -1..1],
               v1 \in 0..(Nu - 1), v2 \in 0..(Nu - 1), v3 \in 0..(Nu - 1)}
Plaquettes == IF D = 2 THEN {<< <<<<0, 0>>, u>>, <<<<1, 0>>, u>>, <<<<1, 1>>, u>>, <<<<0, 1>>, u>> >> : u \in 0..(Nu - 1)}
                            \cup {<< <<<<1, 2>>, u>>, <<<<2, 1>>, Nu - 1 - u>> >> : u \in 0..(Nu - 1)}
              ELSE IF D = 1 THEN {<< <<<<2>>, u>>, <<<<1>>, Nu - 1 - u>>, <<<<3>>, u>> >> : u \in 0..(Nu - 1)}
              ELSE {}
\* (only boxes that are not larger than the lattice (+ DxExtra): "displacements up to the lattice size")
Fits(ops) == \A a \in 1..D : MultiMax(ops)[a] - MultiMin(ops)[a] <= Ls[a] + DxExtra
OpsCatalogue == {ops \in Triple3 : OpsHash(ops) % MultiMod = MultiRes /\ Fits(ops)
                                    /\ ~(ops[1] = ops[2] /\ ops[2] = ops[3])}
                   \cup {ops \in Plaquettes : Fits(ops)}

QMulti ==
    /\ stage = "built"
    /\ "multi" \in Queries /\ cfg.cls # "Grouped"
    /\ \E ops \in OpsCatalogue :
         Done([op |-> "multi", ops |-> ops, shape |-> MultiShape(ops), mins |-> MultiMin(ops), rows |-> PlacementRows(ops)])

NClasses == Len(PairNames(cfg.base))
QNeighbors ==
    /\ stage = "built"
    /\ "neighbors" \in Queries
    /\ cfg.cls \in RegularClasses \cup {"Multi"}
    /\ NClasses > 0
    /\ cfg.ord = [kind |-> "name", name |-> "default"]
    /\ cfg.bcmps = "finite" /\ \A a \in 1..D : cfg.bc[a] = "open"
    /\ LET nd == NbrData
       IN Done([op |-> "neighbors", names |-> PairNames(cfg.base),
                gs |-> GeoC.gs, den |-> GeoC.den,
                dist2 |-> [k \in 1..NClasses |-> nd.kth[k]],
                classes |-> [k \in 1..NClasses |-> SetToSeq(NbrClass(nd, k))],
                counts |-> [k \in 1..NClasses |-> [u \in 1..Nu |-> NbrCount(nd, u - 1, k)]],
                probe |-> SetToSeq({<<t[1], t[2], t[3], Dist2(t[1], t[2], t[3])>> :
                                       t \in {t \in Triples : \A a \in 1..D : Abs(t[3][a]) <= 1}})])

\* reshaping per-site data A[i] = i to lattice form: the value at lattice index l is the MPS index of l
QValues ==
    /\ stage = "built"
    /\ "values" \in Queries
    /\ LET sel == IF Extended THEN [k \in 1..(3 * N) |-> k - 1 - N] ELSE [k \in 1..N |-> k - 1]
           every2 == SelectSeq(sel, LAMBDA i : i % 2 = 0)
           right == IF Extended THEN [k \in 1..(2 * N - 1) |-> k - 1] ELSE [k \in 1..((N + 1) \div 2) |-> k - 1]
           mono == \A k \in 1..(Len(full) - 1) : full[k][1] <= full[k + 1][1]
       IN Done([op |-> "values",
                all |-> [k \in 1..N |-> <<order[k], k - 1>>],
                inds |-> sel, masked |-> [k \in 1..Len(sel) |-> <<Mps2Lat(sel[k]), sel[k]>>],
                inds2 |-> every2, masked2 |-> [k \in 1..Len(every2) |-> <<Mps2Lat(every2[k]), every2[k]>>],
                inds3 |-> right, masked3 |-> [k \in 1..Len(right) |-> <<Mps2Lat(right[k]), right[k]>>],
                x0mono |-> mono])

Next == ChooseClass \/ ChooseSize \/ ChooseVariant \/ ChooseBC \/ Build \/ EnlargeMPSUnitCell \/ GroupSites
          \/ QIndex \/ QCouplings \/ QMulti \/ QNeighbors \/ QValues
Spec == Init /\ [][Next]_vars

------------------------------------------------------------------------------
\* Theorems (checked by TLC as invariants over all enumerated cases)
Built == stage \in {"built", "done"}

\* the order visits every existing site exactly once, and nothing else
ExistsInCfg(l) ==
    CASE cfg.cls = "Irregular" -> \/ (l[D + 1] < RegNu /\ ~Has(cfg.removed, l))
                                  \/ \E m \in 1..Len(cfg.added) : cfg.added[m].lat = l
      [] cfg.cls = "Helical" -> l[1] * Ls[2] + l[2] < cfg.hcells
      [] OTHER -> TRUE
OrderIsBijection ==
    Built => /\ NoDup(order)
             /\ \A k \in 1..N : /\ Len(order[k]) = D + 1
                                /\ \A a \in 1..D : 0 <= order[k][a] /\ order[k][a] < Ls[a]
                                /\ 0 <= order[k][D + 1] /\ order[k][D + 1] < Nu
                                /\ ExistsInCfg(order[k])
             /\ \A l \in Range(Box(Ls \o <<Nu>>)) : ExistsInCfg(l) => Has(order, l)
             /\ NoDup(full)

\* mps2lat and lat2mps are mutually inverse, also across unit cells of an infinite MPS
RoundTrip ==
    last.op = "index" =>
        /\ \A i \in Window : SiteExists(Mps2Lat(i)) /\ MpsOf(Mps2Lat(i)) = i
        /\ \A l \in Range(Box(Ls \o <<Nu>>)) : \A c \in (IF Extended THEN -2..2 ELSE {0}) :
               LET le == [l EXCEPT ![1] = @ + c * Ls[1]]
               IN SiteExists(le) => Mps2Lat(MpsOf(le)) = le
        \* the documented periodic extension: x_1 + Ls[1]  <->  i + N_sites
        /\ Extended /\ cfg.cls # "Helical" =>
               \A i \in Window : Mps2Lat(i + N) = [Mps2Lat(i) EXCEPT ![1] = @ + Ls[1]]
        \* every site has exactly one type
        /\ \A i \in 0..(N - 1) : Cardinality({u \in 0..(Nu - 1) : Has(FixU(u), i)}) = 1

\* the helix: cell c = x*Ly + y sits at MPS sites c*Lu .. c*Lu + Lu - 1, for all integers c
HelixFormula ==
    (cfg.cls = "Helical" /\ last.op = "index") =>
        \A i \in Window : LET l == Mps2Lat(i) IN l[1] * Ls[2] + l[2] = i \div RegNu

\* meaning of the standard orders: without snake the order is lexicographic in the directions sorted by
\* priority; with snake everywhere consecutive sites are adjacent (differ by one in one direction)
StdOrderMeaning ==
    (Built /\ cfg.cls \in RegularClasses /\ cfg.ord.kind = "standard" /\ cfg.enl = 1) =>
        LET dirs == DirsByPrio(cfg.ord.prio)
            keyOf(l) == [k \in 1..(D + 1) |-> l[dirs[k]]]
        IN /\ (\A d \in 1..(D + 1) : ~cfg.ord.snake[d]) =>
                   \A k \in 1..(N - 1) : LexLess(keyOf(order[k]), keyOf(order[k + 1]))
           /\ (\A d \in 1..(D + 1) : cfg.ord.snake[d]) =>
                   \A k \in 1..(N - 1) : SumSeq([a \in 1..(D + 1) |-> Abs(order[k][a] - order[k + 1][a])]) = 1

RowPairs(rows) == {<<rows[k][1], rows[k][2]>> : k \in 1..Len(rows)}

\* the enumerated couplings are exactly the pairs of existing sites separated by dx, each exactly once
EachPairExactlyOnce ==
    (last.op = "couplings" /\ N <= BFMaxN /\ ~(TwistedOpen /\ \E a \in 1..D : last.shape[a] <= 0)) =>
        /\ NoDup([k \in 1..Len(last.rows) |-> <<last.rows[k][1], last.rows[k][2]>>])
        /\ RowPairs(last.rows) = BrutePairs(last.u1, last.u2, last.dx)

\* a coupling across the boundary of an infinite MPS belongs to exactly one unit cell
InfiniteBoundaryPairInOneCell ==
    /\ last.op = "couplings" =>
          \A k \in 1..Len(last.rows) :
              LET i == last.rows[k][1]
                  j == last.rows[k][2]
              IN /\ 0 <= Min2(i, j) /\ Min2(i, j) < N
                 /\ ~Extended => Max2(i, j) < N
                 \* no other row is a translate of this one
                 /\ \A m \in 1..Len(last.rows) :
                        (m # k /\ (last.rows[m][1] - i) % N = 0) => last.rows[m][2] - j # last.rows[m][1] - i
    /\ last.op = "multi" =>
          \A k \in 1..Len(last.rows) :
              /\ 0 <= MinSeq(last.rows[k][1]) /\ MinSeq(last.rows[k][1]) < N
              /\ ~Extended => \A m \in 1..Len(last.rows[k][1]) : last.rows[k][1][m] < N

\* (u2, u1, -dx) enumerates the same bonds, seen from the other end
FlipSymmetry ==
    (last.op = "couplings" /\ N <= BFMaxN) =>
        LET back == CouplingRows(last.u2, last.u1, Neg(last.dx))
            norm(p) == IF Extended THEN NormTo(p, N) ELSE p
        IN {norm(<<p[2], p[1]>>) : p \in RowPairs(last.rows)} = {norm(p) : p \in RowPairs(back)}

\* enumerating by the site of the first operator or by the position of the box is the same (for a shifted
\* boundary combined with an open first direction the box picture of the documentation breaks down)
AnchorsArePlacements ==
    /\ (last.op = "couplings" /\ N <= BFMaxN /\ ~TwistedOpen) =>
           LET ar == AnchorRows(<< <<Zero(D), last.u1>>, <<last.dx, last.u2>> >>)
           IN /\ {<<ar[k][1][1], ar[k][1][2], ar[k][2]>> : k \in 1..Len(ar)}
                    = {<<last.rows[k][1], last.rows[k][2], last.rows[k][3]>> : k \in 1..Len(last.rows)}
              /\ Len(ar) = Len(last.rows)
    /\ (last.op = "multi" /\ N <= BFMaxN /\ ~TwistedOpen) =>
           LET ar == AnchorRows(last.ops)
           IN Range(ar) = Range(last.rows) /\ Len(ar) = Len(last.rows)

\* strength indices lie within the coupling shape; distinct couplings use distinct entries (except for
\* a shifted boundary combined with an open first direction, where the box can wrap onto itself)
StrengthIndex ==
    last.op = "couplings" =>
        /\ \A k \in 1..Len(last.rows) : \A a \in 1..D :
               0 <= last.rows[k][3][a] /\ last.rows[k][3][a] < last.shape[a]
        /\ ~TwistedOpen => NoDup([k \in 1..Len(last.rows) |-> last.rows[k][3]])

\* counting neighbours through the half lists (each undirected pair once) gives the number of
\* sites at that distance
CountNeighbors ==
    last.op = "neighbors" =>
        LET nd == NbrData
        IN \A k \in 1..NClasses :
              LET cl == NbrClass(nd, k)
              IN \A u \in 0..(Nu - 1) :
                    last.counts[k][u + 1] = Cardinality({t \in cl : t[1] = u}) + Cardinality({t \in cl : t[2] = u})

=============================================================================
