"""C16: Krylov solvers return Ritz data of the operator they are given.

Stages
  MC     Krylov.tla, control-flow machine of LanczosGroundState (cache window, rebuild pass): exhaustive over
         all option values up to MaxN; Krylov.tla, planted spectra: exhaustive over a small catalogue per kind
         of case (certificates A Q = Q D etc. are invariants).
  GEN    the planted cases: state-cover dump of the exhaustive runs + `-simulate` over the large catalogue.
  REPLAY every case is turned into npc operators / vectors and run through LanczosGroundState,
         lanczos_arpack, LanczosEvolution, Arnoldi, ArnoldiEvolution, GMRES, gram_schmidt, the operator wrappers
         (Shift/Orthogonal/Sum/Flat); the relations stated by the spec are evaluated with the spec's exact data.
  TRACE  Lanczos runs on planted cases are recorded under interposition and validated by TLC against
         TraceKrylov.tla (the Krylov dimension m in the trace is the one computed by the planted spec).
"""
import copy
import json
import logging
import math
import random
import shutil
import time
import warnings

import numpy as np

from harness import core, tlc, tlaval
from harness import krylov as hk

TOL = 1.0e-9


# ------------------------------------------------------------------------------------------------
# helpers
# ------------------------------------------------------------------------------------------------
def cls_nc(nc):
    return 'default' if nc is None else str(nc)


class Rep:
    """bookkeeping for one replayed case"""

    def __init__(self, ctx, case, origin, variant):
        self.ctx, self.case, self.origin, self.variant = ctx, case, origin, variant
        self.ok = True

    def fail(self, solver, clause, classes, detail):
        self.ok = False
        sig = dict(kind='replay', spec='Krylov', solver=solver, clause=clause)
        sig.update(classes)
        det = dict(case=tlaval.to_jsonable(self.case), origin=self.origin, variant=self.variant)
        det.update(detail)
        self.ctx.violation(sig, det)

    def count(self, solver, key):
        self.ctx.case(('pl', self.origin, self.variant, solver, key), action='replay.' + solver)


def rel(x):
    return float(np.max(np.abs(x))) if np.size(x) else 0.0


def parallel_defect(psi, g):
    """1 - |<g|psi>| / (|g| |psi|)"""
    ng, npsi = np.linalg.norm(g), np.linalg.norm(psi)
    if ng == 0 or npsi == 0:
        return 1.0
    return abs(1.0 - abs(np.vdot(g, psi)) / (ng * npsi))


# ------------------------------------------------------------------------------------------------
# LanczosGroundState (+ wrappers, lanczos_arpack)
# ------------------------------------------------------------------------------------------------
class ListOp:
    """block-diagonal operator acting on list-valued vectors [x1, x2] (KrylovBased accepts lists of npc Arrays)"""

    def __init__(self, ops):
        self.ops = ops

    def matvec(self, vec):
        return [o.matvec(x) for o, x in zip(self.ops, vec)]


def lanczos_listvec(rep, B, ovs, sigma, Aeff, gvec, tol):
    """the same planted case with the vector given as a list of two arrays (first block | the other blocks)"""
    from tenpy.linalg import krylov_based as kb, sparse
    case = rep.case
    n1 = case['blocks'][0]['n']
    parts = []
    for sl in (slice(0, 1), slice(1, None)):
        blocks = case['blocks'][sl]
        q0 = case['q0'] if any(b['q'] == case['q0'] for b in blocks) else blocks[0]['q']
        parts.append(hk.Built(dict(blocks=blocks, v=case['v'][sl], q0=q0, ds=case.get('ds', 1)), rep.variant))
    cplx = not all(p.real for p in parts) or not B.real

    def lv(x):
        return [parts[0].vec(x[:n1], dtype=np.complex128 if cplx else None), parts[1].vec(x[n1:], dtype=np.complex128 if cplx else None)]

    def flat(lst):
        return np.concatenate([hk.Built.arr(a) for a in lst])
    run = case['runs'][-1]
    for nc in (2, None):
        opts = dict(N_min=2, N_max=max(2, run['Nmax']), cutoff=1.0e-10, P_tol=0.0)
        N_exp = min(opts['N_max'], case['mE'])
        if nc is not None:
            opts['N_cache'] = nc
        if sigma:
            opts['E_shift'] = sigma
        H = ListOp([p.op() for p in parts])
        if ovs:
            H = sparse.OrthogonalNpcLinearOperator(H, [lv(o) for o in ovs])
        psi0 = lv(B.v)
        before = flat(psi0).copy()
        classes = dict(listvec=True, ncache=cls_nc(nc), shift=bool(sigma), northo=len(ovs))
        with warnings.catch_warnings():
            warnings.simplefilter('ignore')
            E, psi, N = kb.LanczosGroundState(H, psi0, dict(opts)).run()
        rep.count('LanczosGroundState', ('listvec', cls_nc(nc)))
        x = flat(psi)
        det = dict(options=opts, E=float(np.real(E)), N=int(N), psi=[[float(c.real), float(c.imag)] for c in x])
        if not np.array_equal(flat(psi0), before):
            rep.fail('LanczosGroundState', 'start-vector-modified', classes, det)
        if int(N) != N_exp:
            rep.fail('LanczosGroundState', 'N', classes, dict(det, expected=N_exp))
            continue
        if abs(np.linalg.norm(x) - 1.0) > TOL or abs(np.vdot(x, Aeff @ x).real - sigma - E) > tol:
            rep.fail('LanczosGroundState', 'rayleigh', classes, det)
        elif N_exp == case['mE'] and (abs(E - case['Eex']) > tol or parallel_defect(x, gvec) > TOL):
            rep.fail('LanczosGroundState', 'E-at-exhaustion', classes, dict(det, expected=case['Eex']))


def replay_lanczos(rep, light=False, traces=None):
    from tenpy.linalg import krylov_based as kb, sparse
    case = rep.case
    B = hk.Built(case, rep.variant)
    npc = B.npc
    A, v, dim = B.A, B.v, B.dim
    sigma = case['sigma']
    ovs = [hk.bv_flat(o) for o in case['ovecs']]
    P = np.eye(dim, dtype=complex)
    for o in ovs:
        P = P - np.outer(o, o.conj()) / np.vdot(o, o).real
    Aeff = P @ (A + sigma * np.eye(dim)) @ P        # the operator the engine iterates with
    gvec = hk.bv_flat(case['gvec'])
    Eex = case['Eex']
    ray = case['raynum'] / case['nv2']
    tol = TOL * B.scale * (1 + abs(sigma))
    wrap = 'plain' if ovs else ('plain', 'sum', 'plain')[rep.variant % 3]

    def make_H():
        if wrap == 'sum':
            dg = np.diag(np.diag(A))
            H = sparse.SumNpcLinearOperator(B.op(A - dg), B.op(dg))
        else:
            H = B.op()
        if ovs:
            H = sparse.OrthogonalNpcLinearOperator(H, [B.vec(o) for o in ovs])
        return H

    ncs = (2, None) if light else (2, 3, None)
    for run in case['runs']:
        ref = None
        for reo in (False, True):
            if light and reo != bool((rep.variant + run['Nmax']) % 2):
                continue
            for nc in ncs:
                if nc is None and run['Nmax'] < 2:
                    continue        # the default N_cache = N_max < 2 is refused by the constructor
                classes = dict(reortho=reo, ncache=cls_nc(nc), exhausted=run['exhausted'], shift=bool(sigma), northo=len(ovs),
                               wrap=wrap, N1=(run['N'] == 1))
                opts = dict(N_min=2, N_max=run['Nmax'], reortho=reo, cutoff=1.0e-10, P_tol=0.0)
                if nc is not None:
                    opts['N_cache'] = nc
                if sigma:
                    opts['E_shift'] = sigma
                psi0 = B.vec()
                before = B.arr(psi0).copy()
                with warnings.catch_warnings():
                    warnings.simplefilter('ignore')
                    eng = kb.LanczosGroundState(make_H(), psi0, dict(opts))
                    E, psi, N = eng.run()
                rep.count('LanczosGroundState', (run['Nmax'], reo, cls_nc(nc)))
                x = B.arr(psi)
                det = dict(options=opts, E=float(np.real(E)), N=int(N), psi=[[float(c.real), float(c.imag)] for c in x])

                def bad(clause, **more):
                    d = dict(det)
                    d.update(more)
                    rep.fail('LanczosGroundState', clause, classes, d)

                if not np.array_equal(B.arr(psi0), before):
                    bad('start-vector-modified')
                if int(N) != run['N']:
                    bad('N', expected=run['N'])
                    continue
                if abs(np.linalg.norm(x) - 1.0) > TOL:
                    bad('norm', got=float(np.linalg.norm(x)))
                    continue
                rq = np.vdot(x, Aeff @ x).real - sigma
                if abs(rq - E) > tol:
                    bad('rayleigh', rq=float(rq))
                if E < Eex - tol:
                    bad('below-lambda-min', bound=Eex)
                if E > ray + tol:
                    bad('above-start-rayleigh', bound=ray)
                if run['N'] == 1 and abs(E - ray) > tol:
                    bad('N1-energy', expected=ray)
                if run['exhausted']:
                    if abs(E - Eex) > tol:
                        bad('E-at-exhaustion', expected=Eex)
                    elif parallel_defect(x, gvec) > TOL:
                        bad('psi-at-exhaustion', defect=parallel_defect(x, gvec))
                    elif rel(Aeff @ x - (E + sigma) * x) > tol:
                        bad('eigen-residual', res=rel(Aeff @ x - (E + sigma) * x))
                if ovs and sigma and nc == 2:
                    # the operator handed to the engine must still be the same operator afterwards
                    with warnings.catch_warnings():
                        warnings.simplefilter('ignore')
                        H2 = make_H()
                        kb.LanczosGroundState(H2, B.vec(), dict(opts)).run()
                        E2, psi2, N2 = kb.LanczosGroundState(H2, B.vec(), dict(opts)).run()
                    rep.count('LanczosGroundState', (run['Nmax'], reo, 'operator-reused'))
                    if abs(E2 - E) > tol or int(N2) != int(N):
                        rep.fail('LanczosGroundState', 'operator-modified', dict(classes, op_reused=True),
                                 dict(det, E_second=float(np.real(E2)), N_second=int(N2)))
                # independence of N_cache / reortho: all runs of this (case, N_max) agree
                if ref is None:
                    ref = (E, x, dict(opts))
                else:
                    ph = np.vdot(ref[1], x)
                    if abs(E - ref[0]) > tol or abs(abs(ph) - 1.0) > 1.0e-7:
                        bad('depends-on-N_cache-or-reortho', other=ref[2], E_other=float(ref[0]), overlap=float(abs(ph)))
    # one recorded run for TLC (plain operator, no projector: the engine's H is wrapped for logging)
    if traces is not None and not ovs:
        run = case['runs'][-1 if rep.variant % 2 else len(case['runs']) // 2]
        grid = [(conv, (2, 3, None)[(rep.variant + conv) % 3], bool(rep.variant % 2)) for conv in (False, True)]
        if 'ladder' in rep.origin and sigma == 0:
            run = case['runs'][-1]
            grid = [(False, nc_, reo_) for nc_ in (2, 3) for reo_ in (False, True)]
        for conv, nc, reo_t in grid:
            if run['Nmax'] < 2:
                nc = 2
            opts = dict(N_min=2 if not conv else 2 + 2 * (rep.variant % 2), N_max=run['Nmax'], reortho=reo_t, cutoff=1.0e-10,
                        P_tol=1.0e-14 if conv else 0.0)
            if nc is not None:
                opts['N_cache'] = nc
            if sigma:
                opts['E_shift'] = sigma

            def mk(W):
                e = kb.LanczosGroundState(make_H(), B.vec(), dict(opts))
                e.H = W(e.H)
                return e
            evs, out = hk.record(mk, (), m=case['mE'])
            traces.append((evs, dict(origin=rep.origin, variant=rep.variant, options=opts, engine='LanczosGroundState')))
    if len(case['blocks']) >= 2 and not (light and rep.variant % 2):
        lanczos_listvec(rep, B, ovs, sigma, Aeff, gvec, tol)
    if ovs or sigma:
        return
    if B.real:
        # integer dtype start vector (the planted vectors are integers)
        run = case['runs'][-1]
        opts = dict(N_min=2, N_max=max(run['Nmax'], 2), cutoff=1.0e-10, P_tol=0.0)
        rep.count('LanczosGroundState', 'int-dtype')
        try:
            with warnings.catch_warnings():
                warnings.simplefilter('ignore')
                E, psi, N = kb.LanczosGroundState(B.op(), B.vec(dtype=np.int64), dict(opts)).run()
            if int(N) != min(max(run['Nmax'], 2), case['mE']) or abs(E - Eex) > tol or parallel_defect(B.arr(psi), gvec) > TOL:
                rep.fail('LanczosGroundState', 'integer-start-vector', dict(exc='none'), dict(options=opts, E=float(E), N=int(N)))
        except (ValueError, TypeError) as e:
            rep.fail('LanczosGroundState', 'integer-start-vector', dict(exc=type(e).__name__), dict(options=opts, exc=repr(e)))
    Av = sum((hk.gi(c['lam']) * hk.bv_flat(c['c']) for c in case['comps']), np.zeros(dim, dtype=complex))
    # ---- laws of the operator wrappers, on exact data: (A + shift) v and (A1 + A2) v are exact in floating point
    shift = 3 - 5 * (rep.variant % 2)
    with warnings.catch_warnings():
        warnings.simplefilter('ignore')
        ys = B.arr(sparse.ShiftNpcLinearOperator(B.op(), shift).matvec(B.vec()))
        dg = np.diag(np.diag(A))
        ym = B.arr(sparse.SumNpcLinearOperator(B.op(A - dg), B.op(dg)).matvec(B.vec()))
    rep.count('ShiftNpcLinearOperator', shift)
    rep.count('SumNpcLinearOperator', 0)
    if not np.array_equal(ys, Av + shift * v):
        rep.fail('ShiftNpcLinearOperator', 'matvec', dict(), dict(shift=shift, got=str(ys), expected=str(Av + shift * v)))
    if not np.array_equal(ym, Av):
        rep.fail('SumNpcLinearOperator', 'matvec', dict(), dict(got=str(ym), expected=str(Av)))
    if len(case['comps']) >= 2:
        # projector onto the complement of a vector that is *not* an eigenvector: P A P v
        o = hk.bv_flat(case['comps'][0]['c']) + 2 * hk.bv_flat(case['comps'][1]['c'])
        Po = np.eye(dim, dtype=complex) - np.outer(o, o.conj()) / np.vdot(o, o).real
        with warnings.catch_warnings():
            warnings.simplefilter('ignore')
            yo = B.arr(sparse.OrthogonalNpcLinearOperator(B.op(), [B.vec(o)]).matvec(B.vec()))
        rep.count('OrthogonalNpcLinearOperator', 0)
        if rel(yo - Po @ A @ Po @ v) > tol * max(1.0, float(np.linalg.norm(v))):
            rep.fail('OrthogonalNpcLinearOperator', 'matvec', dict(), dict(got=str(yo), expected=str(Po @ A @ Po @ v)))
    # ---- to_matrix() of the wrappers and BoostNpcLinearOperator, around an operator that can be contracted to a matrix
    class MatOp:
        def __init__(self, arr):
            self.arr, self.dtype = arr, arr.dtype

        def matvec(self, vec):
            return self.arr.matvec(vec)

        def to_matrix(self):
            return self.arr

    def tm(op):
        return np.asarray(op.to_matrix().to_ndarray(), dtype=complex)
    laws = [('ShiftNpcLinearOperator', lambda: sparse.ShiftNpcLinearOperator(MatOp(B.op()), shift), A + shift * np.eye(dim), 0.0),
            ('SumNpcLinearOperator', lambda: sparse.SumNpcLinearOperator(MatOp(B.op(A - dg)), MatOp(B.op(dg))), A, 0.0)]
    if len(case['comps']) >= 2:
        o = hk.bv_flat(case['comps'][0]['c']) + 2 * hk.bv_flat(case['comps'][1]['c'])      # integer vector, no eigenvector
        Po = np.eye(dim, dtype=complex) - np.outer(o, o.conj()) / np.vdot(o, o).real
        laws.append(('OrthogonalNpcLinearOperator', lambda: sparse.OrthogonalNpcLinearOperator(MatOp(B.op()), [B.vec(o)]),
                     Po @ A @ Po, tol))
        laws.append(('BoostNpcLinearOperator', lambda: sparse.BoostNpcLinearOperator(MatOp(B.op()), [2], [B.vec(o)]),
                     A + 2 * np.outer(o, o.conj()), 0.0))
    for name, mk, expect, tl in laws:
        rep.count(name, 'to_matrix')
        try:
            with warnings.catch_warnings():
                warnings.simplefilter('ignore')
                op = mk()
                got = tm(op)
                ymv = B.arr(op.matvec(B.vec()))
        except (AttributeError, NotImplementedError, ValueError) as e:
            rep.fail(name, 'to_matrix', dict(exc=type(e).__name__), dict(exc=repr(e)))
            continue
        if rel(got - expect) > tl:
            rep.fail(name, 'to_matrix', dict(exc='none'), dict(got=str(got), expected=str(expect)))
        if rel(ymv - expect @ v) > (tl * max(1.0, float(np.linalg.norm(v))) if tl else 0.0):
            rep.fail(name, 'matvec', dict(), dict(got=str(ymv), expected=str(expect @ v)))
    # ---- FlatLinearOperator: exact action on the sector
    psi0 = B.vec()
    for cf in (None, False):
        try:
            flat = sparse.FlatLinearOperator.from_NpcArray(B.op(), charge_sector=psi0.qtotal, compact_flat=cf)
        except ValueError:
            continue
        rep.count('FlatLinearOperator', repr(cf))
        xs = flat.npc_to_flat(psi0)
        ys = flat.matvec(xs)
        back = B.arr(flat.flat_to_npc(np.asarray(ys)))
        if not np.array_equal(back, Av.astype(back.dtype)) or flat.matvec_count != 1:
            rep.fail('FlatLinearOperator', 'matvec',
                     dict(compact=bool(flat.compact_flat), qconj=int(B.leg.qconj), zero_sector=bool(np.all(psi0.qtotal == 0))),
                     dict(got=str(back), expected=str(Av), leg=str(B.leg), charge_sector=str(psi0.qtotal)))
    # ---- lanczos_arpack: only promised to find the ground state of the sector; needs overlap with it
    sector_min = min(case['hdrs'][ix[0] - 1]['D'][ix[1] - 1][0] for ix in case['idx'])
    if Eex == sector_min:
        import scipy.sparse.linalg
        try:
            with warnings.catch_warnings():
                warnings.simplefilter('ignore')
                E, psi = kb.lanczos_arpack(B.op(), B.vec(), {})
        except (scipy.sparse.linalg.ArpackError, scipy.sparse.linalg.ArpackNoConvergence):
            # ARPACK itself declines (e.g. the zero operator: "starting vector is zero"); nothing is promised then
            rep.ctx.notes['arpack_declined'] = rep.ctx.notes.get('arpack_declined', 0) + 1
            return
        rep.count('lanczos_arpack', 0)
        x = B.arr(psi)
        if abs(E - Eex) > tol or abs(np.linalg.norm(x) - 1) > TOL or rel(A @ x - E * x) > 1.0e-7 * B.scale:
            rep.fail('lanczos_arpack', 'ground-state', {}, dict(E=float(E), expected=Eex, res=rel(A @ x - E * x)))


# ------------------------------------------------------------------------------------------------
# LanczosEvolution / ArnoldiEvolution
# ------------------------------------------------------------------------------------------------
GEN_DELTAS = (0.25, -0.5 + 0.75j)


def replay_evo(rep, light=False, traces=None):
    from tenpy.linalg import krylov_based as kb
    case = rep.case
    B = hk.Built(case, rep.variant)
    A, v, dim = B.A, B.v, B.dim
    sigma = case['sigma']
    herm = case['fl'] == 'herm'
    comps = [(hk.gi(c['lam']), hk.bv_flat(c['c'])) for c in case['comps']]
    nv = math.sqrt(case['nv2']) if herm else float(np.linalg.norm(v))
    engines = [('ArnoldiEvolution', kb.ArnoldiEvolution)]
    if herm:
        engines.insert(0, ('LanczosEvolution', kb.LanczosEvolution))
    lam_max = max(abs(l + sigma) for l, _ in comps)
    for ir, run in enumerate(case['runs']):
        if light and ir not in (len(case['runs']) - 1, rep.variant % len(case['runs'])):
            continue        # catalogue cases: the largest N_max and one other
        for name, cls in engines:
            ncs = (None,) if name == 'ArnoldiEvolution' else ((2, None) if not light else ((2, None)[rep.variant % 2],))
            for nc in ncs:
                if nc is None and run['Nmax'] < 2 and name == 'LanczosEvolution':
                    nc = 2
                opts = dict(N_min=2, N_max=run['Nmax'], cutoff=1.0e-10, P_tol=0.0)
                if nc is not None:
                    opts['N_cache'] = nc
                if sigma:
                    opts['E_shift'] = sigma
                reo = False
                if name == 'LanczosEvolution':
                    reo = opts['reortho'] = bool((rep.variant // 2 + run['Nmax']) % 2)
                share = bool((rep.variant + run['Nmax']) % 2)      # one engine for all time steps, or a fresh one for every run
                eng = None
                # (kind, index, delta, normalized by default?)  -- the general exponents and the default come from the spec
                deltas = [('iq', t, 1j * math.pi / 2 * t, True) for t in (1, 2, 3)]
                for j, dd in enumerate(case.get('deltas', [])):
                    val = dd['re'] / 4 if dd['ctype'] == 'float' else complex(dd['re'] / 4, dd['im'] / 4)
                    deltas.append(('gen', j, val, dd['normdefault']))
                if 'deltas' not in case:
                    deltas += [('gen', j, d, d.real == 0) for j, d in enumerate(GEN_DELTAS)]
                if light:
                    deltas = deltas[rep.variant % 3::3]
                for dk, t, delta, normdef in deltas:
                    if not light and dk == 'gen' and not (name == 'LanczosEvolution' and nc == 2) and t != (rep.variant + ir) % 4:
                        continue        # all general exponents for one engine configuration, one of them for the others
                    if name == 'ArnoldiEvolution':
                        normdef = False            # documented: ArnoldiEvolution.run does not normalize by default
                    psi0 = B.vec()
                    scale = B.scale * max(1.0, nv) * math.exp(max(0.0, delta.real) * lam_max)
                    tol = TOL * scale * (1 + abs(delta) * lam_max)
                    x = None
                    for normalize in ((False, True, None) if (dk, t) in (('iq', 1), ('gen', 0)) else
                                      ((False, None) if (dk == 'gen' or light) else (False,))):
                        reused = share and eng is not None             # this engine has already been run
                        classes = dict(engine=name, ncache=cls_nc(nc), exhausted=run['exhausted'], shift=bool(sigma), delta=dk,
                                       herm=herm, reused=reused, reortho=reo, normalize=normalize)
                        with warnings.catch_warnings():
                            warnings.simplefilter('ignore')
                            if eng is None or not share:
                                eng = cls(B.op(), psi0, dict(opts))
                            if normalize is None:
                                res, N = eng.run(delta)             # `normalize` not given: the documented default
                            else:
                                res, N = eng.run(delta, normalize=normalize)
                        rep.count(name, (run['Nmax'], cls_nc(nc), dk, t, normalize))
                        y = B.arr(res)
                        det = dict(options=opts, delta=[delta.real, delta.imag], N=int(N), normalize=normalize,
                                   res=[[float(c.real), float(c.imag)] for c in y])

                        def bad(clause, **more):
                            d = dict(det)
                            d.update(more)
                            rep.fail(name, clause, classes, d)

                        if int(N) != run['N']:
                            bad('N', expected=run['N'])
                            break
                        if normalize is None:
                            classes['delta_type'] = type(delta).__name__
                            classes['delta_re0'] = bool(delta.real == 0)
                            if x is None:
                                continue
                            ref = x / np.linalg.norm(x) if normdef else x
                            if rel(y - ref) > tol + TOL:
                                bad('normalize-default', expected_normalized=bool(normdef), norm=float(np.linalg.norm(y)),
                                    norm_unnormalized=float(np.linalg.norm(x)))
                            continue
                        if normalize:
                            if abs(np.linalg.norm(y) - 1.0) > TOL:
                                bad('normalize-true-norm', got=float(np.linalg.norm(y)))
                            if x is not None and parallel_defect(y, x) > TOL and np.linalg.norm(x) > 1e-6 * scale:
                                bad('normalize-true-direction')
                            continue
                        x = y
                        if herm and delta.real == 0.0 and abs(np.linalg.norm(x) - nv) > TOL * max(1.0, nv):
                            bad('norm-not-preserved', got=float(np.linalg.norm(x)), expected=nv)
                        if run['exhausted']:
                            if dk == 'iq' and case['exact']:
                                exp = hk.bv_flat(case['Uv'][t - 1])           # exact Gaussian integers
                            else:
                                exp = sum((np.exp(delta * (l + sigma)) * c for l, c in comps), np.zeros(dim, dtype=complex))
                            if rel(x - exp) > tol:
                                bad('exp-at-exhaustion', expected=[[float(c.real), float(c.imag)] for c in exp], err=rel(x - exp))
    if traces is not None and herm:
        run = case['runs'][-1]
        nc = (2, 3, None)[rep.variant % 3]
        if run['Nmax'] < 2:
            nc = 2
        opts = dict(N_min=2, N_max=run['Nmax'], reortho=bool(rep.variant % 2), cutoff=1.0e-10, P_tol=0.0)
        if nc is not None:
            opts['N_cache'] = nc

        def mk(W):
            e = kb.LanczosEvolution(B.op(), B.vec(), dict(opts))
            e.H = W(e.H)
            return e
        evs, out = hk.record(mk, (1j * math.pi / 2,), m=case['m'])
        traces.append((evs, dict(origin=rep.origin, variant=rep.variant, options=opts, engine='LanczosEvolution')))


# ------------------------------------------------------------------------------------------------
# Arnoldi
# ------------------------------------------------------------------------------------------------
def which_key(which, z):
    return -abs(z) ** 2 if which == 'LM' else (-z.real if which == 'LR' else z.real)


def replay_arnoldi(rep, light=False):
    from tenpy.linalg import krylov_based as kb
    case = rep.case
    B = hk.Built(case, rep.variant)
    A, dim = B.A, B.dim
    sigma = case['sigma']
    comps = {tuple(c['lam']): hk.bv_flat(c['c']) for c in case['comps']}
    tol = TOL * B.scale * (1 + abs(sigma)) * 10
    for run in case['runs']:
        for which in ('LM', 'LR', 'SR'):
            if light and which != ('LM', 'LR', 'SR')[(rep.variant + run['Nmax']) % 3]:
                continue
            ritz = case['ritz'][which]
            for numev in (1, 2, 3):
                if numev > 1 and numev >= run['Nmax']:
                    continue        # Arnoldi._converged indexes Es beyond N_max for num_ev >= N_max (unspecified use)
                if light and numev != 1 + (rep.variant % 3) and numev != 1:
                    continue
                classes = dict(which=which, numev=numev, exhausted=run['exhausted'], shift=bool(sigma), herm=case['fl'] == 'herm')
                opts = dict(N_min=2, N_max=run['Nmax'], which=which, num_ev=numev, cutoff=1.0e-10, P_tol=0.0)
                if sigma:
                    opts['E_shift'] = sigma
                psi0 = B.vec()
                with warnings.catch_warnings():
                    warnings.simplefilter('ignore')
                    eng = kb.Arnoldi(B.op(), psi0, dict(opts))
                    Es, psis, N = eng.run()
                rep.count('Arnoldi', (run['Nmax'], which, numev))
                if isinstance(Es, np.ndarray) and np.shares_memory(Es, eng.Es):
                    # the returned eigenvalues must not be a window into the engine's work space (a later run overwrites them)
                    rep.fail('Arnoldi', 'returned-view', dict(shift=bool(sigma)), dict(options=opts))
                Es = np.array(Es, dtype=complex)        # a copy: the returned array is a view into the engine's `Es`
                det = dict(options=opts, Es=[[float(e.real), float(e.imag)] for e in Es], N=int(N))
                if numev == 1 and (not light or which == ('LM', 'LR', 'SR')[rep.variant % 3]):
                    # run() takes no argument: calling it again on the same engine has to return the same data
                    rep.count('Arnoldi', (run['Nmax'], which, 'rerun'))
                    try:
                        with warnings.catch_warnings():
                            warnings.simplefilter('ignore')
                            Es2, psis2, N2 = eng.run()
                        # (ties in the `which` key may be resolved differently: compare the keys)
                        k1 = np.array([which_key(which, e + sigma) for e in Es])
                        k2 = np.array([which_key(which, e + sigma) for e in np.asarray(Es2, dtype=complex)])
                        if int(N2) != int(N) or len(k1) != len(k2) or rel(k2 - k1) > tol * (1 + 2 * rel(Es + sigma)):
                            rep.fail('Arnoldi', 'second-run', dict(classes, reused=True),
                                     dict(det, Es_second=[[float(e.real), float(e.imag)] for e in np.asarray(Es2, dtype=complex)],
                                          N_second=int(N2)))
                    except AssertionError as e:
                        rep.fail('Arnoldi', 'second-run', dict(classes, reused=True), dict(det, exc=repr(e)))

                def bad(clause, **more):
                    d = dict(det)
                    d.update(more)
                    rep.fail('Arnoldi', clause, classes, d)

                if int(N) != run['N']:
                    bad('N', expected=run['N'])
                    continue
                nret = min(run['N'], numev)
                if len(psis) != nret:
                    bad('number-of-vectors', got=len(psis), expected=nret)
                    continue
                # only min(N, num_ev) Ritz values exist (C16-arnoldi-padding, fixed: no padding any more)
                if len(Es) != nret:
                    bad('number-of-values', got=len(Es))
                    continue
                allkeys = [which_key(which, e + sigma) for e in Es]
                if len(Es) > nret and any(allkeys[i] > allkeys[i + 1] + tol * (1 + abs(allkeys[i])) for i in range(len(Es) - 1)) \
                        and not any(allkeys[i] > allkeys[i + 1] + tol * (1 + abs(allkeys[i])) for i in range(nret - 1)):
                    # fewer Ritz values than num_ev exist: the array is filled up with values that are no Ritz values
                    rep.fail('Arnoldi', 'order-of-padding', dict(classes, padded=True), dict(det, keys=allkeys, n_ritz=nret))
                keys = [which_key(which, Es[i] + sigma) for i in range(nret)]
                if any(keys[i] > keys[i + 1] + tol * (1 + abs(keys[i])) for i in range(nret - 1)):
                    bad('order', keys=keys)
                for i, p in enumerate(psis):
                    if abs(np.linalg.norm(B.arr(p)) - 1.0) > TOL:
                        bad('norm', index=i)
                if run['exhausted']:
                    for i in range(nret):
                        ktol = tol * (1 + 2 * abs(Es[i] + sigma))
                        if abs(keys[i] - ritz[i]['key']) > ktol:
                            bad('ritz-key', index=i, expected=ritz[i]['key'], got=keys[i])
                            break
                        cand = [r for r in ritz if r['key'] == ritz[i]['key']]
                        near = min(cand, key=lambda r: abs(hk.gi(r['lam']) - Es[i]))
                        if abs(hk.gi(near['lam']) - Es[i]) > tol:
                            bad('ritz-value', index=i, expected=near['lam'])
                            break
                        x = B.arr(psis[i])
                        if parallel_defect(x, comps[tuple(near['lam'])]) > 1.0e-7 or rel(A @ x - Es[i] * x) > 100 * tol:
                            bad('ritz-vector', index=i, defect=parallel_defect(x, comps[tuple(near['lam'])]), res=rel(A @ x - Es[i] * x))
                            break


# ------------------------------------------------------------------------------------------------
# GMRES
# ------------------------------------------------------------------------------------------------
def replay_gmres(rep, light=False):
    from tenpy.linalg import krylov_based as kb
    case = rep.case
    B = hk.Built(case, rep.variant)
    A, dim = B.A, B.dim
    b = hk.bv_flat(case['b'])
    x0 = hk.bv_flat(case['x0'])
    xs = B.v
    mg = case['mg']
    nb = float(np.linalg.norm(b))
    # b = 0: the solution of the (regular) system is x = 0 whatever the initial guess; nothing may become inf / nan
    if not light or rep.variant % 4 == 0:
        opts = dict(N_max=dim + 2, N_min=0, res=1.0e-11)
        with warnings.catch_warnings():
            warnings.simplefilter('ignore')
            x, res, tot_err, tot_it = kb.GMRES(B.op(), B.vec(xs, dtype=np.complex128), B.vec(np.zeros(dim), dtype=np.complex128),
                                              dict(opts)).run()
        rep.count('GMRES', 'b-zero')
        xa = B.arr(x)
        if not (np.all(np.isfinite(xa)) and np.isfinite(res)) or rel(A @ xa) > TOL * B.scale * max(1.0, float(np.linalg.norm(xs))):
            rep.fail('GMRES', 'zero-right-hand-side', dict(herm=case['fl'] == 'herm'),
                     dict(options=opts, reported=str(res), x=[[float(c.real), float(c.imag)] for c in xa]))
    # option values with N_min <= N_max (N_min defaults to 5)
    for nmin, nmax in ((0, mg), (0, mg + 2), (None, max(mg + 2, 6)), (0, mg - 1)):
        if True:
            if light and nmin == 0 and nmax >= mg and nmax != mg + 2 * (rep.variant % 2):
                continue
            if nmax < 1:
                continue
            opts = dict(N_max=nmax, res=1.0e-11)
            exhausted = nmax >= mg
            if not exhausted:
                opts['restart'] = 1          # one cycle that ends before the Krylov space is exhausted: residual > 0
            if nmin is not None:
                opts['N_min'] = nmin
            n_min = 5 if nmin is None else nmin
            # the cycle runs past the exhaustion of the Krylov space (exact breakdown H[k+1,k] = 0) iff it neither may stop
            # there (k = mg - 1 < N_min) nor has to (N_max = mg)
            past = bool(mg - 1 < n_min and mg < nmax)
            classes = dict(x0=case['x0k'], past_exhaustion=past, herm=case['fl'] == 'herm', real=B.real, exhausted=exhausted)
            bv, xv = B.vec(b, dtype=np.complex128), B.vec(x0, dtype=np.complex128)
            with warnings.catch_warnings():
                warnings.simplefilter('ignore')
                try:
                    x, res, tot_err, tot_it = kb.GMRES(B.op(), xv, bv, dict(opts)).run()
                except Exception as e:
                    rep.count('GMRES', (nmax, cls_nc(nmin)))
                    rep.fail('GMRES', 'exception', dict(classes, exc=type(e).__name__), dict(options=opts, exc=repr(e)))
                    continue
            rep.count('GMRES', (nmax, cls_nc(nmin)))
            xa = B.arr(x)
            det = dict(options=opts, reported=complex(res).real if np.isfinite(res) else str(res),
                       x=[[float(c.real), float(c.imag)] for c in xa], total_iters=[int(i) for i in tot_it])
            if not np.all(np.isfinite(xa)):
                rep.fail('GMRES', 'not-finite', classes, det)
                continue
            actual = float(np.linalg.norm(A @ xa - b)) / nb
            if abs(actual - float(np.real(res))) > TOL * max(1.0, actual):
                rep.fail('GMRES', 'reported-residual', classes, dict(det, actual=actual))
            # the Krylov space of r0 has dimension mg <= N_max: the exact solution is reached in the first cycle
            if exhausted and rel(xa - xs) > 1.0e-7 * B.scale * max(1.0, float(np.linalg.norm(xs))):
                rep.fail('GMRES', 'solution', classes, dict(det, expected=[[float(c.real), float(c.imag)] for c in xs], actual=actual))


# ------------------------------------------------------------------------------------------------
# GMRES on ill-conditioned (dyadic, exact) operators: the reported residual is the residual of the returned x
# ------------------------------------------------------------------------------------------------
def exact_rel_residual(case, xa, bflat):
    """|A x - b| / |b| in exact rational arithmetic (A = A_int / (s ds) from the spec, x = the returned floats)"""
    from fractions import Fraction
    tot = Fraction(0)
    o = 0
    for blk in case['blocks']:
        n = blk['n']
        den = blk['s'] * case.get('ds', 1)
        xr = [Fraction(float(z.real)) for z in xa[o:o + n]]
        xi = [Fraction(float(z.imag)) for z in xa[o:o + n]]
        for i in range(n):
            re = -den * Fraction(float(bflat[o + i].real))
            im = -den * Fraction(float(bflat[o + i].imag))
            for j in range(n):
                ar, ai = blk['A'][i][j]
                re += ar * xr[j] - ai * xi[j]
                im += ar * xi[j] + ai * xr[j]
            tot += (re * re + im * im) / (den * den)
        o += n
    return math.sqrt(float(tot)) / float(np.linalg.norm(bflat))


def replay_gmresill(rep, light=False):
    from tenpy.linalg import krylov_based as kb
    case = rep.case
    B = hk.Built(case, rep.variant)
    A, dim = B.A, B.dim
    b = B.v                      # right-hand side with a component on every eigenvector
    xs = hk.bv_flat(case['xs'])  # exact solution (integers up to 2^28)
    mg = case['mg']
    nb = float(np.linalg.norm(b))
    for res in (1.0e-6, 1.0e-8):
        opts = dict(N_max=mg, N_min=0, res=res)
        classes = dict(herm=case['fl'] == 'herm', real=B.real, dim=mg)
        with warnings.catch_warnings():
            warnings.simplefilter('ignore')
            x, rp, tot_err, tot_it = kb.GMRES(B.op(), B.vec(np.zeros(dim), dtype=np.complex128), B.vec(b, dtype=np.complex128),
                                              dict(opts)).run()
        rep.count('GMRES-illcond', res)
        xa = B.arr(x)
        det = dict(options=opts, reported=float(np.real(rp)), total_iters=[int(i) for i in tot_it],
                   x=[[float(c.real), float(c.imag)] for c in xa])
        if not np.all(np.isfinite(xa)):
            rep.fail('GMRES', 'not-finite', dict(classes, illcond=True), det)
            continue
        exact = exact_rel_residual(case, xa, b)
        # rounding error of evaluating A x - b once in floating point (the reported value is such an evaluation)
        nu = float(np.finfo(float).eps * np.linalg.norm(np.abs(A) @ np.abs(xa) + np.abs(b)) / nb)
        converged = float(np.real(tot_err[-1][-1])) < res
        det.update(exact_residual=exact, rounding_unit=nu, last_cycle_converged=converged)
        if abs(float(np.real(rp)) - exact) > 1.0e-3 * exact + 4 * nu + 1.0e-13:
            rep.fail('GMRES', 'reported-residual', dict(classes, illcond=True, converged=converged), det)
        if rel(xa - xs) > 1.0e-6 * float(np.max(np.abs(xs))):
            rep.fail('GMRES', 'solution', dict(classes, illcond=True, converged=converged),
                     dict(det, expected=[[float(c.real), float(c.imag)] for c in xs]))


# ------------------------------------------------------------------------------------------------
# ArnoldiEvolution on defective operators (Jordan blocks)
# ------------------------------------------------------------------------------------------------
def replay_jevo(rep, light=False):
    from tenpy.linalg import krylov_based as kb
    case = rep.case
    B = hk.Built(case, rep.variant)
    A, dim = B.A, B.dim
    sigma = case['sigma']
    jor = [(J['lam'], [hk.bv_flat(w) for w in J['w']]) for J in case['jor']]
    defective = any(len(ws) > 1 for _, ws in jor)
    nv = float(np.linalg.norm(B.v))
    lam_max = max(abs(l + sigma) for l, _ in jor)
    deltas = [('iq', 1, 1j * math.pi / 2), ('gen', 0, GEN_DELTAS[0]), ('gen', 1, GEN_DELTAS[1])]
    for run in case['runs']:
        if light and run['Nmax'] not in (case['runs'][-1]['Nmax'], case['runs'][rep.variant % len(case['runs'])]['Nmax']):
            continue
        opts = dict(N_min=2, N_max=run['Nmax'], cutoff=1.0e-10, P_tol=0.0)
        if sigma:
            opts['E_shift'] = sigma
        for dk, t, delta in (deltas[rep.variant % 3:][:1] if light else deltas):
            classes = dict(engine='ArnoldiEvolution', defective=defective, exhausted=run['exhausted'], shift=bool(sigma), delta=dk)
            rep.count('ArnoldiEvolution', ('jordan', run['Nmax'], dk, t))
            try:
                with warnings.catch_warnings():
                    warnings.simplefilter('ignore')
                    res, N = kb.ArnoldiEvolution(B.op(), B.vec(), dict(opts)).run(delta, normalize=False)
            except np.linalg.LinAlgError as e:
                rep.fail('ArnoldiEvolution', 'exception', classes, dict(options=opts, delta=[delta.real, delta.imag], exc=repr(e)))
                continue
            x = B.arr(res)
            det = dict(options=opts, delta=[delta.real, delta.imag], N=int(N), res=[[float(c.real), float(c.imag)] for c in x])
            if int(N) != run['N']:
                rep.fail('ArnoldiEvolution', 'N', classes, dict(det, expected=run['N']))
                continue
            if run['exhausted']:
                # exp(delta (A + sigma)) v = sum_b e^(delta (lam_b + sigma)) sum_k delta^k / k! (A - lam_b)^k v_b
                exp = np.zeros(dim, dtype=complex)
                for lam, ws in jor:
                    for kk, wv in enumerate(ws):
                        exp += np.exp(delta * (lam + sigma)) * delta ** kk / math.factorial(kk) * wv
                scale = B.scale * max(1.0, nv) * math.exp(max(0.0, delta.real) * lam_max)
                if not np.all(np.isfinite(x)) or rel(x - exp) > TOL * scale * 10:
                    rep.fail('ArnoldiEvolution', 'exp-at-exhaustion', classes,
                             dict(det, expected=[[float(c.real), float(c.imag)] for c in exp], err=rel(x - exp)))


# ------------------------------------------------------------------------------------------------
# gram_schmidt
# ------------------------------------------------------------------------------------------------
def replay_gs(rep, light=False):
    from tenpy.linalg import krylov_based as kb
    case = rep.case
    B = hk.Built(case, rep.variant)
    npc = B.npc
    vecs = [hk.bv_flat(x) for x in case['vecs']]
    cplx = any(np.any(x.imag != 0) for x in vecs) or not B.real
    arrs = [B.vec(x, dtype=np.complex128 if cplx else np.float64) for x in vecs]
    kept = [r - 1 for r in case['kept']]
    for rcond in (1.0e-12,):
        work = [a.copy() for a in arrs]
        out = kb.gram_schmidt(work, rcond=rcond)
        rep.count('gram_schmidt', len(vecs))
        classes = dict(nvec=len(vecs), rank=len(kept))
        det = dict(kept_expected=kept, n_out=len(out))
        if len(out) != len(kept) or any(o is not work[r] for o, r in zip(out, kept)):
            rep.fail('gram_schmidt', 'kept-vectors', classes, det)
            continue
        X = [B.arr(o) for o in out]
        G = np.array([[np.vdot(a, b) for b in X] for a in X]) if X else np.zeros((0, 0))
        if X and rel(G - np.eye(len(X))) > TOL:
            rep.fail('gram_schmidt', 'orthonormal', classes, dict(det, gram=str(G)))
            continue
        for r, x in enumerate(vecs):
            resid = x - sum((np.vdot(o, x) * o for o in X), np.zeros_like(x))
            if rel(resid) > TOL * max(1.0, rel(x)):
                rep.fail('gram_schmidt', 'span', classes, dict(det, vector=r, resid=rel(resid)))
                break


def replay_gsill(rep, light=False):
    """gram_schmidt on nearly parallel vectors: loss of orthogonality <= c eps kappa (modified Gram-Schmidt)"""
    from tenpy.linalg import krylov_based as kb
    case = rep.case
    B = hk.Built(case, rep.variant)
    vecs = [hk.bv_flat(x) for x in case['vecs']]
    k = len(vecs)
    S = case['S']
    # exact Gram matrix from the spec's polynomial (Python integers), then the condition number of the vector set
    G = np.array([[complex(S * S * g['g2'][0] + S * g['g1'][0] + g['g0'][0], S * S * g['g2'][1] + S * g['g1'][1] + g['g0'][1])
                   for g in row] for row in case['gram']])
    ev = np.linalg.eigvalsh(G)
    if ev[0] <= 0:
        raise core.MachineryError('gsill: Gram matrix not positive numerically (%r)' % (ev,))
    kappa = math.sqrt(ev[-1] / ev[0])
    cplx = any(np.any(x.imag != 0) for x in vecs) or not B.real
    for rcond in (1.0e-12, None):
        work = [B.vec(x, dtype=np.complex128 if cplx else np.float64) for x in vecs]
        out = kb.gram_schmidt(work, rcond=rcond) if rcond is not None else kb.gram_schmidt(work)
        rep.count('gram_schmidt', ('illcond', k, rcond))
        classes = dict(nvec=k, illcond=True)
        if len(out) != k:
            rep.fail('gram_schmidt', 'kept-vectors', classes, dict(n_out=len(out), expected=k, kappa=kappa))
            continue
        X = [B.arr(o) for o in out]
        Q = np.array([[np.vdot(a, b) for b in X] for a in X])
        loss = rel(Q - np.eye(k))
        bound = 100 * k * np.finfo(float).eps * kappa
        if loss > bound:
            rep.fail('gram_schmidt', 'orthonormal', classes, dict(loss=loss, bound=bound, kappa=kappa, gram=str(Q)))
        for r, x in enumerate(vecs):
            resid = x - sum((np.vdot(o, x) * o for o in X), np.zeros_like(x))
            if rel(resid) > bound * max(1.0, rel(x)):
                rep.fail('gram_schmidt', 'span', classes, dict(vector=r, resid=rel(resid), bound=bound * rel(x)))
                break


REPLAY = dict(lanczos=replay_lanczos, evo=replay_evo, arnoldi=replay_arnoldi, gmres=replay_gmres, gs=replay_gs,
              gmresill=replay_gmresill, jevo=replay_jevo, gsill=replay_gsill)


def replay_case(ctx, case, origin, variant, light, traces):
    rep = Rep(ctx, case, origin, variant)
    fn = REPLAY[case['kind']]
    try:
        if case['kind'] in ('lanczos', 'evo'):
            fn(rep, light=light, traces=traces)
        else:
            fn(rep, light=light)
    except core.MachineryError:
        raise
    except Exception as e:
        # raised inside tenpy (the harness code around it only handles spec data that TLC certified)
        import traceback
        tb = traceback.extract_tb(e.__traceback__)
        inside = [f for f in tb if '/tenpy/' in f.filename]
        if not inside:
            raise
        rep.count(case['kind'], 'exception')
        rep.fail(case['kind'], 'exception', dict(exc=type(e).__name__, where=inside[-1].name),
                 dict(exc=repr(e), traceback=traceback.format_exc()))
    return rep.ok


# ------------------------------------------------------------------------------------------------
# stages
# ------------------------------------------------------------------------------------------------
KINDS = ('lanczos', 'evo', 'arnoldi', 'gmres', 'gs')        # kinds of the random catalogue
ALL_KINDS = KINDS + ('gmresill', 'jevo', 'gsill')


def run_control_flow(tier):
    maxn = 5 if tier == 'quick' else 8
    res, _, d = tlc.mc('Krylov', hk.cf_cfg(maxn), workers=2, max_heap='2g')
    shutil.rmtree(d, ignore_errors=True)
    return maxn, res


def account_control_flow(ctx, maxn, res):
    ctx.add_mc('Krylov.control-flow(MaxN=%d)' % maxn, res)
    if res.violated:
        ctx.violation(dict(kind='mc', spec='Krylov', part='control-flow', invariant=res.violated[0]),
                      dict(trace=tlaval.to_jsonable(res.error_trace)))
    missing = [a for a, (d_, t) in res.coverage.items() if t == 0 and a[0] in 'BQRD']
    if missing:
        raise core.MachineryError('control-flow actions never taken in MC: %s' % missing)


# all eigenvalues distinct and reachable: Krylov dimensions 3..8 guaranteed (every branch of the cache machine is recorded)
LADDER = ('ladder', dict(Kinds={'lanczos', 'evo', 'gsill'}, Flavours={'herm'}, Charges={0}, Sizes={3, 4}, MaxBlocks=2, MaxDim=8,
                         Perms={'cyc'}, UnitKinds={'gau'}, AVals='<-AValsOne', DMode='ladder', Sigmas='<-SigmasPM'))


# ill-conditioned, still exact: eigenvalues 2^0 .. 2^-26 (cond = 6.7e7), Hadamard-type eigenvectors, up to 8 x 8
ILL = ('ill', dict(Kinds={'gmresill'}, Flavours={'herm'}, Charges={0}, Sizes={4}, MaxBlocks=2, MaxDim=8, Perms={'cyc'},
                   UnitKinds={'one', 'gau'}, AVals='<-AValsOne', DMode='dyadic'))


# defective operators: direct sums of Jordan blocks S (lam + N) S^-1
JORDAN = ('jordan', dict(Kinds={'jevo'}, Flavours={'jor'}, Charges={0}, Sizes={2, 3}, MaxBlocks=2, MaxDim=4, Perms={'id'},
                         UnitKinds={'gau'}, AVals='<-AValsBin', DVals='<-DValsTwo'))


def mc_cfgs(tier):
    """small catalogues, exhaustive"""
    if tier == 'quick':
        return [('herm', dict(Kinds={'lanczos', 'evo', 'arnoldi', 'gmres'}, Flavours={'herm'}, Charges={0, 1}, Sizes={1, 2},
                              MaxBlocks=2, MaxDim=2, Sigmas='<-SigmasPM')),       # E_shift absent, > 0, < 0
                ('gen', dict(Kinds={'evo', 'arnoldi', 'gmres', 'gs'}, Flavours={'gen'}, Charges={0}, Sizes={1, 2},
                             MaxBlocks=1, MaxDim=2, MaxGsRows=2)),
                LADDER, ILL, JORDAN]
    return [('herm', dict(Kinds={'lanczos', 'evo', 'arnoldi', 'gmres'}, Flavours={'herm'}, Charges={0, 1}, Sizes={1, 2},
                          MaxBlocks=2, MaxDim=2, Perms={'id', 'cyc'}, UnitKinds={'gau', 'alt'}, Sigmas='<-SigmasPM')),
            ('gen', dict(Kinds={'evo', 'arnoldi', 'gmres', 'gs'}, Flavours={'gen'}, Charges={0, 1}, Sizes={1, 2},
                         MaxBlocks=2, MaxDim=2, MaxGsRows=2)),
            ('herm3', dict(Kinds={'lanczos', 'evo'}, Flavours={'herm'}, Charges={0}, Sizes={3}, MaxBlocks=1, MaxDim=3,
                           Perms={'cyc'}, UnitKinds={'gau'}, AVals='<-AValsSmall')),
            LADDER, ILL, JORDAN]


SIM_BIG = dict(Sizes={1, 2, 3, 4}, Charges={0, 1, 2}, MaxBlocks=4, MaxDim=12, DVals='<-DValsBig', GVals='<-GValsBig',
               AVals='<-AValsBig', Flavours={'herm', 'gen'}, Perms={'id', 'rev', 'cyc'}, UnitKinds={'one', 'alt', 'gau'},
               Sigmas='<-SigmasBig', GsVals='<-GsValsBig', MaxGsRows=4)


def sim_cfgs(tier):
    """(name, constants, traces per worker): large catalogue, random behaviours"""
    q = tier == 'quick'
    out = []
    # one sector, big blocks: large Krylov dimensions (the rebuild pass of Lanczos needs N > N_cache + 1)
    out.append(('wide', dict(SIM_BIG, Kinds={'lanczos', 'evo'}, Flavours={'herm'}, Charges={0}, Sizes={3, 4}, MaxBlocks=3),
                60 if q else 600))
    out.append(('mixed', dict(SIM_BIG, Kinds=set(KINDS)), 100 if q else 1500))
    if not q:
        out.append(('dim60', dict(SIM_BIG, Kinds=set(KINDS), MaxBlocks=15, MaxDim=60), 100))
    return out


def _job_mc(name, kw, keep, seed):
    """exhaustive run; returns (result, number of finished cases, [(index, case)] of the cases kept for the replay).
    Only the kept states are parsed (the dump mostly consists of intermediate builder states; parsing is the slow part)."""
    res, dump, d = tlc.mc('Krylov', hk.pl_cfg(**kw), dump=True, workers=2, max_heap='2g')
    with open(dump) as f:
        txt = f.read()
    shutil.rmtree(d, ignore_errors=True)
    hdr = list(tlaval._STATE_HDR.finditer(txt))
    rng = random.Random('%s-%d' % (name, seed))
    n, cases = 0, []
    for j, m in enumerate(hdr):
        chunk = txt[m.end():hdr[j + 1].start() if j + 1 < len(hdr) else len(txt)]
        if 'stage |-> "case"' not in chunk:
            continue
        n += 1
        if rng.random() < keep:
            cases.append((n, tlaval.parse_state(chunk.strip())['pl']))
    return res, n, cases


def _job_sim(name, kw, num, seed):
    res, traces, d = tlc.simulate('Krylov', hk.pl_cfg(**kw), num=num, depth=100, seed=seed, workers=2, max_heap='2g')
    shutil.rmtree(d, ignore_errors=True)
    cases = []
    for i, tr in enumerate(traces):
        st = tr[-1][1]['pl']
        if st.get('stage') == 'case':
            cases.append((i, st))
    return res, cases


def gen_cases(ctx, with_cf=True):
    """MC of the control-flow machine, MC + simulate of the planted part (the TLC runs are independent and run
    concurrently); returns list of (origin, case)"""
    from concurrent.futures import ThreadPoolExecutor
    jobs = []
    with ThreadPoolExecutor(max_workers=8) as ex:
        if with_cf:
            jobs.append(('cf', None, ex.submit(run_control_flow, ctx.tier)))
        for name, kw in mc_cfgs(ctx.tier):
            # quick: a seeded third of the exhaustive catalogues (the small deterministic ones completely); thorough: all
            keep = 1.0 if (ctx.tier != 'quick' or name in ('ladder', 'ill')) else 0.32
            jobs.append(('mc', name, ex.submit(_job_mc, name, kw, keep, ctx.seed)))
        for j, (name, kw, num) in enumerate(sim_cfgs(ctx.tier)):
            jobs.append(('sim', name, ex.submit(_job_sim, name, kw, num, ctx.seed * 101 + j + 1)))
        results = [(typ, name, f.result()) for typ, name, f in jobs]
    cases = []
    nmc = nsim = 0
    for typ, name, out in results:
        if typ == 'cf':
            account_control_flow(ctx, *out)
            continue
        if typ == 'mc':
            res, ntot, cs = out
        else:
            res, cs = out
        if typ == 'mc':
            ctx.add_mc('Krylov.planted.%s' % name, res)
        if res.violated:
            ctx.violation(dict(kind='mc', spec='Krylov', part='planted-' + typ, cfg=name, invariant=res.violated[0]),
                          dict(trace=tlaval.to_jsonable(res.error_trace)))
        if typ == 'mc':
            if not cs:
                raise core.MachineryError('no case generated by MC config %s' % name)
            for n, c in cs:
                cases.append(('mc-%s-%d' % (name, n), c))
            nmc += ntot
        else:
            for i, c in cs:
                cases.append(('sim-%s-%d' % (name, i), c))
            nsim += len(cs)
    ctx.notes['cases_from_mc'] = nmc
    ctx.notes['cases_from_simulate'] = nsim
    return cases


def validate(ctx, traces):
    """TLC validates the recorded Lanczos runs; returns number accepted"""
    if not traces:
        raise core.MachineryError('no Lanczos trace recorded')
    batch = [(i + 1, evs) for i, (evs, meta) in enumerate(traces)]
    res, acc, rej = hk.validate_traces(batch, maxn=8)
    ctx.add_mc('TraceKrylov', res)
    ctx.notes['trace_events'] = sum(len(e) for e, _ in traces)
    if res.violated:
        ctx.violation(dict(kind='trace', spec='TraceKrylov', clause='invariant', invariant=res.violated[0]),
                      dict(trace=tlaval.to_jsonable(res.error_trace)))
    for tid, evs in batch:
        meta = traces[tid - 1][1]
        ctx.case(('trace', meta['origin'], meta['variant'], json.dumps(meta['options'], sort_keys=True), meta['engine']),
                 action='trace.' + meta['engine'])
        if tid in acc:
            ctx.trace_ok(1)
        else:
            l, pcv = rej.get(tid, (0, '?'))
            o = meta['options']
            ctx.violation(dict(kind='trace', spec='TraceKrylov', clause='rejected', engine=meta['engine'], pc=pcv,
                               reortho=bool(o.get('reortho')), ncache=cls_nc(o.get('N_cache'))),
                          dict(meta=meta, rejected_at_event=l, spec_pc=pcv, events=evs))
    return acc


def canary(ctx, cases, traces, accepted):
    """the binding rejects corrupted expectations / traces (run every time; cheap)"""
    # (a) a corrupted trace must be rejected, the original accepted
    good = [t for i, t in enumerate(traces) if (i + 1) in accepted and any(e['op'] == 'Iadd' and e['c'] >= 1 for e in t[0])]
    if not good:
        ctx.notes['canary'] = 'skipped: no accepted trace with a result term (violations reported above)'
        return
    evs = copy.deepcopy(max(good, key=lambda t: len(t[0]))[0])
    bad = copy.deepcopy(evs)
    for e in bad:
        if e['op'] == 'Iadd' and e['c'] >= 1:
            e['c'] -= 1
            break
    else:
        raise core.MachineryError('canary: no result term in the longest trace')
    res, acc, rej = hk.validate_traces([(1, evs), (2, bad)])
    if acc != {1} or 2 not in rej:
        raise core.MachineryError('canary: corrupted trace not rejected (accepted=%s rejected=%s)' % (acc, rej))
    # (b) a corrupted expected value must be reported by the replay
    class Quiet(core.Ctx):
        def violation(self, signature, detail):
            self.violations.append(signature)
            return True
    for origin, case in cases:
        if case['kind'] == 'lanczos' and case['runs'][-1]['exhausted']:
            c2 = copy.deepcopy(case)
            c2['Eex'] += 1
            q = Quiet('C16-canary')
            q.known = []
            replay_lanczos(Rep(q, c2, 'canary', 0), light=True)
            if not any(s.get('clause') in ('E-at-exhaustion', 'below-lambda-min') for s in q.violations):
                raise core.MachineryError('canary: corrupted expected energy not detected')
            break
    ctx.notes['canary'] = 'corrupted trace rejected; corrupted expected energy detected'


def check(ctx):
    logging.getLogger('tenpy').setLevel(logging.ERROR)       # 'poorly conditioned H' warnings of known findings
    ctx.rule = ('a case = one solver invocation on one TLC-generated planted case (operator x start vector x options x '
                'N_max x N_cache x reortho ...) or one TLC-validated recorded Lanczos run; distinct = distinct (case origin, '
                'leg variant, solver, options); cases come from the state-cover dump of the exhaustive runs and from -simulate')
    ctx.assume('TLC 2026.09', 'the specification Krylov.tla / TraceKrylov.tla',
               'projection functions in harness/krylov.py (npc.Array.to_ndarray, object identity tokens)',
               'cutoff = 1e-10 (above rounding noise) and P_tol = 0 in the replayed runs, so that the number of steps is '
               'exactly min(N_max, m) with m computed by the spec',
               'tolerance 1e-9*scale on relations whose data (eigenvalues, eigen-components, norms) the spec computed exactly; '
               '1e-7 on directions of vectors from ARPACK / non-normal eigenproblems')
    if ctx.replay_file:
        with open(ctx.replay_file) as f:
            r = json.load(f)
        det = r['detail']
        with hk.interposed():
            replay_case(ctx, det['case'], det.get('origin', 'replay'), det.get('variant', 0), False, [])
        return
    only = ctx.only
    t0 = time.time()
    cases = gen_cases(ctx, with_cf=(not only or 'cf' in only))
    ctx.notes['wall_gen_s'] = round(time.time() - t0, 1)
    rng = random.Random(ctx.seed)
    traces = []
    nb = 0
    kinds_seen = {}
    t1 = time.time()
    with hk.interposed():
        for j, (origin, case) in enumerate(cases):
            if only and case['kind'] not in only and 'cf' not in only:
                continue
            variant = rng.randrange(24)
            from_sim = origin.startswith('sim')
            ladder = origin.startswith('mc-ladder') or origin.startswith('mc-ill')
            light = not from_sim      # catalogue cases: reduced option grid; simulated cases: the full grid
            want_trace = from_sim or ladder or (j % 7 == ctx.seed % 7)
            ok = replay_case(ctx, case, origin, variant, light, traces if want_trace else None)
            nb += 1
            kinds_seen[case['kind']] = kinds_seen.get(case['kind'], 0) + 1
            if kinds_seen[case['kind']] == 3:
                ctx.sample(dict(origin=origin, kind=case['kind'], hdrs=tlaval.to_jsonable(case['hdrs']), a=case['a'],
                                q0=case['q0'], m=case['m'],
                                expected={k: tlaval.to_jsonable(case[k]) for k in ('Eex', 'runs', 'mg', 'kept') if k in case}))
    ctx.trace_ok(nb)
    ctx.notes['cases_replayed'] = kinds_seen
    ctx.notes['wall_replay_s'] = round(time.time() - t1, 1)
    for k in ALL_KINDS:
        if not only and not kinds_seen.get(k):
            raise core.MachineryError('no %s case replayed' % k)
    t2 = time.time()
    accepted = validate(ctx, traces)
    canary(ctx, cases, traces, accepted)
    ctx.notes['wall_trace_s'] = round(time.time() - t2, 1)
    ctx.exhaustive = (ctx.tier == 'thorough')
    if not only:
        # no vacuity: every action of the specification was taken in MC, every trace action matched a real event
        need = ['DoBeginBlock', 'DoSetD', 'DoEndOp', 'DoSetA', 'DoOptLanczos', 'DoOptEvo', 'DoOptArnoldi', 'DoOptGmres',
                'DoOptGsBegin', 'DoOptGsRow', 'DoOptGsEnd', 'DoBuild', 'DoStart', 'BScale', 'BCache', 'BMatvec', 'BAlpha',
                'BReortho', 'BBeta', 'BBreak', 'BNext', 'RUnshift', 'RReturn1', 'RMul', 'RCached', 'RClear', 'QCache', 'QMatvec', 'QAlpha',
                'QReortho', 'QBeta', 'QScale', 'QAdd', 'RNorm', 'RReturn']
        need += ['Tr' + a for a in need[13:]] + ['TrStart', 'TrAccept']
        need += ['DoOptGmresIll', 'DoOptJevo', 'DoBuildJ', 'DoOptGsIll']
        never = [a for a in need if ctx.coverage_actions.get(a, (0, 0))[1] == 0]
        ctx.notes['actions_never_taken'] = never
        if never and not ctx.violations:
            raise core.MachineryError('specification actions never taken / never matched by a recorded event: %s' % never)
    ctx.notes['exhaustive_scope'] = ('control-flow machine: all options up to MaxN; planted part: the small catalogues of mc_cfgs; '
                                     'the large catalogue is sampled by -simulate')


if __name__ == '__main__':
    core.main_wrapper('C16', check)
