----------------------------- MODULE Truncation -----------------------------
(* tenpy.linalg.truncation: truncate(), TruncationError, and the truncated decompositions
   svd_theta / eigh_rho / decompose_theta_qr_based.

   The semantics of truncate() is written *declaratively* from its docstring, independent of the
   implementation's algorithm (sorted log-spectrum, boolean masks over cut positions):

     * the spectrum S is a sequence of naturals (unsorted, zeros, ties, not normalised);
     * every option may be None (here: the empty tuple <<>>; a value v is the tuple <<v>>, a
       rational p/q the tuple <<p, q>>);
     * the result is a number k \in 1..Len(S) of values to keep - always the k largest;
     * every constraint c that is not None has a set of admissible keep-counts {k : Sat(c, k)};
     * the constraints are combined in the documented priority chi_max, chi_min, degeneracy_tol,
       svd_min, trunc_cut: "if a constraint can not be fulfilled (without violating a previous
       one), it is ignored";
     * k is the largest admissible keep-count ("keep as many as allowed");
     * trunc_cut ("discard all small values as long as sum_{discarded} S^2 <= trunc_cut^2") has two
       readings, selected by CutSemantics; they differ only when the budget ends inside a degenerate
       multiplet (theorem ReadingsDifferOnlyInMultiplet).  The property statement ("discarded weight
       at most trunc_cut squared") decides for "budget"; the implementation's masks realise
       "directive", for which TLC refutes BudgetRespected;
     * reported: norm_new^2 = sum of the kept squares, err.eps = sum of the discarded squares,
       err.ov = 1 - 2 eps.

   All numbers are exact: weights are naturals, thresholds are rationals of *squares*
   (svd_min^2 = p/q, trunc_cut^2 = p/q) in units of W, where W = 1 in mode "abs" (thresholds in
   the units of S) and W = sum(S^2) in mode "rel" (the spectrum is normalised before truncate()
   sees it - that is what svd_theta / eigh_rho do).  Degeneracy is decided by cross-multiplication
   with a rational d = <<num, den>> standing for exp(degeneracy_tol).                              *)
EXTENDS Integers, Sequences, FiniteSets, TLC

CONSTANTS Vals,          \* values a spectrum is built from (naturals)
          MaxLen,        \* maximal length of a spectrum
          SortedOnly,    \* TRUE: enumerate spectra as multisets (non-decreasing sequences) only
          ChiMaxOpts, ChiMinOpts,   \* subsets of {<<>>} \cup {<<n>>}
          DegOpts,       \* subset of {<<>>} \cup {<<num, den>>}   bound for exp(degeneracy_tol)
          SvdOpts,       \* subset of {<<>>} \cup {<<p, q>>}       svd_min^2 = p/q * W
          CutOpts,       \* subset of {<<>>} \cup {<<p, q>>}       trunc_cut^2 = p/q * W
          Modes,         \* subset of {"abs", "rel"}
          MaxAcc,        \* how many errors may be accumulated with TruncationError.__add__
          AlgVals,       \* integers offered to TruncationError.from_S / from_norm
          ThetaIds,      \* which catalogue matrices (see Theta(id)) are decomposed
          ScaleOpts,     \* factors <<num, den>> by which a catalogue matrix is multiplied (norm of theta != 1)
          CutSemantics   \* "budget": discarded weight <= trunc_cut^2 is part of the constraint
                         \*           (the property statement);
                         \* "directive": only "discard everything that fits into trunc_cut^2"
                         \*           (what the implementation's mask does)

VARIABLES S,        \* spectrum under construction
          phase,    \* "build" | "pending" (an error waits to be accumulated) | "done"
          last,     \* the last operation with arguments and observable result
          acc,      \* accumulated TruncationError: [eps |-> <<n, d>>, ov |-> <<n, d>>]
          nacc,     \* number of accumulated errors
          hist      \* history of [l |-> last, o |-> Obs]; hidden by VIEW AbsView

vars == <<S, phase, last, acc, nacc, hist>>
AbsView == <<S, phase, last, acc, nacc>>

None == <<>>
Constraints == <<"chi_max", "chi_min", "degeneracy_tol", "svd_min", "trunc_cut">>   \* documented priority

-----------------------------------------------------------------------------
\* sequences of naturals
RECURSIVE InsertAsc(_, _)
InsertAsc(s, x) == IF s = <<>> THEN <<x>>
                   ELSE IF x <= Head(s) THEN <<x>> \o s ELSE <<Head(s)>> \o InsertAsc(Tail(s), x)
RECURSIVE SortAsc(_)
SortAsc(s) == IF s = <<>> THEN <<>> ELSE InsertAsc(SortAsc(Tail(s)), Head(s))
RECURSIVE SumSq(_)
SumSq(s) == IF s = <<>> THEN 0 ELSE Head(s) * Head(s) + SumSq(Tail(s))
RECURSIVE SumSeq(_)
SumSeq(s) == IF s = <<>> THEN 0 ELSE Head(s) + SumSeq(Tail(s))
SetMax(X) == CHOOSE x \in X : \A y \in X : y <= x

\* Evaluation context of one truncate() call: a = the spectrum sorted ascending, n = Len(a),
\* low[c+1] = weight of the c smallest values, w = unit of the thresholds, o = options.
\* Keeping k values means discarding a[1..n-k].
RECURSIVE Prefix(_, _)
Prefix(a, c) == IF c = 0 THEN <<0>> ELSE LET p == Prefix(a, c - 1) IN Append(p, p[c] + a[c] * a[c])
Fits0(low, w, cut, c) == low[c + 1] * cut[2] <= cut[1] * w
Ctx(s, o) ==
    LET a == SortAsc(s)
        low == Prefix(a, Len(a))
        w == IF o.mode = "rel" THEN low[Len(a) + 1] ELSE 1
    IN [a |-> a, n |-> Len(a), low |-> low, w |-> w, o |-> o,
        \* trunc_cut: the largest number of (smallest) values whose weight stays within the budget
        maxfit |-> IF o.trunc_cut = None THEN 0 ELSE SetMax({c \in 0..Len(a) : Fits0(low, w, o.trunc_cut, c)})]
Discarded(a, k) == SubSeq(a, 1, Len(a) - k)
Kept(a, k) == SubSeq(a, Len(a) - k + 1, Len(a))

-----------------------------------------------------------------------------
\* the constraints, each as a predicate on the keep-count k (documented in truncate()'s docstring)

\* chi_max: keep at most chi_max values
SatChiMax(x, k) == k <= x.o.chi_max[1]
\* chi_min: keep at least chi_min values
SatChiMin(x, k) == k >= x.o.chi_min[1]
\* degeneracy_tol: do not cut between neighbouring values u <= v with log(v/u) < tol, i.e.
\* v/u < exp(tol) = d[1]/d[2].  Two zeros are degenerate (for tol > 0), a zero and a positive value never.
Degenerate(u, v, d) == (v * d[2] < u * d[1]) \/ (u = 0 /\ v = 0 /\ d[1] > d[2])
SatDeg(x, k) == k = x.n \/ ~Degenerate(x.a[x.n - k], x.a[x.n - k + 1], x.o.degeneracy_tol)
\* svd_min: discard all values < svd_min  (nothing below svd_min is kept)
SatSvdMin(x, k) == \A i \in (x.n - k + 1)..x.n : x.a[i] * x.a[i] * x.o.svd_min[2] >= x.o.svd_min[1] * x.w
\* trunc_cut: "discard all small values as long as sum_{discarded} S^2 <= trunc_cut^2".
\* Fits(c): the c smallest values together stay within the budget.
Fits(x, c) == Fits0(x.low, x.w, x.o.trunc_cut, c)
\*   directive reading: everything that fits into the budget is discarded
SatCutDirective(x, k) == x.n - k >= x.maxfit
\*   budget reading (property: "discarded weight at most trunc_cut squared"): ... and nothing more
\*   (Fits is downward closed, so this says: exactly the maxfit smallest values are discarded)
SatCutBudget(x, k) == x.n - k >= x.maxfit /\ Fits(x, x.n - k)

Sat(c, x, k, sem) ==
    CASE c = "chi_max" -> SatChiMax(x, k)
      [] c = "chi_min" -> SatChiMin(x, k)
      [] c = "degeneracy_tol" -> SatDeg(x, k)
      [] c = "svd_min" -> SatSvdMin(x, k)
      [] c = "trunc_cut" -> IF sem = "budget" THEN SatCutBudget(x, k) ELSE SatCutDirective(x, k)

Active(c, o) == o[c] # None

\* documented combination: left fold in priority order; a constraint whose admissible set does not
\* meet what is still admissible is ignored ("dropped")
RECURSIVE Fold(_, _, _, _, _)
Fold(i, G, dr, x, sem) ==
    IF i > Len(Constraints) THEN [good |-> G, dropped |-> dr]
    ELSE LET c == Constraints[i] IN
         IF ~Active(c, x.o) THEN Fold(i + 1, G, dr, x, sem)
         ELSE LET C == {k \in G : Sat(c, x, k, sem)} IN
              IF C = {} THEN Fold(i + 1, G, dr \cup {c}, x, sem)
              ELSE Fold(i + 1, C, dr, x, sem)

KeepCount(x, sem) == SetMax(Fold(1, 1..x.n, {}, x, sem).good)

\* comparisons that sit exactly on a threshold (with non-zero sides): only meaningful for the
\* implementation when the floats are exact (power-of-two scale in mode "abs")
OnThreshold(x) ==
    \/ /\ Active("svd_min", x.o)
       /\ \E i \in 1..x.n : x.a[i] > 0 /\ x.a[i] * x.a[i] * x.o.svd_min[2] = x.o.svd_min[1] * x.w
    \/ /\ Active("trunc_cut", x.o)
       /\ \E c \in 1..x.n : x.low[c + 1] > 0 /\ x.low[c + 1] * x.o.trunc_cut[2] = x.o.trunc_cut[1] * x.w

\* the complete observable result of truncate(S, options)
TruncResult(s, o) ==
    LET x == Ctx(s, o)
        f == Fold(1, 1..x.n, {}, x, CutSemantics)
        k == SetMax(f.good)
        dd == x.low[x.n - k + 1]
        nn == x.low[x.n + 1] - dd
    IN [k |-> k, kept |-> Kept(x.a, k), disc |-> Discarded(x.a, k), dropped |-> f.dropped,
        nn |-> nn, dd |-> dd, unit |-> x.w,
        eps |-> <<dd, x.w>>, ov |-> <<x.w - 2 * dd, x.w>>,
        onthr |-> OnThreshold(x),
        kdirective |-> KeepCount(x, "directive")]

-----------------------------------------------------------------------------
\* TruncationError algebra on exact rationals <<num, den>> (not reduced)
ErrZero == [eps |-> <<0, 1>>, ov |-> <<1, 1>>]                          \* TruncationError()
ErrOfEps(e) == [eps |-> e, ov |-> <<e[2] - 2 * e[1], e[2]>>]            \* (eps, 1 - 2 eps)
ErrAdd(x, y) == [eps |-> <<x.eps[1] * y.eps[2] + y.eps[1] * x.eps[2], x.eps[2] * y.eps[2]>>,
                 ov |-> <<x.ov[1] * y.ov[1], x.ov[2] * y.ov[2]>>]       \* eps adds, ov multiplies
\* from_S(S_discarded, norm_old): eps = sum S_discarded^2 / norm_old^2   (norm_old None -> 1)
ErrFromS(sd, b) == ErrOfEps(<<SumSq(sd), IF b = None THEN 1 ELSE b[1] * b[1]>>)
\* from_norm(norm_new, norm_old): eps = 1 - norm_new^2 / norm_old^2
ErrFromNorm(x, y) == ErrOfEps(<<y * y - x * x, y * y>>)

-----------------------------------------------------------------------------
\* Catalogue of matrices `theta` with exactly known singular values.
\* theta is block diagonal: sector j has charge Q[j] on both legs and is one of
\*   "diag" : P * diag(d)            (P a cyclic shift: entry d[i] in row i, column (i mod m) + 1)
\*   "had2" : H2 * diag(d) * H2,  H2 = [[1,1],[1,-1]]                -> singular values 2*d
\*   "had4" : H4 * diag(d) * H4,  H4 = H2 (x) H2                     -> singular values 4*d
\*   "wide" : [ H2 * diag(d) * H2 | 0 ]  (2 x 3)                     -> singular values 2*d
\*   "tall" : the same with a zero row appended (3 x 2)              -> singular values 2*d
H2 == <<<<1, 1>>, <<1, -1>>>>
H4 == <<<<1, 1, 1, 1>>, <<1, -1, 1, -1>>, <<1, 1, -1, -1>>, <<1, -1, -1, 1>>>>
MatMul(A, B) == [i \in 1..Len(A) |-> [j \in 1..Len(B[1]) |-> SumSeq([x \in 1..Len(B) |-> A[i][x] * B[x][j]])]]
MatT(A) == [j \in 1..Len(A[1]) |-> [i \in 1..Len(A) |-> A[i][j]]]
DiagM(d) == [i \in 1..Len(d) |-> [j \in 1..Len(d) |-> IF i = j THEN d[i] ELSE 0]]
Shift(m) == [i \in 1..m |-> [j \in 1..m |-> IF j = (i % m) + 1 THEN 1 ELSE 0]]
IdM(m) == [i \in 1..m |-> [j \in 1..m |-> IF i = j THEN 1 ELSE 0]]

BlockOf(b) ==
    CASE b.kind = "diag" -> MatMul(DiagM(b.d), Shift(Len(b.d)))
      [] b.kind = "had2" -> MatMul(MatMul(H2, DiagM(b.d)), H2)
      [] b.kind = "had4" -> MatMul(MatMul(H4, DiagM(b.d)), H4)
      [] b.kind = "wide" -> LET M == MatMul(MatMul(H2, DiagM(b.d)), H2) IN [i \in 1..2 |-> M[i] \o <<0>>]
      [] b.kind = "tall" -> LET M == MatMul(MatMul(H2, DiagM(b.d)), H2) IN M \o <<(<<0, 0>>)>>
\* left singular vectors (columns, up to the common factor LeftScale) and singular values
LeftVecs(b) == CASE b.kind = "diag" -> IdM(Len(b.d)) [] b.kind = "had4" -> H4
                 [] b.kind = "tall" -> H2 \o <<(<<0, 0>>)>> [] OTHER -> H2
Mult(b) == CASE b.kind = "diag" -> 1 [] b.kind = "had4" -> 4 [] OTHER -> 2
SigmaOf(b) == [i \in 1..Len(b.d) |-> Mult(b) * b.d[i]]
\* certificate: (M M^T) V = V diag(sigma^2) and V^T V = Mult * Id  ==> sigma are the singular values of M
BlockCertified(b) ==
    LET M == BlockOf(b)
        V == LeftVecs(b)
        sg == SigmaOf(b)
    IN /\ MatMul(MatMul(M, MatT(M)), V) = MatMul(V, DiagM([i \in 1..Len(sg) |-> sg[i] * sg[i]]))
       /\ MatMul(MatT(V), V) = [i \in 1..Len(sg) |-> [j \in 1..Len(sg) |-> IF i = j THEN Mult(b) ELSE 0]]

B(q, kind, d) == [q |-> q, kind |-> kind, d |-> d]
Theta(id) ==
    CASE id = 1 -> <<B(0, "diag", <<3>>)>>
      [] id = 2 -> <<B(0, "diag", <<4, 2, 1>>)>>
      [] id = 3 -> <<B(0, "had2", <<2, 1>>), B(1, "diag", <<4, 3>>)>>
      [] id = 4 -> <<B(0, "had2", <<1, 1>>), B(1, "had2", <<3, 1>>), B(2, "diag", <<2>>)>>
      [] id = 5 -> <<B(0, "had4", <<2, 1, 1, 1>>), B(1, "diag", <<8, 4, 3>>)>>
      [] id = 6 -> <<B(0, "wide", <<3, 1>>), B(1, "diag", <<6, 6>>), B(2, "had2", <<2, 1>>)>>
      [] id = 7 -> <<B(0, "diag", <<6, 4, 3, 2>>), B(1, "had2", <<3, 2>>), B(2, "wide", <<2, 1>>), B(3, "diag", <<1>>)>>
      [] id = 8 -> <<B(0, "had4", <<2, 2, 1, 1>>), B(1, "had4", <<1, 1, 1, 1>>)>>
      [] id = 9 -> <<B(0, "tall", <<3, 2>>), B(1, "diag", <<5, 1>>), B(2, "tall", <<1, 1>>)>>

RECURSIVE FlatSigma(_)
FlatSigma(t) == IF t = <<>> THEN <<>> ELSE SigmaOf(Head(t)) \o FlatSigma(Tail(t))
RECURSIVE SigmaCharges(_)
SigmaCharges(t) == IF t = <<>> THEN <<>> ELSE [i \in 1..Len(Head(t).d) |-> Head(t).q] \o SigmaCharges(Tail(t))
\* per sector: charge, the block of theta, the block of rho = theta theta^T, the singular values
ThetaBlocks(t) == [j \in 1..Len(t) |-> [q |-> t[j].q, m |-> BlockOf(t[j]),
                                        gram |-> MatMul(BlockOf(t[j]), MatT(BlockOf(t[j]))), sigma |-> SigmaOf(t[j])]]

-----------------------------------------------------------------------------
Init == /\ S = <<>>
        /\ phase = "build"
        /\ last = [op |-> "init"]
        /\ acc = ErrZero
        /\ nacc = 0
        /\ hist = <<>>

Obs == [acc |-> acc, nacc |-> nacc]
Record == hist' = Append(hist, [l |-> last', o |-> Obs'])

Options == [chi_max : ChiMaxOpts, chi_min : ChiMinOpts, degeneracy_tol : DegOpts, svd_min : SvdOpts,
            trunc_cut : CutOpts, mode : Modes]

\* a behaviour ends with the last accumulation (MaxAcc = 0: single operations only)
MayStart == phase = "build" /\ (MaxAcc = 0 \/ nacc < MaxAcc)

\* grow the spectrum by one value (not an operation of the implementation: not recorded)
Extend ==
    /\ MayStart /\ Len(S) < MaxLen
    /\ \E v \in Vals : /\ (SortedOnly /\ S # <<>>) => v >= S[Len(S)]
                       /\ S' = Append(S, v)
    /\ UNCHANGED <<phase, last, acc, nacc, hist>>

\* mask, norm_new, err = truncate(S, options)
Truncate ==
    /\ MayStart /\ Len(S) >= 1
    /\ \E o \in Options :
          /\ o.mode = "rel" => SumSq(S) > 0
          /\ last' = [op |-> "truncate", S |-> S, opt |-> o, res |-> TruncResult(S, o)]
    /\ phase' = "pending"
    /\ UNCHANGED <<S, acc, nacc>>
    /\ Record

\* err = TruncationError.from_S(S_discarded, norm_old)
FromS ==
    /\ MayStart /\ S = <<>>
    /\ \E x \in AlgVals, y \in AlgVals, b \in {None} \cup {<<z>> : z \in AlgVals \ {0}} :
          last' = [op |-> "from_S", sd |-> <<x, y>>, norm_old |-> b, res |-> ErrFromS(<<x, y>>, b)]
    /\ phase' = "pending"
    /\ UNCHANGED <<S, acc, nacc>>
    /\ Record

\* err = TruncationError.from_norm(norm_new, norm_old)
FromNorm ==
    /\ MayStart /\ S = <<>>
    /\ \E x \in AlgVals, y \in AlgVals \ {0} :
          /\ x <= y
          /\ last' = [op |-> "from_norm", norm_new |-> x, norm_old |-> y, res |-> ErrFromNorm(x, y)]
    /\ phase' = "pending"
    /\ UNCHANGED <<S, acc, nacc>>
    /\ Record

PendingErr == IF last.op = "truncate" THEN [eps |-> last.res.eps, ov |-> last.res.ov] ELSE last.res

\* acc = acc + err      (TruncationError.__add__)
Accumulate ==
    /\ phase = "pending" /\ nacc < MaxAcc /\ last.op \in {"truncate", "from_S", "from_norm"}
    /\ acc' = ErrAdd(acc, PendingErr)
    /\ nacc' = nacc + 1
    /\ last' = [op |-> "add", res |-> ErrAdd(acc, PendingErr)]
    /\ phase' = "build"
    /\ S' = <<>>
    /\ Record

\* U, S, VH, err, renormalization = svd_theta(theta, trunc_par) and the relatives: the spec states
\* the exact data of the relation the outputs have to satisfy (see DecompResult)
\* theta = (sc[1]/sc[2]) * Theta(id).  svd_theta / eigh_rho normalise the spectrum before truncate(), so the
\* options act on the *normalised* singular values: which values are kept and the reported eps (= discarded
\* weight / total weight) do not depend on the factor, only the renormalization = |kept singular values| does.
DecompResult(id, o, sc) ==
    LET t == Theta(id)
        sg == FlatSigma(t)
        r == TruncResult(sg, o)
    IN [sigma |-> sg, charges |-> SigmaCharges(t), blocks |-> ThetaBlocks(t),
        k |-> r.k, kept |-> r.kept, nn |-> r.nn, dd |-> r.dd, unit |-> r.unit, onthr |-> r.onthr,
        kdirective |-> r.kdirective, dropped |-> r.dropped,
        renorm2 |-> <<r.nn * sc[1] * sc[1], sc[2] * sc[2]>>,         \* renormalization^2, exact
        \* what truncate() would keep if the thresholds were applied to the *unnormalised* singular values
        kabs |-> TruncResult(sg, [o EXCEPT !.mode = "abs"]).k,
        kabsdir |-> TruncResult(sg, [o EXCEPT !.mode = "abs"]).kdirective]

Decompose ==
    /\ phase = "build" /\ S = <<>> /\ nacc = 0
    /\ \E id \in ThetaIds, o \in Options, sc \in ScaleOpts :
          /\ o.mode = "rel"
          /\ last' = [op |-> "decompose", theta |-> id, scale |-> sc, opt |-> o, res |-> DecompResult(id, o, sc)]
    /\ phase' = "done"
    /\ UNCHANGED <<S, acc, nacc>>
    /\ Record

Next == Extend \/ Truncate \/ FromS \/ FromNorm \/ Accumulate \/ Decompose
Spec == Init /\ [][Next]_vars

-----------------------------------------------------------------------------
\* Theorems about truncate(), stated by brute force over all cuts (independent of Fold)

IsTrunc == last.op = "truncate"
TN == Len(last.S)
TK == last.res.k
TO == last.opt
ActiveCs == {c \in {Constraints[i] : i \in 1..Len(Constraints)} : Active(c, TO)}

\* the result is a legal keep-count and its bookkeeping is exact
WellFormed == IsTrunc =>
    /\ TK \in 1..TN
    /\ Len(last.res.kept) = TK /\ Len(last.res.disc) = TN - TK
    /\ last.res.nn = SumSq(last.res.kept) /\ last.res.dd = SumSq(last.res.disc)
    /\ last.res.nn + last.res.dd = SumSq(last.S)                \* nothing lost, nothing counted twice
    /\ last.res.eps[1] = last.res.dd                            \* reported error = discarded weight
    /\ last.res.ov[1] * last.res.eps[2] = (last.res.eps[2] - 2 * last.res.eps[1]) * last.res.ov[2]

\* never discards a value larger than one it keeps; the masks realising it exist
RECURSIVE SumSqOver(_, _)
SumSqOver(s, K) == IF K = {} THEN 0 ELSE LET i == CHOOSE i \in K : TRUE IN s[i] * s[i] + SumSqOver(s, K \ {i})
Masks(s, k) == {K \in SUBSET (1..Len(s)) : Cardinality(K) = k /\ \A i \in K, j \in (1..Len(s)) \ K : s[i] >= s[j]}
NoInversion == IsTrunc =>
    /\ \A i \in 1..Len(last.res.kept), j \in 1..Len(last.res.disc) : last.res.kept[i] >= last.res.disc[j]
    /\ Masks(last.S, TK) # {}
    /\ \A K \in Masks(last.S, TK) : SumSqOver(last.S, K) = last.res.nn     \* every legal mask keeps the same weight

\* Honoured: every constraint that was not dropped is honoured; a dropped one is violated
\* Maximal : no larger keep-count honours the constraints that are honoured
\* Priority: the vector (Sat(c1,k), Sat(c2,k), ...) in priority order is lexicographically maximal
\*           over *all* keep-counts, i.e. a constraint is only given up for the sake of a more important one
\* DroppedOnlyIfForced: a constraint is dropped only if no keep-count honours it together with the
\*           honoured constraints of higher priority
RECURSIVE LexGE(_, _, _, _)   \* is k at least as good as k2, looking at constraints i.. ?
LexGE(i, x, k, k2) ==
    IF i > Len(Constraints) THEN TRUE
    ELSE LET c == Constraints[i] IN
         IF ~Active(c, x.o) \/ (Sat(c, x, k, CutSemantics) <=> Sat(c, x, k2, CutSemantics)) THEN LexGE(i + 1, x, k, k2)
         ELSE Sat(c, x, k, CutSemantics)
Honoured == IsTrunc => LET x == Ctx(last.S, TO) IN
    \A c \in ActiveCs : (c \notin last.res.dropped) <=> Sat(c, x, TK, CutSemantics)
Maximal == IsTrunc => LET x == Ctx(last.S, TO) IN
    \A k2 \in (TK + 1)..TN : \E c \in ActiveCs \ last.res.dropped : ~Sat(c, x, k2, CutSemantics)
Priority == IsTrunc => LET x == Ctx(last.S, TO) IN \A k2 \in 1..TN : LexGE(1, x, TK, k2)
DroppedOnlyIfForced == IsTrunc => LET x == Ctx(last.S, TO) IN
    \A i \in 1..Len(Constraints) : Constraints[i] \in last.res.dropped =>
        ~\E k2 \in 1..TN : /\ Sat(Constraints[i], x, k2, CutSemantics)
                           /\ \A j \in 1..(i - 1) : (Active(Constraints[j], TO) /\ Constraints[j] \notin last.res.dropped)
                                                      => Sat(Constraints[j], x, k2, CutSemantics)

\* property clause "discarded weight at most trunc_cut squared": whenever trunc_cut is what makes
\* truncate() discard more than it would without it, the discarded weight is within the budget
BudgetRespected == (IsTrunc /\ Active("trunc_cut", TO) /\ "trunc_cut" \notin last.res.dropped) =>
    LET x == Ctx(last.S, TO)
        kwithout == KeepCount(Ctx(last.S, [TO EXCEPT !.trunc_cut = None]), CutSemantics)
    IN TK < kwithout => Fits(x, TN - TK)
\* the two readings of trunc_cut only differ when the budget ends inside a degenerate multiplet
ReadingsDifferOnlyInMultiplet == (IsTrunc /\ last.res.kdirective # TK) =>
    LET x == Ctx(last.S, TO) IN
    /\ Active("trunc_cut", TO) /\ Active("degeneracy_tol", TO) /\ "degeneracy_tol" \notin last.res.dropped
    /\ x.maxfit < TN /\ ~SatDeg(x, TN - x.maxfit)

\* TruncationError: eps adds, ov multiplies; a single error has ov = 1 - 2 eps
AccRight == last.op = "add" => /\ acc = last.res
                               /\ acc.eps[2] > 0 /\ acc.ov[2] > 0
SingleErr == last.op \in {"from_S", "from_norm"} =>
    last.res.ov[1] * last.res.eps[2] = (last.res.eps[2] - 2 * last.res.eps[1]) * last.res.ov[2]
NumbersSmall == acc.eps[2] < 1000000000 /\ acc.ov[2] < 1000000000 /\ acc.eps[1] < 1000000000

\* the catalogue really has the singular values the spec claims
ThetaCertified == last.op = "decompose" =>
    /\ \A j \in 1..Len(Theta(last.theta)) : BlockCertified(Theta(last.theta)[j])
    /\ SumSq(last.res.sigma) = last.res.nn + last.res.dd
    /\ SumSq(last.res.sigma) =
         SumSeq([j \in 1..Len(last.res.blocks) |->
                 SumSeq([i \in 1..Len(last.res.blocks[j].m) |-> SumSq(last.res.blocks[j].m[i])])])  \* = |theta|_F^2

\* truncation of a normalised spectrum does not see the norm of theta: multiplying all singular values by
\* the numerator / denominator of the factor changes neither the keep-count nor the dropped constraints, and
\* the discarded weight scales with the square
ScaleInvariant == last.op = "decompose" =>
    \A m \in {last.scale[1], last.scale[2]} :
        LET r2 == TruncResult([i \in 1..Len(last.res.sigma) |-> m * last.res.sigma[i]], last.opt)
        IN /\ r2.k = last.res.k /\ r2.dropped = last.res.dropped /\ r2.onthr = last.res.onthr
           /\ r2.dd = m * m * last.res.dd /\ r2.nn = m * m * last.res.nn
           /\ r2.eps[1] * last.res.unit = last.res.dd * r2.eps[2]          \* eps = dd / N unchanged
=============================================================================
