---------------------------- MODULE DictCacheSeq ----------------------------
(* tenpy.tools.cache.DictCache / CacheFile over a *sequential* Storage (Storage, PickleStorage,
   Hdf5Storage): long_term_keys, short_term_cache, short_term_keys, sub-caches, close.
   Written operation by operation like the implementation; the abstract dictionary the property
   talks about ("behaves like a dictionary") is the history variable D, updated at each
   operation's return.  The threaded storage is a separate module (CacheThreaded). *)
EXTENDS Naturals, Sequences, FiniteSets, TLC

CONSTANTS Keys, Vals, MaxOps

Caches == {"root", "sub"}
NoVal == 0                       \* stands for Python's None / the `default` of get()

VARIABLES ltk,      \* ltk[c]   : SUBSET Keys              DictCache.long_term_keys
          stc,      \* stc[c]   : partial function Keys -> Vals   DictCache.short_term_cache
          stk,      \* stk[c]   : SUBSET Keys              DictCache.short_term_keys
          store,    \* store[c] : partial function Keys -> Vals   the Storage's data (dict / files / group)
          exists,   \* exists[c]: BOOLEAN                  cache object created
          open,     \* BOOLEAN: root storage (and with it every sub-container) still open
          D,        \* D[c]     : partial function Keys -> Vals   abstract dictionary (history variable)
          last, nops, hist

vars == <<ltk, stc, stk, store, exists, open, D, last, nops, hist>>
AbsView == <<ltk, stc, stk, store, exists, open, D, last, nops>>

Empty == [k \in {} |-> NoVal]
Put(f, k, v) == [x \in DOMAIN f \cup {k} |-> IF x = k THEN v ELSE f[x]]
Drop(f, k) == [x \in DOMAIN f \ {k} |-> f[x]]
Restrict(f, S) == [x \in DOMAIN f \cap S |-> f[x]]

Init == /\ ltk = [c \in Caches |-> {}]
        /\ stc = [c \in Caches |-> Empty]
        /\ stk = [c \in Caches |-> {}]
        /\ store = [c \in Caches |-> Empty]
        /\ exists = [c \in Caches |-> c = "root"]
        /\ open = TRUE
        /\ D = [c \in Caches |-> Empty]
        /\ last = [op |-> "init"]
        /\ nops = 0
        /\ hist = <<>>

Usable(c) == exists[c] /\ open

\* cache[k] = v
SetItem(c, k, v) ==
    /\ Usable(c)
    /\ ltk' = [ltk EXCEPT ![c] = @ \cup {k}]
    /\ store' = [store EXCEPT ![c] = Put(@, k, v)]
    /\ stc' = IF k \in stk[c] THEN [stc EXCEPT ![c] = Put(@, k, v)] ELSE stc
    /\ D' = [D EXCEPT ![c] = Put(@, k, v)]
    /\ last' = [op |-> "set", c |-> c, k |-> k, v |-> v, res |-> "ok"]
    /\ UNCHANGED <<stk, exists, open>>

\* cache[k]
GetItem(c, k) ==
    /\ Usable(c)
    /\ IF k \in DOMAIN stc[c] THEN
          /\ last' = [op |-> "getitem", c |-> c, k |-> k, res |-> "val", v |-> stc[c][k]]
          /\ UNCHANGED stc
       ELSE IF k \notin ltk[c] THEN
          /\ last' = [op |-> "getitem", c |-> c, k |-> k, res |-> "KeyError", v |-> NoVal]
          /\ UNCHANGED stc
       ELSE
          /\ last' = [op |-> "getitem", c |-> c, k |-> k, res |-> "val", v |-> store[c][k]]
          /\ stc' = IF k \in stk[c] THEN [stc EXCEPT ![c] = Put(@, k, store[c][k])] ELSE stc
    /\ UNCHANGED <<ltk, stk, store, exists, open, D>>

\* cache.get(k)  (default None)
Get(c, k) ==
    /\ Usable(c)
    /\ IF k \notin ltk[c] THEN
          /\ last' = [op |-> "get", c |-> c, k |-> k, res |-> "default", v |-> NoVal]
          /\ UNCHANGED stc
       ELSE IF k \in DOMAIN stc[c] THEN
          /\ last' = [op |-> "get", c |-> c, k |-> k, res |-> "val", v |-> stc[c][k]]
          /\ UNCHANGED stc
       ELSE
          /\ last' = [op |-> "get", c |-> c, k |-> k, res |-> "val", v |-> store[c][k]]
          /\ stc' = IF k \in stk[c] THEN [stc EXCEPT ![c] = Put(@, k, store[c][k])] ELSE stc
    /\ UNCHANGED <<ltk, stk, store, exists, open, D>>

\* del cache[k]   (silently ignores a missing key -- as implemented)
DelItem(c, k) ==
    /\ Usable(c)
    /\ IF k \in ltk[c] THEN
          /\ ltk' = [ltk EXCEPT ![c] = @ \ {k}]
          /\ store' = [store EXCEPT ![c] = Drop(@, k)]
       ELSE UNCHANGED <<ltk, store>>
    /\ stc' = [stc EXCEPT ![c] = Drop(@, k)]      \* a deleted key must not be served from RAM any more
    /\ D' = [D EXCEPT ![c] = Drop(@, k)]
    /\ last' = [op |-> "del", c |-> c, k |-> k, res |-> "ok"]
    /\ UNCHANGED <<stk, exists, open>>

\* k in cache, len(cache), set(iter(cache))
Observe(c) ==
    /\ Usable(c)
    /\ last' = [op |-> "observe", c |-> c, keys |-> ltk[c], len |-> Cardinality(ltk[c]), res |-> "ok"]
    /\ UNCHANGED <<ltk, stc, stk, store, exists, open, D>>

\* cache.set_short_term_keys(*S)
SetShortTermKeys(c, S) ==
    /\ Usable(c)
    /\ stk' = [stk EXCEPT ![c] = S]
    /\ stc' = [stc EXCEPT ![c] = Restrict(@, S)]
    /\ last' = [op |-> "set_short_term_keys", c |-> c, keys |-> S, res |-> "ok"]
    /\ UNCHANGED <<ltk, store, exists, open, D>>

\* cache.preload(*S, raise_missing=rm): keys are added to short_term_keys first, then each checked
Preload(c, S, rm) ==
    /\ Usable(c)
    /\ stk' = [stk EXCEPT ![c] = @ \cup S]
    /\ last' = [op |-> "preload", c |-> c, keys |-> S, rm |-> rm,
                res |-> IF rm /\ ~(S \subseteq ltk[c]) THEN "KeyError" ELSE "ok"]
    /\ UNCHANGED <<ltk, stc, store, exists, open, D>>

\* cache.pop(k)  (MutableMapping mixin: v = self[k]; del self[k]; KeyError if missing)
Pop(c, k) ==
    /\ Usable(c)
    /\ IF k \in DOMAIN D[c] THEN
          /\ last' = [op |-> "pop", c |-> c, k |-> k, res |-> "val", v |-> D[c][k]]
          /\ ltk' = [ltk EXCEPT ![c] = @ \ {k}]
          /\ store' = [store EXCEPT ![c] = Drop(@, k)]
          /\ stc' = [stc EXCEPT ![c] = Drop(@, k)]
          /\ D' = [D EXCEPT ![c] = Drop(@, k)]
       ELSE
          /\ last' = [op |-> "pop", c |-> c, k |-> k, res |-> "KeyError", v |-> NoVal]
          /\ UNCHANGED <<ltk, store, stc, D>>
    /\ UNCHANGED <<stk, exists, open>>

\* sub = root.create_subcache("sub")
CreateSub ==
    /\ Usable("root") /\ ~exists["sub"]
    /\ exists' = [exists EXCEPT !["sub"] = TRUE]
    /\ last' = [op |-> "create_subcache", res |-> "ok"]
    /\ UNCHANGED <<ltk, stc, stk, store, open, D>>

\* root.close(): closes the storage and all sub-containers; RAM copy of the root cleared
Close ==
    /\ open
    /\ open' = FALSE
    /\ stc' = [stc EXCEPT !["root"] = Empty]
    /\ store' = [c \in Caches |-> Empty]
    /\ last' = [op |-> "close", res |-> "ok"]
    /\ UNCHANGED <<ltk, stk, exists, D>>

\* after close: bool(cache) is False and storage access raises ValueError
AfterClose(c, k) ==
    /\ exists[c] /\ ~open
    /\ last' = [op |-> "set_closed", c |-> c, k |-> k, res |-> "ValueError"]
    /\ UNCHANGED <<ltk, stc, stk, store, exists, open, D>>

\* abstract observable state after a step
Obs == [D |-> D, stc |-> stc, stk |-> stk, exists |-> exists, open |-> open]

Step(A) == nops < MaxOps /\ nops' = nops + 1 /\ A /\ hist' = Append(hist, [l |-> last', o |-> Obs'])

DoSet     == Step(\E c \in Caches, k \in Keys, v \in Vals : SetItem(c, k, v))
DoGetItem == Step(\E c \in Caches, k \in Keys : GetItem(c, k))
DoGet     == Step(\E c \in Caches, k \in Keys : Get(c, k))
DoDel     == Step(\E c \in Caches, k \in Keys : DelItem(c, k))
DoObserve == Step(\E c \in Caches : Observe(c))
DoSTK     == Step(\E c \in Caches, S \in SUBSET Keys : SetShortTermKeys(c, S))
DoPreload == Step(\E c \in Caches, S \in (SUBSET Keys) \ {{}}, rm \in BOOLEAN : Preload(c, S, rm))
DoPop     == Step(\E c \in Caches, k \in Keys : Pop(c, k))
DoSub     == Step(CreateSub)
DoClose   == Step(Close)
DoAfter   == Step(\E c \in Caches, k \in Keys : AfterClose(c, k))

Next == DoSet \/ DoGetItem \/ DoGet \/ DoDel \/ DoObserve \/ DoSTK \/ DoPreload \/ DoPop \/ DoSub \/ DoClose \/ DoAfter
Spec == Init /\ [][Next]_vars
------------------------------------------------------------------------------
\* "behaves like a dictionary": what the representation would answer is what D says
DictRefinement ==
    \A c \in Caches : (exists[c] /\ open) =>
        /\ ltk[c] = DOMAIN D[c]
        /\ DOMAIN store[c] = DOMAIN D[c]
        /\ \A k \in DOMAIN D[c] : store[c][k] = D[c][k]
        /\ \A k \in DOMAIN stc[c] : k \in DOMAIN D[c] /\ stc[c][k] = D[c][k]
        /\ DOMAIN stc[c] \subseteq stk[c]

\* reads return the latest value written
ReadsLatest ==
    last.op \in {"getitem", "get", "pop"} =>
        IF last.k \in DOMAIN D[last.c] \/ last.op = "pop"
        THEN (last.op = "pop") \/ (last.res = "val" /\ last.v = D[last.c][last.k])
        ELSE last.res \in {"KeyError", "default"}

\* sub-caches are isolated: an operation on one cache never changes the other's dictionary
SubcacheIsolation ==
    [][ \A c \in Caches : ("c" \in DOMAIN last' /\ last'.c = c) => \A o \in Caches \ {c} : D'[o] = D[o] ]_vars
=============================================================================
