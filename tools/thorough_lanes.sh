#!/bin/sh
# run the thorough tiers in three parallel lanes (validation; evidence redirected to build/thorough-evidence3)
cd "$(dirname "$0")/.." || exit 2
export VERIF_EVIDENCE_DIR="$PWD/build/thorough-evidence3"
mkdir -p "$VERIF_EVIDENCE_DIR"
lane() {
  for c in "$@"; do
    s=$(date +%s)
    timeout 6000 ./check $c --tier thorough > "$VERIF_EVIDENCE_DIR/$c.log" 2>&1
    code=$?
    echo "$c exit=$code wall=$(( $(date +%s) - s ))s violations=$(grep -c '^VIOLATION' "$VERIF_EVIDENCE_DIR/$c.log")"
  done
}
lane C01 C02 C03 C04 &
lane C05 C06 C10 C11 C12 &
lane C13 C14 C15 C16 C17 C18 C19 C20 &
wait
