------------------------------- MODULE Config -------------------------------
(* tenpy.tools.params.Config: option dictionary with tracking of unused options (growth beyond the listed
   properties, DESIGN §12 item 7).  Three config objects: "root", a copy sharing the `unused` set ("cs"), a copy
   with its own set ("co").  One action per public method; the history variable `everRead[c]` records which
   keys were read out through c, `given[c]` which keys were ever put into c's options. *)
EXTENDS Naturals, Sequences, FiniteSets, TLC

CONSTANTS Keys, Vals, MaxOps
NoVal == 0
Cfgs == {"root", "cs", "co"}

VARIABLES opts,      \* opts[c]  : partial function Keys -> Vals           Config.options
          unusedOf,  \* unusedOf[c] : name of the config whose `unused` set object c uses (sharing)
          unused,    \* unused[c] : SUBSET Keys (only meaningful for c = unusedOf[c])
          exists,
          last, nops, hist
vars == <<opts, unusedOf, unused, exists, last, nops, hist>>
AbsView == <<opts, unusedOf, unused, exists, last, nops>>

Empty == [k \in {} |-> NoVal]
Put(f, k, v) == [x \in DOMAIN f \cup {k} |-> IF x = k THEN v ELSE f[x]]
Drop(f, k) == [x \in DOMAIN f \ {k} |-> f[x]]
U(c) == unused[unusedOf[c]]
SetU(c, S) == unused' = [unused EXCEPT ![unusedOf[c]] = S]

Init == /\ \E K \in SUBSET Keys : opts = [c \in Cfgs |-> IF c = "root" THEN [k \in K |-> 1] ELSE Empty]
        /\ unusedOf = [c \in Cfgs |-> c]
        /\ unused = [c \in Cfgs |-> IF c = "root" THEN DOMAIN opts["root"] ELSE {}]
        /\ exists = [c \in Cfgs |-> c = "root"]
        /\ last = [op |-> "init", keys |-> DOMAIN opts["root"]]
        /\ nops = 0
        /\ hist = <<>>

GetItem(c, k) ==
    /\ exists[c]
    /\ IF k \in DOMAIN opts[c]
       THEN /\ last' = [op |-> "getitem", c |-> c, k |-> k, res |-> "val", v |-> opts[c][k]]
            /\ SetU(c, U(c) \ {k})
       ELSE /\ last' = [op |-> "getitem", c |-> c, k |-> k, res |-> "KeyError", v |-> NoVal]
            /\ UNCHANGED unused
    /\ UNCHANGED <<opts, unusedOf, exists>>
SetItem(c, k, v) ==
    /\ exists[c]
    /\ SetU(c, IF k \in DOMAIN opts[c] THEN U(c) ELSE U(c) \cup {k})
    /\ opts' = [opts EXCEPT ![c] = Put(@, k, v)]
    /\ last' = [op |-> "setitem", c |-> c, k |-> k, v |-> v, res |-> "ok"]
    /\ UNCHANGED <<unusedOf, exists>>
DelItem(c, k) ==
    /\ exists[c]
    /\ IF k \in DOMAIN opts[c]
       THEN /\ opts' = [opts EXCEPT ![c] = Drop(@, k)] /\ SetU(c, U(c) \ {k})
            /\ last' = [op |-> "delitem", c |-> c, k |-> k, res |-> "ok"]
       ELSE /\ UNCHANGED opts
            /\ SetU(c, U(c) \ {k})     \* as implemented: the key is discarded from `unused` before the KeyError is raised
            /\ last' = [op |-> "delitem", c |-> c, k |-> k, res |-> "KeyError"]
    /\ UNCHANGED <<unusedOf, exists>>
\* get(key, default): like dict.setdefault, counts as reading
Get(c, k, d) ==
    /\ exists[c]
    /\ opts' = [opts EXCEPT ![c] = IF k \in DOMAIN @ THEN @ ELSE Put(@, k, d)]
    /\ SetU(c, U(c) \ {k})
    /\ last' = [op |-> "get", c |-> c, k |-> k, d |-> d, res |-> "val", v |-> IF k \in DOMAIN opts[c] THEN opts[c][k] ELSE d]
    /\ UNCHANGED <<unusedOf, exists>>
SilentGet(c, k, d) ==
    /\ exists[c]
    /\ last' = [op |-> "silent_get", c |-> c, k |-> k, d |-> d, res |-> "val", v |-> IF k \in DOMAIN opts[c] THEN opts[c][k] ELSE d]
    /\ UNCHANGED <<opts, unused, unusedOf, exists>>
\* setdefault(key, default): sets without reading out -- but the key is no longer reported as unused
SetDefault(c, k, d) ==
    /\ exists[c]
    /\ opts' = [opts EXCEPT ![c] = IF k \in DOMAIN @ THEN @ ELSE Put(@, k, d)]
    /\ SetU(c, U(c) \ {k})
    /\ last' = [op |-> "setdefault", c |-> c, k |-> k, d |-> d, res |-> "ok"]
    /\ UNCHANGED <<unusedOf, exists>>
Touch(c, K) ==
    /\ exists[c] /\ SetU(c, U(c) \ K)
    /\ last' = [op |-> "touch", c |-> c, keys |-> K, res |-> "ok"]
    /\ UNCHANGED <<opts, unusedOf, exists>>
DeprecatedAlias(c, old, new) ==
    /\ exists[c] /\ old # new
    /\ IF old \in DOMAIN opts[c]
       THEN /\ opts' = [opts EXCEPT ![c] = Put(@, new, @[old])]
            /\ SetU(c, (U(c) \ {old}) \cup {new})
            /\ last' = [op |-> "deprecated_alias", c |-> c, old |-> old, new |-> new, res |-> "warned"]
       ELSE /\ UNCHANGED <<opts, unused>>
            /\ last' = [op |-> "deprecated_alias", c |-> c, old |-> old, new |-> new, res |-> "ok"]
    /\ UNCHANGED <<unusedOf, exists>>
DeprecatedIgnore(c, k) ==
    /\ exists[c]
    /\ IF k \in DOMAIN opts[c]
       THEN SetU(c, U(c) \ {k}) /\ last' = [op |-> "deprecated_ignore", c |-> c, k |-> k, res |-> "warned"]
       ELSE UNCHANGED unused /\ last' = [op |-> "deprecated_ignore", c |-> c, k |-> k, res |-> "ok"]
    /\ UNCHANGED <<opts, unusedOf, exists>>
\* warn_unused(): one warning naming exactly the unused keys (none if there are none); then the set is cleared
WarnUnused(c) ==
    /\ exists[c]
    /\ last' = [op |-> "warn_unused", c |-> c, warned |-> U(c), res |-> IF U(c) = {} THEN "ok" ELSE "warned"]
    /\ SetU(c, {})
    /\ UNCHANGED <<opts, unusedOf, exists>>
Copy(shared) ==
    LET c == IF shared THEN "cs" ELSE "co" IN
    /\ ~exists[c]
    /\ exists' = [exists EXCEPT ![c] = TRUE]
    /\ opts' = [opts EXCEPT ![c] = opts["root"]]
    /\ unusedOf' = [unusedOf EXCEPT ![c] = IF shared THEN unusedOf["root"] ELSE c]
    /\ unused' = [unused EXCEPT ![c] = IF shared THEN @ ELSE DOMAIN opts["root"]]   \* a fresh Config: every key unused
    /\ last' = [op |-> "copy", shared |-> shared, res |-> "ok"]
Observe(c) ==
    /\ exists[c]
    /\ last' = [op |-> "observe", c |-> c, keys |-> DOMAIN opts[c], len |-> Cardinality(DOMAIN opts[c]), res |-> "ok"]
    /\ UNCHANGED <<opts, unused, unusedOf, exists>>

Obs == [opts |-> opts, unused |-> [c \in Cfgs |-> U(c)], exists |-> exists]
Step(A) == nops < MaxOps /\ nops' = nops + 1 /\ A /\ hist' = Append(hist, [l |-> last', o |-> Obs'])
DoGetItem == Step(\E c \in Cfgs, k \in Keys : GetItem(c, k))
DoSetItem == Step(\E c \in Cfgs, k \in Keys, v \in Vals : SetItem(c, k, v))
DoDelItem == Step(\E c \in Cfgs, k \in Keys : DelItem(c, k))
DoGet == Step(\E c \in Cfgs, k \in Keys, d \in Vals : Get(c, k, d))
DoSilentGet == Step(\E c \in Cfgs, k \in Keys, d \in Vals : SilentGet(c, k, d))
DoSetDefault == Step(\E c \in Cfgs, k \in Keys, d \in Vals : SetDefault(c, k, d))
DoTouch == Step(\E c \in Cfgs, K \in SUBSET Keys : Touch(c, K))
DoAlias == Step(\E c \in Cfgs, a, b \in Keys : DeprecatedAlias(c, a, b))
DoIgnore == Step(\E c \in Cfgs, k \in Keys : DeprecatedIgnore(c, k))
DoWarn == Step(\E c \in Cfgs : WarnUnused(c))
DoCopy == Step(\E s \in BOOLEAN : Copy(s))
DoObserve == Step(\E c \in Cfgs : Observe(c))
Next == DoGetItem \/ DoSetItem \/ DoDelItem \/ DoGet \/ DoSilentGet \/ DoSetDefault \/ DoTouch \/ DoAlias \/ DoIgnore
        \/ DoWarn \/ DoCopy \/ DoObserve
Spec == Init /\ [][Next]_vars
-----------------------------------------------------------------------------
\* a config with its own `unused` set only ever lists keys that are in its options
UnusedAreOptions == \A c \in Cfgs : (exists[c] /\ \A d \in Cfgs : (d # c /\ exists[d]) => unusedOf[d] # unusedOf[c])
                                      => U(c) \subseteq DOMAIN opts[c]
\* reading never changes the options; silent_get changes nothing at all
SilentGetSilent == [][(last'.op = "silent_get") => (opts' = opts /\ unused' = unused)]_vars
\* a key read through get / [] is not warned about afterwards unless it is set anew
ReadIsUsed == [][(last'.op \in {"get", "getitem"} /\ last'.res = "val") => last'.k \notin unused'[unusedOf[last'.c]]]_vars
\* no key is warned about twice in a row without being set again
NoWarnTwice == [][(last.op = "warn_unused" /\ last'.op = "warn_unused" /\ last.c = last'.c) => last'.warned = {}]_vars
=============================================================================
