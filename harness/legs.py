"""Helpers shared by checks that talk about ChargeInfo / LegCharge / LegPipe (spec modules Charges, Pipe).

Building real tenpy objects from spec records and projecting real objects back to the value of the
spec record.  Nothing here computes an expectation: `build_*` translate spec data into constructor
arguments, `proj_*` read public attributes / observers of the implementation objects.
"""
import numpy as np


def chinfo(mods):
    from tenpy.linalg.charges import ChargeInfo
    return ChargeInfo([int(m) for m in mods])


def _charges_array(charges, qnumber):
    """spec `charges` (sequence of charge vectors; <<>> for qnumber 0) -> 2D int array"""
    return np.array([list(c) for c in charges], dtype=np.int64).reshape((len(charges), qnumber))


def slices_of(sizes):
    return [0] + [int(x) for x in np.cumsum([int(s) for s in sizes])]


def build_leg(ci, rec, ctor='from_qind'):
    """spec record [sizes, charges, qconj] -> LegCharge, through the named constructor."""
    from tenpy.linalg.charges import LegCharge
    ch = _charges_array(rec['charges'], ci.qnumber)
    qconj = int(rec['qconj'])
    if ctor == 'from_qind':
        return LegCharge.from_qind(ci, slices_of(rec['sizes']), ch, qconj)
    if ctor == 'init':
        return LegCharge(ci, slices_of(rec['sizes']), ch, qconj)
    if ctor == 'from_qflat':
        qflat = np.repeat(ch, [int(s) for s in rec['sizes']], axis=0)
        return LegCharge.from_qflat(ci, qflat, qconj)
    raise ValueError(ctor)


def proj_leg(leg):
    """LegCharge -> dict with the fields of the spec record (public attributes only)."""
    return dict(sizes=[int(x) for x in leg.get_block_sizes()],
                charges=[[int(c) for c in row] for row in np.asarray(leg.charges)],
                qconj=int(leg.qconj), sorted=bool(leg.sorted), bunched=bool(leg.bunched))


def plain(rec):
    """the data part of a spec leg record as plain python (lists / ints)"""
    return dict(sizes=[int(s) for s in rec['sizes']], charges=[[int(c) for c in row] for row in rec['charges']],
                qconj=int(rec['qconj']))


def same_data(p, rec):
    """projection p (proj_leg) equals the spec record on sizes / charges / qconj"""
    r = plain(rec)
    return p['sizes'] == r['sizes'] and p['charges'] == r['charges'] and p['qconj'] == r['qconj']


def qflat_of(rec, qnumber):
    """flat charges of a spec leg record (expansion of blocks), as list of lists"""
    out = []
    for s, c in zip(rec['sizes'], rec['charges']):
        out.extend([[int(x) for x in c]] * int(s))
    return out


def eff_flat(rec, mods):
    """effective charges qconj*charge (mod) per flat index of a spec leg record, as tuples.
    Used only to construct admissible test tensors (which entries may be non-zero)."""
    out = []
    q = int(rec['qconj'])
    for s, c in zip(rec['sizes'], rec['charges']):
        e = tuple((q * int(x)) if int(m) == 1 else (q * int(x)) % int(m) for x, m in zip(c, mods))
        out.extend([e] * int(s))
    return out
