"""C13: variational ground-state search is sound and converges on small systems.

Layers (DESIGN §6.C13):
 (1) spec/Sweep.tla      -- sweep / environment bookkeeping state machine, model checked exhaustively;
     spec/TraceSweep.tla -- TLC validates executions recorded from the real engines (harness/sweeps.py: Two-/SingleSite
                            DMRG finite + infinite, all mixers, combine; TDVP) event by event, (a) against the sweep
                            program of Sweep (TraceSpec) and (b) against the environment primitives only, with the
                            invariants FreshEnvs, AgeRule, SweepCoversAllBonds, ... as the judge (EnvTraceSpec).
 (2) spec/Solvable.tla   -- exactly solvable Hamiltonians with certificates checked by TLC over the integers;
                            REPLAY: the real engines (DMRG finite, iDMRG, VUMPS) are run on them and the
                            postconditions P1..P5 / V1..V4 of the spec are evaluated with the certified exact data.
 (3) spec/Solvable.tla, family "effH" -- MPOEnvironment parts and OneSiteH/TwoSiteH matvec / to_matrix on Gaussian-
                            integer MPS/MPO data must EQUAL the spec's exact contraction.
Stages (--only): mc, trace, solvable, effh, canary (canary runs in the thorough tier).
"""
import itertools
import json
import logging
import os
import random
import shutil
import time
import warnings

from harness import core, tlc, tlaval, sweeps

SWEEP_INV = ['TypeOK', 'FreshEnvs', 'FreshWindow', 'AgeRule', 'BoundaryKept', 'NoCrash', 'SweepCoversAllBonds',
             'NoRecompute', 'MemoryBound', 'ReturnedCanonical']
SOLV_INV = ['EigenCert', 'ClassicalCert', 'FrustrationFreeCert', 'CellCert', 'EffHCert', 'TwistCert', 'Expected']
WORKERS = int(os.environ.get('VERIF_WORKERS', '8'))


def only(ctx, name):
    return ctx.only is None or name in ctx.only


# ================================================================================================
# (1a) MC of the bookkeeping state machine
# ================================================================================================
def sweep_cfg(Ls, max_ext, mixes=('none', 'sub', 'dm'), max_sweeps=2, ns=(1, 2), finites=(True, False), inv=None):
    return dict(spec='Spec', constants=dict(Ls=set(Ls), Finites=set(finites), Ns=set(ns), Combines={True, False},
                                            Mixes=set(mixes), MaxSweeps=max_sweeps, MaxExt=max_ext),
                invariants=inv or SWEEP_INV)


def stage_mc_sweep(ctx):
    quick = ctx.tier == 'quick'
    runs = [('Sweep(L<=4)', sweep_cfg({2, 3, 4}, 0)),
            ('Sweep(L<=3,ext)', sweep_cfg({2, 3}, 1, mixes=('none',)))]
    if not quick:
        runs = [('Sweep(L<=5)', sweep_cfg({2, 3, 4, 5}, 0)),
                ('Sweep(L<=3,ext,3 sweeps)', sweep_cfg({2, 3}, 1, max_sweeps=3)),
                ('Sweep(L=4,ext)', sweep_cfg({4}, 1, mixes=('none', 'sub', 'dm')))]
    # EnergySize (the measured energy belongs to a network of `age` sites) separately: it holds for the two-site
    # engine and for finite systems, and is refuted for the single-site engine on infinite systems
    # (confirmed on the real engine by the infinite-chain replay, see known finding C13-idmrg-single-site-energy-*)
    big = {2, 3} if quick else {2, 3, 4}
    runs += [('Sweep(EnergySize,all but single-site infinite)',
              dict(sweep_cfg(big, 0, inv=['EnergySize']), constraints=['NotSingleSiteInfinite'])),
             ('Sweep(EnergySize,n=1,infinite)', sweep_cfg({2} if quick else {2, 3}, 0, ns=(1,), finites=(False,), inv=['EnergySize'])),
             # a unit cell of a single site: LP[i_R] and LP[i_L] are the same slot -- the protocol deletes the only part
             ('Sweep(L=1,n=1,infinite)', sweep_cfg({1}, 0, ns=(1,), finites=(False,), inv=['NoCrash', 'AgeRule']))]
    for name, cfg in runs:
        res, _, d = tlc.mc('Sweep', cfg, workers=WORKERS, timeout=3000)
        shutil.rmtree(d, ignore_errors=True)
        ctx.add_mc(name, res)
        for inv in res.violated:
            ctx.violation(dict(kind='mc', spec='Sweep', invariant=inv, engine_n=sorted(cfg['constants']['Ns']),
                               finite=sorted(cfg['constants']['Finites']), unit_cell_1=(sorted(cfg['constants']['Ls']) == [1])),
                          dict(run=name, trace=tlaval.to_jsonable(res.error_trace[-12:])))
        missing = [a for a, (d_, t) in res.coverage.items() if t == 0 and not (a == 'DoExtGet' and cfg['constants']['MaxExt'] == 0)]
        if missing and not res.violated:
            raise core.MachineryError('Sweep MC %s: actions never taken: %s' % (name, missing))
    ctx.exhaustive = True


# ================================================================================================
# (1b) TRACE: real engines under interposition, validated by TLC against TraceSweep
# ================================================================================================
MIXERS = {'none': None, 'sub': 'SubspaceExpansion', 'dm': 'DensityMatrixMixer'}


def make_model(kind, L, bc):
    if kind == 'tfi':
        from tenpy.models.tf_ising import TFIChain
        M = TFIChain(dict(L=L, J=1., g=1.3, bc_MPS=bc, conserve='parity'))
        st = ['up'] * L
    elif kind == 'tfi0':
        from tenpy.models.tf_ising import TFIChain
        M = TFIChain(dict(L=L, J=1., g=0.8, bc_MPS=bc, conserve=None))
        st = ['up'] * L
    elif kind == 'xxz':
        from tenpy.models.xxz_chain import XXZChain
        M = XXZChain(dict(L=L, Jxx=1., Jz=0.7, hz=0., bc_MPS=bc))
        st = (['up', 'down'] * L)[:L]
    elif kind == 'xxz_hc':
        from tenpy.models.xxz_chain import XXZChain2
        M = XXZChain2(dict(L=L, Jxx=1., Jz=0.7, hz=0., bc_MPS=bc, explicit_plus_hc=True))
        st = (['up', 'down'] * L)[:L]
    else:
        raise core.MachineryError('unknown model kind %r' % kind)
    return M, st


def trace_run_configs(ctx):
    """One seeded configuration per (engine, bc, mixer, combine) combination and repetition."""
    quick = ctx.tier == 'quick'
    rng = random.Random(1000 + ctx.seed)
    reps = 1 if quick else 5
    out = []
    for rep in range(reps):
        for n, bc, mix, combine in itertools.product((2, 1), ('finite', 'infinite'), ('none', 'sub', 'dm'), (False, True)):
            if bc == 'finite':
                L = rng.choice([n + 1, 4, 5, 6] if quick else [n + 1, 4, 5, 6, 7, 8])
            else:
                L = rng.choice([2, 3, 4] if quick else [2, 3, 4, 5, 6])
                if L % 2 == 1 and rng.random() < 0.5:
                    L += 1
            model = rng.choice(['tfi', 'xxz', 'tfi0'] + (['xxz_hc'] if mix != 'sub' else []))
            if model in ('xxz', 'xxz_hc') and bc == 'infinite' and L % 2 == 1:
                model = 'tfi'       # Neel product state needs an even unit cell
            out.append(dict(n=n, bc=bc, mix=mix, combine=combine, L=L, model=model,
                            chi=rng.choice([2, 4, 8, 16]), sweeps=rng.choice([2, 3] if bc == 'finite' else [2, 4]),
                            check=rng.choice([1, 1, 2]), ext=rng.choice([0.0, 0.0, 0.15, 0.4]),
                            start_env=rng.choice([1, 0, 2]), seed=rng.randrange(10 ** 6), rep=rep))
        # excited-state searches (orthogonal_to): the environments <psi|psi0> are traced as well
        combos = list(itertools.product((1, 2), ('none', 'sub', 'dm'), (False, True)))
        rng.shuffle(combos)
        first = [c for c in combos if c[0] == 1 and c[1] == 'none'][:1] + [c for c in combos if c[0] == 1 and c[1] != 'none'][:1]
        combos = first + [c for c in combos if c not in first]
        for n, mix, combine in (combos[:4] if quick else combos):
            out.append(dict(n=n, bc='finite', mix=mix, combine=combine, L=rng.choice([4, 5, 6]), model=rng.choice(['tfi', 'xxz']),
                            chi=rng.choice([4, 8, 16]), sweeps=rng.choice([2, 3]), check=1, ext=0.0, start_env=1,
                            seed=rng.randrange(10 ** 6), rep=rep, ortho=True))
    return out


def run_engine_traced(rec, rc):
    """Run one real engine under the recorder; returns (E, engine, exception or None)."""
    from tenpy.networks.mps import MPS
    from tenpy.algorithms import dmrg
    M, st = make_model(rc['model'], rc['L'], rc['bc'])
    psi = MPS.from_product_state(M.lat.mps_sites(), st, bc=rc['bc'])
    opts = dict(mixer=MIXERS[rc['mix']], combine=rc['combine'], max_sweeps=rc['sweeps'], min_sweeps=rc['sweeps'],
                trunc_params=dict(chi_max=rc['chi'], svd_min=1e-12), N_sweeps_check=rc['check'],
                max_E_err=1e-20, max_S_err=1e-20, max_trunc_err=None)
    if rc['bc'] == 'infinite':
        opts['start_env'] = rc['start_env']
        opts['update_env'] = rc['check'] // 2 if rc['seed'] % 2 else 1
    if rc.get('mixer_params'):
        opts['mixer_params'] = rc['mixer_params']
    cls = dmrg.TwoSiteDMRGEngine if rc['n'] == 2 else dmrg.SingleSiteDMRGEngine
    rng = random.Random(rc['seed'])

    def ext_plan(t, engine):
        if rc['ext'] <= 0 or rng.random() >= rc['ext']:
            return []
        hi = t.L - 1 if engine.psi.finite else t.L
        return [(rng.choice('LR'), rng.randint(0, hi), rng.random() < 0.6)]
    rec.ext_plan = ext_plan
    kwargs = {}
    if rc.get('ortho'):      # ground state first (not recorded), then the search orthogonal to it
        psi0 = psi.copy()
        with warnings.catch_warnings():
            warnings.simplefilter('ignore')
            dmrg.TwoSiteDMRGEngine(psi0, M, dict(mixer=True, max_sweeps=6, trunc_params=dict(chi_max=16, svd_min=1e-12),
                                                 max_trunc_err=None)).run()
        kwargs['orthogonal_to'] = [psi0]
    rec.armed = True
    eng = None
    try:
        with warnings.catch_warnings():
            warnings.simplefilter('ignore')
            eng = cls(psi, M, opts, **kwargs)
            E, _ = eng.run()
        exc = None
    except core.MachineryError:
        raise
    except Exception as e:  # an exception of the code under test is an observable result
        E, exc = None, e
    finally:
        rec.armed = False
        rec.ext_plan = None
    if exc is None:
        rec.close()
    return E, eng, exc


ENV_INV = ['EnvTypeOK', 'FreshEnvs', 'AgeRule', 'BoundaryKept', 'NoCrash', 'ReturnedCanonical']


def validate_traces(ctx, events, runs_by_tid, label, spec='TraceSpec', count=True, invariants=None):
    """TLC (workers=1) decides whether the recorded histories are behaviours of TraceSweep
    (spec='TraceSpec': the sweep program of Sweep.tla; spec='EnvTraceSpec': environment primitives only, judged by
    the invariants).  Returns the number of accepted traces."""
    remaining = list(events)
    accepted = 0
    for attempt in range(6):
        if not remaining:
            break
        d = tlc.scratch('c13trace')
        try:
            p = os.path.join(d, 'trace.ndjson')
            sweeps.write_ndjson(p, remaining)
            cfgp = tlc.write_cfg(os.path.join(d, 'TraceSweep.cfg'), spec=spec,
                                 constants=dict(Ls={2}, Finites={True}, Ns={1}, Combines={False}, Mixes={'none'},
                                                MaxSweeps=10 ** 6, MaxExt=10 ** 6),
                                 invariants=(invariants or SWEEP_INV) + ['AllRead'], check_deadlock=True)
            res = tlc.run(os.path.join(tlc.SPEC_DIR, 'TraceSweep.tla'), cfgp, workers=1, timeout=3000,
                          env=dict(TRACE_FILE=p))
            tlc.require_clean(res, 'TraceSweep(%s,%s)' % (label, spec))
        finally:
            shutil.rmtree(d, ignore_errors=True)
        ctx.notes['trace_states'] = ctx.notes.get('trace_states', 0) + res.distinct
        if not res.deadlock and not res.violated:
            if res.distinct != len(remaining) + 1:
                raise core.MachineryError('TraceSweep(%s): %d events but %d states' % (label, len(remaining), res.distinct))
            tids = sorted({e['tid'] for e in remaining})
            accepted += len(tids)
            for n, e in enumerate(remaining if count else []):
                rc = runs_by_tid[e['tid']]
                ctx.case(('trace', rc['key'], n, e['ev'], e.get('op'), e.get('i')),
                         action='Trace.' + (e.get('op') or e['ev']))
            break
        # rejected: identify the line
        st = res.error_trace[-1][1] if res.error_trace else {}
        lno = st.get('l')
        if not isinstance(lno, int) or not (1 <= lno <= len(remaining) + 1):
            raise core.MachineryError('TraceSweep(%s): cannot locate the rejected event\n%s' % (label, res.stdout[-1500:]))
        # deadlock: line lno could not be matched; invariant violation: state after line lno-1
        bad = remaining[min(lno, len(remaining)) - 1] if res.deadlock else remaining[max(lno - 2, 0)]
        tid = bad['tid']
        rc = runs_by_tid[tid]
        first = next(i for i, e in enumerate(remaining) if e['tid'] == tid)
        # every trace completely before the rejected one was accepted
        for t_ok in sorted({e['tid'] for e in remaining[:first]}):
            accepted += 1
        for n, e in enumerate(remaining[:first] if count else []):
            ctx.case(('trace', runs_by_tid[e['tid']]['key'], n, e['ev'], e.get('op'), e.get('i')),
                     action='Trace.' + (e.get('op') or e['ev']))
        clause = 'conformance' if res.deadlock else res.violated[0]
        sig = dict(kind='trace', spec='TraceSweep', level=spec, clause=clause, ev=bad['ev'], op=bad.get('op'),
                   engine=rc.get('engine', 'TwoSite' if rc['n'] == 2 else 'SingleSite'), bc=rc['bc'], mix=rc['mix'],
                   combine=rc['combine'])
        k0 = max(lno - 6, 0)
        ctx.violation(sig, dict(run=rc, line_in_trace=lno - first, events=remaining[k0:lno + 1],
                                spec_state=tlaval.to_jsonable({k: v for k, v in st.items()
                                                               if k in ('pc', 'todo', 'cur', 'LP', 'RP', 'ver', 'eff', 'retL',
                                                                        'retR', 'last', 'sw', 'cfg', 'hs', 'k', 'sweeps')})))
        remaining = [e for e in remaining[first:] if e['tid'] != tid]
    return accepted


def run_tdvp_traced(rec, rc):
    """Real TDVP engines (finite): two-site steps to build up entanglement, then the requested engine."""
    from tenpy.networks.mps import MPS
    from tenpy.algorithms import tdvp
    M, st = make_model(rc['model'], rc['L'], 'finite')
    psi = MPS.from_product_state(M.lat.mps_sites(), st, bc='finite')
    opts = dict(dt=0.05, N_steps=rc['sweeps'], combine=rc['combine'], trunc_params=dict(chi_max=rc['chi'], svd_min=1e-10))
    exc = None
    try:
        with warnings.catch_warnings():
            warnings.simplefilter('ignore')
            if rc['n'] == 1:
                tdvp.TwoSiteTDVPEngine(psi, M, dict(opts, N_steps=2, combine=False)).run()     # not recorded
            rec.armed = True
            cls = tdvp.TwoSiteTDVPEngine if rc['n'] == 2 else tdvp.SingleSiteTDVPEngine
            eng = cls(psi, M, opts)
            eng.run()
            eng.run()
    except core.MachineryError:
        raise
    except Exception as e:
        exc = e
    finally:
        rec.armed = False
    if exc is None:
        rec.close()
    return exc


def stage_trace(ctx):
    rec = sweeps.Recorder()
    rec.install()
    runs_by_tid = {}
    aborted = set()
    nrun = 0
    t0 = time.time()
    try:
        for rc in trace_run_configs(ctx):
            rc['key'] = '%(n)d-%(bc)s-%(mix)s-%(combine)s-L%(L)d-%(model)s-chi%(chi)d-s%(sweeps)d-c%(check)d-%(seed)d' % rc + ('-ortho' if rc.get('ortho') else '')
            tid_before = rec.ntraces
            E, eng, exc = run_engine_traced(rec, rc)
            nrun += 1
            for tid in range(tid_before + 1, rec.ntraces + 1):
                runs_by_tid[tid] = rc
            if exc is not None:
                ctx.violation(dict(kind='exception', stage='trace', exc=type(exc).__name__,
                                   engine='TwoSite' if rc['n'] == 2 else 'SingleSite', bc=rc['bc'], mix=rc['mix'],
                                   combine=rc['combine'], model=rc['model']),
                              dict(run=rc, message=str(exc)[:500]))
                # the history up to the exception is still validated (separately: it has no regular end)
                for tid in range(tid_before + 1, rec.ntraces + 1):
                    aborted.add(tid)
                if rec.cur is not None:
                    rec.cur.closed = rec.cur.ended = True
            if exc is None and eng is not None:
                # postcondition of run() (ReturnedCanonical, evaluated on the floats): norm error <= norm_tol_final
                import numpy as np
                nerr = float(np.linalg.norm(eng.psi.norm_test()))
                ctx.case(('trace-post', rc['key']), action='Trace.returned_canonical')
                if not nerr <= 1e-9:
                    ctx.violation(dict(kind='postcondition', stage='trace', clause='returned-state-canonical',
                                       engine='TwoSite' if rc['n'] == 2 else 'SingleSite', bc=rc['bc'], mix=rc['mix'],
                                       combine=rc['combine']), dict(run=rc, norm_err=nerr))
            if nrun == 3:
                ev = [e for e in rec.events if e['tid'] == rec.ntraces][:14]
                ctx.sample(dict(spec='TraceSweep', run=rc['key'], first_events=[
                    {k: v for k, v in e.items() if k not in ('lp', 'rp')} for e in ev]))
        # the single-site engine on a unit cell of one site (refuted by model checking, confirmed here on the real engine)
        rc = dict(n=1, bc='infinite', mix='none', combine=bool(ctx.seed % 2), L=1, model='tfi', chi=8, sweeps=2, check=1, ext=0.0,
                  start_env=1, seed=5, rep=0, key='1-infinite-L1')
        tid_before = rec.ntraces
        E, eng, exc = run_engine_traced(rec, rc)
        nrun += 1
        for tid in range(tid_before + 1, rec.ntraces + 1):
            runs_by_tid[tid] = rc
            (aborted if exc is not None else set()).add(tid)
        if exc is not None:
            ctx.violation(dict(kind='exception', stage='trace', exc=type(exc).__name__, engine='SingleSite', bc='infinite',
                               mix='none', combine=rc['combine'], model='tfi', unit_cell_1=True), dict(run=rc, message=str(exc)[:300]))
            if rec.cur is not None:
                rec.cur.closed = rec.cur.ended = True
        # TDVP engines share Sweep / the environment; their histories are validated at the environment level
        tdvp_tids = set()
        rng = random.Random(3000 + ctx.seed)
        for n, combine in itertools.product((2, 1), (False, True)):
            for rep_ in range(1 if ctx.tier == 'quick' else 4):
                rc = dict(n=n, bc='finite', mix='none', combine=combine, L=rng.choice([3, 4, 5, 6]), model=rng.choice(['tfi', 'xxz', 'xxz_hc']),
                          chi=rng.choice([4, 8]), sweeps=rng.choice([1, 2]), engine='TwoSiteTDVP' if n == 2 else 'SingleSiteTDVP')
                rc['key'] = 'tdvp%(n)d-%(combine)s-L%(L)d-%(model)s-chi%(chi)d-s%(sweeps)d' % rc + '-%d' % rep_
                tid_before = rec.ntraces
                exc = run_tdvp_traced(rec, rc)
                nrun += 1
                for tid in range(tid_before + 1, rec.ntraces + 1):
                    runs_by_tid[tid] = rc
                    tdvp_tids.add(tid)
                if exc is not None:
                    ctx.violation(dict(kind='exception', stage='trace', exc=type(exc).__name__, engine=rc['engine'], bc='finite',
                                       mix='none', combine=combine, model=rc['model']), dict(run=rc, message=str(exc)[:500]))
                    for tid in range(tid_before + 1, rec.ntraces + 1):
                        aborted.add(tid)
                    if rec.cur is not None:
                        rec.cur.closed = rec.cur.ended = True
    finally:
        rec.uninstall()
    events = rec.take()
    ctx.notes['trace_runs'] = nrun
    ctx.notes['trace_events'] = len(events)
    ctx.notes['trace_record_wall_s'] = round(time.time() - t0, 1)
    events.sort(key=lambda e: e['tid'])        # (stable) the events of an ortho environment are interleaved with the main ones
    sub_tids = {e['tid'] for e in events if e['ev'] == 'begin' and e.get('engine') == 'ortho_to_env'}
    tdvp_ev = [e for e in events if e['tid'] in tdvp_tids and e['tid'] not in aborted]
    sub_ev = [e for e in events if e['tid'] in sub_tids and e['tid'] not in aborted]
    regular = [e for e in events if e['tid'] not in aborted and e['tid'] not in tdvp_tids and e['tid'] not in sub_tids]
    acc = validate_traces(ctx, regular, runs_by_tid, 'dmrg')
    acc += validate_traces(ctx, tdvp_ev, runs_by_tid, 'tdvp', spec='EnvTraceSpec', invariants=ENV_INV)
    # environments of excited-state searches: environment primitives + FreshEnvs / AgeRule / BoundaryKept as the judge
    acc += validate_traces(ctx, sub_ev, runs_by_tid, 'ortho-envs', spec='EnvTraceSpec', invariants=ENV_INV)
    ctx.notes['ortho_env_traces'] = len(sub_tids)
    # second reading: environment primitives only, the invariants (FreshEnvs, ...) are the judge
    acc_env = validate_traces(ctx, regular, runs_by_tid, 'dmrg', spec='EnvTraceSpec', count=False)
    ctx.notes['traces_accepted_env_level'] = acc_env
    for tid in sorted(aborted)[:6]:
        ev = [e for e in events if e['tid'] == tid]
        if ev and (tid in tdvp_tids or tid in sub_tids):
            validate_traces(ctx, ev, runs_by_tid, 'tdvp-aborted-%d' % tid, spec='EnvTraceSpec', invariants=ENV_INV, count=False)
        elif ev:
            validate_traces(ctx, ev, runs_by_tid, 'dmrg-aborted-%d' % tid, count=False)
    ctx.notes['trace_runs_aborted_by_exception'] = len(aborted)
    ctx.trace_ok(acc)


# ================================================================================================
# (2) certified exactly solvable instances: MC + replay of the real engines
# ================================================================================================
def solv_cfg(fams, Ls, nvar, twists=(0,)):
    return dict(spec='Spec', constants=dict(Fams=set(fams), Ls=set(Ls), NVar=nvar, Twists=set(twists)), invariants=SOLV_INV)


def load_instances(ctx, name, cfg):
    res, dump, d = tlc.mc('Solvable', cfg, workers=WORKERS, dump=True, timeout=3000)
    try:
        ctx.add_mc(name, res)
        for inv in res.violated:
            ctx.violation(dict(kind='mc', spec='Solvable', invariant=inv),
                          dict(run=name, trace=tlaval.to_jsonable(res.error_trace[-3:])))
        insts = [st['inst'] for st in tlaval.iter_dump(dump) if st['stage'] == 2]
    finally:
        shutil.rmtree(d, ignore_errors=True)
    if not insts:
        raise core.MachineryError('Solvable: no instance built')
    insts.sort(key=lambda I: (I['fam'], I['L'], I['nup'], I['var'], I.get('twk', 0)))
    for I in insts:      # TLC prints a function with domain 1..n as a sequence: nothing to convert
        pass
    return insts


def build_term_model(inst, conserve='Sz', explicit_plus_hc=False, infinite=False):
    """tenpy model for the term list of a Solvable instance (projection spec -> implementation input).
    infinite=True: the translation invariant chain generated by the unit cell inst['cell'] (2 sites)."""
    from tenpy.models.model import CouplingMPOModel
    from tenpy.networks.site import SpinHalfSite
    terms = inst['cell'] if infinite else inst['terms']
    ncell = 2
    tw = list(inst.get('tw') or [0] * inst['L'])      # gauge twist: S+_i S-_j -> i^(tw[i]-tw[j]) S+_i S-_j

    class TermModel(CouplingMPOModel):
        def init_sites(self, model_params):
            return SpinHalfSite(conserve=model_params.get('conserve', 'Sz', str))

        def init_terms(self, model_params):
            def heis(c, i, j):
                i, j = min(i, j), max(i, j)
                ph = (tw[i] - tw[j]) % 4
                phase = [1., 1.j, -1., -1.j][ph]
                if infinite and i >= ncell:      # sum over all unit cells: a translate of the same term
                    i, j = i - ncell, j - ncell
                self.add_coupling_term(c, i, j, 'Sz', 'Sz')
                self.add_coupling_term(c / 2. * phase, i, j, 'Sp', 'Sm', plus_hc=True)
            for t in terms:
                k, c = t['k'], float(t['c'])
                if c == 0:
                    continue
                if k == 'zz':
                    self.add_coupling_term(c, min(t['i'], t['j']), max(t['i'], t['j']), 'Sz', 'Sz')
                elif k == 'z':
                    self.add_onsite_term(c, t['i'], 'Sz')
                elif k == 'id':
                    self.add_onsite_term(c, t['i'], 'Id')
                elif k == 'pt':
                    heis(c, t['i'], t['j'])
                    self.add_onsite_term(0.75 * c, t['i'], 'Id')
                elif k == 'ps':
                    heis(-c, t['i'], t['j'])
                    self.add_onsite_term(0.25 * c, t['i'], 'Id')
                elif k == 'p32':
                    heis(c, t['i'], t['j'])
                    heis(c, t['j'], t['m'])
                    heis(c, t['i'], t['m'])
                    self.add_onsite_term(0.75 * c, t['i'], 'Id')
                else:
                    raise core.MachineryError('unknown term kind %r' % k)
    return TermModel(dict(L=ncell if infinite else inst['L'], bc_MPS='infinite' if infinite else 'finite', conserve=conserve,
                          explicit_plus_hc=explicit_plus_hc, lattice='Chain'))


def product_states(inst, rng, count):
    """Bit strings (bit i = site i up) of the sector to start from."""
    L, k = inst['L'], inst['nup']
    cands = []
    cands.append(sum(1 << i for i in range(k)))                         # all ups on the left (domain wall)
    cands.append(sum(1 << (L - 1 - i) for i in range(k)))               # all ups on the right
    spread = sorted(range(L), key=lambda i: ((i * 2 + 1) * k) % (2 * L))[:k] if k else []
    neel = [i for i in range(L) if i % 2 == 0][:k]
    neel += [i for i in range(L) if i % 2 == 1][:k - len(neel)]
    cands.append(sum(1 << i for i in neel))
    cands.append(sum(1 << i for i in spread))
    for _ in range(2):
        cands.append(sum(1 << i for i in rng.sample(range(L), k)))
    out = []
    for s in cands:
        if s not in out:
            out.append(s)
    rng.shuffle(out)
    return out[:count]


def dense_amplitudes(psi):
    """Projection: the state vector of a (small, finite) MPS as {bit string: amplitude}."""
    import numpy as np
    L = psi.L
    th = psi.get_theta(0, L).to_ndarray().reshape([2] * L) * psi.norm
    up = [s.state_labels['up'] for s in psi.sites]
    amp = {}
    for s in range(2 ** L):
        idx = tuple(up[i] if (s >> i) & 1 else 1 - up[i] for i in range(L))
        a = th[idx]
        if a != 0:
            amp[s] = complex(a)
    return amp


ENGINE_MATRIX = [
    # (engine n, mixer, diag_method, combine, chi mode, explicit_plus_hc, run length, lanczos_params['E_shift'])
    (2, 'dm', 'default', False, 'full', False, 'conv', None),
    (2, 'sub', 'lanczos', True, 'full', False, 'conv', None),
    (2, 'dm', 'ED_block', True, 'full', False, 'conv', None),
    (2, 'dm', 'arpack', False, 'full', False, 'conv', None),
    (2, 'sub', 'default', False, 'list', False, 'conv', None),
    (2, 'dm', 'lanczos', False, 'full', True, 'conv', None),
    (2, 'none', 'default', False, 'full', False, 'conv', None),
    (2, 'none', 'lanczos', True, 'trunc', False, 'conv', None),
    (2, 'dm', 'default', True, 'trunc', False, 'conv', None),
    (2, 'dm', 'ED_all', False, 'full', False, 'conv', None),
    (1, 'sub', 'default', False, 'full', False, 'conv', None),
    (1, 'sub', 'lanczos', True, 'full', False, 'conv', None),
    (1, 'dm', 'default', False, 'full', False, 'conv', None),
    (1, 'none', 'ED_block', False, 'full', False, 'conv', None),
    (2, 'none', 'ED_block', True, 'full', False, 'conv', None),
    (1, 'sub', 'arpack', False, 'trunc', False, 'conv', None),
    (1, 'sub', 'default', False, 'full', True, 'conv', None),
    (1, 'dm', 'default', False, 'full', True, 'conv', None),
    (1, 'dm', 'lanczos', True, 'full', True, 'conv', None),
    (2, 'sub', 'lanczos', False, 'full', True, 'conv', None),
    (1, 'sub', 'ED_block', True, 'trunc', True, 'short', None),
    (1, 'none', 'lanczos', True, 'full', False, 'conv', None),
    (1, 'none', 'lanczos', True, 'full', True, 'conv', None),
    (1, 'dm', 'lanczos', True, 'list', False, 'conv', None),
    # runs stopped long before convergence, with a truncated bond dimension: the energies of successive updates
    # differ and E_trunc is not negligible, so P3 really relates three different numbers
    (2, 'none', 'default', False, 'trunc', False, 'short', None),
    (2, 'dm', 'lanczos', True, 'trunc', False, 'short', None),
    (2, 'sub', 'default', False, 'trunc', False, 'short', None),
    (1, 'sub', 'default', False, 'trunc', False, 'short', None),
    (1, 'none', 'lanczos', False, 'trunc', False, 'short', None),
    (2, 'none', 'lanczos', True, 'trunc', False, 'short', None),
    (1, 'none', 'default', True, 'trunc', False, 'short', None),
    (2, 'none', 'arpack', False, 'trunc', False, 'short', None),
    (1, 'dm', 'ED_block', True, 'trunc', False, 'short', None),
    # Lanczos with an artificial energy shift (documented: the returned E0 is independent of the shift).  Converged
    # runs end with one-step Lanczos calls (start vector already an eigenvector), short ones with long Krylov spaces.
    (2, 'dm', 'lanczos', False, 'full', False, 'conv', -3.0),
    (2, 'none', 'lanczos', True, 'trunc', False, 'conv', 2.5),
    (1, 'sub', 'lanczos', False, 'full', False, 'conv', -1.5),
    (2, 'sub', 'lanczos', True, 'full', False, 'conv', 4.0),
    (1, 'none', 'lanczos', False, 'trunc', False, 'short', -2.0),
    (2, 'none', 'lanczos', False, 'trunc', False, 'short', 3.0),
]


def solvable_case(ctx, inst, ecfg, s0, origin):
    """Run one engine on one certified instance from one product state; evaluate P1..P5."""
    import numpy as np
    from tenpy.networks.mps import MPS
    from tenpy.algorithms import dmrg
    n, mix, diag, combine, chimode, hc, length, eshift = ecfg
    L = inst['L']
    scale = max(1.0, sum(abs(t['c']) * (3 if t['k'] == 'p32' else 1) for t in inst['terms']))
    tol = 1e-8 * scale
    E0 = inst['E0x4'] / 4.0
    q = 2 * inst['nup'] - L
    sig0 = dict(kind='replay', spec='Solvable', fam=inst['fam'], engine='TwoSite' if n == 2 else 'SingleSite', mix=mix,
                diag=diag, combine=combine, chi=chimode, explicit_plus_hc=hc, length=length, E_shift=(eshift is not None), complex_H=(inst['twk'] != 0),
                E0zero=(inst['E0x4'] == 0))
    detail0 = dict(instance=tlaval.to_jsonable({k: inst[k] for k in ('fam', 'L', 'nup', 'var', 'twk', 'tw', 'terms', 'E0x4', 'nondeg', 'conn')}),
                   engine_cfg=list(ecfg), start=s0, origin=origin)
    M = build_term_model(inst, explicit_plus_hc=hc)
    psi = MPS.from_product_state(M.lat.mps_sites(), ['up' if (s0 >> i) & 1 else 'down' for i in range(L)], bc='finite')
    opts = dict(mixer=MIXERS[mix], diag_method=diag, combine=combine, max_sweeps=40 if length == 'conv' else 1, N_sweeps_check=1,
                max_E_err=1e-13, max_S_err=1e-9, max_trunc_err=None,
                lanczos_params=dict(N_max=40, E_tol=1e-14, P_tol=1e-16, reortho=True))
    if mix != 'none':
        opts['mixer_params'] = dict(amplitude=1e-2, decay=1.5, disable_after=20)
    if eshift is not None:
        opts['lanczos_params']['E_shift'] = eshift
    if chimode == 'full':
        opts['trunc_params'] = dict(chi_max=2 ** (L // 2) + 4, svd_min=1e-14)
    elif chimode == 'trunc':
        opts['trunc_params'] = dict(chi_max=2, svd_min=1e-14)
    else:
        opts['trunc_params'] = dict(svd_min=1e-14)
        opts['chi_list'] = {0: 2, 3: 3, 6: 2 ** (L // 2) + 4}
    cls = dmrg.TwoSiteDMRGEngine if n == 2 else dmrg.SingleSiteDMRGEngine
    key = ('solv', inst['fam'], L, inst['nup'], inst['var'], inst['twk'], ecfg, s0)
    try:
        with warnings.catch_warnings():
            warnings.simplefilter('ignore')
            eng = cls(psi, M, opts)
            # was the mixer still perturbing the state when the main loop ended?  (observed before the clean-up)
            at_end = {}
            orig_cleanup = eng.post_run_cleanup

            def _cleanup():
                at_end['mixer'] = eng.mixer is not None
                return orig_cleanup()
            eng.post_run_cleanup = _cleanup
            E, _ = eng.run()
    except core.MachineryError:
        raise
    except Exception as e:
        ctx.case(key + ('exception',), action='Solvable.run')
        ctx.violation(dict(sig0, clause='exception', exc=type(e).__name__), dict(detail0, message=str(e)[:600]))
        return False
    ok = True

    def fail(clause, **kw):
        nonlocal ok
        ok = False
        ctx.violation(dict(sig0, clause=clause), dict(detail0, E=float(np.real(E)), E0=E0, sweeps=eng.sweeps, **kw))

    # P1 normalised + canonical form
    nt = float(np.max(np.abs(psi.norm_test())))
    mixer_at_end = bool(at_end.get('mixer', eng.mixer is not None))
    ctx.case(key + ('P1',), action='Solvable.P1')
    if not (nt < 1e-8 and abs(psi.norm - 1.) < 1e-10):
        sig0['mixer_active_at_end'] = mixer_at_end
        fail('P1-canonical-form', norm_test=nt, norm=float(psi.norm), mixer_active_at_end=mixer_at_end)
        return False        # expectation values of a non-canonical MPS are not defined: nothing else to evaluate
    # P2 charge sector
    if diag != 'ED_all':
        ctx.case(key + ('P2',), action='Solvable.P2')
        qt = [int(x) for x in psi.get_total_charge(only_physical_legs=True)]
        if qt != [q]:
            fail('P2-charge-sector', charge=qt, expected=[q])
    # P3 reported energy vs. expectation value
    EH = float(np.real(M.H_MPO.expectation_value(psi)))
    E_tr = eng.update_stats['E_trunc'][-1]
    E_tr_sweep = [abs(x) for x in eng.E_trunc_list if x is not None]
    ctx.case(key + ('P3',), action='Solvable.P3')
    if E_tr is None or not E_tr_sweep:
        fail('P3-E_trunc-not-measured')
    elif not mixer_at_end:
        # exact: the last update reports the energy before its truncation and the change caused by it
        if not abs(EH - (float(np.real(E)) + float(E_tr))) <= tol:
            fail('P3-energy-vs-expectation', expectation=EH, E_trunc_last=float(E_tr))
        # ... and where the last sweep reports no truncation at all, the reported energy itself is the expectation value
        # (E_trunc is measured relative to the eigensolver's energy, so the relation above cannot see an error in that)
        elif max(eng.trunc_err_list) < 1e-14 and not abs(EH - float(np.real(E))) <= tol:
            fail('P3-energy-vs-expectation-untruncated', expectation=EH, max_trunc_err=float(max(eng.trunc_err_list)))
    # (a run that stops while a mixer is still enabled has built its last environments from perturbed, not yet
    #  canonical tensors: its reported E / E_trunc are not expectation values, nothing is claimed about them)
    # P4 variational bound
    if diag != 'ED_all':
        ctx.case(key + ('P4',), action='Solvable.P4')
        if not ((mixer_at_end or float(np.real(E)) >= E0 - tol) and EH >= E0 - tol):
            fail('P4-below-ground-state', expectation=EH)
    # P6 number of sweeps: the run stops once more than max_sweeps sweeps were done (checked every N_sweeps_check = 1)
    ctx.case(key + ('P6',), action='Solvable.P6')
    if not eng.sweeps <= opts['max_sweeps'] + 1:
        fail('P6-too-many-sweeps', max_sweeps=opts['max_sweeps'])
    # P5 exact ground state reached (claimed by the property for the two-site engine; evaluated for the single-site
    # engine with a mixer as well)
    v0 = dict(zip(inst['basis'], inst['v'])).get(s0, 0)
    if (mix != 'none' and chimode in ('full', 'list') and diag != 'ED_all' and inst['conn'] and length == 'conv'
            and (v0 != 0 or diag == 'ED_block')):
        ctx.case(key + ('P5',), action='Solvable.P5')
        if not abs(EH - E0) <= tol:
            fail('P5-energy-not-reached', expectation=EH)
        elif inst['nondeg']:
            amp = dense_amplitudes(psi)
            ov = sum(complex(a, -b) * amp.get(s, 0.0) for s, (a, b) in zip(inst['basis'], inst['vc']))   # <v|psi>
            vv = float(sum(a * a + b * b for a, b in inst['vc']))
            if not abs(abs(ov) ** 2 - vv) <= 1e-8 * vv * 10:
                fail('P5-state-not-reached', overlap2=abs(ov) ** 2, vv=vv)
    return ok


INF_ENGINES = [
    # (engine, conserve, mixer, initial state, N_sweeps_check [update_env = N_sweeps_check // 2], explicit_plus_hc, E_shift)
    ('SingleSiteVUMPS', None, 'none', 'random', 1, False, None),
    ('SingleSiteVUMPS', None, 'none', 'random', 1, True, None),
    ('TwoSiteVUMPS', None, 'none', 'neel', 1, True, None),
    ('TwoSiteVUMPS', None, 'none', 'neel', 1, False, 2.0),
    ('TwoSiteDMRG', 'Sz', 'dm', 'neel', 2, False, None),
    ('TwoSiteDMRG', 'Sz', 'sub', 'neel', 3, False, None),
    ('TwoSiteDMRG', 'Sz', 'dm', 'neel', 2, True, None),
    ('SingleSiteDMRG', 'Sz', 'sub', 'neel', 1, False, None),
    ('SingleSiteDMRG', 'Sz', 'sub', 'neel', 2, False, None),
    ('TwoSiteDMRG', 'Sz', 'none', 'neel', 2, False, None),
    ('SingleSiteDMRG', 'Sz', 'sub', 'neel', 10, False, None),
    ('SingleSiteVUMPS', None, 'none', 'random', 1, False, -1.5),
]


def infinite_case(ctx, inst, icfg, origin):
    """VUMPS / iDMRG on the infinite frustration-free chain of a certified "chain2" instance: V1..V4."""
    import numpy as np
    from tenpy.networks.mps import MPS
    from tenpy.algorithms import dmrg, vumps
    ename, conserve, mix, init, nchk, hc, eshift = icfg
    scale = max(1.0, sum(abs(t['c']) * (3 if t['k'] == 'p32' else 1) for t in inst['cell']))
    e0 = inst['E0cellx4'] / 8.0
    sig0 = dict(kind='replay', spec='Solvable', fam='chain2-infinite', engine=ename, mix=mix, conserve=str(conserve),
                complex_H=(inst['twk'] != 0),
                update_env=nchk // 2, explicit_plus_hc=hc, E_shift=(eshift is not None))
    detail0 = dict(instance=tlaval.to_jsonable({k: inst[k] for k in ('fam', 'L', 'nup', 'var', 'twk', 'tw', 'cell', 'E0cellx4')}),
                   engine_cfg=list(icfg), origin=origin)
    key = ('inf', inst['var'], inst['twk'], icfg)
    M = build_term_model(inst, conserve=conserve, explicit_plus_hc=hc, infinite=True)
    try:
        with warnings.catch_warnings():
            warnings.simplefilter('ignore')
            np.random.seed(ctx.seed + 17)
            if init == 'random':
                psi = MPS.from_desired_bond_dimension(M.lat.mps_sites(), 4, bc='infinite')
            else:
                psi = MPS.from_product_state(M.lat.mps_sites(), ['up', 'down'], bc='infinite')
            opts = dict(mixer=MIXERS[mix], trunc_params=dict(chi_max=8, svd_min=1e-10), max_sweeps=30, max_E_err=1e-12,
                        max_S_err=1e-8, N_sweeps_check=nchk, max_trunc_err=None)
            if mix != 'none':
                opts['mixer_params'] = dict(amplitude=1e-3, decay=2., disable_after=8)
            if eshift is not None:
                opts['lanczos_params'] = dict(E_shift=eshift)
                if 'DMRG' in ename:
                    opts['diag_method'] = 'lanczos'
            cls = dict(SingleSiteVUMPS=vumps.SingleSiteVUMPSEngine, TwoSiteVUMPS=vumps.TwoSiteVUMPSEngine,
                       TwoSiteDMRG=dmrg.TwoSiteDMRGEngine, SingleSiteDMRG=dmrg.SingleSiteDMRGEngine)[ename]
            eng = cls(psi, M, opts)
            E, psi = eng.run()
    except core.MachineryError:
        raise
    except Exception as e:
        ctx.case(key + ('exception',), action='Solvable.run_infinite')
        ctx.violation(dict(sig0, clause='exception', exc=type(e).__name__), dict(detail0, message=str(e)[:600]))
        return False
    ok = True
    E = float(np.real(E))

    def fail(clause, **kw):
        nonlocal ok
        ok = False
        ctx.violation(dict(sig0, clause=clause), dict(detail0, E=E, e0=e0, sweeps=eng.sweeps, chi=list(psi.chi), **kw))
    nt = float(np.max(np.abs(psi.norm_test())))
    ctx.case(key + ('V1',), action='Solvable.V1')
    if not nt < 1e-7:
        fail('V1-canonical-form', norm_test=nt)
        return False
    EH = float(np.real(M.H_MPO.expectation_value(psi)))
    ctx.case(key + ('V2',), action='Solvable.V2')
    if not abs(EH - E) <= 1e-7 * scale:
        fail('V2-energy-vs-expectation', expectation=EH)
    ctx.case(key + ('V3',), action='Solvable.V3')
    if not (E >= e0 - 1e-7 * scale and EH >= e0 - 1e-7 * scale):
        fail('V3-below-ground-state', expectation=EH)
    if mix != 'none' or 'VUMPS' in ename:
        ctx.case(key + ('V4',), action='Solvable.V4')
        if not abs(EH - e0) <= 1e-6 * scale:
            fail('V4-energy-not-reached', expectation=EH)
    return ok


EXC_ENGINES = [
    # (engine n, mixer, diag_method, combine) for the search of the first excited state (orthogonal_to=[ground state])
    (2, 'none', 'ED_block', False),
    (2, 'dm', 'default', True),
    (2, 'none', 'lanczos', False),
    (2, 'sub', 'arpack', False),
    (2, 'dm', 'ED_block', False),
    (1, 'sub', 'lanczos', False),
    (1, 'sub', 'ED_block', True),
    (1, 'dm', 'default', False),
]
EXC_SHIFT = 10     # H - EXC_SHIFT: tenpy asks for a negative target energy when orthogonalising (orthogonal vectors have eigenvalue 0)


def excited_case(ctx, inst, xcfg, psi0, M, s1, origin):
    """Excited-state search on a certified (complex) instance: DMRG orthogonal to the certified ground state.
    Postconditions: X1 <v|psi> = 0 (v the spec's exact ground vector), P1, P2, X3 E_reported = <H> without truncation,
    X4 <H> > E0 (a state orthogonal to the certified unique ground state lies strictly above it)."""
    import numpy as np
    from tenpy.networks.mps import MPS
    from tenpy.algorithms import dmrg
    n, mix, diag, combine = xcfg
    L = inst['L']
    scale = max(1.0, EXC_SHIFT + sum(abs(t['c']) * (3 if t['k'] == 'p32' else 1) for t in inst['terms']))
    tol = 1e-8 * scale
    E0 = inst['E0x4'] / 4.0 - EXC_SHIFT
    sig0 = dict(kind='replay', spec='Solvable', fam=inst['fam'] + '-excited', engine='TwoSite' if n == 2 else 'SingleSite', mix=mix,
                diag=diag, combine=combine, complex_H=(inst['twk'] != 0))
    detail0 = dict(instance=tlaval.to_jsonable({k: inst[k] for k in ('fam', 'L', 'nup', 'var', 'twk', 'tw', 'terms', 'E0x4')}),
                   engine_cfg=list(xcfg), start=s1, origin=origin)
    key = ('exc', inst['fam'], L, inst['nup'], inst['var'], inst['twk'], xcfg, s1)
    psi = MPS.from_product_state(M.lat.mps_sites(), ['up' if (s1 >> i) & 1 else 'down' for i in range(L)], bc='finite')
    opts = dict(mixer=MIXERS[mix], diag_method=diag, combine=combine, max_sweeps=30, N_sweeps_check=1, max_E_err=1e-13,
                max_S_err=1e-9, max_trunc_err=None, trunc_params=dict(chi_max=2 ** (L // 2) + 4, svd_min=1e-14),
                lanczos_params=dict(N_max=40, E_tol=1e-14, P_tol=1e-16, reortho=True))
    if mix != 'none':
        opts['mixer_params'] = dict(amplitude=1e-2, decay=1.5, disable_after=12)
    cls = dmrg.TwoSiteDMRGEngine if n == 2 else dmrg.SingleSiteDMRGEngine
    try:
        with warnings.catch_warnings():
            warnings.simplefilter('ignore')
            eng = cls(psi, M, opts, orthogonal_to=[psi0])
            E, _ = eng.run()
    except core.MachineryError:
        raise
    except Exception as e:
        ctx.case(key + ('exception',), action='Excited.run')
        ctx.violation(dict(sig0, clause='exception', exc=type(e).__name__), dict(detail0, message=str(e)[:600]))
        return False
    ok = True
    E = float(np.real(E))

    def fail(clause, **kw):
        nonlocal ok
        ok = False
        ctx.violation(dict(sig0, clause=clause), dict(detail0, E=E, E0=E0, sweeps=eng.sweeps, **kw))
    nt = float(np.max(np.abs(psi.norm_test())))
    ctx.case(key + ('P1',), action='Excited.P1')
    if not (nt < 1e-8 and abs(psi.norm - 1.) < 1e-10):
        fail('P1-canonical-form', norm_test=nt)
        return False
    ctx.case(key + ('P2',), action='Excited.P2')
    qt = [int(x) for x in psi.get_total_charge(only_physical_legs=True)]
    if qt != [2 * inst['nup'] - L]:
        fail('P2-charge-sector', charge=qt)
    amp = dense_amplitudes(psi)
    ov = sum(complex(a, -b) * amp.get(s, 0.0) for s, (a, b) in zip(inst['basis'], inst['vc']))
    vv = float(sum(a * a + b * b for a, b in inst['vc']))
    ctx.case(key + ('X1',), action='Excited.X1')
    if not abs(ov) ** 2 <= 1e-12 * vv:
        fail('X1-not-orthogonal-to-ground-state', overlap2=abs(ov) ** 2 / vv)
    EH = float(np.real(M.H_MPO.expectation_value(psi)))
    ctx.case(key + ('X3',), action='Excited.X3')
    if max(eng.trunc_err_list) < 1e-14 and not abs(EH - E) <= tol:
        fail('X3-energy-vs-expectation', expectation=EH)
    ctx.case(key + ('X4',), action='Excited.X4')
    if not EH > E0 + tol:
        fail('X4-not-above-ground-state', expectation=EH)
    # X5 the engine can be run further (one more sweep) and stays orthogonal to the ground state
    ctx.case(key + ('X5',), action='Excited.X5')
    try:
        with warnings.catch_warnings():
            warnings.simplefilter('ignore')
            eng.options['max_sweeps'] = eng.sweeps + 1
            eng.run()
        amp = dense_amplitudes(psi)
        ov = sum(complex(a, -b) * amp.get(s, 0.0) for s, (a, b) in zip(inst['basis'], inst['vc']))
        if not abs(ov) ** 2 <= 1e-12 * vv:
            fail('X5-second-run-not-orthogonal', overlap2=abs(ov) ** 2 / vv)
    except core.MachineryError:
        raise
    except Exception as e:
        ok = False
        ctx.violation(dict(sig0, clause='X5-exception-second-run', exc=type(e).__name__), dict(detail0, message=str(e)[:300]))
    return ok


def stage_excited(ctx, insts, rng):
    """orthogonal_to=[certified ground state] through every diag_method, on complex (gauge-twisted) instances"""
    import numpy as np
    from tenpy.networks.mps import MPS
    from tenpy.algorithms import dmrg
    quick = ctx.tier == 'quick'
    pool = [I for I in insts if I['twk'] != 0 and I['nondeg'] and I['conn'] and len(I['basis']) >= 6 and I['L'] <= 6]
    rng.shuffle(pool)
    pool.sort(key=lambda I: {'ferro': 0, 'mg': 1, 'chain2': 2}.get(I['fam'], 3))
    chosen = []
    for fam in ('ferro', 'mg', 'chain2', 'dimer'):
        chosen += [I for I in pool if I['fam'] == fam][:1 if quick else 3]
    chosen = chosen[:2 if quick else 12]
    nrun = nok = 0
    for j, inst0 in enumerate(chosen):
        inst = dict(inst0)
        inst['terms'] = list(inst0['terms']) + [dict(k='id', i=0, j=0, m=0, c=-EXC_SHIFT)]
        M = build_term_model(inst)
        inst['terms'] = inst0['terms']
        # the ground state as an MPS: a two-site run whose result is bound to the spec's exact vector (as in P5)
        L = inst['L']
        s0 = [s for s, (a, b) in zip(inst['basis'], inst['vc']) if (a, b) != (0, 0)][0]
        psi0 = MPS.from_product_state(M.lat.mps_sites(), ['up' if (s0 >> i) & 1 else 'down' for i in range(L)], bc='finite')
        with warnings.catch_warnings():
            warnings.simplefilter('ignore')
            dmrg.TwoSiteDMRGEngine(psi0, M, dict(mixer='DensityMatrixMixer', diag_method='ED_block', max_sweeps=30, N_sweeps_check=1,
                                                 max_E_err=1e-13, max_S_err=1e-9, max_trunc_err=None,
                                                 mixer_params=dict(amplitude=1e-2, decay=1.5, disable_after=12),
                                                 trunc_params=dict(chi_max=2 ** (L // 2) + 4, svd_min=1e-14))).run()
        amp = dense_amplitudes(psi0)
        ov = sum(complex(a, -b) * amp.get(s, 0.0) for s, (a, b) in zip(inst['basis'], inst['vc']))
        vv = float(sum(a * a + b * b for a, b in inst['vc']))
        if not abs(abs(ov) ** 2 - vv) <= 1e-7 * vv:
            continue      # ground state not reached: reported by the P5 clause of the main stage, nothing to orthogonalise against
        cfgs = list(EXC_ENGINES)
        if quick:
            cfgs = [EXC_ENGINES[0], EXC_ENGINES[1 + (j + ctx.seed) % 4], EXC_ENGINES[5 + (j + ctx.seed) % 3]]
        for xcfg in cfgs:
            s1 = product_states(inst, rng, 1)[0]
            nrun += 1
            if excited_case(ctx, inst, xcfg, psi0, M, s1, 'exc%d' % j):
                nok += 1
        # X5 on a run that is stopped early with the mixer still enabled (its clean-up changes the tensors of psi)
        xcfg = (2 - (j + ctx.seed) % 2, 'dm' if j % 2 == 0 else 'sub', 'lanczos', True)
        sig = dict(kind='replay', spec='Solvable', fam=inst['fam'] + '-excited', engine='TwoSite' if xcfg[0] == 2 else 'SingleSite',
                   mix=xcfg[1], diag='lanczos', combine=True, complex_H=True)
        s1 = product_states(inst, rng, 1)[0]
        psi = MPS.from_product_state(M.lat.mps_sites(), ['up' if (s1 >> i) & 1 else 'down' for i in range(L)], bc='finite')
        ctx.case(('exc-short', inst['fam'], L, inst['nup'], inst['var'], inst['twk'], xcfg, s1), action='Excited.X5')
        nrun += 1
        try:
            with warnings.catch_warnings():
                warnings.simplefilter('ignore')
                cls = dmrg.TwoSiteDMRGEngine if xcfg[0] == 2 else dmrg.SingleSiteDMRGEngine
                eng = cls(psi, M, dict(mixer=MIXERS[xcfg[1]], combine=True, max_sweeps=2, N_sweeps_check=1, diag_method='lanczos',
                                       max_trunc_err=None, trunc_params=dict(chi_max=2 ** (L // 2) + 4, svd_min=1e-12)),
                          orthogonal_to=[psi0])
                eng.run()
                eng.options['max_sweeps'] = eng.sweeps + 1
                eng.run()
            nok += 1
        except core.MachineryError:
            raise
        except Exception as e:
            ctx.violation(dict(sig, clause='X5-exception-second-run', exc=type(e).__name__),
                          dict(instance=tlaval.to_jsonable({k: inst[k] for k in ('fam', 'L', 'nup', 'var', 'twk')}), engine_cfg=list(xcfg),
                               start=s1, message=str(e)[:300]))
    ctx.trace_ok(nok)
    ctx.notes['excited_runs'] = nrun


def stage_infinite(ctx, insts, rng):
    quick = ctx.tier == 'quick'
    pool = [I for I in insts if I['fam'] == 'chain2' and I['L'] == 6 and I['twk'] in (0, 1)]   # translation invariant twists
    rng.shuffle(pool)
    pool.sort(key=lambda I: I['twk'] != 1)          # complex Hamiltonians first, then real ones
    pool = pool[:1] + [I for I in pool[1:] if I['twk'] == 0][:1] + pool[1:]
    nrun = nok = 0
    for j, inst in enumerate(pool[:2 if quick else 6]):
        cfgs = list(INF_ENGINES)
        if quick:
            r = j + ctx.seed
            cfgs = [INF_ENGINES[r % 2], INF_ENGINES[1 + r % 2], INF_ENGINES[3 + r % 4], INF_ENGINES[7 + r % 5]]
        for icfg in cfgs:
            nrun += 1
            if infinite_case(ctx, inst, icfg, 'inf%d' % j):
                nok += 1
    ctx.trace_ok(nok)
    ctx.notes['infinite_runs'] = nrun


def stage_solvable(ctx):
    quick = ctx.tier == 'quick'
    rng = random.Random(2000 + ctx.seed)
    if quick:
        insts = load_instances(ctx, 'Solvable(L in 4..6)', solv_cfg({'classical', 'dimer', 'mg', 'ferro', 'chain2'}, {4, 5, 6}, 3, twists=(0, 1)))
        per_fam = dict(classical=3, dimer=2, mg=2, ferro=5, chain2=2)
        n_cfg = 4
    else:
        insts = load_instances(ctx, 'Solvable(L in 3..6)', solv_cfg({'classical', 'dimer', 'mg', 'ferro', 'chain2'}, {3, 4, 5, 6}, 6, twists=(0, 1, 2)))
        insts += load_instances(ctx, 'Solvable(L=8)', solv_cfg({'dimer', 'mg', 'ferro'}, {8}, 2, twists=(0, 1)))
        per_fam = dict(classical=30, dimer=12, mg=10, ferro=40, chain2=8)
        n_cfg = 6
    ctx.notes['solvable_instances_certified'] = len(insts)
    chosen = []
    for fam, cnt in per_fam.items():
        pool = [I for I in insts if I['fam'] == fam and not (fam == 'classical' and I['nup'] in (0, I['L']))]
        rng.shuffle(pool)
        if fam == 'classical':   # ... plus one fully polarised (one-dimensional) sector
            onedim = [I for I in insts if I['fam'] == fam and I['nup'] in (0, I['L'])]
            rng.shuffle(onedim)
            pool = onedim[:1] + pool
        else:                    # alternate complex (twisted) and real Hamiltonians
            tw_ = [I for I in pool if I['twk'] != 0]
            re_ = [I for I in pool if I['twk'] == 0]
            pool = [x for pair in zip(tw_, re_) for x in pair] + tw_[len(re_):] + re_[len(tw_):]
        chosen += pool[:cnt]
    nrun = nok = 0
    hc_dm_done = False
    for j, inst in enumerate(chosen):
        cfgs = list(ENGINE_MATRIX)
        rng.shuffle(cfgs)
        # always one configuration to which the convergence clause P5 applies
        p5 = [c for c in ENGINE_MATRIX if c[0] == 2 and c[1] != 'none' and c[4] != 'trunc' and c[2] != 'ED_all' and c[6] == 'conv']
        short = [c for c in ENGINE_MATRIX if c[6] == 'short' and c[7] is None]
        shifted = [c for c in ENGINE_MATRIX if c[7] is not None]
        # exact diagonalisation of the effective Hamiltonian without mixer (for complex H from a real product state)
        edpath = [c for c in ENGINE_MATRIX if c[0] == 2 and c[1] == 'none' and c[2] in ('default', 'ED_block')
                  and c[4] == 'full' and c[6] == 'conv' and not c[5]]
        extra = [rng.choice(edpath)] if inst['twk'] != 0 else cfgs[:1]
        cfgs = [rng.choice(p5), rng.choice(short), rng.choice(shifted)] + extra + [c for c in cfgs[1:n_cfg - 3]]
        if inst['fam'] == 'ferro' and not hc_dm_done and inst['conn']:
            hc_dm_done = True
            cfgs.append((1, 'dm', 'default', False, 'full', True, 'conv', None))
        for ecfg in cfgs:
            for s0 in product_states(inst, rng, 2 if (not quick or (inst['twk'] != 0 and ecfg in edpath)) else 1):
                nrun += 1
                if solvable_case(ctx, inst, ecfg, s0, 'inst%d' % j):
                    nok += 1
                if nrun == 2:
                    ctx.sample(dict(spec='Solvable', instance={k: tlaval.to_jsonable(inst[k]) for k in ('fam', 'L', 'nup', 'var', 'E0x4', 'nondeg', 'conn')},
                                    terms=tlaval.to_jsonable(inst['terms'][:4]), engine_cfg=list(ecfg), start=s0))
    ctx.trace_ok(nok)
    ctx.notes['solvable_runs'] = nrun
    stage_infinite(ctx, insts, rng)
    stage_excited(ctx, insts, rng)


# ================================================================================================
# (3) effective Hamiltonians over the Gaussian integers: equality with the spec's exact contraction
# ================================================================================================
def _t2np(t):
    import numpy as np
    return np.array([complex(a, b) for a, b in t['val']], dtype=complex).reshape(t['shape'])


def effh_case(ctx, inst, origin, mutate=None):
    """Build MPS / MPO / MPOEnvironment from the integer tensors of an "effH" instance and compare every
    environment part, OneSiteH / TwoSiteH matvec and to_matrix with the spec's numbers (exact equality)."""
    import numpy as np
    from tenpy.linalg import np_conserved as npc
    from tenpy.networks.site import SpinHalfSite
    from tenpy.networks.mps import MPS
    from tenpy.networks.mpo import MPO, MPOEnvironment
    from tenpy.algorithms.mps_common import OneSiteH, TwoSiteH
    site = SpinHalfSite(conserve=None)
    ci = site.leg.chinfo
    pleg = site.leg

    def tleg(n, qconj):
        return npc.LegCharge.from_trivial(n, ci, qconj)
    Bs, Ws = [], []
    for t in inst['B']:
        a = _t2np(t)
        Bs.append(npc.Array.from_ndarray(a, [tleg(a.shape[0], +1), pleg, tleg(a.shape[2], -1)], dtype=complex, labels=['vL', 'p', 'vR']))
    for t in inst['W']:
        a = _t2np(t)
        Ws.append(npc.Array.from_ndarray(a, [tleg(a.shape[0], +1), tleg(a.shape[1], -1), pleg, pleg.conj()], dtype=complex,
                                         labels=['wL', 'wR', 'p', 'p*']))
    L = 3
    SVs = [np.ones(B.shape[0]) for B in Bs] + [np.ones(1)]
    psi = MPS([site] * L, Bs, SVs, bc='finite', form='B')
    H = MPO([site] * L, Ws, bc='finite', IdL=[0, None, None, None], IdR=[None, None, None, 0])
    env = MPOEnvironment(psi, H, psi)
    sig0 = dict(kind='replay', spec='Solvable', fam='effH')
    ok = True

    def cmp(what, got, exp, **kw):
        nonlocal ok
        ctx.case(('effH', inst['var'], what, json.dumps(kw, sort_keys=True)), action='EffH.' + what)
        if mutate == what:
            exp = exp + 1
        if got.shape != exp.shape or not np.array_equal(got, exp):
            ok = False
            ctx.violation(dict(sig0, clause=what, **{k: v for k, v in kw.items() if k in ('combine', 'move_right')}),
                          dict(var=inst['var'], origin=origin, args=kw, got=str(got.tolist())[:800], expected=str(exp.tolist())[:800]))
    try:
        for i in range(L):
            cmp('get_LP', env.get_LP(i).itranspose(['vR*', 'wR', 'vR']).to_ndarray(), _t2np(inst['LP'][i]), i=i)
            cmp('get_RP', env.get_RP(i).itranspose(['vL', 'wL', 'vL*']).to_ndarray(), _t2np(inst['RP'][i]), i=i)
        cmp('full_contraction', np.array(env.full_contraction(1)), np.array(complex(*inst['full'])), i=1)
        for i0 in range(L):
            for combine in (False, True):
                for mr in (True, False):
                    h = OneSiteH(env, i0, combine=combine, move_right=mr)
                    th = h.combine_theta(psi.get_theta(i0, n=1))
                    r = h.matvec(th)
                    if combine:
                        r = r.split_legs()
                    cmp('OneSiteH.matvec', r.itranspose(['vL', 'p0', 'vR']).to_ndarray(), _t2np(inst['H1theta'][i0]),
                        i0=i0, combine=combine, move_right=mr)
                    m = h.to_matrix()
                    if combine:   # rows/columns are pipes of pipes: bring them to (vL, p0, vR) order
                        m = m.split_legs().split_legs()
                        lab = (['vR*', 'p0', 'vL*', 'vR', 'p0*', 'vL'])
                        m = m.itranspose(lab).to_ndarray()
                    else:
                        m = m.split_legs().itranspose(['vR*', 'p0', 'vL*', 'vR', 'p0*', 'vL']).to_ndarray()
                    cmp('OneSiteH.to_matrix', m, _t2np(inst['H1'][i0]), i0=i0, combine=combine, move_right=mr)
        for i0 in range(L - 1):
            for combine in (False, True):
                h = TwoSiteH(env, i0, combine=combine)
                th = h.combine_theta(psi.get_theta(i0, n=2))
                r = h.matvec(th)
                if combine:
                    r = r.split_legs()
                cmp('TwoSiteH.matvec', r.itranspose(['vL', 'p0', 'p1', 'vR']).to_ndarray(), _t2np(inst['H2theta'][i0]),
                    i0=i0, combine=combine)
                m = h.to_matrix().split_legs()
                if combine:
                    m = m.split_legs()
                m = m.itranspose(['vR*', 'p0', 'p1', 'vL*', 'vR', 'p0*', 'p1*', 'vL']).to_ndarray()
                cmp('TwoSiteH.to_matrix', m, _t2np(inst['H2'][i0]), i0=i0, combine=combine)
    except core.MachineryError:
        raise
    except Exception as e:
        ctx.violation(dict(sig0, clause='exception', exc=type(e).__name__), dict(var=inst['var'], origin=origin, message=str(e)[:600]))
        return False
    return ok


def stage_effh(ctx):
    insts = load_instances(ctx, 'Solvable(effH)', solv_cfg({'effH'}, {3}, 4 if ctx.tier == 'quick' else 12))
    nok = 0
    for j, inst in enumerate(insts):
        if effh_case(ctx, inst, 'effH%d' % j):
            nok += 1
    ctx.trace_ok(nok)
    ctx.notes['effH_instances'] = len(insts)


# ================================================================================================
# canaries: the binding is demonstrated, not assumed
# ================================================================================================
class _Probe:
    """Stands in for ctx while a canary runs: collects instead of reporting."""
    def __init__(self, ctx):
        self.tier, self.seed, self.notes = ctx.tier, ctx.seed, {}
        self.violations = []

    def case(self, *a, **k):
        pass

    def violation(self, sig, detail):
        self.violations.append(sig)

    def add_mc(self, *a):
        pass


def stage_canary(ctx):
    import copy
    rc = dict(n=2, bc='finite', mix='dm', combine=False, L=5, model='xxz', chi=8, sweeps=2, check=1, ext=0.0, start_env=1,
              seed=7, key='canary')
    # (a) one corrupted field of a recorded history must be rejected by TLC
    rec = sweeps.Recorder()
    rec.install()
    try:
        run_engine_traced(rec, rc)
    finally:
        rec.uninstall()
    ev = rec.take()
    probe = _Probe(ctx)
    if validate_traces(probe, ev, {1: rc}, 'canary-clean') != 1 or probe.violations:
        raise core.MachineryError('canary: the unmodified trace was rejected')
    n_rej = 0
    corruptions = []
    k_get = [j for j, e in enumerate(ev) if e['ev'] == 'call' and e['op'] == 'get_LP' and e['ret']['cnt'] > 0][3]
    c1 = copy.deepcopy(ev)
    c1[k_get]['ret']['deps'][0] += 1
    corruptions.append(('version of a contracted tensor', c1))
    k_del = [j for j, e in enumerate(ev) if e['ev'] == 'call' and e['op'] == 'del_LP'][2]
    corruptions.append(('dropped del_LP event', ev[:k_del] + ev[k_del + 1:]))
    k_age = [j for j, e in enumerate(ev) if e['ev'] == 'update_env'][4]
    c3 = copy.deepcopy(ev)
    c3[k_age]['age'] += 1
    corruptions.append(('reported age', c3))
    k_step = [j for j, e in enumerate(ev) if e['ev'] == 'step'][5]
    c4 = copy.deepcopy(ev)
    c4[k_step]['i0'] += 1
    corruptions.append(('i0 of a step', c4))
    for what, evs in corruptions:
        probe = _Probe(ctx)
        acc = validate_traces(probe, evs, {1: rc}, 'canary')
        if acc != 0 or not probe.violations:
            raise core.MachineryError('canary: trace with corrupted %s was accepted' % what)
        n_rej += 1
    # (b) without one interposer the history is incomplete and must be rejected as well
    rec = sweeps.Recorder()
    rec.install()
    from tenpy.networks import mps as tmps
    for cls, name, orig in rec._patches:
        if cls is tmps.BaseEnvironment and name == 'del_RP':
            setattr(cls, name, orig)
    try:
        run_engine_traced(rec, rc)
    finally:
        rec.uninstall()
    probe = _Probe(ctx)
    if validate_traces(probe, rec.take(), {1: rc}, 'canary-no-del_RP') != 0 or not probe.violations:
        raise core.MachineryError('canary: history recorded without the del_RP interposer was accepted')
    n_rej += 1
    # (c) a wrong certified energy must make the replay postconditions fail
    insts = load_instances(_Probe(ctx), 'Solvable(canary)', solv_cfg({'ferro'}, {4}, 1))
    I = dict([x for x in insts if x['nup'] == 2][0])
    ecfg = (2, 'dm', 'default', False, 'full', False, 'conv', None)
    probe = _Probe(ctx)
    if not solvable_case(probe, I, ecfg, 5, 'canary') or probe.violations:
        raise core.MachineryError('canary: clean solvable case failed: %s' % probe.violations)
    I['E0x4'] = I['E0x4'] + 4
    probe = _Probe(ctx)
    solvable_case(probe, I, ecfg, 5, 'canary')
    if not any(v.get('clause', '').startswith(('P4', 'P5')) for v in probe.violations):
        raise core.MachineryError('canary: a wrong certified E0 was not noticed')
    n_rej += 1
    # (d) one wrong expected number of an exact effective-Hamiltonian case must be noticed
    einst = load_instances(_Probe(ctx), 'Solvable(canary effH)', solv_cfg({'effH'}, {3}, 1))[0]
    for what in ('get_RP', 'TwoSiteH.matvec', 'OneSiteH.to_matrix'):
        probe = _Probe(ctx)
        effh_case(probe, einst, 'canary', mutate=what)
        if not any(v.get('clause') == what for v in probe.violations):
            raise core.MachineryError('canary: corrupted expectation of %s was accepted' % what)
        n_rej += 1
    ctx.notes['canaries_rejected'] = n_rej


# ================================================================================================
def replay(ctx, path):
    with open(path) as f:
        doc = json.load(f)
    det, sig = doc['detail'], doc['signature']
    if sig.get('spec') == 'Solvable' and sig.get('fam') not in ('effH', 'chain2-infinite'):
        inst = det['instance']
        insts = load_instances(ctx, 'Solvable(replay)', solv_cfg({inst['fam']}, {inst['L']}, inst['var'] + 1, twists=(inst.get('twk', 0),)))
        I = [x for x in insts if (x['fam'], x['L'], x['nup'], x['var']) == (inst['fam'], inst['L'], inst['nup'], inst['var'])][0]
        solvable_case(ctx, I, tuple(det['engine_cfg']), det['start'], 'replay')
        ctx.trace_ok(1)
    elif sig.get('fam') == 'effH':
        insts = load_instances(ctx, 'Solvable(replay effH)', solv_cfg({'effH'}, {3}, det['var'] + 1))
        effh_case(ctx, [x for x in insts if x['var'] == det['var']][0], 'replay')
        ctx.trace_ok(1)
    elif sig.get('fam') == 'chain2-infinite':
        inst = det['instance']
        insts = load_instances(ctx, 'Solvable(replay)', solv_cfg({'chain2'}, {inst['L']}, inst['var'] + 1, twists=(inst.get('twk', 0),)))
        I = [x for x in insts if x['var'] == inst['var']][0]
        infinite_case(ctx, I, tuple(det['engine_cfg']), 'replay')
        ctx.trace_ok(1)
    elif sig.get('kind') in ('trace', 'exception') and 'run' in det:
        rec = sweeps.Recorder()
        rec.install()
        rc = det['run']
        is_tdvp = str(rc.get('engine', '')).endswith('TDVP')
        try:
            if is_tdvp:
                exc = run_tdvp_traced(rec, rc)
            else:
                E, eng, exc = run_engine_traced(rec, rc)
        finally:
            rec.uninstall()
        if exc is not None:
            ctx.violation(dict(kind='exception', stage='trace', exc=type(exc).__name__,
                               engine=rc.get('engine', 'TwoSite' if rc['n'] == 2 else 'SingleSite'), bc=rc['bc'], mix=rc['mix'],
                               combine=rc['combine'], model=rc['model']), dict(run=rc, message=str(exc)[:500]))
        else:
            ev = rec.take()
            by = {e['tid']: rc for e in ev}
            if is_tdvp:
                ctx.trace_ok(validate_traces(ctx, ev, by, 'replay', spec='EnvTraceSpec', invariants=ENV_INV))
            else:
                ctx.trace_ok(validate_traces(ctx, ev, by, 'replay'))
                validate_traces(ctx, ev, by, 'replay', spec='EnvTraceSpec', count=False)
    else:
        raise core.MachineryError('cannot replay %s' % path)


def check(ctx):
    logging.getLogger('tenpy').setLevel(logging.CRITICAL)
    ctx.rule = ('TRACE: one case = one recorded event (environment call / sweep phase of a real DMRG engine run) matched by TLC '
                'against the Sweep action and the observed post-state; REPLAY: one case = one postcondition (P1..P5 of '
                'Solvable.tla) evaluated on one real engine run on a TLC-certified instance, or one exact comparison of an '
                'environment part / effective-Hamiltonian result with the spec value (family effH); distinct = distinct '
                '(run configuration, event index) / (instance, engine configuration, start state, clause)')
    ctx.assume('TLC model checker and its Json/IOUtils modules', 'the interposition layer harness/sweeps.py '
               '(array identity tracks which tensors an environment part contains)',
               'the specification modules Sweep, TraceSweep, Solvable (+Exact)',
               'projection functions: dense amplitudes of an MPS, term list -> CouplingMPOModel, integer tensors -> npc.Array',
               'H_MPO.expectation_value is bound by C11', 'float postconditions with tolerance 1e-8*scale')
    if ctx.replay_file:
        return replay(ctx, ctx.replay_file)
    if only(ctx, 'mc'):
        stage_mc_sweep(ctx)
    if only(ctx, 'trace'):
        stage_trace(ctx)
    if only(ctx, 'solvable'):
        stage_solvable(ctx)
    if only(ctx, 'effh'):
        stage_effh(ctx)
    if (ctx.only is None and ctx.tier != 'quick') or (ctx.only is not None and 'canary' in ctx.only):
        stage_canary(ctx)


if __name__ == '__main__':
    core.main_wrapper('C13', check)
