------------------------------ MODULE MPSMeasure ------------------------------
(* C08: measurements on an MPS are operators on the abstract dense state psi of MPSState.
   A Measure step computes, exactly over the Gaussian integers, the numerators <psi| O |psi> of every
   measurement of the catalogue and the denominator D = <psi|psi>; the implementation must return their ratio.
   Operators act on psi as local maps (ApplyOp1 / ApplyFerm of MPSTransform, never as d^L x d^L matrices);
   fermionic operators carry Jordan-Wigner strings by definition c_i = (prod_{k<i} JW_k) C_i. *)
EXTENDS MPSTransform

Sites0(P) == 0..(Len(P.shape) - 3)
NSites(P) == Len(P.shape) - 2
Braket(Pb, Pk) == TInner(Pb, Pk, TRUE)

\* product of single-site operators: ops = sequence over the sites of matrices (identities are skipped)
RECURSIVE ApplyOps(_, _, _)
ApplyOps(P, ops, k) == IF k = 0 THEN P
                       ELSE ApplyOps(IF ops[k] = MId(Len(ops[k])) THEN P ELSE ApplyOp1(P, k, ops[k]), ops, k - 1)
IdOps(kinds) == [k \in 1..Len(kinds) |-> MId(Dim(kinds[k]))]
OpsAt(kinds, assign) == [k \in 1..Len(kinds) |-> IF (k - 1) \in DOMAIN assign THEN assign[k - 1] ELSE MId(Dim(kinds[k]))]
Ev(Pb, Pk, kinds, assign) == Braket(Pb, ApplyOps(Pk, OpsAt(kinds, assign), Len(kinds)))
EvTerm(Pb, Pk, kinds, qL, term) == Braket(Pb, ApplyTerm(Pk, kinds, qL, term))

\* names measured per site kind
EvNames(kind, cons) ==
    CASE kind = "H" -> IF cons = "U1" THEN {"Sigmaz", "Sp"} ELSE {"Sigmaz", "Sigmax", "Sigmay", "Sp"}
      [] kind = "F" -> {"N"}
      [] OTHER -> {"Sz"}
PairNames(kind) == CASE kind = "H" -> {<<"Sigmaz", "Sigmaz">>, <<"Sp", "Sm">>} [] kind = "F" -> {<<"N", "N">>} [] OTHER -> {<<"Sz", "Sz">>}
Uniform(kinds) == \A k \in 1..Len(kinds) : kinds[k] = kinds[1]

\* correlation_function(ops1, ops2, opstr, str_on_first): the documented operator for the entry (i, j)
CorrOps(kinds, n1, n2, str, sof, i, j) ==
    LET O1(k) == OpMat(kinds[k + 1], n1)
        O2(k) == OpMat(kinds[k + 1], n2)
        St(k) == IF str = "none" THEN MId(Dim(kinds[k + 1])) ELSE OpMat(kinds[k + 1], str)
        lo == IMin(i, j)
        hi == IMax(i, j)
    IN [k \in 1..Len(kinds) |->
          LET s == k - 1 IN
          IF i = j THEN (IF s = i THEN MMul(O1(s), O2(s)) ELSE MId(Dim(kinds[k])))
          ELSE IF s = lo THEN (IF i < j THEN (IF sof THEN MMul(O1(s), St(s)) ELSE O1(s))
                                     ELSE (IF sof THEN MMul(St(s), O2(s)) ELSE O2(s)))
          ELSE IF s = hi THEN (IF i < j THEN O2(s) ELSE O1(s))
          ELSE IF lo < s /\ s < hi THEN St(s)
          ELSE MId(Dim(kinds[k]))]
CorrKeys(kinds, cons) ==
    IF ~Uniform(kinds) THEN {}
    ELSE CASE kinds[1] = "H" -> {<<"Sp", "Sm", "none", TRUE>>, <<"Sigmaz", "Sigmaz", "none", TRUE>>,
                                 <<"Sigmaz", "Sp", "Sigmaz", TRUE>>, <<"Sp", "Sigmaz", "Sigmaz", FALSE>>}
           [] kinds[1] = "F" -> {<<"Cd", "C", "JW", TRUE>>, <<"C", "Cd", "JW", TRUE>>, <<"N", "N", "none", TRUE>>}
           [] OTHER -> {<<"Sz", "Sz", "none", TRUE>>}
Corr(Pb, Pk, kinds, key) ==
    [i \in 1..Len(kinds) |-> [j \in 1..Len(kinds) |->
        Braket(Pb, ApplyOps(Pk, CorrOps(kinds, key[1], key[2], key[3], key[4], i - 1, j - 1), Len(kinds)))]]

\* reduced density matrix (not normalized) of the sites in seg (ascending, 0-based): rho[s][t] = sum_rest psi[s, rest] conj(psi[t, rest])
RhoSeg(P, seg) ==
    LET n == NSites(P)
        m == Len(seg)
        dims == [k \in 1..m |-> P.shape[seg[k] + 2]]
        D == IProdSeq(dims)
        \* move the segment axes to the front: (seg.., vL, rest.., vR)
        rest == LET RECURSIVE F(_)
                    F(a) == IF a > n + 2 THEN <<>> ELSE IF \E k \in 1..m : seg[k] + 2 = a THEN F(a + 1) ELSE <<a>> \o F(a + 1)
                IN F(1)
        perm == [k \in 1..m |-> seg[k] + 2] \o rest
        M == TLCEval(PsiMat(Eager(TTranspose(P, perm)), m))
    IN MMul(M, MDagger(M))
SegKeys(n) == {s \in {<<0>>, <<1>>, <<n - 1>>, <<0, 1>>, <<1, 2>>, <<0, 2>>, <<0, n - 1>>, <<0, 1, 2>>} :
                 /\ \A k \in 1..Len(s) : s[k] >= 0 /\ s[k] < n
                 /\ \A k \in 1..(Len(s) - 1) : s[k] < s[k + 1]}

\* charge statistics at bond b (finite bc): numerators of the probabilities of the values of the charge summed left of b
ChargeLeft(kinds, cons, idx, b) == QNorm(ISumSeq([k \in 1..b |-> QSite(kinds[k], cons)[idx[k + 1] + 1]]), cons)
ChargeProb(P, kinds, cons, b) ==
    LET vals == {ChargeLeft(kinds, cons, idx, b) : idx \in Indices(P.shape)}
    IN [q \in vals |-> ISumSeq([n \in 1..Len(P.val) |->
            IF ChargeLeft(kinds, cons, Unflat(n - 1, P.shape), b) = q THEN GAbs2(P.val[n]) ELSE 0])]

\* terms for term_correlation_function_right/left: <<term_L, term_R>> with relative site indices
TermPairs(kinds, cons) ==
    IF ~Uniform(kinds) THEN
        \* inhomogeneous chain of spin-1/2 and spin-1 sites: the operator name is resolved by the site it acts on
        (IF \A k \in 1..Len(kinds) : kinds[k] \in {"H", "T"}
         THEN {<< <<<<"Sz", 0>>>>, <<<<"Sz", 0>>>> >>, << <<<<"Sz", 0>>>>, <<<<"Sz", 0>>, <<"Sz", 1>>>> >>} ELSE {})
    ELSE CASE kinds[1] = "H" -> {<< <<<<"Sp", 0>>>>, <<<<"Sm", 0>>>> >>, << <<<<"Sigmaz", 0>>, <<"Sp", 1>>>>, <<<<"Sm", 0>>>> >>}
           [] kinds[1] = "F" -> {<< <<<<"Cd", 0>>>>, <<<<"C", 0>>>> >>, << <<<<"Cd", 0>>, <<"C", 1>>>>, <<<<"N", 0>>>> >>,
                                 << <<<<"C", 0>>>>, <<<<"N", 0>>, <<"Cd", 1>>>> >>}
           [] OTHER -> {<< <<<<"Sz", 0>>>>, <<<<"Sz", 0>>>> >>}
Shift(term, d) == [k \in 1..Len(term) |-> <<term[k][1], term[k][2] + d>>]
Span(term) == LET RECURSIVE Mx(_)
                  Mx(k) == IF k = 0 THEN 0 ELSE IMax(term[k][2], Mx(k - 1))
              IN Mx(Len(term))

\* term_list_correlation_function_right(term_list_L, term_list_R, i_L = 0, j_R): sums of terms with prefactors;
\* value(j) = sum_{a, b} sL[a] sR[b] <term_L[a] (at 0) term_R[b] (at j)>
TermLists(kind) ==
    CASE kind = "H" -> [tl |-> <<<<<<"Sp", 0>>>>, <<<<"Sm", 0>>>>>>, sL |-> <<1, 2>>,
                        tr |-> <<<<<<"Sp", 0>>>>, <<<<"Sm", 0>>>>, <<<<"Sigmaz", 0>>>>>>, sR |-> <<3, 1, 2>>]
      [] kind = "F" -> [tl |-> <<<<<<"Cd", 0>>>>, <<<<"C", 0>>>>>>, sL |-> <<1, 2>>,
                        tr |-> <<<<<<"C", 0>>>>, <<<<"Cd", 0>>>>>>, sR |-> <<3, 1>>]
      [] OTHER -> [tl |-> <<<<<<"Sz", 0>>>>>>, sL |-> <<2>>, tr |-> <<<<<<"Sz", 0>>>>, <<<<"Sz", 0>>, <<"Sz", 1>>>>>>, sR |-> <<3, 1>>]
TermListCorr(Pb, Pk, kinds, qL) ==
    LET TL == TermLists(kinds[1])
        n == Len(kinds)
        spanR == LET RECURSIVE Mx(_)
                     Mx(b) == IF b = 0 THEN 0 ELSE IMax(Span(TL.tr[b]), Mx(b - 1))
                 IN Mx(Len(TL.tr))
        \* default j_R of a finite MPS (documented): the right terms start one site right of the left terms, i.e.
        \* j0 = i_L + max_L + 1 - min_R; here with the right terms shifted by one site (min_R = 1): j = 0 .. n - 2 - spanR
        tr1 == [b \in 1..Len(TL.tr) |-> Shift(TL.tr[b], 1)]
    IN [tl |-> TL.tl, sL |-> TL.sL, tr |-> TL.tr, sR |-> TL.sR, tr1 |-> tr1,
        valdef |-> [j \in {j \in 0..(n - 1) : j + 1 + spanR < n} |->
                   GSumSeq([x \in 1..(Len(TL.tl) * Len(TL.tr)) |->
                       LET a == ((x - 1) \div Len(TL.tr)) + 1
                           b == ((x - 1) % Len(TL.tr)) + 1
                       IN GScale(TL.sL[a] * TL.sR[b], EvTerm(Pb, Pk, kinds, qL, TL.tl[a] \o Shift(tr1[b], j)))])],
        val |-> [j \in {j \in 1..(n - 1) : j + spanR < n} |->
                   GSumSeq([x \in 1..(Len(TL.tl) * Len(TL.tr)) |->
                       LET a == ((x - 1) \div Len(TL.tr)) + 1
                           b == ((x - 1) % Len(TL.tr)) + 1
                       IN GScale(TL.sL[a] * TL.sR[b], EvTerm(Pb, Pk, kinds, qL, TL.tl[a] \o Shift(TL.tr[b], j)))])]]

MeasureTable(Pb, Pk, kinds, cons, qL) ==
    LET n == Len(kinds)
        S0 == 0..(n - 1)
        same == Pb = Pk
    IN [D |-> Braket(Pb, Pk),
        ev1 |-> [x \in {<<i, nm>> \in S0 \X {"Sigmaz", "Sigmax", "Sigmay", "Sp", "N", "Sz"} : nm \in EvNames(kinds[i + 1], cons)} |->
                   Ev(Pb, Pk, kinds, (x[1] :> OpMat(kinds[x[1] + 1], x[2])))],
        ev2 |-> [x \in {<<i, pr>> \in (0..(n - 2)) \X {<<"Sigmaz", "Sigmaz">>, <<"Sp", "Sm">>, <<"N", "N">>, <<"Sz", "Sz">>} :
                          kinds[i + 1] = kinds[i + 2] /\ pr \in PairNames(kinds[i + 1])} |->
                   Ev(Pb, Pk, kinds, (x[1] :> OpMat(kinds[x[1] + 1], x[2][1])) @@ ((x[1] + 1) :> OpMat(kinds[x[1] + 2], x[2][2])))],
        multi |-> [i0 \in {i \in 0..(n - 3) : Uniform(kinds)} |->
                   LET pr == CHOOSE pr \in PairNames(kinds[1]) : TRUE IN
                   [names |-> <<pr[1], "Id", pr[2]>>,
                    val |-> Ev(Pb, Pk, kinds, (i0 :> OpMat(kinds[1], pr[1])) @@ ((i0 + 2) :> OpMat(kinds[1], pr[2])))]],
        term |-> [t \in TermsFor([kinds |-> kinds]) |->
                   EvTerm(Pb, Pk, kinds, qL, t)],
        corr |-> [key \in CorrKeys(kinds, cons) |-> Corr(Pb, Pk, kinds, key)],
        tcorr |-> [tp \in TermPairs(kinds, cons) |->
                   [j \in {j \in S0 : j > Span(tp[1]) /\ j + Span(tp[2]) < n} |->
                       EvTerm(Pb, Pk, kinds, qL, Shift(tp[1], 0) \o Shift(tp[2], j))]],
        tlc |-> IF Uniform(kinds) /\ n >= 2 THEN TermListCorr(Pb, Pk, kinds, qL) ELSE [val |-> <<>>],
        tcorrL |-> [tp \in TermPairs(kinds, cons) |->
                   [i \in {i \in S0 : i + Span(tp[1]) < n - 1 - Span(tp[2])} |->
                       EvTerm(Pb, Pk, kinds, qL, Shift(tp[1], i) \o Shift(tp[2], n - 1 - Span(tp[2])))]]]

\* sample_measurements(first_site, last_site, ops): site i is measured in the eigenbasis of ops[(i - first_site) % len(ops)];
\* an outcome is the sequence of eigenvalues lam_i (here +1 / -1 of Pauli-type operators; "Sz" = Sigmaz / 2 is measured
\* through Sigmaz), its probability <psi| prod_i (1 + lam_i O_i) / 2 |psi> / <psi|psi>.  The table gives the numerators
\* <psi| prod_i (1 + lam_i O_i) |psi> for every outcome.
SampleOps == << <<"Sigmaz", "Sz">>, <<"Sigmax", "Sigmaz">>, <<"Sigmax", "Sigmay", "Sigmaz">> >>
ProjOp2(kind, name, lam) == MAdd(MId(2), MScale(<<lam, 0>>, OpMat(kind, name)))
SampleTable(P, kinds, cons) ==
    LET n == Len(kinds) IN
    IF \A k \in 1..n : kinds[k] = "H" THEN
        [x \in {y \in (1..3) \X (0..1) : (y[1] = 1 \/ cons = "none") /\ y[2] < n} |->
            LET ops == SampleOps[x[1]]
                f == x[2]
            IN [lam \in [1..(n - f) -> {-1, 1}] |->
                  Braket(P, ApplyOps(P, [k \in 1..n |-> IF k - 1 < f THEN MId(2)
                                                        ELSE ProjOp2("H", ops[((k - 1 - f) % Len(ops)) + 1], lam[k - f])], n))]]
    ELSE <<>>

\* correlation_function with LISTS of operator names: site i uses ops[(i mod L) mod len(ops)]; autoJW has to follow the
\* operators that are actually used.  Entries <<ops1, ops2, i, j>> with fermionic operators on both sites.
ListCorr(Pb, Pk, kinds, ucell) ==
    LET n == Len(kinds)
        cases == {<<<<"N", "Cd">>, <<"N", "N", "C">>, 1, 2>>, <<<<"Cd", "N">>, <<"N", "C">>, 3, 1>>, <<<<"Cd", "N">>, <<"N", "C">>, 0, 3>>}
        opat(ops, i) == ops[((i % ucell) % Len(ops)) + 1]
    IN IF \A k \in 1..n : kinds[k] = "F" THEN
          [c \in {c \in cases : c[3] < n /\ c[4] < n /\ opat(c[1], c[3]) = "Cd" /\ opat(c[2], c[4]) = "C"} |->
              Braket(Pb, ApplyOps(Pk, CorrOps(kinds, "Cd", "C", "JW", TRUE, c[3], c[4]), n))]
       ELSE <<>>

\* measurements of one state (after canonical_form in the implementation)
Measure ==
    /\ phase = "live" /\ mode = "raw" /\ nops = 0 /\ "measure" \in Ops
    /\ Len(psi.val) <= 128 /\ AbsLE(psi, 60) /\ (R.bc = "segment" => R.known)
    /\ (Inf(R) => \A b \in 1..Len(R.S) : Len(R.S[b]) = 1)   \* infinite bc: product states (normalized by the harness), on the window
    /\ LET kinds == [k \in 1..NSites(psi) |-> R.kinds[((k - 1) % NL(R)) + 1]]
           qL == QL(R)
       IN /\ last' = [op |-> "measure"]
          /\ phase' = "done" /\ nops' = nops + 1
          /\ UNCHANGED <<R, psi, nrm, mode>>
          /\ Rec([op |-> "measure", kinds |-> kinds, cons |-> R.cons, bc |-> R.bc,
                  tab |-> MeasureTable(psi, psi, kinds, R.cons, qL),
                  rho |-> [seg \in SegKeys(NSites(psi)) |-> RhoSeg(psi, seg)],
                  sample |-> SampleTable(psi, kinds, R.cons),
                  lcorr |-> ListCorr(psi, psi, kinds, NL(R)), ucell |-> NL(R),
                  charge |-> IF R.cons # "none" /\ R.bc = "finite"
                             THEN [b \in 1..(NL(R) - 1) |-> ChargeProb(psi, kinds, R.cons, b)] ELSE <<>>])

\* MPSEnvironment(bra, ket) with a different bra: <bra| O |ket> including both norms; overlap
MeasureEnv(v, n2) ==
    /\ phase = "live" /\ mode = "raw" /\ nops = 0 /\ "measure_env" \in Ops
    /\ R.known /\ ~Inf(R) /\ NL(R) >= 2 /\ Len(psi.val) <= 128 /\ AbsLE(psi, 60)
    /\ LET Rb == OtherRep(R, v, v)       \* with charges and v = 1: another gauge of the bond charges
           Pb == Contract(Rb)
           f12 == nrm * n2
           tab == MeasureTable(Pb, psi, R.kinds, R.cons, QL(R))
       IN /\ ~TIsZero(Pb) /\ AbsLE(Pb, 60)
          /\ last' = [op |-> "measure_env", v |-> v, n2 |-> n2]
          /\ phase' = "done" /\ nops' = nops + 1
          /\ UNCHANGED <<R, psi, nrm, mode>>
          /\ Rec([op |-> "measure_env", kinds |-> R.kinds, cons |-> R.cons, bc |-> R.bc, bra |-> Rb, bnrm |-> n2,
                  f12 |-> f12, tab |-> tab])

DoMeasure == Measure
DoMeasureEnv == phase = "live" /\ \E v \in 0..1, n2 \in {1, 2} : (n2 = 2 => v = 1) /\ MeasureEnv(v, n2)

Start8 == phase = "init" /\
    \/ \E bc \in BCs \ {"infinite"}, n \in 2..MaxL, cp \in 1..2, kp \in 1..5, cn \in 0..2, fp \in 1..6, v \in 0..1, cx \in 0..1, nr \in {1, 3} :
            /\ (nr = 3 => (fp + v) % 3 = 0) /\ New(bc, n, cp, kp, cn, fp, v, cx, nr)
    \/ \E bc \in BCs, n \in 1..MaxL, kp \in 1..5, cn \in 0..2, f \in {"B", "A", "C"}, v \in 0..1, how \in {"int", "label", "array"} :
            /\ (bc # "infinite" => n >= 2) /\ (how = "array" => bc = "infinite") /\ Product(bc, n, kp, cn, f, v, how)
DoStart8 == Start8
Next8 == DoStart8 \/ DoMeasure \/ DoMeasureEnv
Spec8 == Init /\ [][Next8]_vars

-----------------------------------------------------------------------------
\* design-level sanity of the catalogue (checked by TLC on every measured state)
LastTab == hist[Len(hist)].l.tab
\* <psi|psi> is real and positive; hermitian operators have real expectation values
RealNorm == (phase = "done" /\ last.op = "measure") => (LastTab.D[2] = 0 /\ LastTab.D[1] > 0)
HermitianReal == (phase = "done" /\ last.op = "measure") =>
                    \A x \in DOMAIN LastTab.ev1 : x[2] \in {"Sigmaz", "Sigmax", "Sigmay", "N", "Sz"} => LastTab.ev1[x][2] = 0
\* the correlation matrix of an operator with its adjoint is hermitian: C[i][j] = conj(C[j][i])
CorrHermitian == (phase = "done" /\ last.op = "measure") =>
                    \A key \in DOMAIN LastTab.corr : key \in {<<"Sp", "Sm", "none", TRUE>>, <<"Cd", "C", "JW", TRUE>>} =>
                        \A i \in 1..Len(LastTab.corr[key]), j \in 1..Len(LastTab.corr[key]) :
                            LastTab.corr[key][i][j] = GConj(LastTab.corr[key][j][i])
\* fermionic anticommutation on the diagonal: <c_i c^dagger_i> + <c^dagger_i c_i> = <psi|psi>
Anticommute == (phase = "done" /\ last.op = "measure") =>
                    ((<<"Cd", "C", "JW", TRUE>> \in DOMAIN LastTab.corr) =>
                        \A i \in 1..Len(LastTab.corr[<<"Cd", "C", "JW", TRUE>>]) :
                            GAdd(LastTab.corr[<<"Cd", "C", "JW", TRUE>>][i][i], LastTab.corr[<<"C", "Cd", "JW", TRUE>>][i][i]) = LastTab.D)
\* the reduced density matrices have trace <psi|psi>
RhoTrace == (phase = "done" /\ last.op = "measure") =>
                    \A seg \in DOMAIN hist[Len(hist)].l.rho : MTrace(hist[Len(hist)].l.rho[seg]) = LastTab.D
=============================================================================
