#!/bin/sh
# tools/final.sh: regenerate every evidence file from the unchanged /repo (quick tier), then MANIFEST and DESIGN tables
cd "$(dirname "$0")/.." || exit 2
git -C /repo diff --quiet || { echo "/repo has uncommitted changes"; exit 2; }
for c in C01 C02 C03 C04 C05 C06 C07 C08 C09 C10 C11 C12 C13 C14 C15 C16 C17 C18 C19 C20; do
  s=$(date +%s)
  ./check $c --tier quick > build/final-$c.log 2>&1
  echo "$c exit=$? wall=$(( $(date +%s) - s ))s violations=$(grep -c '^VIOLATION' build/final-$c.log) known=$(grep -c '^KNOWN-FINDING' build/final-$c.log)"
done
for x in X_config X_nested X_env; do
  [ -f checks/$(echo $x | tr 'A-Z' 'a-z').py ] && { ./check $x --tier quick > build/final-$x.log 2>&1; echo "$x exit=$?"; }
done
/venv/bin/python tools/mkmanifest.py && /venv/bin/python tools/mkdesign_tables.py
