"""C18: results on disk survive a crash; a resumed run equals an uninterrupted one.

Stages
  MC      spec/SimIO.tla (two-file save protocol of Simulation.save_results at system-call granularity,
          Crash in every state, Resume / Restart, engine loops of the three simulation shapes) checked
          exhaustively by TLC for the configuration of every workload.
  TRACE   the real Simulation runs in a child process under strace; the recorded system calls on the two
          files plus marker events are validated by TLC against spec/TraceSimIO.tla (re-uses SimIO's actions).
  GEN+REPLAY  crash schedules are taken from TLC (every crashed state of the exhaustive run, and the
          counterexamples of refuted invariants), mapped to `strace -e inject=<call>:signal=KILL:when=n`,
          executed against the real code (kill, project the surviving files, resume, optionally kill again,
          run to the end); the resulting executions (with the projections of the surviving files inside
          the crash events) are again validated by TLC, which evaluates SimIO's properties along them,
          and the final results are compared with the uninterrupted run.
  SIGINT  the graceful abort (handle_abort_signal / save_at_checkpoint) is exercised by injecting SIGINT at recorded
          system calls: the run has to continue to the next checkpoint, save, end; then it is resumed.
  thorough: all workloads (DMRG two-site / single-site / with mixer, TEBD, TDVP two-site / single-site, ExpMPO, with
          and without truncation, pickle and HDF5); additionally every system call of the uninterrupted run is a
          crash point (HDF5: every 3rd / 5th call).
  The constants describe the code as it is: Protocol "replace" (save under the backup name, os.replace over the
  output file), resume data with the accumulated truncation error, is_converged() guarded against empty statistics.
  The legacy configurations (Protocol "legacy", SavesAcc / GuardStats FALSE, safe_write off) are model-checked as
  witnesses that TLC has to refute -- the properties are not vacuous.
"""
import concurrent.futures as cf
import json
import os
import random
import re
import shutil
import time

from harness import core, tlc, tlaval, crash

SPEC_INV_HOLD = ['TypeOK', 'MeasPrefixOfIdeal', 'FinalEqual', 'ResumeRuns', 'NoStuck', 'FirstCrashSafe',
                 'AlwaysACompleteFile', 'NeverOnlyPartial', 'CrashedHasComplete', 'SavedIsCheckpoint']
VIOL_BITS = ['AlwaysACompleteFile', 'NeverOnlyPartial', 'MeasPrefixOfIdeal', 'FinalEqual', 'ResumeRuns', 'RealNoCompleteFile',
             'SavedIsCheckpoint']
SPEC_INV_FILE = ['AlwaysACompleteFile', 'NeverOnlyPartial']

# workloads (harness/crash.py: workload_params) and the shape of their engine loop
WL = {
    'dummy':        dict(kind='dummy', meas=False, nsteps=2),
    'dummy_meas':   dict(kind='dummy', meas=True, nsteps=2),
    'dmrg2':        dict(kind='iter', meas=True, nsteps=3),
    'dmrg2_min1':   dict(kind='iter', meas=True, nsteps=4, min1=True),
    'dmrg1':        dict(kind='iter', meas=True, nsteps=3),
    'dmrg1m':       dict(kind='iter', meas=True, nsteps=3, mixer=True),
    'tebd':         dict(kind='tevo', meas=False, nsteps=3),
    'tebd_trunc':   dict(kind='tevo', meas=False, nsteps=3, trunc=True),
    'tdvp':         dict(kind='tevo', meas=False, nsteps=3),
    'tdvp_trunc':   dict(kind='tevo', meas=False, nsteps=3, trunc=True),
    'expmpo':       dict(kind='tevo', meas=False, nsteps=3),
    'expmpo_trunc': dict(kind='tevo', meas=False, nsteps=3, trunc=True),
    'tdvp1':        dict(kind='tevo', meas=False, nsteps=3),
}


def consts(wl, **over):
    w = WL[wl]
    c = dict(Kind=w['kind'], NSteps=w['nsteps'], MeasAtCkpt=bool(w['meas']),
             MinSweeps=(1 if w.get('min1') else (w['nsteps'] - 1 if w['kind'] == 'iter' else 0)),
             NSub=(2 if w['kind'] == 'tevo' else 1),     # harness/crash.py: N_steps = 2 evolve_step calls per engine.run
             SubCkpt=False, TruncErr=bool(w.get('trunc')), SavesAcc=True, GuardStats=True, SafeWrite=True, Protocol='replace',
             MaxWrites=2, MaxCrashes=2, AllowRestart=True)
    c.update(over)
    return c


def wl_sig(wl):
    w = WL[wl]
    s = dict(workload_kind=w['kind'])
    if w['kind'] == 'iter':
        s['min_sweeps_lt_sweeps'] = bool(w.get('min1'))
        s['mixer'] = bool(w.get('mixer'))
    if w['kind'] == 'tevo':
        s['truncating'] = bool(w.get('trunc'))
    return s


# ------------------------------------------------------------------------------------------------
# MC
# ------------------------------------------------------------------------------------------------
def mc_run(c, invariants, dump=False, workers=4):
    cfg = dict(spec='Spec', constants=c, invariants=invariants, view='AbsView')
    res, dump_path, d = tlc.mc('SimIO', cfg, dump=dump, workers=workers, max_heap='2g')
    return res, dump_path, d


def plan_from_ops(records, final_crash=True):
    """records: the `last` records of a behaviour (start excluded) -> list of incarnations for a plan."""
    incs = [dict(mode='run', f=None, ops=[])]
    crashed = False
    for l in records:
        op = l['op']
        if op == 'crash':
            crashed = True
            continue
        if op in ('resume', 'restart'):
            incs.append(dict(mode=op, f=l.get('f'), ops=[]))
            crashed = False
            continue
        if op == 'tau' or op == 'start':
            continue
        incs[-1]['ops'].append(dict(l))
    if not crashed and not final_crash:
        incs[-1]['ops'] = None      # run to the end
    return incs


def with_last(l, st_after):
    """mark the write call that completed the data of the file"""
    return dict(l, last=(st_after in ('complete', 'text')))


def normalise_ops(incs, kind):
    """drop steps that leave no record in a real trace, merge write calls"""
    out = []
    for inc in incs:
        if inc['ops'] is None:
            out.append(inc)
            continue
        ops = []
        for l in inc['ops']:
            if l['op'] == 'sub' or (l['op'] == 'alg' and kind != 'dummy'):
                continue
            if l['op'] == 'write' and ops and ops[-1]['op'] == 'write' and ops[-1]['f'] == l['f']:
                ops[-1]['n'] += l['n']
                ops[-1]['last'] = l.get('last', False)
                continue
            ops.append(dict(l))
        out.append(dict(inc, ops=ops))
    return out


# ------------------------------------------------------------------------------------------------
# comparison of a final summary with the uninterrupted run
# ------------------------------------------------------------------------------------------------
def compare_summaries(ref, got, tol=1e-8):
    import numpy as np
    diffs = []
    if not got.get('finished'):
        diffs.append('finished_run')
    rm, gm = ref['measurements'], got.get('measurements', {})
    for key in sorted(set(rm) | set(gm)):
        if key not in rm or key not in gm:
            diffs.append('measurements.' + key + ':missing')
            continue
        a, b = rm[key], gm[key]
        if isinstance(a, str) or isinstance(b, str):
            if a != b:
                diffs.append('measurements.' + key)
            continue
        a, b = np.asarray(a, float), np.asarray(b, float)
        if a.shape != b.shape:
            diffs.append('measurements.' + key + ':length' if a.shape[:1] != b.shape[:1] else 'measurements.' + key + ':shape')
        elif not np.allclose(a, b, rtol=tol, atol=tol, equal_nan=True):
            diffs.append('measurements.' + key)
    if 'energy' in ref:
        if 'energy' not in got or abs(ref['energy'] - got['energy']) > tol * max(1., abs(ref['energy'])):
            diffs.append('energy')
    if 'psi' in ref:
        if 'psi' not in got:
            diffs.append('psi:missing')
        else:
            a = np.array([complex(*x) for x in ref['psi']])
            b = np.array([complex(*x) for x in got['psi']])
            if a.shape != b.shape:
                diffs.append('psi:shape')
            else:
                ov = abs(np.vdot(a, b))
                na, nb = np.linalg.norm(a), np.linalg.norm(b)
                if abs(na - nb) > 1e-7 * max(1., na) or abs(ov - na * nb) > 1e-7 * max(1., na * nb):
                    diffs.append('psi')
    for key in ref:
        if key.startswith('resume_') and key != 'resume_energy':
            if key not in got or abs(ref[key] - got[key]) > tol:
                diffs.append(key)
    return diffs


def acc_units(ref, summ, ks):
    """project the measured accumulated truncation error onto the spec's unit (number of steps whose error is
    contained) using the step errors of the uninterrupted run; -1 = not of that form"""
    eps = summ.get('measurements', {}).get('eps_error')
    if eps is None:
        return [0] * len(ks)
    E = ref['measurements']['eps_error']       # uninterrupted: E[k] after k steps
    out = []
    for e, k in zip(eps, ks):
        found = -1
        if k < len(E):
            for j in range(0, k + 1):
                target = E[k] - E[k - j]
                if abs(e - target) <= 1e-12 + 1e-7 * abs(target):
                    found = j
                    break
        out.append(found)
    return out


# ------------------------------------------------------------------------------------------------
class C18:
    def __init__(self, ctx):
        self.ctx = ctx
        self.quick = ctx.tier == 'quick'
        self.root = tlc.scratch('c18')
        self.pool = cf.ProcessPoolExecutor(max_workers=10 if self.quick else 12)
        self.refs = {}        # (wl, fmt) -> dict(raw, events, summary)
        self.results = []     # executed plans: (plan, result)
        self.rnd = random.Random(ctx.seed)
        self.pid = 0
        self.notes = ctx.notes.setdefault('c18', {})
        self.mc_dumps = {}
        self.unmapped_cex = []
        self.rep = {}

    def close(self):
        self.pool.shutdown(wait=True, cancel_futures=True)
        shutil.rmtree(self.root, ignore_errors=True)

    # ---- MC ------------------------------------------------------------------------------------
    def stage_mc(self, wls):
        ctx = self.ctx
        seen = {}
        for wl in wls:
            key = json.dumps(consts(wl), sort_keys=True)
            seen.setdefault(key, []).append(wl)
            self.rep[wl] = seen[key][0]      # workloads with the same constants share the MC runs
        jobs = []
        big = {} if self.quick else dict(MaxCrashes=3, MaxWrites=3)
        for n, (key, names) in enumerate(seen.items()):
            wl = names[0]
            # quick: the exhaustive run that checks the properties also provides the state cover for GEN
            jobs.append(('hold', wl, consts(wl, **big), SPEC_INV_HOLD, self.quick))
            if not self.quick:
                jobs.append(('gen', wl, consts(wl), ['TypeOK'], True))
        # witness configurations (once): TLC has to refute each of them, otherwise the properties are vacuous
        wl0 = wls[0]
        wi = [w for w in wls if WL[w].get('min1')] or ['dmrg2_min1']
        wt = [w for w in wls if WL[w].get('trunc')] or ['tebd_trunc']
        jobs.append(('witness:safe_write-off', wl0, consts(wl0, SafeWrite=False, MaxCrashes=1), ['CrashedHasComplete'], False))
        jobs.append(('witness:legacy-protocol', wl0, consts(wl0, Protocol='legacy'), SPEC_INV_FILE, False))
        jobs.append(('witness:legacy-single-crash', wl0, consts(wl0, Protocol='legacy', MaxCrashes=1),
                     ['CrashedHasComplete'], False))
        jobs.append(('witness:no-stats-guard', wi[0], consts(wi[0], GuardStats=False), ['ResumeRuns'], False))
        jobs.append(('witness:acc-not-saved', wt[0], consts(wt[0], SavesAcc=False), ['MeasPrefixOfIdeal'], False))
        wte = [w for w in wls if WL[w]['kind'] == 'tevo'] or ['expmpo']
        jobs.append(('witness:checkpoint-inside-engine-run', wte[0], consts(wte[0], SubCkpt=True), ['SavedIsCheckpoint'], False))
        jobs.append(('witness:checkpoint-inside-engine-run-final', wte[0], consts(wte[0], SubCkpt=True), ['FinalEqual'], False))
        out = []
        with cf.ThreadPoolExecutor(max_workers=4) as tp:
            # one worker: breadth-first search then returns a shortest (and reproducible) counterexample
            futs = [tp.submit(mc_run, c, inv, dump, 1) for (_, _, c, inv, dump) in jobs]
            for job, fut in zip(jobs, futs):
                out.append((job, fut.result()))
        candidates = []
        for (what, wl, c, inv, dump), (res, dump_path, d) in list(out):
            if what == 'hold' and dump and res.violated:
                # refuted: the state dump is incomplete; enumerate the states without the properties
                shutil.rmtree(d, ignore_errors=True)
                out.append((('gen', wl, consts(wl), ['TypeOK'], True), mc_run(consts(wl), ['TypeOK'], True, 1)))
        for (what, wl, c, inv, dump), (res, dump_path, d) in out:
            ctx.add_mc('SimIO[%s:%s]' % (what, wl), res)
            if what == 'hold' and dump and not res.violated:
                self.mc_dumps[wl] = (dump_path, d, c)
                continue
            if what == 'gen':
                self.mc_dumps[wl] = (dump_path, d, c)
                if res.violated:
                    raise core.MachineryError('SPEC: TypeOK violated in SimIO for %s' % wl)
                continue
            shutil.rmtree(d, ignore_errors=True)
            if what.startswith('witness:'):
                self.notes.setdefault('witness_configurations', {})[what[8:]] = dict(
                    violated=res.violated, counterexample_length=len(res.error_trace), states=res.distinct)
                if what == 'witness:legacy-single-crash':
                    # (the legacy protocol survived one crash; it took a resume and a second crash to lose the results)
                    if res.violated:
                        raise core.MachineryError('SPEC: legacy protocol: a single crash already violates %s' % res.violated)
                elif not res.violated:
                    raise core.MachineryError('SPEC: witness configuration %s is not refuted by TLC (vacuous property?)' % what)
                continue
            if res.violated:
                candidates.append((wl, res.violated[0], res.error_trace, c))
        # every action of the spec must have been taken by some configuration
        self.check_action_coverage()
        return candidates

    def check_action_coverage(self):
        never = [a for a, (d, t) in self.ctx.coverage_actions.items() if a.startswith('Do') and t == 0]
        self.notes['actions_never_taken'] = never
        if never and not self.ctx.only and not self.ctx.replay_file:
            raise core.MachineryError('SimIO actions never taken in MC (vacuity): %s' % never)

    # ---- reference executions --------------------------------------------------------------------
    def stage_refs(self, pairs):
        futs = {}
        for wl, fmt in pairs:
            t = dict(dir=os.path.join(self.root, 'ref-%s-%s' % (wl, fmt)), base=None, workload=wl, fmt=fmt,
                     nsteps=WL[wl]['nsteps'], tag='ref', mode='run', resume_file=None, kill=None)
            futs[(wl, fmt)] = self.pool.submit(crash.run_incarnation, t)
        for key, fut in futs.items():
            try:
                r = fut.result()
            except crash.CrashMachineryError as e:
                raise core.MachineryError(str(e))
            if r['killed'] or r.get('summary', {}).get('status') != 'ok':
                raise core.MachineryError('uninterrupted run of %s failed: %s' % (key, r.get('traceback', r.get('exit'))))
            self.refs[key] = r
        # the uninterrupted runs themselves are traces to validate
        plans = []
        for (wl, fmt), r in self.refs.items():
            res = dict(id=self.new_id(), trace=crash.clean_events(r['raw']), incs=[], classes=[],
                       final=dict(summary=r['summary'], proj=r['proj']), nruns=1, wall=r['wall'])
            plan = dict(id=res['id'], workload=wl, fmt=fmt, origin='uninterrupted', incs=[])
            self.results.append((plan, res))

    def new_id(self):
        self.pid += 1
        return self.pid

    # ---- plans ---------------------------------------------------------------------------------
    def make_plan(self, wl, fmt, incs, origin, final_pref='out', maxwrites=2):
        pid = self.new_id()
        return dict(id=pid, workload=wl, fmt=fmt, nsteps=WL[wl]['nsteps'], incs=incs, origin=origin,
                    final_pref=final_pref, maxwrites=maxwrites, seed=self.ctx.seed * 100003 + pid,
                    dir=os.path.join(self.root, 'p%d' % pid), ref0=self.refs[(wl, fmt)]['raw'])

    def plans_from_dump(self, wl, fmt, limit1, limit2):
        """crash schedules = the crashed states of the exhaustive run (state cover with VIEW)"""
        dump_path, d, c = self.mc_dumps[self.rep[wl]]
        kind = WL[wl]['kind']
        one, two = {}, {}
        nstates = unreal = 0
        for st in tlaval.iter_dump(dump_path):
            nstates += 1
            if st['pc'] != 'crashed' or not st['hist']:
                continue
            recs = [with_last(h['l'], h['o'][h['l']['f']]['st']) if h['l']['op'] == 'write' else h['l'] for h in st['hist']]
            incs = normalise_ops(plan_from_ops(recs), kind)
            ncr = sum(1 for l in recs if l['op'] == 'crash')
            if incs[0]['ops'] is not None and \
                    crash.align(incs[0]['ops'], self.refs[(wl, fmt)]['raw'], c['MaxWrites'], random.Random(0)) is None:
                unreal += 1      # e.g. "some but not all write calls done" when the real save is one write call
                continue
            key = json.dumps(incs, sort_keys=True)
            o = st['hist'][-1]['o']
            both = o['out']['st'] == 'complete' and o['bak']['st'] == 'complete'
            bad = not (o['out']['st'] == 'complete' or o['bak']['st'] == 'complete') and st['saved']
            (one if ncr == 1 else two).setdefault(key, (incs, both, bad))
        self.notes.setdefault('gen', {})[wl] = dict(states=nstates, crashed_1=len(one), crashed_2=len(two), crashed_not_realisable=unreal)
        plans = []

        def emit(pool, limit):
            items = sorted(pool.items())
            self.rnd.shuffle(items)
            items.sort(key=lambda kv: not kv[1][2])       # states without a complete file first
            for key, (incs, both, bad) in items[:limit]:
                plans.append(self.make_plan(wl, fmt, incs, 'tlc-crashed-state', 'out', c['MaxWrites']))
                if both:
                    plans.append(self.make_plan(wl, fmt, incs, 'tlc-crashed-state', 'bak', c['MaxWrites']))
        emit(one, limit1)
        emit(two, limit2)
        return plans

    def plans_all_calls(self, wl, fmt, stride=1):
        """every recorded system call of the uninterrupted run is a crash point"""
        raw = self.refs[(wl, fmt)]['raw']
        plans = []
        idxs = list(range(0, len(raw), stride))
        for i in idxs:
            plans.append(self.make_plan(wl, fmt, [dict(mode='run', f=None, raw_idx=i)], 'every-call'))
        return plans

    def plans_after_saves(self, wl, fmt):
        """a crash right after every completed save of the uninterrupted run (taken from the recorded execution, so it
        also visits saves the specification does not know about)"""
        raw = self.refs[(wl, fmt)]['raw']
        idx = [i + 1 for i, e in enumerate(raw) if e['ev'] and (e['ev'].get('op') == 'rename' and e['ev'].get('t') == 'out')]
        return [self.make_plan(wl, fmt, [dict(mode='run', f=None, raw_idx=i)], 'after-save') for i in idx if i < len(raw)]

    def plan_foreign_file(self, wl, fmt):
        """the directory already holds the finished results `r.<fmt>` of an earlier, different simulation: this one is
        moved to `r_1.<fmt>` by fix_output_filenames; it is killed after its first save and resumed from `r_1.<fmt>`.
        The earlier file belongs to nobody in the specification: every modification of it is an event no action matches."""
        p = self.make_plan(wl, fmt, [dict(mode='run', f=None, after_save=1)], 'foreign-file')
        p.update(shifted=True, ref0=None)
        return p

    def plans_sigint(self, wl, fmt, stride=1):
        """SIGINT (Ctrl-C / scancel --signal=INT) delivered at a recorded system call: handle_abort_signal sets a
        flag, the run continues to the next checkpoint, saves and ends with KeyboardInterrupt; then resume"""
        raw = self.refs[(wl, fmt)]['raw']
        # only while the simulation's own handler is installed (`with sim:`), i.e. from the first measurement on
        first = min(i for i, e in enumerate(raw) if e['ev'] and e['ev'].get('op') == 'marker' and
                    e['ev']['text'].split()[0] in ('meas', 'alg', 'ckpt'))
        last = max(i for i, e in enumerate(raw) if e['ev'] and e['ev'].get('op') == 'marker' and e['ev']['text'] == 'done')
        return [self.make_plan(wl, fmt, [dict(mode='run', f=None, raw_idx=i, sig='INT')], 'sigint')
                for i in range(first, last, stride)]

    def run_plans(self, plans):
        t0 = time.time()
        futs = [(p, self.pool.submit(crash.execute_plan, p)) for p in plans]
        for p, fut in futs:
            try:
                r = fut.result()
            except crash.CrashMachineryError as e:
                raise core.MachineryError(str(e))
            p = dict(p)
            p.pop('ref0', None)
            if r.get('unaligned'):
                # the crash position of the spec has no counterpart in this execution (e.g. "some but not all
                # write calls done" when the real save is a single write call)
                self.notes['plans_unaligned'] = self.notes.get('plans_unaligned', 0) + 1
                if p['origin'].startswith('mc-counterexample'):
                    self.unmapped_cex.append(p)
                continue
            self.results.append((p, r))
        self.notes['replay_wall_s'] = round(self.notes.get('replay_wall_s', 0) + time.time() - t0, 1)

    # ---- TLC validation of everything that was executed --------------------------------------------
    def finish_trace(self, plan, res):
        """append the `done` event (final results as the spec sees them)"""
        tr = list(res['trace'])
        fin = res['final']
        ref = self.refs[(plan['workload'], plan['fmt'])]
        summ = fin.get('summary') or {}
        if tr and tr[-1]['op'] == 'done':
            ks = [int(x) for x in summ['measurements'].get('verif_k', [])]
            accs = acc_units(ref['summary'], summ, ks)
            k = fin['proj']['out'].get('k')
            tr[-1] = dict(op='done', k=-1 if k is None else k, ks=ks, accs=accs)
        # a `done` that is not the end of the execution has no results attached: TLC will reject the trace there
        return [dict(e, k=-1, ks=[], accs=[]) if e['op'] == 'done' and 'ks' not in e else e for e in tr]

    def stage_validate(self):
        ctx = self.ctx
        groups = {}
        for plan, res in self.results:
            groups.setdefault(plan['workload'], []).append((plan, res))
        verdicts = {}
        canary_ids = set()
        jobs = []
        for wl, items in groups.items():
            lines = []
            for plan, res in items:
                tr = self.finish_trace(plan, res)
                res['tlc_trace'] = tr
                lines.append(json.dumps(dict(id=plan['id'], ev=no_null(tr))))
            # canaries: corrupted copies of the first trace must be rejected
            base = items[0][1]['tlc_trace']
            for n, bad in enumerate(corruptions(base, self.rnd)):
                cid = 900000 + 100 * len(jobs) + n
                canary_ids.add(cid)
                lines.append(json.dumps(dict(id=cid, ev=no_null(bad))))
            d = tlc.scratch('c18tr')
            tf = os.path.join(d, 'traces.ndjson')
            with open(tf, 'w') as f:
                f.write('\n'.join(lines) + '\n')
            c = consts(wl, MaxWrites=1000000, MaxCrashes=8)
            cfg = tlc.write_cfg(os.path.join(d, 'TraceSimIO.cfg'), spec='TraceSpec', constants=c)
            jobs.append((wl, d, tf, cfg, [p['id'] for p, _ in items]))

        def run(job):
            wl, d, tf, cfg, ids = job
            r = tlc.run(os.path.join(tlc.SPEC_DIR, 'TraceSimIO.tla'), cfg, workers=1, env=dict(TRACE_FILE=tf), timeout=1500)
            tlc.require_clean(r, 'TraceSimIO[%s]' % wl)
            return r
        with cf.ThreadPoolExecutor(max_workers=4) as tp:
            rs = list(tp.map(run, jobs))
        for job, r in zip(jobs, rs):
            wl, d, tf, cfg, ids = job
            ctx.states += r.distinct
            ctx.transitions += r.generated
            ctx.mc_runs.append(dict(name='TraceSimIO[%s]' % wl, traces=len(ids), **r.summary()))
            for m in re.finditer(r'<<\s*"ACCEPT",\s*(\d+),\s*(\d+)\s*>>', r.stdout):
                code = int(m.group(2))
                verdicts[int(m.group(1))] = [n for b, n in enumerate(VIOL_BITS) if code >> b & 1]
            rejected = [i for i in ids if i not in verdicts]
            if rejected:
                self.diagnose(job, rejected)
            shutil.rmtree(d, ignore_errors=True)
        bad_canaries = [c for c in canary_ids if c in verdicts]
        self.notes['canary_traces_rejected'] = len(canary_ids) - len(bad_canaries)
        if bad_canaries or not canary_ids:
            raise core.MachineryError('corrupted traces were accepted by TraceSimIO: %s' % bad_canaries)
        self.verdicts = verdicts

    def diagnose(self, job, rejected):
        """longest matched prefix of rejected traces (second TLC run with a state dump on <<tid, l>>)"""
        wl, d, tf, cfg, ids = job
        with open(tf) as f:
            lines = [json.loads(x) for x in f.read().strip().split('\n')]
        sel = [x for x in lines if x['id'] in rejected]
        tf2 = os.path.join(d, 'rej.ndjson')
        with open(tf2, 'w') as f:
            f.write('\n'.join(json.dumps(x) for x in sel) + '\n')
        c = consts(wl, MaxWrites=1000000, MaxCrashes=8)
        cfg2 = tlc.write_cfg(os.path.join(d, 'Rej.cfg'), spec='TraceSpec', constants=c)
        dump = os.path.join(d, 'rej')
        r = tlc.run(os.path.join(tlc.SPEC_DIR, 'TraceSimIO.tla'), cfg2, workers=1, env=dict(TRACE_FILE=tf2), dump=dump,
                    timeout=1500)
        tlc.require_clean(r, 'TraceSimIO diagnose')
        best = {}
        for st in tlaval.iter_dump(dump + '.dump'):
            t = st['tid']
            if st['l'] >= best.get(t, (0, None))[0]:
                best[t] = (st['l'], dict(pc=st['pc'], out=st['out'].get('st'), bak=st['bak'].get('st'), last=st['last']))
        self.rejected = getattr(self, 'rejected', {})
        for n, x in enumerate(sel):
            l, spec_state = best.get(n + 1, (1, None))
            self.rejected[x['id']] = dict(matched=l - 1, next_event=x['ev'][l - 1] if l - 1 < len(x['ev']) else None,
                                          spec_state=tlaval.to_jsonable(spec_state))

    # ---- verdicts -> cases / violations --------------------------------------------------------
    def stage_report(self):
        ctx = self.ctx
        nscen = 0
        for plan, res in self.results:
            wl, fmt = plan['workload'], plan['fmt']
            sig0 = wl_sig(wl)
            ref = self.refs[(wl, fmt)]
            res['unaligned_later'] = any(i.get('unaligned') for i in res['incs'])
            res['incs'] = [i for i in res['incs'] if not i.get('unaligned')]
            detail = dict(plan=dict((k, v) for k, v in plan.items() if k not in ('ref0',)), incarnations=res['incs'],
                          trace=res.get('tlc_trace'), final=dict(summary=(res['final'] or {}).get('summary'),
                                                                 traceback=(res['final'] or {}).get('traceback')))
            pattern = self.pattern(res)
            # one case per crash point / incarnation
            for inc in res['incs']:
                ctx.case(('inc', wl, fmt, plan['origin'], [(i.get('kill_idx'), i.get('f')) for i in res['incs'][:inc['n'] + 1]]),
                         action='crash@' + inc.get('crash_class', 'none') if inc.get('killed') else 'run-to-end:' + str(inc.get('mode')))
            if not res['incs']:
                ctx.case(('ref', wl, fmt), action='uninterrupted')
            nscen += 1
            missed = [i for i in res['incs'] if i.get('kill_missed')]
            if missed and plan['origin'] == 'sigint':
                # the signal arrived but the run went on to its end: fine iff no checkpoint followed
                i = missed[0]['kill_idx']
                later_ckpt = any(e['ev'] and e['ev'].get('op') == 'marker' and e['ev']['text'].startswith('ckpt')
                                 for e in ref['raw'][i + 1:])
                if later_ckpt:
                    ctx.violation(dict(kind='sigint-ignored', **sig0), detail)
            elif missed:
                self.notes['kill_missed'] = self.notes.get('kill_missed', 0) + 1
            final = res['final'] or {}
            summ = final.get('summary') or {}
            # bookkeeping for the evidence: crash points after the first completed save / of those with a complete file
            done_save = False
            for e in res.get('tlc_trace', []):
                if e['op'] == 'rename' and e.get('t') == 'out' or e['op'] == 'close' and e.get('f') == 'out':
                    done_save = True
                if e['op'] == 'crash' and done_save:
                    self.notes['crash_points_after_a_completed_save'] = self.notes.get('crash_points_after_a_completed_save', 0) + 1
                    if e['out']['st'] == 'complete' or e['bak']['st'] == 'complete':
                        self.notes['of_those_with_a_complete_file'] = self.notes.get('of_those_with_a_complete_file', 0) + 1
            # (1) resume equivalence on the real numbers: final results equal those of the uninterrupted run
            diffs = []
            if summ.get('status') == 'ok' and res['incs']:
                diffs = compare_summaries(ref['summary'], summ)
                keys = sorted(set(re.sub(r':.*', '', x) for x in diffs))
                if diffs:
                    ctx.violation(dict(kind='resume-equivalence', differing=keys, **sig0),
                                  dict(detail, differences=diffs, reference=ref['summary']))
            # (2) TLC's verdict on the recorded execution
            if plan['id'] not in self.verdicts:
                rej = getattr(self, 'rejected', {}).get(plan['id'], {})
                ne = rej.get('next_event') or {}
                if ne.get('f') == 'other' or ne.get('t') == 'other' or res.get('foreign_changed'):
                    # the simulation modified a file that is not one of its two files
                    ctx.violation(dict(kind='foreign-file-touched'),
                                  dict(detail, rejected=rej, foreign_changed=res.get('foreign_changed')))
                    continue
                if ne.get('op') == 'exc' and res['incs']:
                    # the real run aborted where the spec says it continues
                    ctx.violation(dict(kind='run-aborted', exception=summ.get('status'),
                                       after=res['incs'][-1].get('mode'), **sig0), dict(detail, rejected=rej))
                    continue
                ctx.violation(dict(kind='trace-rejected', spec='SimIO', at=ne.get('op'), f=ne.get('f'), fmt=fmt, **sig0),
                              dict(detail, rejected=rej))
                # TLC could not follow the execution; the file invariant can still be evaluated on the projections
                done_save = False
                for e in res.get('tlc_trace', []):
                    if e['op'] == 'close' and e.get('f') == 'out' or e['op'] == 'rename' and e.get('t') == 'out':
                        done_save = True
                    if e['op'] == 'crash' and done_save and e['out']['st'] != 'complete' and e['bak']['st'] != 'complete':
                        ctx.violation(dict(kind='property', name='RealNoCompleteFile', pattern=pattern, **sig0), detail)
                        break
                continue
            ctx.trace_ok(1)
            if res.get('foreign_changed'):
                ctx.violation(dict(kind='foreign-file-touched'), dict(detail, foreign_changed=res['foreign_changed']))
            viol = self.verdicts[plan['id']]
            res['viol'] = viol
            if 'RealNoCompleteFile' in viol:
                ctx.violation(dict(kind='property', name='RealNoCompleteFile', pattern=pattern, **sig0), detail)
            if 'SavedIsCheckpoint' in viol:
                ctx.violation(dict(kind='property', name='SavedIsCheckpoint', **sig0), detail)
            if 'ResumeRuns' in viol:
                exc = (summ.get('status') or '').replace('exception:', '')
                ctx.violation(dict(kind='property', name='ResumeRuns', exception=exc, **sig0), detail)
            if summ.get('status') == 'ok' and res['incs']:
                if not diffs and ('MeasPrefixOfIdeal' in viol or 'FinalEqual' in viol):
                    # the spec state was wrong in the middle of the execution (e.g. a measurement taken after a
                    # resume that a later crash destroyed again); nothing observable in the final results
                    self.notes['property_false_only_in_unobserved_state'] = \
                        self.notes.get('property_false_only_in_unobserved_state', 0) + 1
            elif summ.get('status', 'ok') != 'ok' and 'ResumeRuns' not in viol:
                ctx.violation(dict(kind='run-aborted', exception=summ.get('status'),
                                   after=(res['incs'][-1].get('mode') if res['incs'] else 'run'), **sig0), detail)
            if len(ctx.samples) < 3 and res['incs'] and any(i.get('killed') for i in res['incs']):
                ctx.sample(dict(workload=wl, fmt=fmt, origin=plan['origin'],
                                incarnations=[dict((k, i.get(k)) for k in ('mode', 'f', 'kill', 'crash_class', 'proj'))
                                              for i in res['incs']],
                                tlc_verdict=viol, events=len(res.get('tlc_trace', []))))
        self.notes['scenarios'] = nscen
        self.notes['child_runs'] = sum(r['nruns'] for _, r in self.results)
        km = self.notes.get('kill_missed', 0)
        if km > max(2, nscen // 10):
            raise core.MachineryError('%d injected kills did not fire (non-deterministic call sequence?)' % km)

    @staticmethod
    def pattern(res):
        """normalised history of the last two crashes (for known-finding matching)"""
        killed = [i for i in res['incs'] if i.get('killed')]
        if not killed:
            return []
        pat = []
        if len(killed) >= 2:
            a = killed[-2]
            pat.append('crash:' + a['crash_class'])
        b = killed[-1]
        if b['mode'] != 'run':
            pat.append('%s:%s' % (b['mode'], b['f']) if b['mode'] == 'resume' else 'restart')
        cls = b['crash_class']
        if len(killed) >= 2 and cls in ('unlinked-bak', 'renamed', 'write'):
            cls = 'unlink-bak..close'
        pat.append('crash:' + cls)
        return pat

    # ---- byte prefixes -----------------------------------------------------------------------------
    def stage_prefixes(self, pairs):
        ctx = self.ctx
        for wl, fmt in pairs:
            ref = self.refs[(wl, fmt)]
            path = os.path.join(ref['dir'], crash.file_names(fmt)[0])
            size = os.path.getsize(path)
            n = 12 if self.quick else 60
            offs = sorted(set([1, 2, size - 1, size - 2, size // 2] + [self.rnd.randrange(1, size) for _ in range(n)]))
            size, out = crash.truncation_probe(path, offs)
            for off, st in out:
                ctx.case(('prefix', wl, fmt, off), action='byte-prefix')
                if st == 'complete':
                    ctx.violation(dict(kind='prefix-loads', fmt=fmt),
                                  dict(workload=wl, offset=off, size=size, what='a strict byte prefix of a results file loads'))


def no_null(v):
    """TLC's Json module has no null: an unknown number / name becomes -1"""
    if v is None:
        return -1
    if isinstance(v, dict):
        return dict((k, no_null(x)) for k, x in v.items())
    if isinstance(v, list):
        return [no_null(x) for x in v]
    return v


def corruptions(tr, rnd):
    """three corrupted copies of a trace which TraceSimIO has to reject"""
    out = []
    idx = [i for i, e in enumerate(tr) if e['op'] in ('unlink', 'rename', 'open', 'close') and e.get('f') in ('out', 'bak')]
    if idx:
        i = rnd.choice(idx)
        bad = [dict(e) for e in tr]
        bad[i]['f'] = 'out' if bad[i]['f'] == 'bak' else 'bak'
        out.append(bad)
        j = rnd.choice(idx)
        out.append([dict(e) for n, e in enumerate(tr) if n != j])
    if tr and tr[-1]['op'] == 'done':
        bad = [dict(e) for e in tr]
        bad[-1] = dict(bad[-1], ks=list(bad[-1]['ks']) + [bad[-1]['k']], accs=list(bad[-1]['accs']) + [0])
        out.append(bad)
    return out


# ------------------------------------------------------------------------------------------------
def check(ctx):
    ctx.rule = ('a case = one incarnation of the real simulation process (killed at a crash point chosen by TLC / at a '
                'recorded system call, or run to the end after a resume) or one byte prefix; a trace = one complete '
                'execution (uninterrupted, or crash(es)+resume(s) to the end) validated by TLC against TraceSimIO; distinct = '
                'distinct (workload, format, chain of crash points and resume choices)')
    ctx.assume('TLC', 'strace/ptrace: -P path filter, inject=...:signal=KILL:when=n kills on syscall entry',
               'projection of result files in harness/crash.py (hdf5_io.load succeeds => complete, content read from the file)',
               'the counter algorithm of harness/crash.py follows the Algorithm resume contract',
               'durability across power loss (fsync) is not modelled')
    quick = ctx.tier == 'quick'
    t = C18(ctx)
    try:
        if ctx.replay_file:
            replay(ctx, t)
            return
        if quick:
            wls = ['dummy', 'dummy_meas', 'dmrg2', 'dmrg1m', 'dmrg2_min1', 'tebd_trunc', 'expmpo']
            pairs = [('dummy', 'pkl'), ('dummy_meas', 'h5'), ('dmrg2', 'pkl'), ('dmrg2_min1', 'pkl'), ('tebd_trunc', 'pkl'),
                     ('expmpo', 'pkl'), ('dmrg1m', 'pkl')]
        else:
            wls = list(WL)
            pairs = [(w, f) for w in WL for f in ('pkl', 'h5')]
        if ctx.only:        # debugging: --only wl1,wl2 restricts the workloads (pickle and HDF5, small samples)
            wls = [w for w in WL if w in ctx.only]
            pairs = [(w, f) for w in wls for f in ('pkl', 'h5')]
        t0 = time.time()
        candidates = t.stage_mc(wls)
        t.notes['wall_mc_s'] = round(time.time() - t0, 1)
        t0 = time.time()
        t.stage_refs(pairs)
        t.notes['wall_refs_s'] = round(time.time() - t0, 1)
        plans = []
        # MC counterexamples are candidates: replay them against the real code
        for wl, inv, trace, c in candidates:
            recs = [with_last(st['last'], st[st['last']['f']]['st']) if st['last']['op'] == 'write' else st['last']
                    for _, st in trace[1:]]
            incs = normalise_ops(plan_from_ops(recs, final_crash=(inv in SPEC_INV_FILE + ['FirstCrashSafe', 'CrashedHasComplete'])), WL[wl]['kind'])
            # replayed on the workload TLC ran for (quick) / on every workload with these constants (thorough)
            targets = [(w, f) for (w, f) in pairs if t.rep[w] == wl]
            if quick:
                targets = [x for x in targets if x[0] == wl][:1]
            for w, fmt in targets:
                plans.append(t.make_plan(w, fmt, incs, 'mc-counterexample:' + inv, 'out', c['MaxWrites']))
        t.notes['mc_candidates'] = [(wl, inv) for wl, inv, _, _ in candidates]
        if ctx.only:
            for wl, fmt in pairs:
                plans += t.plans_from_dump(wl, fmt, 6, 3)
        elif quick:
            plans += t.plans_from_dump('dummy', 'pkl', 16, 4)
            plans += t.plans_from_dump('dummy_meas', 'h5', 5, 2)
            plans += t.plans_from_dump('dmrg2', 'pkl', 3, 1)
            plans += t.plans_from_dump('dmrg2_min1', 'pkl', 2, 0)
            plans += t.plans_from_dump('tebd_trunc', 'pkl', 2, 1)
            # ExpMPOEvolution uses the generic TimeEvolutionAlgorithm.evolve loop (N_steps = 2 evolve_step per run)
            plans += t.plans_from_dump('expmpo', 'pkl', 2, 0)
            plans += t.plans_after_saves('expmpo', 'pkl')
            plans += t.plans_from_dump('dmrg1m', 'pkl', 2, 0)       # single-site DMRG with an active mixer
            plans.append(t.plan_foreign_file('dummy', 'pkl'))
            sig = t.plans_sigint('dummy', 'pkl')
            plans += [sig[0], t.rnd.choice(sig[1:])]
        else:
            for wl, fmt in pairs:
                if WL[wl]['kind'] == 'dummy':
                    plans += t.plans_from_dump(wl, fmt, 10000, 40 if fmt == 'pkl' else 12)
                else:
                    plans += t.plans_from_dump(wl, fmt, 10, 4)
            # every recorded system call of the uninterrupted run is a crash point (HDF5: every 3rd / 5th pwrite)
            for wl, fmt in pairs:
                if WL[wl]['kind'] == 'tevo':
                    plans += t.plans_after_saves(wl, fmt)
            for wl, fmt, stride in [('dummy', 'pkl', 1), ('dummy_meas', 'pkl', 1), ('dummy', 'h5', 3), ('dmrg2', 'pkl', 1),
                                    ('tebd', 'pkl', 1), ('tdvp', 'h5', 5)]:
                plans += t.plans_all_calls(wl, fmt, stride)
            plans += t.plans_sigint('dummy', 'pkl', 1) + t.plans_sigint('dmrg2', 'h5', 25) + t.plans_sigint('tebd', 'pkl', 4)
            plans += [t.plan_foreign_file(wl, fmt) for wl, fmt in [('dummy', 'pkl'), ('dummy_meas', 'h5'), ('dmrg2', 'pkl'),
                                                                    ('tebd', 'h5')]]
        for _, (dump_path, d, c) in t.mc_dumps.items():
            shutil.rmtree(d, ignore_errors=True)
        t.notes['plans'] = len(plans)
        t.run_plans(plans)
        t0 = time.time()
        t.stage_validate()
        t.notes['wall_validate_s'] = round(time.time() - t0, 1)
        t.stage_report()
        t.stage_prefixes([p for p in pairs if p[0] in ('dummy', 'dummy_meas', 'dmrg2')][:2 if quick else 6])
        for p in t.unmapped_cex:
            # the uninterrupted run does not even start the way the counterexample does; if TLC accepted that run
            # as a behaviour of the spec, the mapping itself is broken
            ref_id = [pl['id'] for pl, _ in t.results if pl['origin'] == 'uninterrupted' and
                      (pl['workload'], pl['fmt']) == (p['workload'], p['fmt'])]
            if ref_id and ref_id[0] in t.verdicts:
                raise core.MachineryError('cannot map the TLC counterexample onto the real execution: %r' % (p['incs'],))
        # an MC counterexample that the real code does not reproduce means the spec is wrong
        for plan, res in t.results:
            if plan['origin'].startswith('mc-counterexample:'):
                inv = plan['origin'].split(':')[1]
                viol = res.get('viol')
                if viol is None:
                    continue     # rejected trace: reported above
                confirmed = ('RealNoCompleteFile' in viol) if inv in SPEC_INV_FILE + ['FirstCrashSafe', 'CrashedHasComplete'] else \
                    (inv in viol or any(v in viol for v in ('MeasPrefixOfIdeal', 'FinalEqual', 'ResumeRuns')))
                t.notes.setdefault('mc_counterexamples_replayed', []).append(
                    dict(workload=plan['workload'], fmt=plan['fmt'], invariant=inv, confirmed_on_real_code=confirmed))
                if not confirmed:
                    with open(os.path.join(tlc.BUILD, 'c18-debug.json'), 'w') as f:
                        json.dump(dict(plan=plan, res=res), f, indent=1, default=str)
                    raise core.MachineryError('SPEC: TLC refutes %s for %s but the real code does not reproduce the '
                                              'counterexample' % (inv, plan['workload']))
        ctx.exhaustive = not quick
    finally:
        t.close()


def replay(ctx, t):
    with open(ctx.replay_file) as f:
        rep = json.load(f)
    plan = rep['detail']['plan']
    wl, fmt = plan['workload'], plan['fmt']
    t.stage_mc([wl])
    for _, (dump_path, d, c) in t.mc_dumps.items():
        shutil.rmtree(d, ignore_errors=True)
    t.stage_refs([(wl, fmt)])
    p = t.make_plan(wl, fmt, plan['incs'], plan.get('origin', 'replay'), plan.get('final_pref', 'out'), plan.get('maxwrites', 2))
    p['seed'] = plan.get('seed', p['seed'])
    t.run_plans([p])
    t.stage_validate()
    t.stage_report()


if __name__ == '__main__':
    core.main_wrapper('C18', check)
