-------------------------------- MODULE Pipe --------------------------------
(* tenpy.linalg.charges.LegPipe, declaratively.

   A pipe over incoming legs l_1..l_n with outgoing direction qconj and options sort/bunch is
   DEFINED here without reference to q_map / q_map_slices / _perm / _strides:

     * a "qindex tuple" T = (q_1..q_n) picks one block of every incoming leg; its fused charge is
           c(T) = qconj * sum_l qconj_l * charges_l[q_l]   (mod qmod)          -- the fusion rule
       and it holds prod_l size_l[q_l] index tuples;
     * the qindex tuples are put in C-order of (q_1..q_n); if `sort`, they are re-ordered by a
       STABLE sort on c(T) in np.lexsort order (last charge dominant);
     * if `bunch`, maximal runs of equal fused charge form one outgoing block, otherwise every
       qindex tuple is its own outgoing block;
     * inside the slice of a qindex tuple the index tuples are in C-order of the within-block indices.

   The outgoing flat index of an incoming index tuple follows from these four rules (MakePipe.map),
   and equivalently is the rank of its key (charge if sort, C-number of the qindex tuple, C-number
   within the block) among all keys (MapIsKeyRank).  q_map/q_map_slices as documented in the class
   doc-string are derived observers (qmap, qslices).

   State machine: a ChargeInfo and a bound profile are chosen, incoming legs are added one by one from
   the catalogue of all small legs (seeded sample where a rate > 1 is given), Fuse builds the pipe,
   Conj / OuterConj act on it, Nest makes the pipe an incoming leg of a further pipe.  Every state is
   self-contained: `hist` lists the operations, `pipe` is the predicted object. *)
EXTENDS Charges

CONSTANTS Profiles,   \* set of [n, mods, blk, sizes, rates]: number of legs, ChargeInfos, leg bound, 1/rate sample per position
          MaxPost,    \* number of conj / outer_conj steps after a Fuse
          PostRate,   \* 1 = conj / outer_conj after every pipe, r = after a seeded 1/r sample
          ConvRate,   \* the LegCharge methods a pipe inherits (to_LegCharge, sort, bunch, project) are asked in a seeded 1/ConvRate sample of the pipe states
          MaxNest,    \* nesting depth (0 or 1)
          NestRate,   \* a seeded 1/NestRate sample of the pipes with at most NestMax indices is nested into a further pipe
          NestMax,
          NestN,      \* number of legs of the outer pipe (the nested pipe included)
          NestLegRate,\* the further legs: <= 2 blocks of sizes 1..2, a seeded 1/NestLegRate sample
          OpMax,      \* SplitManyOK (two pipes, cutoff; quartic) is evaluated for pipes with at most OpMax index tuples
          DeclMax     \* MapIsKeyRank, SplitAfterCombine (quadratic) are evaluated for pipes with at most DeclMax index tuples

VARIABLES prof,    \* bound profile of the behaviour
          legs,    \* incoming legs collected so far for the pipe under construction
          hacc,    \* hash of the legs chosen so far (drives the seeded sample)
          front,   \* further legs are prepended (a nested pipe sits at the end)
          pipe,    \* the LegPipe: [legs, out, truth, map, qmap, qslices]
          inner,   \* for a nested pipe: innermost legs and index map of the inner pipe, its position
          full     \* for a nested pipe: innermost legs and the composed index map (derived from pipe, inner)

pvars == <<mods, phase, leg, ref, obs, last, nops, hist, prof, legs, hacc, front, pipe, inner, full>>
PView == <<mods, phase, last, nops, prof, legs, hacc, front, pipe, inner>>   \* (hist hidden; full is derived)

------------------------------------------------------------------------------
(* the pipe as a function of its arguments *)

Truth(L) == [sorted |-> IsSortedCh(L.charges), bunched |-> IsBunchedCh(L.charges), blocked |-> IsBlockedCh(L.charges)]
NoPipe == [legs |-> <<>>, out |-> NoLeg, truth |-> Truth(NoLeg), map |-> <<>>, qmap |-> <<>>, qslices |-> <<>>]
NoInner == [legs |-> <<>>, map |-> <<>>, pos |-> 0]

MakePipe(M, Ls, qc, so, bu) ==
    LET n    == Len(Ls)
        nb   == Mat([l \in 1..n |-> Len(Ls[l].sizes)])
        len  == Mat([l \in 1..n |-> SumAll(Ls[l].sizes)])
        NT   == ProdAll(nb)                                   \* number of qindex tuples
        N    == ProdAll(len)                                  \* number of index tuples = ind_len of the pipe
        qst  == Mat([l \in 1..n |-> ProdFrom(nb, l + 1)])         \* C-order strides of qindex tuples
        fst  == Mat([l \in 1..n |-> ProdFrom(len, l + 1)])        \* C-order strides of index tuples
        QI(t, l) == (((t - 1) \div qst[l]) % nb[l]) + 1        \* block (1-based) of leg l in qindex tuple number t
        \* fusion rule
        tch  == Mat([t \in 1..NT |-> MakeValid(M, VScale(qc, VSumTo(M, [l \in 1..n |-> VScale(Ls[l].qconj, Ls[l].charges[QI(t, l)])], n)))])
        tsz  == Mat([t \in 1..NT |-> ProdAll([l \in 1..n |-> Ls[l].sizes[QI(t, l)]])])
        \* order of the qindex tuples in the outgoing leg
        perm == IF so THEN StablePerm(tch) ELSE Mat([t \in 1..NT |-> t])
        rank == Mat([t \in 1..NT |-> CHOOSE r \in 1..NT : perm[r] = t])
        och  == Mat([r \in 1..NT |-> tch[perm[r]]])
        osz  == Mat([r \in 1..NT |-> tsz[perm[r]]])
        ost  == Mat([r \in 1..NT |-> SumTo(osz, r - 1)])          \* first outgoing index of the r-th qindex tuple
        \* outgoing blocks
        fine == MkLeg(osz, och, qc, so \/ Len(M) = 0 \/ NT = 1, NT = 1)
        bun  == IF bu THEN BunchLeg(fine) ELSE [idx |-> Iota(NT + 1), leg |-> fine]
        out  == bun.leg
        Is   == Mat([r \in 1..NT |-> Cardinality({k \in 2..Len(bun.idx) : bun.idx[k] <= r - 1})])  \* outgoing qindex of position r
        \* incoming flat index -> (block, within)
        blk  == Mat([l \in 1..n |-> Mat([i \in 1..len[l] |-> BlockOf(Ls[l].sizes, i - 1)])])
        MapOf(f) == LET ii == Mat([l \in 1..n |-> ((f - 1) \div fst[l]) % len[l]])  \* flat index on leg l (0-based)
                        b  == Mat([l \in 1..n |-> blk[l][ii[l] + 1]])
                        t  == 1 + SumAll([l \in 1..n |-> (b[l] - 1) * qst[l]])
                        bs == Mat([l \in 1..n |-> Ls[l].sizes[b[l]]])
                        w  == SumAll([l \in 1..n |-> (ii[l] - SumTo(Ls[l].sizes, b[l] - 1)) * ProdFrom(bs, l + 1)])
                    IN ost[rank[t]] + w
    IN [legs    |-> Mat([l \in 1..n |-> Plain(Ls[l])]),
        out     |-> out,
        truth   |-> Truth(out),
        map     |-> Mat([f \in 1..N |-> MapOf(f)]),
        \* rows <<b_j, b_{j+1}, I_s, i_1, .., i_n>> as documented
        qmap    |-> Mat([r \in 1..NT |-> <<ost[r] - SumTo(out.sizes, Is[r]), ost[r] + osz[r] - SumTo(out.sizes, Is[r]), Is[r]>>
                                           \o [l \in 1..n |-> QI(perm[r], l) - 1]]),
        qslices |-> bun.idx]

\* LegPipe.conj(): outgoing and incoming directions reversed, nothing else
PipeConj(P) == [P EXCEPT !.legs = [l \in 1..Len(P.legs) |-> [P.legs[l] EXCEPT !.qconj = -P.legs[l].qconj]],
                         !.out = ConjLeg(P.out)]
\* LegPipe.outer_conj(): "like conj, but don't change qconj for incoming legs": the outgoing leg is
\* reversed, so its charges have to be negated for the pipe to remain the fusion of the same legs
PipeOuterConj(M, P) == [P EXCEPT !.out = FlipLeg(M, P.out), !.truth = Truth(FlipLeg(M, P.out))]
\* LegCharge.flip_charges_qconj() is inherited, not overridden: it works on copy(), and the copy of a pipe is a
\* pipe over the SAME incoming legs; so it is outer_conj: same legs, same index map, same effective charges
PipeFlip(M, P) == PipeOuterConj(M, P)

------------------------------------------------------------------------------
(* theorems about one pipe record P over ChargeInfo M *)

LensOf(P) == Mat([l \in 1..Len(P.legs) |-> SumAll(P.legs[l].sizes)])
NTuples(P) == ProdAll(LensOf(P))
\* flat index (0-based) on leg l of the index tuple number f (1-based, C-order)
IdxOf(P, f, l) == LET len == LensOf(P) IN ((f - 1) \div ProdFrom(len, l + 1)) % len[l]

PipeBijectionOf(P) == /\ Len(P.map) = NTuples(P) /\ IndLen(P.out) = NTuples(P)
                      /\ Range(P.map) = 0..(NTuples(P) - 1)

FusionRuleOf(M, P) ==
    LET n   == Len(P.legs)
        len == LensOf(P)
        st  == Mat([l \in 1..n |-> ProdFrom(len, l + 1)])
        of  == EffFlat(M, P.out)
        lf  == Mat([l \in 1..n |-> EffFlat(M, P.legs[l])])
    IN \A f \in 1..ProdAll(len) :
          of[P.map[f] + 1] = MakeValid(M, VSumTo(M, [l \in 1..n |-> lf[l][(((f - 1) \div st[l]) % len[l]) + 1]], n))

\* q_map: rows lex-sorted by (I_s, i_1..i_n), slices contiguous inside a block and covering it, q_map_slices delimit I_s
RowLess(a, b) == \E k \in 3..Len(a) : a[k] < b[k] /\ \A j \in 3..(k - 1) : a[j] = b[j]
QMapOrderedOf(P) ==
    LET q == P.qmap  NT == Len(q)
    IN /\ \A r \in 1..(NT - 1) : RowLess(q[r], q[r + 1])
       /\ \A r \in 1..NT : /\ q[r][1] <= q[r][2]
                           /\ (r = 1 \/ q[r - 1][3] # q[r][3]) => q[r][1] = 0
                           /\ (r > 1 /\ q[r - 1][3] = q[r][3]) => q[r][1] = q[r - 1][2]
                           /\ (r = NT \/ q[r + 1][3] # q[r][3]) => q[r][2] = P.out.sizes[q[r][3] + 1]
       /\ Len(P.qslices) = NBlocks(P.out) + 1
       /\ \A r \in 1..NT : P.qslices[q[r][3] + 1] <= r - 1 /\ r - 1 < P.qslices[q[r][3] + 2]

\* the declarative reading: outgoing index = rank of the key (charge if sort; qindex tuple; within block)
KeyRankOf(M, P, so) ==
    LET n    == Len(P.legs)
        len  == LensOf(P)
        N    == ProdAll(len)
        st   == Mat([l \in 1..n |-> ProdFrom(len, l + 1)])
        of   == QFlat(P.out)
        ix(f, l) == ((f - 1) \div st[l]) % len[l]
        qt   == Mat([f \in 1..N |-> Mat([l \in 1..n |-> BlockOf(P.legs[l].sizes, ix(f, l))])])      \* qindex tuple (1-based blocks)
        wi   == Mat([f \in 1..N |-> Mat([l \in 1..n |-> ix(f, l) - SumTo(P.legs[l].sizes, qt[f][l] - 1)])])   \* within the blocks
        ch   == Mat([f \in 1..N |-> of[P.map[f] + 1]])
        SeqLess(x, y) == \E k \in 1..n : x[k] < y[k] /\ \A j \in 1..(k - 1) : x[j] = y[j]    \* C-order
        KeyLess(f, g) == \/ so /\ LexLess(ch[f], ch[g])
                         \/ /\ (~so \/ ch[f] = ch[g])
                            /\ (SeqLess(qt[f], qt[g]) \/ (qt[f] = qt[g] /\ SeqLess(wi[f], wi[g])))
    IN \A f \in 1..N : P.map[f] = Cardinality({g \in 1..N : KeyLess(g, f)})

\* combine_legs / split_legs on the dense level: T[f] is the entry at the index tuple number f
CombineT(P, T) == [p \in 1..Len(P.map) |-> T[CHOOSE f \in 1..Len(P.map) : P.map[f] = p - 1]]
SplitT(P, C) == [f \in 1..Len(P.map) |-> C[P.map[f] + 1]]
TestTensor(P) == [f \in 1..NTuples(P) |-> f]          \* val[i_1..i_n] = 1 + C-order flat index

\* Several pipes in one tensor: the "operator" O over the ket legs l_1..l_n and the bra legs conj(l_1)..conj(l_n),
\* total charge 0, so O[f][g] may be non-zero iff the index tuples f and g fuse to the same charge.  Its entries are
\* non-positive with zeros in between (-(1 + C-index), 0 where (f + g) is a multiple of 3).  combine_legs with the
\* pipes P and conj(P) gives C[P.map[f]][P.map[g]] = O[f][g].  split_legs(axes) names a SET of legs of C: in
\* whatever order the pipes are undone, by index or by label, the result is O.  split_legs(cutoff = eps) may leave
\* out blocks all of whose entries are <= eps in absolute value; for eps below the smallest non-zero |entry| (the
\* integer stand-in is eps = 0) that never changes the tensor, whatever the signs of the entries are.
Abs(x) == IF x < 0 THEN -x ELSE x
OpVal(N, f, g) == IF (f + g) % 3 = 0 THEN 0 ELSE -((f - 1) * N + g)
OpTensor(M, P) == LET N == Len(P.map)  e == EffFlat(M, P.out)
                  IN Mat([f \in 1..N |-> Mat([g \in 1..N |-> IF e[P.map[f] + 1] = e[P.map[g] + 1] THEN OpVal(N, f, g) ELSE 0])])
InvMap(P) == Mat([p \in 1..Len(P.map) |-> CHOOSE f \in 1..Len(P.map) : P.map[f] = p - 1])
Combine2(P, O) == LET iv == InvMap(P) N == Len(P.map) IN Mat([p \in 1..N |-> Mat([q \in 1..N |-> O[iv[p]][iv[q]]])])
SplitKetThenBra(P, C) == LET N == Len(P.map)
                             S1 == Mat([f \in 1..N |-> C[P.map[f] + 1]])
                         IN Mat([f \in 1..N |-> Mat([g \in 1..N |-> S1[f][P.map[g] + 1]])])
SplitBraThenKet(P, C) == LET N == Len(P.map)
                             T1 == Mat([p \in 1..N |-> Mat([g \in 1..N |-> C[p][P.map[g] + 1]])])
                         IN Mat([f \in 1..N |-> T1[P.map[f] + 1]])
\* q_map row (= block of the split tensor on that side) an index tuple belongs to
RowOf(P, f) == CHOOSE r \in 1..Len(P.qmap) :
                  LET a == SumTo(P.out.sizes, P.qmap[r][3]) IN a + P.qmap[r][1] <= P.map[f] /\ P.map[f] < a + P.qmap[r][2]
DropSmallBlocks(P, O, c) ==
    LET N == Len(P.map)  row == Mat([f \in 1..N |-> RowOf(P, f)])
    IN Mat([f \in 1..N |-> Mat([g \in 1..N |->
            IF \A f2, g2 \in 1..N : (row[f2] = row[f] /\ row[g2] = row[g]) => Abs(O[f2][g2]) <= c THEN 0 ELSE O[f][g]])])
\* The tensor without any stored block (all entries 0) is no exception: combine_legs gives the zero tensor over the
\* two pipes, split_legs the zero tensor over ALL 2n original legs in their original order (shape, legs, labels),
\* in whatever order the pipes are named; new_axes of combine_legs may be given counted from the end (-2, -1).
ZeroOp(P) == LET N == Len(P.map) IN Mat([f \in 1..N |-> Mat([g \in 1..N |-> 0])])
SplitLegsOf(P) == P.legs \o [l \in 1..Len(P.legs) |-> [P.legs[l] EXCEPT !.qconj = -P.legs[l].qconj]]
SplitManyOKOf(M, P) == LET O == OpTensor(M, P)  C == Combine2(P, O)  Z == ZeroOp(P)
                       IN /\ SplitKetThenBra(P, C) = O /\ SplitBraThenKet(P, C) = O
                          /\ DropSmallBlocks(P, O, 0) = O
                          /\ SplitKetThenBra(P, Combine2(P, Z)) = Z /\ SplitBraThenKet(P, Combine2(P, Z)) = Z
                          /\ Len(SplitLegsOf(P)) = 2 * Len(P.legs)
                          /\ ProdAll([l \in 1..(2 * Len(P.legs)) |-> SumAll(SplitLegsOf(P)[l].sizes)]) = Len(P.map) * Len(P.map)

------------------------------------------------------------------------------
(* catalogue profiles.  rates[k] thins the choice of the k-th leg to a seeded 1/rates[k] sample *)

Prof(n, ms, blk, sizes, rates) == [n |-> n, mods |-> ms, blk |-> blk, sizes |-> sizes, rates |-> rates]
NoProf == Prof(0, {}, 0, {}, <<>>)

\* a small exhaustive family (every pipe within the bound is built)
TinyProfiles == {Prof(1, ModsQ01, 2, {0, 1, 2}, <<1>>), Prof(2, ModsQ1, 2, {1, 2}, <<1, 16>>)}

QuickProfiles ==
    { Prof(1, ModsQ0, 3, {0, 1, 2}, <<1>>),
      Prof(1, ModsQ1, 3, {0, 1, 2}, <<14>>),
      Prof(1, ModsQ2, 2, {0, 1, 2}, <<80>>),
      Prof(2, ModsQ0, 3, {0, 1, 2}, <<3, 14>>),
      Prof(2, ModsQ1, 3, {0, 1, 2}, <<60, 360>>),
      Prof(2, ModsQ2Few, 2, {0, 1, 2}, <<60, 300>>),
      Prof(3, ModsQ01, 3, {0, 1, 2}, <<150, 400, 560>>),
      Prof(3, ModsQ2Few, 2, {1, 2}, <<80, 100, 180>>) }

ThoroughProfiles ==
    { Prof(1, ModsQ01, 3, {0, 1, 2}, <<1>>),
      Prof(1, ModsQ2, 2, {0, 1, 2}, <<3>>),
      Prof(2, ModsQ0, 3, {0, 1, 2}, <<1, 3>>),
      Prof(2, ModsQ1, 3, {0, 1, 2}, <<16, 80>>),
      Prof(2, ModsQ1, 2, {1, 2}, <<1, 6>>),
      Prof(2, ModsQ2, 2, {0, 1, 2}, <<40, 80>>),
      Prof(3, ModsQ01, 3, {0, 1, 2}, <<80, 200, 200>>),
      Prof(3, ModsQ1, 2, {1, 2}, <<5, 10, 10>>),
      Prof(3, ModsQ2, 2, {1, 2}, <<60, 80, 80>>) }

CanaryProfiles == {Prof(2, {<<1>>}, 2, {1, 2}, <<20, 20>>)}

\* for -simulate: 4-leg and nested pipes over the full bound
SimProfiles == { Prof(4, ModsAll, 2, {0, 1, 2}, <<1, 1, 1, 1>>), Prof(3, ModsAll, 3, {0, 1, 2}, <<1, 1, 1>>),
                 Prof(2, ModsAll, 3, {0, 1, 2}, <<1, 1>>) }

------------------------------------------------------------------------------
(* state machine *)

\* nested pipes: innermost legs and the composition innermost index tuple -> inner pipe -> outer pipe
FullLegsOf(P, I) == IF I.pos = 1 THEN I.legs \o SubSeq(P.legs, 2, Len(P.legs))
                    ELSE SubSeq(P.legs, 1, Len(P.legs) - 1) \o I.legs
FullMapOf(P, I) ==
    LET FL   == FullLegsOf(P, I)
        n    == Len(FL)
        len  == Mat([l \in 1..n |-> SumAll(FL[l].sizes)])
        st   == Mat([l \in 1..n |-> ProdFrom(len, l + 1)])
        ni   == Len(I.legs)
        no   == Len(P.legs)
        olen == LensOf(P)
        ost  == Mat([k \in 1..no |-> ProdFrom(olen, k + 1)])
        ilen == Mat([l \in 1..ni |-> SumAll(I.legs[l].sizes)])
        ist  == Mat([l \in 1..ni |-> ProdFrom(ilen, l + 1)])
        off  == IF I.pos = 1 THEN 0 ELSE no - 1                 \* innermost legs sit at positions off+1..off+ni
        ix(g, l) == ((g - 1) \div st[l]) % len[l]
        inIdx(g) == SumAll([l \in 1..ni |-> ix(g, off + l) * ist[l]])      \* C-number of the inner index tuple
        pIdx(g)  == I.map[inIdx(g) + 1]                                    \* its index on the inner pipe
        oix(g, k) == IF I.pos = 1 THEN (IF k = 1 THEN pIdx(g) ELSE ix(g, ni + k - 1))
                     ELSE (IF k = no THEN pIdx(g) ELSE ix(g, k))
        oIdx(g)  == SumAll([k \in 1..no |-> oix(g, k) * ost[k]])
    IN Mat([g \in 1..ProdAll(len) |-> P.map[oIdx(g) + 1]])
NoFull == [legs |-> <<>>, map |-> <<>>]
FullOf(P, I) == IF I = NoInner \/ P.legs = <<>> THEN NoFull ELSE [legs |-> FullLegsOf(P, I), map |-> FullMapOf(P, I)]

PInit == /\ CInit
         /\ prof = NoProf /\ legs = <<>> /\ hacc = 0 /\ front = FALSE /\ pipe = NoPipe /\ inner = NoInner
         /\ full = NoFull

\* hist: every operation with its arguments (l) and the outgoing leg it left behind (a)
PLog == /\ hist' = Append(hist, [l |-> last', a |-> After(pipe'.out),
                                 inq |-> [k \in 1..Len(pipe'.legs) |-> pipe'.legs[k].qconj]])   \* directions of the incoming legs
        /\ full' = FullOf(pipe', inner')
        /\ UNCHANGED <<leg, ref, obs>>

PStart == /\ phase = "start"
          /\ \E p \in Profiles : \E M \in p.mods :
               /\ prof' = p /\ mods' = M /\ hacc' = Len(M)
               /\ last' = [op |-> "chinfo", mod |-> M, n |-> p.n]
          /\ phase' = "legs"
          /\ UNCHANGED <<legs, front, pipe, inner, nops>> /\ PLog

\* the next incoming leg (appended; prepended when the pipe under construction has a nested pipe at its end)
PAddLeg ==
    /\ phase = "legs" /\ Len(legs) < prof.n
    /\ \E raw \in {x \in LegCat(mods, prof.blk, prof.sizes) : Keep(LegHash(hacc, x), prof.rates[Len(legs) + 1])} :
         /\ legs' = IF front THEN <<raw>> \o legs ELSE Append(legs, raw)
         /\ hacc' = LegHash(hacc, raw)
         /\ last' = [op |-> "addleg", front |-> front, sizes |-> raw.sizes, charges |-> raw.charges, qconj |-> raw.qconj]
    /\ UNCHANGED <<mods, phase, prof, front, pipe, inner, nops>> /\ PLog

PFuse ==
    /\ phase = "legs" /\ Len(legs) = prof.n
    /\ \E qc \in {1, -1}, so \in BOOLEAN, bu \in BOOLEAN :
         /\ pipe' = MakePipe(mods, legs, qc, so, bu)
         /\ last' = [op |-> "fuse", qconj |-> qc, sort |-> so, bunch |-> bu]
    /\ phase' = "pipe" /\ nops' = 0
    /\ UNCHANGED <<mods, prof, legs, hacc, front, inner>> /\ PLog

ConjInner(I) == [I EXCEPT !.legs = [l \in 1..Len(I.legs) |-> [I.legs[l] EXCEPT !.qconj = -I.legs[l].qconj]]]

\* conj / outer_conj are offered for a seeded 1/PostRate sample of the pipes
\* hash of the current pipe (legs chosen, direction, block structure, index map) for the seeded samples below
PipeHash == LET m == pipe.map
            IN H2(H2(H2(H2(hacc, pipe.out.qconj + 3), Len(pipe.out.sizes)), IF pipe.out.sorted THEN 1 ELSE 0),
                  SumAll([i \in 1..Len(m) |-> (i * m[i]) % HP]) % HP)
PostOK == phase = "pipe" /\ nops < MaxPost /\ Keep(PipeHash, PostRate)

PConj == /\ PostOK /\ nops' = nops + 1
         /\ pipe' = PipeConj(pipe)
         /\ inner' = ConjInner(inner)                    \* conj() of a pipe conjugates nested pipes recursively
         /\ last' = [op |-> "conj"]
         /\ UNCHANGED <<mods, phase, prof, legs, hacc, front>> /\ PLog

POuterConj == /\ PostOK /\ nops' = nops + 1
              /\ pipe' = PipeOuterConj(mods, pipe)
              /\ last' = [op |-> "outer_conj"]
              /\ UNCHANGED <<mods, phase, prof, legs, hacc, front, inner>> /\ PLog

\* flip_charges_qconj() and copy() of a pipe (methods inherited from / shared with LegCharge)
PFlip == /\ PostOK /\ nops' = nops + 1
         /\ pipe' = PipeFlip(mods, pipe)
         /\ last' = [op |-> "flip_charges_qconj"]
         /\ UNCHANGED <<mods, phase, prof, legs, hacc, front, inner>> /\ PLog

PCopy == /\ PostOK /\ nops' = nops + 1
         /\ pipe' = pipe
         /\ last' = [op |-> "copy"]
         /\ UNCHANGED <<mods, phase, prof, legs, hacc, front, inner>> /\ PLog

\* The LegCharge methods LegPipe does not implement for pipes convert to a plain LegCharge first:
\* to_LegCharge() is the outgoing leg without the splitting information; sort / bunch / project return what
\* LegCharge.sort / bunch / project return for that leg.  The pipe itself is not changed.  Terminal.
ConvOK == phase = "pipe" /\ Keep(H2(PipeHash, 13 * nops + 5), ConvRate)
PLogL == /\ hist' = Append(hist, [l |-> last', a |-> After(leg'), inq |-> <<>>])
         /\ obs' = LegObs(mods, leg')
         /\ UNCHANGED full
Conv(A) == /\ ConvOK /\ phase' = "done" /\ A
           /\ UNCHANGED <<mods, nops, prof, legs, hacc, front, pipe, inner>> /\ PLogL

PToLeg == Conv(/\ leg' = pipe.out /\ ref' = EffFlat(mods, pipe.out)
               /\ last' = [op |-> "to_LegCharge"])
PSortLeg == Conv(\E b \in BOOLEAN :
                   LET r  == SortLeg(pipe.out, b)
                       pf == PermFlatFromPermQind(pipe.out, r.perm)
                       e  == EffFlat(mods, pipe.out)
                   IN /\ leg' = r.leg /\ ref' = [i \in 1..Len(pf) |-> e[pf[i] + 1]]
                      /\ last' = [op |-> "pipe_sort", bunch |-> b, perm |-> r.perm])
PBunchLeg == Conv(LET r == BunchLeg(pipe.out)
                  IN /\ leg' = r.leg /\ ref' = EffFlat(mods, pipe.out)
                     /\ last' = [op |-> "pipe_bunch", idx |-> r.idx])
\* a few structured masks (a pipe can have 2^216 of them): even / odd indices, first half, all but the last
PipeMasks(n) == {m \in {[i \in 1..n |-> i % 2 = 0], [i \in 1..n |-> i % 2 = 1], [i \in 1..n |-> 2 * i <= n],
                        [i \in 1..n |-> i < n]} : \E i \in 1..n : m[i]}
PProjectLeg == Conv(\E mask \in PipeMasks(IndLen(pipe.out)) :
                      LET r == ProjectLeg(pipe.out, mask)
                      IN /\ leg' = r.leg /\ ref' = SelectMask(EffFlat(mods, pipe.out), mask)
                         /\ last' = [op |-> "pipe_project", mask |-> mask, map_qind |-> r.map, block_masks |-> r.masks])

\* the current pipe becomes the first (front = FALSE) or the last (front = TRUE) incoming leg of a further pipe
PNest == /\ phase = "pipe" /\ inner = NoInner /\ MaxNest > 0 /\ prof.n >= 2
         /\ Len(pipe.map) <= NestMax
         /\ Keep(H2(PipeHash, 7 * nops + 3), NestRate)
         /\ prof' = Prof(NestN, prof.mods, 2, {1, 2}, [k \in 1..NestN |-> NestLegRate])   \* bound of the further legs
         /\ \E fr \in BOOLEAN :
              /\ front' = fr
              /\ last' = [op |-> "nest", front |-> fr]
         /\ legs' = <<Plain(pipe.out)>>
         /\ inner' = [legs |-> pipe.legs, map |-> pipe.map, pos |-> IF front' THEN 2 ELSE 1]
         /\ phase' = "legs" /\ pipe' = NoPipe
         /\ UNCHANGED <<mods, hacc, nops>> /\ PLog

PNext == PStart \/ PAddLeg \/ PFuse \/ PConj \/ POuterConj \/ PFlip \/ PCopy \/ PNest
         \/ PToLeg \/ PSortLeg \/ PBunchLeg \/ PProjectLeg

PSpec == PInit /\ [][PNext]_pvars

------------------------------------------------------------------------------
(* Properties (C06, first sentence), for every reachable pipe *)

InPipe == phase = "pipe"
Sorting == last.op = "fuse" /\ last.sort
Bunching == last.op = "fuse" /\ last.bunch

\* map_incoming_flat is a bijection from the index tuples onto 0..ind_len-1
PipeBijection == InPipe => PipeBijectionOf(pipe)
\* charges[Qi]*qconj == sum_l charges_l[qi_l]*qconj_l  (mod qmod), index by index
FusionRule == InPipe => FusionRuleOf(mods, pipe)
OutValid == InPipe => ValidLeg(mods, pipe.out) /\ \A l \in 1..Len(pipe.legs) : ValidLeg(mods, pipe.legs[l])
SortedOut == (InPipe /\ Sorting) => IsSortedCh(pipe.out.charges)
BunchedOut == (InPipe /\ Bunching) => IsBunchedCh(pipe.out.charges)
BlockedOut == (InPipe /\ Sorting /\ Bunching) => IsBlockedCh(pipe.out.charges)
OutFlagsTruthful == InPipe => /\ pipe.out.sorted => IsSortedCh(pipe.out.charges)
                              /\ pipe.out.bunched => IsBunchedCh(pipe.out.charges)
QMapOrdered == InPipe => QMapOrderedOf(pipe)
MapIsKeyRank == (InPipe /\ last.op = "fuse" /\ NTuples(pipe) <= DeclMax) => KeyRankOf(mods, pipe, last.sort)

\* (that the conjugated pipes obey the fusion rule again is FusionRule in the states PConj / POuterConj lead to)
ConjKeepsContractible ==
    InPipe => LET C == PipeConj(pipe)
              IN /\ TestContractible(mods, pipe.out, C.out) /\ TestContractible(mods, C.out, pipe.out)
                 /\ \A l \in 1..Len(pipe.legs) :
                       TestContractible(mods, MkLeg(pipe.legs[l].sizes, pipe.legs[l].charges, pipe.legs[l].qconj, FALSE, FALSE),
                                        MkLeg(C.legs[l].sizes, C.legs[l].charges, C.legs[l].qconj, FALSE, FALSE))
                 /\ C.map = pipe.map /\ PipeConj(C) = pipe

OuterConjKeepsEffectiveCharge ==
    InPipe => LET C == PipeOuterConj(mods, pipe)
              IN /\ TestEqual(mods, pipe.out, C.out) /\ C.out.qconj = -pipe.out.qconj
                 /\ C.legs = pipe.legs /\ C.map = pipe.map
                 /\ EffFlat(mods, C.out) = EffFlat(mods, pipe.out)

\* what conj / outer_conj / flip_charges_qconj / copy may and may not change: the index map and q_map never;
\* outer_conj, flip_charges_qconj and copy leave the incoming legs and every effective charge alone, conj reverses
\* the direction of the pipe and of every incoming leg and nothing else  (with FusionRule and SplitAfterCombine
\* in the state reached: the flipped pipe still fuses the same legs and split after combine is the identity)
PostKeeps ==
    [][ (phase = "pipe" /\ phase' = "pipe") =>
          /\ pipe'.map = pipe.map /\ pipe'.qmap = pipe.qmap /\ pipe'.qslices = pipe.qslices
          /\ pipe'.out.sizes = pipe.out.sizes
          /\ last'.op \in {"outer_conj", "flip_charges_qconj", "copy"} =>
                /\ pipe'.legs = pipe.legs /\ inner' = inner
                /\ EffFlat(mods, pipe'.out) = EffFlat(mods, pipe.out)
          /\ last'.op \in {"outer_conj", "flip_charges_qconj"} => pipe'.out.qconj = -pipe.out.qconj
          /\ last'.op = "copy" => pipe' = pipe
          /\ last'.op = "conj" =>
                /\ pipe'.out.qconj = -pipe.out.qconj /\ pipe'.out.charges = pipe.out.charges
                /\ \A l \in 1..Len(pipe.legs) : /\ pipe'.legs[l].qconj = -pipe.legs[l].qconj
                                                 /\ pipe'.legs[l].charges = pipe.legs[l].charges
                                                 /\ pipe'.legs[l].sizes = pipe.legs[l].sizes ]_pvars

\* the conversions to a LegCharge: the pipe is untouched, the returned leg is the outgoing leg (sorted / bunched /
\* projected as LegCharge does it); with ChargePreserved, FlagsTruthful, LegValid of module Charges on `leg`
ConvPost ==
    phase = "done" =>
        /\ last.op = "to_LegCharge" => leg = pipe.out
        /\ last.op = "pipe_sort" => /\ IsSortedCh(leg.charges) /\ IsPerm0(last.perm) /\ IndLen(leg) = IndLen(pipe.out)
                                    /\ last.bunch => (IsBunchedCh(leg.charges) /\ IsBlockedCh(leg.charges))
        /\ last.op = "pipe_bunch" => IsBunchedCh(leg.charges) /\ QFlat(leg) = QFlat(pipe.out)
        /\ last.op = "pipe_project" => IndLen(leg) = Cardinality({i \in 1..Len(last.mask) : last.mask[i]})
        /\ leg.qconj = pipe.out.qconj
ConvKeepsPipe == [][ phase' = "done" => pipe' = pipe /\ inner' = inner ]_pvars

\* split_legs(combine_legs(T)) = T on the dense level
SplitAfterCombine ==
    (InPipe /\ NTuples(pipe) <= DeclMax) => LET T == TestTensor(pipe) IN SplitT(pipe, CombineT(pipe, T)) = T

\* two pipes split in one call in either order, and split with a cutoff below the smallest non-zero |entry|
SplitManyOK == (InPipe /\ NTuples(pipe) <= OpMax) => SplitManyOKOf(mods, pipe)

\* nested pipes: the composition is again a bijection and fuses the charges of all innermost legs
NestedOK ==
    (InPipe /\ inner # NoInner) =>
        LET F == [legs |-> full.legs, out |-> pipe.out, map |-> full.map]
        IN PipeBijectionOf(F) /\ FusionRuleOf(mods, F)
=============================================================================
