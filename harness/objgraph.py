"""Object graphs for C17: build real Python object graphs from the node records of spec/Hdf5.tla,
compare a Python object graph with a spec graph (isomorphism incl. sharing / cycles / `is`-identity),
project an HDF5 file to (objects, links) and compare it with the spec's file, record save()/load() calls.

A spec graph is a list of node dicts {k, v, ch, ks, src} (node id = index + 1), as parsed from TLC.
"""
import itertools

import numpy as np

KEYNAMES = ['a', 'b', 'c', 'd']
SINGLETON = ('none', 'int', 'dtype', 'glob', 'keystr')


# ---- classes the generated graphs are made of (must be importable: find_global('harness.objgraph', ...)) ----
def _exportable_base():
    from tenpy.tools.hdf5_io import Hdf5Exportable
    return Hdf5Exportable


class ExpNode(_exportable_base()):
    """kind "inst": plain Hdf5Exportable subclass storing its __dict__."""


def gfunc():
    """kind "glob", v = 1: a global function"""
    return None


def rsetter(obj, state):
    """kind "glob", v = 2: a state_setter following the pickle protocol (its return value is to be ignored)"""
    obj.__dict__.update(state)


GLOBS = {}


def r_has_state(v):
    return v in (1, 3, 5)


def r_has_setter(v):
    return v == 5


def r_has_list(v):
    return v in (2, 3)


def r_has_dict(v):
    return v == 4


class RObj:
    """kind "reduce": no save_hdf5, so Hdf5Saver falls back to __reduce__.  One class serves all variants:
    attributes are the `state`, append() receives `listitems`, __setitem__ receives `dictitems`."""
    _internal = ('_items', '_map', '_variant')

    def __init__(self):
        self._items = []
        self._map = {}
        self._variant = None

    def append(self, x):
        self._items.append(x)

    def __setitem__(self, k, v):
        self._map[k] = v

    def attrs(self):
        return {k: v for k, v in self.__dict__.items() if k not in self._internal}

    def __reduce__(self):
        v = self._variant
        state = self.attrs() if r_has_state(v) else None
        li = iter(list(self._items)) if r_has_list(v) else None
        di = iter(list(self._map.items())) if r_has_dict(v) else None
        if r_has_setter(v):
            return (RObj, (), state, li, di, rsetter)
        return (RObj, (), state, li, di)


GLOBS.update({0: RObj, 1: gfunc, 2: rsetter})
GLOB_OF = {id(v): k for k, v in GLOBS.items()}


BOX_STYLES = ('float', 'str', 'complex', 'bytes', 'np.float64', 'np.int64', 'bigint', 'mixed')


def box_style(style, n):
    return BOX_STYLES[n % 7] if style == 'mixed' else style


def box_value(style, n, same=False):
    """a fresh (never cached / interned) python object for box node n"""
    j = 7 if same else n
    if style == 'mixed':
        style = BOX_STYLES[n % 7]
    if style == 'float':
        return float(2.5 + j)
    if style == 'str':
        return ''.join(['str', str(j)])
    if style == 'complex':
        return complex(1.5, j)
    if style == 'bytes':
        return bytes([65, 66 + j])
    if style == 'np.float64':
        return np.float64(0.25 + j)
    if style == 'np.int64':
        return np.int64(1000 + j)
    if style == 'bigint':
        return int('1' + '0' * 20) + j
    raise ValueError(style)


BOX_REPR = {float: 'float', str: 'str', complex: 'complex', bytes: 'bytes', np.float64: 'np.float64',
            np.int64: 'np.int64', int: 'int'}


def arr_value(n, same=False):
    j = 3 if same else n
    if j % 3 == 0:
        return np.arange(j, j + 4, dtype=np.int64).reshape(2, 2)
    if j % 3 == 1:
        return np.array([0.5 * j, -1.0])
    return np.zeros((0, 2), dtype=np.complex128) + j


class NotConstructible(Exception):
    pass


def build(g, style='float', same=False):
    """Python objects for the nodes of g; returns list objs with objs[n] for node n (objs[0] unused).
    The state dict of a reduce node has no object of its own (objs[s] is None)."""
    n = len(g)
    objs = [None] * (n + 1)
    done = [False] * (n + 1)
    state_nodes = set()
    key_nodes = set()
    for i, nd in enumerate(g, 1):
        if nd['k'] == 'reduce' and r_has_state(nd['v']):
            state_nodes.add(nd['ch'][2])
        if nd['k'] == 'gdict':
            key_nodes.update(nd['ch'][:len(nd['ch']) // 2])
        if nd['k'] == 'reduce' and r_has_dict(nd['v']):
            key_nodes.update(nd['ch'][2:2 + (len(nd['ch']) - 2) // 2])
    # leaves and mutable containers first
    for i, nd in enumerate(g, 1):
        k = nd['k']
        if i in state_nodes:
            done[i] = True
            continue
        if k == 'none':
            objs[i] = None
        elif k == 'int':
            objs[i] = int(nd['v'])
        elif k == 'box':
            st = box_style(style, i)
            # a dict whose keys are all path-like strings is a "simple" dict: general keys are never str here
            objs[i] = box_value('float' if (st == 'str' and i in key_nodes) else st, i, same)
        elif k == 'arr':
            objs[i] = arr_value(i, same)
        elif k == 'dtype':
            objs[i] = np.dtype('float64')
        elif k == 'glob':
            objs[i] = GLOBS[nd['v']]
        elif k == 'list':
            objs[i] = []
        elif k == 'set':
            objs[i] = set()
        elif k in ('sdict', 'gdict'):
            objs[i] = {}
        elif k == 'inst':
            objs[i] = ExpNode()
        elif k == 'reduce':
            objs[i] = RObj()
            objs[i]._variant = nd['v']
        elif k in ('tuple', 'range'):
            continue
        else:
            raise ValueError('unknown kind %r' % k)
        done[i] = True

    def make(i, depth=0):
        if done[i]:
            return
        if depth > n:
            raise NotConstructible('immutable cycle')
        nd = g[i - 1]
        for c in nd['ch']:
            make(c, depth + 1)
        if nd['k'] == 'tuple':
            objs[i] = tuple([objs[c] for c in nd['ch']])
        else:
            objs[i] = range(*[objs[c] for c in nd['ch']])
        done[i] = True
    for i in range(1, n + 1):
        make(i)
    # fill the mutable containers
    for i, nd in enumerate(g, 1):
        k, ch = nd['k'], nd['ch']
        if i in state_nodes:
            continue
        if k == 'list':
            objs[i].extend(objs[c] for c in ch)
        elif k == 'sdict':
            for key, c in zip(nd['ks'], ch):
                objs[i][KEYNAMES[key - 1]] = objs[c]
        elif k == 'inst':
            for key, c in zip(nd['ks'], ch):
                setattr(objs[i], KEYNAMES[key - 1], objs[c])
        elif k == 'reduce':
            v = nd['v']
            pos = 2
            if r_has_state(v):
                s = g[ch[2] - 1]
                for key, c in zip(s['ks'], s['ch']):
                    setattr(objs[i], KEYNAMES[key - 1], objs[c])
                pos = 3
            if r_has_setter(v):
                pos += 1
            items = ch[pos:]
            if r_has_list(v):
                for c in items:
                    objs[i].append(objs[c])
    # hash-based containers last (hashes of tuples need complete tuples; instances hash by identity)
    for i, nd in enumerate(g, 1):
        k, ch = nd['k'], nd['ch']
        if k == 'set':
            for c in ch:
                objs[i].add(objs[c])
            if len(objs[i]) != len(ch):
                raise NotConstructible('equal set elements')
        elif k == 'gdict':
            m = len(ch) // 2
            for a, b in zip(ch[:m], ch[m:]):
                objs[i][objs[a]] = objs[b]
            if len(objs[i]) != m:
                raise NotConstructible('equal dict keys')
        elif k == 'reduce' and r_has_dict(nd['v']):
            items = ch[2:]
            m = len(items) // 2
            for a, b in zip(items[:m], items[m:]):
                objs[i][objs[a]] = objs[b]
            if len(objs[i]._map) != m:
                raise NotConstructible('equal dictitems keys')
    return objs


# ------------------------------------------------------------------------------------------------
# comparison  spec graph  <->  python object graph
# ------------------------------------------------------------------------------------------------
def leaf_equal(a, b):
    if type(a) is not type(b):
        return False
    if isinstance(a, np.ndarray):
        return a.dtype == b.dtype and a.shape == b.shape and bool(np.array_equal(a, b))
    return bool(a == b)


class Matcher:
    """Simultaneous walk of a spec graph and a python object graph.  Identity-bearing nodes must be in
    bijection with python objects (`is`); children of set / dict are matched up to order."""

    def __init__(self, nodes, leaf_of, box_identity=True):
        self.nodes = nodes
        self.leaf_of = leaf_of  # node -> reference python object for leaves (by node's src / id)
        self.box_identity = box_identity  # False: `is`-identity of immutable scalar leaves is not compared
        self.why = None

    def fail(self, why):
        if self.why is None:
            self.why = why
        return None

    def match(self, n, obj, m=None):
        """returns mapping (dict node -> python id, plus reverse under key ('py', id)) or None"""
        m = {} if m is None else m
        return self._match(n, obj, m)

    def _match(self, n, obj, m):
        nd = self.nodes[n - 1]
        k = nd['k']
        if k not in SINGLETON and (k != 'box' or self.box_identity):
            if n in m:
                return m if m[n] == id(obj) else self.fail('node %d (%s) bound to another object: sharing differs' % (n, k))
            if ('py', id(obj)) in m:
                return self.fail('object %s already bound to node %d, now met as node %d: sharing differs'
                                 % (type(obj).__name__, m[('py', id(obj))], n))
            m = dict(m)
            m[n] = id(obj)
            m[('py', id(obj))] = n
            m.setdefault('keep', []).append(obj)
        ch = nd['ch']
        if k == 'none':
            return m if obj is None else self.fail('node %d: expected None, got %s' % (n, type(obj).__name__))
        if k == 'int':
            return m if type(obj) is int and obj == nd['v'] else self.fail('node %d: expected int %d, got %r' % (n, nd['v'], obj))
        if k == 'keystr':
            return m if obj == KEYNAMES[nd['v'] - 1] else self.fail('node %d: expected key string' % n)
        if k == 'dtype':
            return m if isinstance(obj, np.dtype) and obj == np.dtype('float64') else self.fail('node %d: expected dtype' % n)
        if k == 'glob':
            exp = GLOBS[nd['v']]
            return m if obj is exp else self.fail('node %d: expected global %r, got %r' % (n, exp, obj))
        if k in ('box', 'arr'):
            ref = self.leaf_of(nd, n)
            return m if leaf_equal(ref, obj) else self.fail('node %d: leaf %r != %r' % (n, obj, ref))
        if k == 'list':
            if type(obj) is not list or len(obj) != len(ch):
                return self.fail('node %d: expected list of %d, got %s' % (n, len(ch), _short(obj)))
            return self._seq(ch, obj, m)
        if k == 'tuple':
            if type(obj) is not tuple or len(obj) != len(ch):
                return self.fail('node %d: expected tuple of %d, got %s' % (n, len(ch), _short(obj)))
            return self._seq(ch, obj, m)
        if k == 'range':
            if type(obj) is not range:
                return self.fail('node %d: expected range, got %s' % (n, _short(obj)))
            return self._seq(ch, [obj.start, obj.stop, obj.step], m)
        if k == 'set':
            if type(obj) is not set or len(obj) != len(ch):
                return self.fail('node %d: expected set of %d, got %s' % (n, len(ch), _short(obj)))
            return self._unordered([(c,) for c in ch], [(x,) for x in obj], m, n)
        if k == 'sdict' or k == 'inst':
            if k == 'sdict':
                if type(obj) is not dict:
                    return self.fail('node %d: expected dict, got %s' % (n, _short(obj)))
                d = obj
            else:
                if type(obj) is not ExpNode:
                    return self.fail('node %d: expected ExpNode, got %s' % (n, _short(obj)))
                d = obj.__dict__
            keys = [KEYNAMES[x - 1] for x in nd['ks']]
            if sorted(d.keys(), key=repr) != sorted(keys, key=repr):
                return self.fail('node %d: keys %r != %r' % (n, sorted(d.keys(), key=repr), sorted(keys)))
            return self._seq(ch, [d[x] for x in keys], m)
        if k == 'gdict':
            if type(obj) is not dict or 2 * len(obj) != len(ch):
                return self.fail('node %d: expected dict of %d, got %s' % (n, len(ch) // 2, _short(obj)))
            h = len(ch) // 2
            return self._unordered(list(zip(ch[:h], ch[h:])), list(obj.items()), m, n)
        if k == 'reduce':
            if type(obj) is not RObj:
                return self.fail('node %d: expected RObj, got %s' % (n, _short(obj)))
            v = nd['v']
            # children: func, args, state?, items  (the variant is not observable; the content is)
            pos = 2
            attrs = obj.attrs()
            if len(ch) > 2 and self.nodes[ch[2] - 1]['k'] == 'sdict' and r_has_state(v):
                s = self.nodes[ch[2] - 1]
                keys = [KEYNAMES[x - 1] for x in s['ks']]
                if sorted(attrs) != sorted(keys):
                    return self.fail('node %d: attributes %r != %r' % (n, sorted(attrs), sorted(keys)))
                m = self._seq(s['ch'], [attrs[x] for x in keys], m)
                if m is None:
                    return None
                pos = 3
            elif attrs:
                return self.fail('node %d: unexpected attributes %r' % (n, sorted(attrs)))
            if r_has_setter(v):
                pos += 1        # the setter is not observable on the object
            items = ch[pos:]
            if r_has_dict(v):
                if obj._items or 2 * len(obj._map) != len(items):
                    return self.fail('node %d: dictitems differ (%d items, %d list items)' % (n, len(obj._map), len(obj._items)))
                h = len(items) // 2
                return self._unordered(list(zip(items[:h], items[h:])), list(obj._map.items()), m, n)
            if obj._map or len(obj._items) != len(items):
                return self.fail('node %d: listitems differ: %d expected, got %s' % (n, len(items), _short(obj._items)))
            return self._seq(items, obj._items, m)
        raise ValueError('unknown kind %r' % k)

    def _seq(self, ch, objs, m):
        for c, o in zip(ch, objs):
            m = self._match(c, o, m)
            if m is None:
                return None
        return m

    def _unordered(self, spec_items, py_items, m, n):
        """spec_items: list of tuples of node ids; py_items: list of tuples of objects; any pairing"""
        if not spec_items:
            return m
        first = spec_items[0]
        for j, cand in enumerate(py_items):
            saved = self.why
            m2 = self._seq(first, cand, m)
            if m2 is not None:
                m3 = self._unordered(spec_items[1:], py_items[:j] + py_items[j + 1:], m2, n)
                if m3 is not None:
                    self.why = saved
                    return m3
        return self.fail('node %d: no pairing of unordered children' % n)


def _short(o):
    r = repr(o)
    return type(o).__name__ + ':' + (r if len(r) < 80 else r[:77] + '...')


def same_graph(a, b):
    """Are two python object graphs (made of the kinds above) isomorphic incl. sharing?  Describes `a` as a
    spec-like graph and matches `b` against it."""
    nodes, leafs = describe(a)
    mt = Matcher(nodes, lambda nd, n: leafs[n])
    return mt.match(1, b) is not None, mt.why


def describe(root, with_objs=False):
    """python object graph -> (nodes, leaf objects by node id[, objects by node id]); DFS preorder numbering,
    i.e. the numbering spec/Hdf5.tla uses (children of a set in iteration order)"""
    nodes = []
    ids = {}
    leafs = {}
    keep = [None]

    def visit(o):
        if o is None:
            key = ('none',)
        elif type(o) is int and -5 <= o <= 256:
            key = ('int', o)
        elif isinstance(o, np.dtype):
            key = ('dtype',)
        elif id(o) in GLOB_OF:
            key = ('glob', GLOB_OF[id(o)])
        else:
            key = id(o)
        if key in ids:
            return ids[key]
        n = len(nodes) + 1
        ids[key] = n
        keep.append(o)
        nd = dict(k=None, v=0, ch=[], ks=[], src=0)
        nodes.append(nd)
        if o is None:
            nd['k'] = 'none'
        elif isinstance(key, tuple) and key[0] == 'int':
            nd['k'], nd['v'] = 'int', o
        elif isinstance(o, np.dtype):
            nd['k'] = 'dtype'
        elif id(o) in GLOB_OF:
            nd['k'], nd['v'] = 'glob', key[1]
        elif type(o) is list:
            nd['k'] = 'list'
            nd['ch'] = [visit(x) for x in o]
        elif type(o) is tuple:
            nd['k'] = 'tuple'
            nd['ch'] = [visit(x) for x in o]
        elif type(o) is set:
            nd['k'] = 'set'
            nd['ch'] = [visit(x) for x in o]
        elif type(o) is range:
            nd['k'] = 'range'
            nd['ch'] = [visit(x) for x in (o.start, o.stop, o.step)]
        elif type(o) is dict:
            if all(isinstance(x, str) and x in KEYNAMES for x in o):
                nd['k'] = 'sdict'
                nd['ks'] = [KEYNAMES.index(x) + 1 for x in o]
                nd['ch'] = [visit(x) for x in o.values()]
            else:
                nd['k'] = 'gdict'
                ks = [visit(x) for x in o.keys()]
                nd['ch'] = ks + [visit(x) for x in o.values()]
        elif type(o) is ExpNode:
            nd['k'] = 'inst'
            nd['ks'] = [KEYNAMES.index(x) + 1 for x in o.__dict__]
            nd['ch'] = [visit(x) for x in o.__dict__.values()]
        elif type(o) is RObj:
            nd['k'] = 'reduce'
            attrs = o.attrs()
            has_s, has_l, has_d = bool(attrs), bool(o._items), bool(o._map)
            nd['v'] = 4 if has_d else (3 if has_s and has_l else (2 if has_l else 1))
            if o._variant is not None:
                nd['v'] = o._variant
                has_s, has_l, has_d = r_has_state(nd['v']), r_has_list(nd['v']), r_has_dict(nd['v'])
            ch = [visit(RObj), visit(())]
            if has_s:
                s = dict(k='sdict', v=0, ch=[], ks=[KEYNAMES.index(x) + 1 for x in attrs], src=0)
                nodes.append(s)
                keep.append(None)
                ch.append(len(nodes))
                s['ch'] = [visit(x) for x in attrs.values()]
            if r_has_setter(nd['v']):
                ch.append(visit(rsetter))
            if has_d:
                ks = [visit(x) for x in o._map.keys()]
                ch += ks + [visit(x) for x in o._map.values()]
            else:
                ch += [visit(x) for x in o._items]
            nd['ch'] = ch
        elif isinstance(o, np.ndarray):
            nd['k'] = 'arr'
            leafs[n] = o
        else:
            nd['k'] = 'box'
            leafs[n] = o
        return n
    visit(root)
    if with_objs:
        return nodes, leafs, keep
    return nodes, leafs


# ------------------------------------------------------------------------------------------------
# the file
# ------------------------------------------------------------------------------------------------
def project_file(h5obj):
    """(records, links): records[i] = {t, ln} for h5 object i+1 (numbered in DFS order by sorted names),
    links = set of (parent, name, child); two paths give the same number iff they are the same h5 object."""
    import h5py
    ids = {}
    recs = []
    links = set()

    def visit(o):
        key = o.id
        if key in ids:
            return ids[key]
        idx = len(recs) + 1
        ids[key] = idx
        t = o.attrs.get('type')
        if isinstance(t, bytes):
            t = t.decode()
        ln = o.attrs.get('len')
        recs.append(dict(t=t, ln=None if ln is None else int(ln), grp=isinstance(o, h5py.Group)))
        if isinstance(o, h5py.Group) and t != 'dtype':
            for name in sorted(o.keys()):
                c = visit(o[name])
                links.add((idx, name, c))
        return idx
    visit(h5obj)
    return recs, links


def compare_file(fo, lk, recs, links, expected_type):
    """spec file (fo: list of {t, n, ln}; lk: list of [parent, name, child]) vs projected real file.
    expected_type(spec record) -> set of admissible 'type' attribute values.  Returns None or a reason."""
    sroot = [x[2] for x in lk if x[0] == 0]
    if len(sroot) != 1:
        return 'spec file has no unique root'
    skids = {}
    for a, nm, b in lk:
        skids.setdefault(a, {})[nm] = b
    rkids = {}
    for a, nm, b in links:
        rkids.setdefault(a, {})[nm] = b
    m, rm = {}, {}
    todo = [(sroot[0], 1, '')]
    while todo:
        a, b, path = todo.pop()
        if a in m or b in rm:
            if m.get(a) != b or rm.get(b) != a:
                return 'hard links differ at %r: spec object %d <-> file object %d, but %r / %r' % (path, a, b, m.get(a), rm.get(b))
            continue
        m[a] = b
        rm[b] = a
        sr, rr = fo[a - 1], recs[b - 1]
        if rr['t'] not in expected_type(sr):
            return 'type attribute at %r: file %r, spec %r' % (path, rr['t'], sr['t'])
        if sr['t'] in ('list', 'tuple', 'set') and rr['ln'] != sr['ln']:
            return 'len attribute at %r: file %r, spec %r' % (path, rr['ln'], sr['ln'])
        sk, rk = skids.get(a, {}), rkids.get(b, {})
        if set(sk) != set(rk):
            return 'member names at %r: file %r, spec %r' % (path, sorted(rk), sorted(sk))
        for nm in sk:
            todo.append((sk[nm], rk[nm], path + '/' + nm))
    if len(m) != len(recs):
        return 'file has %d objects, %d reached in the comparison' % (len(recs), len(m))
    return None


# ------------------------------------------------------------------------------------------------
# recording the calls of Hdf5Saver.save / Hdf5Loader.load  (run-time interposition)
# ------------------------------------------------------------------------------------------------
class Recorder:
    GROUP_TYPES = ('list', 'tuple', 'set', 'simple_dict', 'dict', 'instance', 'range', 'reduce')

    def __init__(self, base):
        self.base = [x for x in base.split('/') if x]
        self.events = []
        self.suppress = 0

    def rel(self, path):
        p = [x for x in path.split('/') if x]
        if p[:len(self.base)] != self.base:
            raise AssertionError('path %r outside of %r' % (path, self.base))
        return p[len(self.base):]

    def __enter__(self):
        from tenpy.tools import hdf5_io
        rec = self
        self._save, self._load = hdf5_io.Hdf5Saver.save, hdf5_io.Hdf5Loader.load
        if self._save.__name__ != 'save' or self._load.__name__ != 'load':
            raise AssertionError('interposition point Hdf5Saver.save / Hdf5Loader.load missing')
        osave, oload = self._save, self._load

        def save(self, obj, path='/'):
            if rec.suppress:
                return osave(self, obj, path)
            p = rec.rel(path)
            if self.memo_save.get(id(obj)) is not None:
                rec.events.append(('link', p))
                return osave(self, obj, path)
            if isinstance(obj, np.dtype):
                rec.events.append(('data', p))
                rec.suppress += 1
                try:
                    return osave(self, obj, path)
                finally:
                    rec.suppress -= 1
            ev = ['?', p]
            rec.events.append(ev)
            try:
                r = osave(self, obj, path)
            except BaseException:
                ev[0] = 'raised'
                raise
            import h5py
            if isinstance(r, h5py.Group):
                ev[0] = 'group'
                rec.events.append(('ret', p))
            else:
                ev[0] = 'data'
            return r

        def load(self, path=None):
            if rec.suppress:
                return oload(self, path)
            h5gr = self.h5group if path is None else self.h5group[path]
            p = rec.rel(self.h5group.name if path is None else path)
            if self.memo_load.get(h5gr.id) is not None:
                rec.events.append(('hit', p))
                return oload(self, path)
            t = h5gr.attrs.get('type')
            if isinstance(t, bytes):
                t = t.decode()
            if t not in rec.GROUP_TYPES:
                rec.events.append(('data', p))
                rec.suppress += 1
                try:
                    return oload(self, path)
                finally:
                    rec.suppress -= 1
            rec.events.append(('enter', p))
            r = oload(self, path)
            rec.events.append(('ret', p))
            return r
        hdf5_io.Hdf5Saver.save = save
        hdf5_io.Hdf5Loader.load = load
        return self

    def __exit__(self, *a):
        from tenpy.tools import hdf5_io
        hdf5_io.Hdf5Saver.save = self._save
        hdf5_io.Hdf5Loader.load = self._load
        return False

    def take(self):
        ev = [(e[0], list(e[1])) for e in self.events]
        self.events = []
        return ev


def spec_events(hist):
    """split the spec's hist into the save() and load() call sequences comparable with Recorder events"""
    save, load, cur = [], [], None
    cur = save
    for e in hist:
        op = e['op']
        if op == 'saved':
            cur = load
            continue
        if op in ('aux', 'auxret', 'create', 'loaded'):
            continue
        cur.append((op, list(e['p'])))
    return save, load


def graph_key(g):
    return repr([(nd['k'], nd['v'], list(nd['ch']), list(nd['ks'])) for nd in g])


# ------------------------------------------------------------------------------------------------
# observational comparison of tenpy class instances (class layer of C17)
# ------------------------------------------------------------------------------------------------
class DeepCmp:
    """Compare an original object with its loaded copy: same classes, equal attribute values (dense arrays for
    npc.Array, qflat/ind_len/qconj (+ block structure unless `lossy`) for legs), instances of tenpy classes
    shared by reference in the original must be shared in the copy.  list/tuple and python/numpy scalar
    differences are not distinguished; dict / set order is not compared."""
    IGNORE_KEYS = {'logger'}
    # lazily filled caches: compared through their public accessor
    LAZY = {'_mps_sites_cache': 'mps_sites', '_BZ': 'BZ', '_reciprocal_basis': 'reciprocal_basis'}

    def __init__(self, lossy=False, sharing=True):
        self.lossy = lossy
        self.sharing = sharing
        self.share = {}   # id(a) -> (a, b) for tenpy instances
        self.seen = set()

    def cmp(self, a, b, path='obj'):
        import tenpy.linalg.np_conserved as npc
        from tenpy.linalg import charges
        ta, tb = type(a), type(b)
        if a is None or b is None:
            return None if a is b else '%s: %r vs %r' % (path, a, b)
        num = (int, float, complex, bool, np.generic)
        if isinstance(a, num) and isinstance(b, num):
            if isinstance(a, (bool, np.bool_)) != isinstance(b, (bool, np.bool_)):
                return '%s: bool vs number: %r vs %r' % (path, a, b)
            ok = (a == b) or (a != a and b != b)
            return None if ok else '%s: %r vs %r' % (path, a, b)
        if isinstance(a, (str, bytes)):
            return None if (ta is tb and a == b) else '%s: %r vs %r' % (path, a, b)
        is_tenpy = hasattr(a, '__dict__') and ta.__module__.split('.')[0] in ('tenpy', 'harness') and not isinstance(a, type)
        if is_tenpy and self.sharing:
            if id(a) in self.share:
                return None if self.share[id(a)][1] is b else '%s: object shared in the original is not shared after loading' % path
            self.share[id(a)] = (a, b)
        key = (id(a), id(b))
        if key in self.seen:
            return None
        self.seen.add(key)
        if isinstance(a, (list, tuple)):
            if not isinstance(b, (list, tuple)) or len(a) != len(b):
                return '%s: sequence %s vs %s' % (path, _short(a), _short(b))
            for j, (x, y) in enumerate(zip(a, b)):
                r = self.cmp(x, y, '%s[%d]' % (path, j))
                if r:
                    return r
            return None
        if isinstance(a, np.ndarray):
            if not isinstance(b, np.ndarray) or a.shape != b.shape or a.dtype.kind != b.dtype.kind:
                return '%s: array of shape %r vs %r' % (path, getattr(a, 'shape', None), getattr(b, 'shape', type(b).__name__))
            if a.dtype.kind == 'O':
                for j, (x, y) in enumerate(zip(a.flat, b.flat)):
                    r = self.cmp(x, y, '%s.flat[%d]' % (path, j))
                    if r:
                        return r
                return None
            ok = np.array_equal(a, b, equal_nan=a.dtype.kind in 'fc')
            return None if ok else '%s: array values differ' % path
        if ta is not tb:
            return '%s: type %s vs %s' % (path, ta.__name__, tb.__name__)
        if isinstance(a, dict):
            if set(map(repr, a.keys())) != set(map(repr, b.keys())):
                return '%s: dict keys %r vs %r' % (path, sorted(map(repr, a))[:8], sorted(map(repr, b))[:8])
            bk = {repr(k): k for k in b}
            for k in a:
                r = self.cmp(a[k], b[bk[repr(k)]], '%s[%r]' % (path, k))
                if r:
                    return r
            return None
        if isinstance(a, (set, frozenset)):
            return None if a == b else '%s: set %r vs %r' % (path, a, b)
        if isinstance(a, np.dtype):
            return None if a == b else '%s: dtype %r vs %r' % (path, a, b)
        if isinstance(a, np.random.Generator):
            return self.cmp(a.bit_generator.state, b.bit_generator.state, path + '.bit_generator.state')
        if isinstance(a, npc.Array):
            for nm, fa, fb in [('dense', a.to_ndarray(), b.to_ndarray()), ('labels', a.get_leg_labels(), b.get_leg_labels()),
                               ('qtotal', a.qtotal, b.qtotal), ('dtype', a.dtype, b.dtype), ('chinfo', a.chinfo, b.chinfo),
                               ('legs', a.legs, b.legs)]:
                r = self.cmp(fa, fb, '%s.%s' % (path, nm))
                if r:
                    return r
            if not self.lossy:
                r = self.cmp(a.norm(), b.norm(), path + '.norm()') or self.cmp(len(a._data), len(b._data), path + '.stored_blocks')
                if r:
                    return r
            return None
        if isinstance(a, charges.LegCharge):
            for nm, fa, fb in [('ind_len', a.ind_len, b.ind_len), ('qconj', a.qconj, b.qconj), ('chinfo', a.chinfo, b.chinfo),
                               ('to_qflat()', a.to_qflat(), b.to_qflat())]:
                r = self.cmp(fa, fb, '%s.%s' % (path, nm))
                if r:
                    return r
            if isinstance(a, charges.LegPipe):
                r = self.cmp(a.legs, b.legs, path + '.legs')
                if r:
                    return r
            if self.lossy:
                return None
        if hasattr(a, '__dict__') and not isinstance(a, type) and not callable(a):
            da, db = a.__dict__, b.__dict__
            ka = {k for k in da if k not in self.IGNORE_KEYS}
            kb = {k for k in db if k not in self.IGNORE_KEYS}
            if ka != kb:
                return '%s: attributes differ: only in original %r, only in loaded %r' % (path, sorted(ka - kb), sorted(kb - ka))
            for k in sorted(ka):
                if k in self.LAZY and (da[k] is None or db[k] is None):
                    try:
                        va, vb = getattr(a, self.LAZY[k]), getattr(b, self.LAZY[k])
                        if callable(va):
                            va, vb = va(), vb()
                    except Exception as e:
                        return '%s.%s: %s: %s' % (path, self.LAZY[k], type(e).__name__, e)
                    # a recomputed value: equal content is all that can be asked (not the sharing inside the cache)
                    r = DeepCmp(self.lossy, sharing=False).cmp(va, vb, '%s.%s' % (path, self.LAZY[k]))
                    if r:
                        return r
                    continue
                r = self.cmp(da[k], db[k], '%s.%s' % (path, k))
                if r:
                    return r
            return None
        if callable(a) or isinstance(a, type):
            return None if a is b else '%s: %r vs %r' % (path, a, b)
        try:
            ok = bool(a == b)
        except Exception as e:
            return '%s: cannot compare %s: %s' % (path, ta.__name__, e)
        return None if ok else '%s: %r vs %r' % (path, a, b)
