#!/venv/bin/python
"""Regenerate /verif/MANIFEST.json from the table below (single place to edit) and validate it."""
import json
import os
import subprocess

V = os.path.dirname(os.path.dirname(os.path.abspath(__file__)))
TECH = 'TLA+ specification + TLC model checking + conformance (replay of TLC behaviours into the code / TLC validation of recorded traces)'

CHECKS = {
 'C01': dict(text='TLC generates, from spec/Npc.tla + spec/NpcProgram.tla (dense reference semantics over Gaussian integers, charge layer per doc/intro/npc.rst), every operation enabled on random catalogue tensors (exhaustive depth 1) and random programs (-simulate); each step is executed on real np_conserved Arrays and to_ndarray / labels / qtotal / leg block structure are compared EXACTLY with the specification state.',
             note='trusts TLC, the dense layer of the spec (tested against numpy), the projection functions in harness/npc.py; bounded: rank<=4, <=64 entries, 26 operations, 0-3 charges; exact arithmetic (integers in float64)'),
 'C02': dict(text='Same behaviours as C01; after every step every live tensor must satisfy the storage invariants of the specification (PoolChargeRule/PoolWellFormed model-checked by TLC on the design; on the implementation: test_sanity at optimisation level 0, unique blocks, charge rule per block, truthful _qdata_sorted / sorted / bunched flags recomputed by the harness).',
             note='flags compared as implications; trusts TLC and harness/npc.py sanity_clauses'),
 'C03': dict(text='Same state machine; the action property OnlyOutChanges (only the target slot of a step changes) is model-checked and enforced on the implementation with fingerprints of every live tensor and of every leg object ever seen (byte-identical slices/charges/qconj); documented shallow-copy results are tracked in the spec variable `shared` and never updated in place.',
             note='trusts TLC and the fingerprints (dense values, labels, qtotal, leg bytes)'),
 'C04': dict(text='The TLC behaviours of NpcProgram are replayed in two interpreter processes (TENPY_NO_CYTHON=1; extension rebuilt from the current _npc_helper.pyx by harness/buildext.py and injected through a meta-path finder); both must refine the specification and their canonical serialisations (blocks, legs, labels, qtotal, dtype, values, error class) must be identical.',
             note='the rebuilt binary is verified to be the loaded one; stale in-tree .so is never used; float32/MKL not covered'),
 'C05': dict(text='spec/Factor.tla builds block-sparse matrices over Gaussian integers (unsorted / repeated charge blocks, pipes on either side, non-zero qtotal, absent vs stored-zero blocks, planted ranks) and states each factorization as a relation whose data TLC computes exactly (per-sector ranks by fraction-free elimination, trace moments, expected charge multiset / qconj / qtotals of the new leg, finite exponential series); TLC checks FactorChargeRule, SectorsConsistent, ExpmRule etc. exhaustively; every enumerated case is replayed on the real svd/qr/lq/eigh/eig/eigvals/speigs/expm/pinv/polar/orthogonal_columns: structure compared exactly, characterising identities evaluated on the returned floats at 1e-9*scale.',
             note='accuracy on ill-conditioned matrices not decided (small integer instances only); ARPACK path of speigs not modelled; trusts TLC and harness/factor.py'),
 'C12': dict(text='spec/Sites.tla defines every predefined site class (spin S<=3, boson cutoff<=4, clock q<=5, fermion, spinful fermion, hole) from the documented physics with exact entries (phase, integer times square root of a squarefree radical, denominator) for every conserve option; TLC checks the defining algebras, hc pairs, operator charges and the permutation between conserve options, and the grouping/common-charge policies. spec/Fermion.tla is a genuine Fock space on bit strings plus tenpy\'s Jordan-Wigner route written like the implementation; TLC checks CAR and that every route yields the signed partial permutation of the product of true fermionic operators for all pairs/quadruples on <=6 sites. Every table and every term is replayed on the real Site objects and through each tenpy route (order_combine_term, *_handle_JW, TermList->MPOGraph->MPO, add_coupling/add_multi_coupling, expectation_value_term, apply_local_term, correlation_function, GroupedSite) and compared exactly.',
             note='clock-site phases come from np.exp and are compared at 1e-13; infinite bc / unit-cell shifts in handle_JW, explicit_plus_hc not replayed; trusts TLC and harness/sites.py'),
 'C13': dict(text='spec/Sweep.tla is the sweep/environment bookkeeping state machine (tensor versions, LP/RP parts with the versions they were contracted from, ages, schedules of one-/two-site engines on finite and infinite chains, mixers, free_no_longer_needed_envs); TLC checks FreshEnvs, AgeRule, SweepCoversAllBonds, NoRecompute, EnergySize; real DMRG/TDVP runs are recorded by interposition on set_B / get_LP / get_RP / del_* / update_local / make_eff_H and each history is validated by TLC against spec/TraceSweep.tla. spec/Solvable.tla carries certified exactly solvable Hamiltonians (classical, dimer, Majumdar-Ghosh, ferromagnet) with certificates TLC checks over the integers; engines x mixers x diag methods are run on them and the postconditions (norm, canonical form, charge sector, E = <H>, E >= E0, E = E0 and overlap 1 when untruncated) are evaluated with the certified data; effective Hamiltonians on integer data are compared exactly.',
             note='convergence for Hamiltonians without certificate and VUMPS in the thermodynamic limit are not decided; orthogonal_to / segment bc not traced; trusts TLC and harness/sweeps.py'),
 'C14': dict(text='spec/TimeEvo.tla models time/schedule/truncation-error accounting of all time-evolution engines (Suzuki-Trotter schedules as exact symbolic polynomials, error bags); TLC checks TimeAdvance, ScheduleComposes, ErrAccounting over all orders/splits; real engine runs (TEBD 1/2/4/4_opt, QR-TEBD, TDVP 1/2-site, ExpMPO I/II, time-dependent variants) are recorded by run-time interposition and each trace is validated by TLC against spec/TraceTimeEvo.tla with every invariant evaluated at every event.',
             note='orders of convergence in dt and drift bounds are asymptotic numerical claims and not decided; trusts TLC, the recorder harness/timeevo.py'),
 'C20': dict(text='TLC exhaustively checks Events / DictCacheSeq / CacheThreaded (emit order, exact disconnect, dictionary refinement, sub-cache isolation, no deadlock, failure surfaces) for all operation sequences and interleavings up to a bound; every generated behaviour is replayed step by step into the real EventHandler / DictCache over Storage, PickleStorage, Hdf5Storage and, under a deterministic cooperative scheduler substituted for queue/threading, into the real ThreadedStorage + Worker.',
             note='preemption inside steps without shared accesses is unobservable and not explored; trusts TLC, the scheduler harness/dst.py, projections in checks/c20*.py'),
}
# filled in below from files present
EXTRA = {}


def main():
    props = [json.loads(l) for l in open(os.path.join(V, 'properties.jsonl'))]
    extra_path = os.path.join(V, 'tools', 'manifest_extra.json')
    if os.path.exists(extra_path):
        EXTRA.update(json.load(open(extra_path)))
    table = dict(CHECKS)
    table.update(EXTRA)
    checks = []
    na = []
    pending = json.load(open(os.path.join(V, 'tools', 'not_claimed.json'))) if os.path.exists(os.path.join(V, 'tools', 'not_claimed.json')) else {}
    for p in props:
        pid = p['id']
        if pid in table and os.path.exists(os.path.join(V, 'checks', pid.lower() + '.py')) and pid not in pending:
            t = table[pid]
            checks.append(dict(property_id=pid, quick_cmd='./check %s --tier quick' % pid, thorough_cmd='./check %s --tier thorough' % pid,
                               evidence_file='/verif/evidence/%s.json' % pid, replay_cmd_template='./check %s --replay {path}' % pid,
                               engine='tlc-mbt', level_claimed=dict(category='model_checking', text=t['text'], design_ref='§6.' + pid),
                               level_note=t['note'], technique=TECH))
        else:
            na.append(dict(property_id=pid, reason=pending.get(pid, 'check not finished yet (spec and harness under construction, see DESIGN.md §12); not claimed until it is green on the unchanged tree')))
    man = dict(version=1, setup_cmd='cd /verif && ./setup.sh',
               hooks=dict(guard='TENPY_VERIF',
                          enable='no source hooks: checks interpose at run time on the working tree (PYTHONPATH=/repo, compiled kernels rebuilt from the current .pyx); ./check exports TENPY_VERIF=1 for future add-only hooks',
                          baseline_off_cmd='cd /repo && /venv/bin/python -m pytest -ra -q -p no:cacheprovider --timeout=900 --continue-on-collection-errors --junitxml=/tmp/baseline_off.junit.xml',
                          source_commits=[], add_only=True),
               engines=[dict(name='tlc-mbt', path='/verif/harness', serves_properties=[c['property_id'] for c in checks],
                             kind_free_text='TLA+ specifications in /verif/spec checked by TLC; behaviours replayed into the implementation; implementation traces validated by TLC')],
               checks=checks, notes='see DESIGN.md; known findings in known_findings.json and known_findings.d/', not_applicable=na)
    with open(os.path.join(V, 'MANIFEST.json'), 'w') as f:
        json.dump(man, f, indent=1)
    import jsonschema
    jsonschema.validate(man, json.load(open('/root/.vp/MANIFEST.schema.json')))
    print('MANIFEST ok: claimed', [c['property_id'] for c in checks])


if __name__ == '__main__':
    main()
