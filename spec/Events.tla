------------------------------- MODULE Events -------------------------------
(* tenpy.tools.events.EventHandler: connect / disconnect / emit / emit_until_result / copy.
   Structured like the implementation: a handler is a *list* of listeners that `_prepare_emit`
   re-sorts in place (stable, by descending priority) before each emit, `connect` appends,
   `disconnect(id)` deletes the first entry with that id, `copy` duplicates the list and the id
   counter.  The abstract reading of the property is the history variable `conn` (the set of
   currently connected listeners with their connection sequence number); the invariants say that
   the list the code would iterate over is always exactly that set in (-priority, connection order). *)
EXTENDS Naturals, Sequences, FiniteSets, TLC

CONSTANTS Callbacks,   \* names of callback functions; a callback whose name is in Returning returns its name
          Returning,   \* callbacks that return a non-None result (matters for emit_until_result)
          OneShot,     \* callbacks that disconnect their own listener (by id) when they are called
          Tags,        \* values of the extra keyword argument a listener may be connected with (0 = none)
          Prios,       \* priorities offered to connect
          MaxId,       \* bound on the id counter per handler
          MaxOps       \* bound on the number of operations of a behaviour

Handlers == {1, 2}      \* handler 2 only exists after Copy

VARIABLES lst,      \* lst[h]  : Seq of [id, cb, prio]     (EventHandler.listeners)
          ctr,      \* ctr[h]  : Nat                        (EventHandler._id_counter)
          alive,    \* alive[h]: BOOLEAN                    (handler object exists)
          conn,     \* conn[h] : set of [id, cb, prio, seq] (history variable: who is connected)
          tick,     \* global connection sequence number
          last,     \* description of the last operation and what it observably did
          nops,
          hist      \* history of `last` records: makes every state a self-contained behaviour for
                    \* the replay harness; hidden from model checking by VIEW AbsView

vars == <<lst, ctr, alive, conn, tick, last, nops, hist>>
AbsView == <<lst, ctr, alive, conn, tick, last, nops>>

Listener(i, c, p, kw) == [id |-> i, cb |-> c, prio |-> p, kw |-> kw]

\* stable sort by descending priority == what sorted(key=-priority) does
RECURSIVE InsertStable(_, _)
InsertStable(s, x) ==
    IF s = <<>> THEN <<x>>
    ELSE IF Head(s).prio >= x.prio THEN <<Head(s)>> \o InsertStable(Tail(s), x)
    ELSE <<x>> \o s
RECURSIVE SortStable(_)
SortStable(s) == IF s = <<>> THEN <<>> ELSE
    LET r == SortStable(SubSeq(s, 1, Len(s) - 1)) IN
    \* insert the last element after all elements of priority >= its own
    LET x == s[Len(s)] IN
    LET RECURSIVE Ins(_)
        Ins(t) == IF t = <<>> THEN <<x>>
                  ELSE IF Head(t).prio >= x.prio THEN <<Head(t)>> \o Ins(Tail(t)) ELSE <<x>> \o t
    IN Ins(r)

\* the order demanded by the property, from the abstract set conn[h]
RECURSIVE OrderOf(_)
OrderOf(S) == IF S = {} THEN <<>> ELSE
    LET best == CHOOSE x \in S : \A y \in S : x.prio > y.prio \/ (x.prio = y.prio /\ x.seq <= y.seq)
    IN <<Listener(best.id, best.cb, best.prio, best.kw)>> \o OrderOf(S \ {best})

RemoveAt(s, i) == SubSeq(s, 1, i - 1) \o SubSeq(s, i + 1, Len(s))

Init == /\ lst = [h \in Handlers |-> <<>>]
        /\ ctr = [h \in Handlers |-> 0]
        /\ alive = [h \in Handlers |-> h = 1]
        /\ conn = [h \in Handlers |-> {}]
        /\ tick = 0
        /\ last = [op |-> "init"]
        /\ nops = 0
        /\ hist = <<>>

\* form: connect(callback, priority, extra_kwargs) or the decorator form @connect(priority=..., extra_kwargs=...)
Connect(h, c, p, kw, form) ==
    /\ alive[h] /\ ctr[h] < MaxId
    /\ lst' = [lst EXCEPT ![h] = Append(@, Listener(ctr[h], c, p, kw))]
    /\ conn' = [conn EXCEPT ![h] = @ \cup {[id |-> ctr[h], cb |-> c, prio |-> p, kw |-> kw, seq |-> tick]}]
    /\ ctr' = [ctr EXCEPT ![h] = @ + 1]
    /\ tick' = tick + 1
    /\ last' = [op |-> "connect", h |-> h, cb |-> c, prio |-> p, id |-> ctr[h], kw |-> kw, form |-> form]
    /\ UNCHANGED alive

\* disconnect(listener_id): delete the first listener with that id; warn if there is none
Disconnect(h, i) ==
    /\ alive[h] /\ i < ctr[h] + 1
    /\ LET idx == {k \in 1..Len(lst[h]) : lst[h][k].id = i} IN
       IF idx = {} THEN /\ UNCHANGED <<lst, conn>>
                        /\ last' = [op |-> "disconnect", h |-> h, id |-> i, found |-> FALSE]
       ELSE LET k == CHOOSE k \in idx : \A j \in idx : k <= j IN
            /\ lst' = [lst EXCEPT ![h] = RemoveAt(@, k)]
            /\ conn' = [conn EXCEPT ![h] = {x \in @ : x.id # i}]
            /\ last' = [op |-> "disconnect", h |-> h, id |-> i, found |-> TRUE]
    /\ UNCHANGED <<ctr, alive, tick>>

CallsOf(s) == [k \in 1..Len(s) |-> <<s[k].cb, s[k].kw>>]
\* listeners whose callback disconnects itself are gone after they were called; every listener that was connected when
\* the emit started is called (a self-disconnecting listener must not make the handler skip its successor)
KeepAfter(s, ncalled) == SelectSeq([k \in 1..Len(s) |-> [x |-> s[k], k |-> k]], LAMBDA e : ~(e.k <= ncalled /\ e.x.cb \in OneShot))
Strip(t) == [k \in 1..Len(t) |-> t[k].x]
GoneIds(s, ncalled) == {s[k].id : k \in {j \in 1..Len(s) : j <= ncalled /\ s[j].cb \in OneShot}}

Emit(h) ==
    /\ alive[h]
    /\ LET s == SortStable(lst[h]) IN                        \* _prepare_emit
       /\ lst' = [lst EXCEPT ![h] = Strip(KeepAfter(s, Len(s)))]
       /\ conn' = [conn EXCEPT ![h] = {x \in @ : x.id \notin GoneIds(s, Len(s))}]
       /\ last' = [op |-> "emit", h |-> h, calls |-> CallsOf(s), ids |-> [k \in 1..Len(s) |-> s[k].id]]
    /\ UNCHANGED <<ctr, alive, tick>>

EmitUntil(h) ==
    /\ alive[h]
    /\ LET s == SortStable(lst[h])
           hits == {k \in 1..Len(s) : s[k].cb \in Returning}
           stop == IF hits = {} THEN Len(s) ELSE CHOOSE k \in hits : \A j \in hits : k <= j
       IN /\ lst' = [lst EXCEPT ![h] = Strip(KeepAfter(s, stop))]
          /\ conn' = [conn EXCEPT ![h] = {x \in @ : x.id \notin GoneIds(s, stop)}]
          /\ last' = [op |-> "emit_until_result", h |-> h, calls |-> CallsOf(SubSeq(s, 1, stop)),
                      result |-> IF hits = {} THEN "None" ELSE s[stop].cb]
    /\ UNCHANGED <<ctr, alive, tick>>

Copy ==
    /\ alive[1] /\ ~alive[2]
    /\ alive' = [alive EXCEPT ![2] = TRUE]
    /\ lst' = [lst EXCEPT ![2] = lst[1]]
    /\ ctr' = [ctr EXCEPT ![2] = ctr[1]]
    /\ conn' = [conn EXCEPT ![2] = conn[1]]
    /\ last' = [op |-> "copy"]
    /\ UNCHANGED tick

\* abstract observable state after a step (what the replay harness projects the implementation to)
Obs == [connected |-> [h \in Handlers |-> {<<x.id, x.cb, x.prio, x.kw>> : x \in conn[h]}], ctr |-> ctr, alive |-> alive]

Step(A) == nops < MaxOps /\ nops' = nops + 1 /\ A /\ hist' = Append(hist, [l |-> last', o |-> Obs'])

DoConnect    == Step(\E h \in Handlers, c \in Callbacks, p \in Prios, kw \in Tags, form \in {"call", "decorator"} :
                       (form = "decorator" => kw # 0) /\ Connect(h, c, p, kw, form))
DoDisconnect == Step(\E h \in Handlers, i \in 0..MaxId : Disconnect(h, i))
DoEmit       == Step(\E h \in Handlers : Emit(h))
DoEmitUntil  == Step(\E h \in Handlers : EmitUntil(h))
DoCopy       == Step(Copy)

Next == DoConnect \/ DoDisconnect \/ DoEmit \/ DoEmitUntil \/ DoCopy

Spec == Init /\ [][Next]_vars

------------------------------------------------------------------------------
\* Properties (C20, second sentence)

\* the listeners an emit would call are exactly the connected ones, in priority / connection order
EmitOrder == \A h \in Handlers : alive[h] => SortStable(lst[h]) = OrderOf(conn[h])

\* what the last emit observably called is that order
LastEmitRight == [][\A h \in Handlers : Emit(h) => last'.calls = CallsOf(OrderOf(conn[h]))]_vars

\* ids are unique per handler
UniqueIds == \A h \in Handlers : \A a, b \in 1..Len(lst[h]) : lst[h][a].id = lst[h][b].id => a = b

\* disconnect removes exactly the named listener: every other connected listener stays connected
DisconnectExact ==
    [][ \A h \in Handlers, i \in 0..MaxId : Disconnect(h, i) =>
          /\ \A x \in conn[h] : x.id # i => x \in conn'[h]
          /\ \A x \in conn'[h] : x \in conn[h] /\ x.id # i
          /\ \A g \in Handlers : g # h => conn'[g] = conn[g] ]_vars

\* emit changes who is connected only through listeners that disconnected themselves while being called
EmitKeeps == [][ (\E h \in Handlers : Emit(h) \/ EmitUntil(h)) =>
                   \A g \in Handlers : /\ conn'[g] \subseteq conn[g]
                                        /\ \A x \in conn[g] \ conn'[g] : x.cb \in OneShot /\ g = last'.h /\ <<x.cb, x.kw>> \in {last'.calls[k] : k \in 1..Len(last'.calls)} ]_vars
\* every listener connected when an emit starts is called by it (in particular the successor of a self-disconnecting one)
EmitCallsAll == [][ \A h \in Handlers : Emit(h) => Len(last'.calls) = Cardinality(conn[h]) ]_vars
=============================================================================
