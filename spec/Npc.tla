-------------------------------- MODULE Npc --------------------------------
(* Charge-conserving tensors (tenpy.linalg.np_conserved.Array with tenpy.linalg.charges.LegCharge /
   LegPipe): every public operation as an operator on tensor records.

   A tensor is  [legs, qtotal, labels, val]  with
     legs   : Seq of Leg,  Leg == [sizes : Seq(Nat), charges : Seq(Seq(Int)), qconj : {1,-1},
                                    pipe : <<>> or Seq of incoming Legs (a LegPipe)]
     qtotal : Seq(Int) of length QN
     labels : Seq of labels; a label is a sequence of string tokens (<<>> = None,
              <<"a">> = 'a', <<"a","*">> = 'a*', <<"(","a",".","b",")">> = '(a.b)')
     val    : dense tensor over Gaussian integers (module Dense) -- the *meaning* of the tensor.

   The dense layer is the reference semantics (what numpy would compute on to_ndarray()); the
   charge layer (legs, qtotal) follows the documented rules of doc/intro/npc.rst.  The invariant
   ChargeRule ties the two together: every non-zero entry sits at an index tuple whose leg charges
   add up to qtotal. *)
EXTENDS Dense, TLC

CONSTANT Mods          \* sequence of `mod` of the ChargeInfo, one per charge; 1 means U(1)

QN == Len(Mods)
MakeValid(q) == [k \in 1..QN |-> IF Mods[k] = 1 THEN q[k] ELSE q[k] % Mods[k]]
QZero == [k \in 1..QN |-> 0]
QAdd(a, b) == MakeValid([k \in 1..QN |-> a[k] + b[k]])
QSub(a, b) == MakeValid([k \in 1..QN |-> a[k] - b[k]])
QNeg(a) == MakeValid([k \in 1..QN |-> -a[k]])
QScale(s, a) == MakeValid([k \in 1..QN |-> s * a[k]])

-----------------------------------------------------------------------------
\* legs
IndLen(leg) == ISumSeq(leg.sizes)
NBlocks(leg) == Len(leg.sizes)
BlockStart(leg, b) == ISumSeq(SubSeq(leg.sizes, 1, b - 1))
\* block (1-based) containing flat index i (0-based)
QIndex(leg, i) == CHOOSE b \in 1..NBlocks(leg) : BlockStart(leg, b) <= i /\ i < BlockStart(leg, b) + leg.sizes[b]
Within(leg, i) == i - BlockStart(leg, QIndex(leg, i))
FlatCharge(leg, i) == leg.charges[QIndex(leg, i)]
\* effective (direction-weighted) charge of flat index i
EffCharge(leg, i) == QScale(leg.qconj, FlatCharge(leg, i))
QFlat(leg) == [i \in 1..IndLen(leg) |-> FlatCharge(leg, i - 1)]

PlainLeg(sizes, charges, qconj) == [sizes |-> sizes, charges |-> charges, qconj |-> qconj, pipe |-> <<>>, psort |-> FALSE]
IsPipe(leg) == leg.pipe # <<>>
ToLegCharge(leg) == [leg EXCEPT !.pipe = <<>>, !.psort = FALSE]

RECURSIVE ConjLeg(_)
ConjLeg(leg) == [leg EXCEPT !.qconj = -@, !.pipe = [k \in 1..Len(@) |-> ConjLeg(@[k])]]

\* LegCharge.__eq__ : same block structure and same direction-weighted charges
LegEqual(a, b) == /\ a.sizes = b.sizes
                  /\ \A k \in 1..NBlocks(a) : QScale(a.qconj, a.charges[k]) = QScale(b.qconj, b.charges[k])
Contractible(a, b) == LegEqual(a, ConjLeg(b))

\* lexicographic comparison of integer sequences of equal length
RECURSIVE SeqLess(_, _)
SeqLess(a, b) == IF a = <<>> THEN FALSE
                 ELSE IF Head(a) < Head(b) THEN TRUE
                 ELSE IF Head(a) > Head(b) THEN FALSE
                 ELSE SeqLess(Tail(a), Tail(b))
Reverse(s) == [k \in 1..Len(s) |-> s[Len(s) + 1 - k]]
RECURSIVE SortedSeqOf(_)
SortedSeqOf(S) == IF S = {} THEN <<>> ELSE LET m == CHOOSE x \in S : \A y \in S : x <= y IN <<m>> \o SortedSeqOf(S \ {m})
\* tenpy sorts charges with np.lexsort(charges.T): the LAST charge is the primary key
ChargeKey(q) == Reverse(q)

\* bunch: merge neighbouring blocks of equal charge
RECURSIVE BunchBlocks(_, _)
BunchBlocks(sizes, charges) ==
    IF Len(sizes) <= 1 THEN <<sizes, charges>>
    ELSE LET r == BunchBlocks(Tail(sizes), Tail(charges)) IN
         IF charges[1] = r[2][1]
         THEN <<<<sizes[1] + r[1][1]>> \o Tail(r[1]), r[2]>>
         ELSE <<<<sizes[1]>> \o r[1], <<charges[1]>> \o r[2]>>

\* LegCharge.from_qflat: one block per run of equal charges
LegFromQFlat(qflat, qconj) ==
    IF Len(qflat) = 0 THEN PlainLeg(<<>>, <<>>, qconj)
    ELSE LET b == BunchBlocks([i \in 1..Len(qflat) |-> 1], qflat) IN PlainLeg(b[1], b[2], qconj)

-----------------------------------------------------------------------------
\* LegPipe: declarative definition of the outgoing leg and of the index map.
\* An incoming index tuple t (0-based flat indices, one per incoming leg) is placed according to the key
\*   (fused charge [last charge first], qindex of each leg in order, index within block of each leg in order)
\* when sort = TRUE; without sort the fused charge is left out of the key.
\* The fusion rule:  qconjOut * charge_out  =  sum_l  qconj_l * charge_l   (mod)
SubShape(legs) == [l \in 1..Len(legs) |-> IndLen(legs[l])]
\* everything about a pipe, computed once:
\*   inv[o]  (o = 1..N): the incoming tuple sitting at outgoing flat index o-1
\*   map[n]  (n = 1..N, C order of incoming tuples): outgoing flat index (0-based)
\*   leg     : the outgoing leg (with .pipe = incoming legs)
PipeData(legs, qconjOut, sort, bunch) ==
    LET sh == SubShape(legs)
        N == Size(sh)
        nl == Len(legs)
        qi == ([l \in 1..nl |-> [i \in 1..IndLen(legs[l]) |-> QIndex(legs[l], i - 1)]]) \o <<>>
        wi == ([l \in 1..nl |-> [i \in 1..IndLen(legs[l]) |-> (i - 1) - BlockStart(legs[l], qi[l][i])]]) \o <<>>
        tup == ([n \in 1..N |-> Unflat(n - 1, sh)]) \o <<>>
        fused == ([n \in 1..N |-> MakeValid([k \in 1..QN |->
                     qconjOut * ISumSeq([l \in 1..nl |-> legs[l].qconj * legs[l].charges[qi[l][tup[n][l] + 1]][k]])])]) \o <<>>
        keys == ([n \in 1..N |-> (IF sort THEN ChargeKey(fused[n]) ELSE <<>>)
                                \o [l \in 1..nl |-> qi[l][tup[n][l] + 1]]
                                \o [l \in 1..nl |-> wi[l][tup[n][l] + 1]]]) \o <<>>
        ord == SortSeq([n \in 1..N |-> n], LAMBDA a, b : SeqLess(keys[a], keys[b]))
        pos == ([n \in 1..N |-> CHOOSE o \in 1..N : ord[o] = n]) \o <<>>
        qt == ([o \in 1..N |-> [l \in 1..nl |-> qi[l][tup[ord[o]][l] + 1]]]) \o <<>>
        \* one block per qindex tuple (consecutive in outgoing order), then optionally bunched
        ones == [o \in 1..N |-> 1]
        RECURSIVE Runs(_)
        Runs(o) == IF o > N THEN <<>>
                   ELSE LET RECURSIVE End(_)
                            End(e) == IF e < N /\ qt[e + 1] = qt[o] THEN End(e + 1) ELSE e
                            e == End(o)
                        IN <<<<e - o + 1, fused[ord[o]]>>>> \o Runs(e + 1)
        bl == Runs(1)
        sizes == [k \in 1..Len(bl) |-> bl[k][1]]
        charges == [k \in 1..Len(bl) |-> bl[k][2]]
        bb == IF bunch THEN BunchBlocks(sizes, charges) ELSE <<sizes, charges>>
    IN [inv |-> [o \in 1..N |-> tup[ord[o]]] \o <<>>,
        map |-> [n \in 1..N |-> pos[n] - 1] \o <<>>,
        leg |-> [sizes |-> bb[1], charges |-> bb[2], qconj |-> qconjOut, pipe |-> legs, psort |-> sort]]
PipeMap(legs, qconjOut, sort) == PipeData(legs, qconjOut, sort, TRUE).map
PipeInv(legs, qconjOut, sort) == PipeData(legs, qconjOut, sort, TRUE).inv
MakePipe(legs, qconjOut, sort, bunch) == PipeData(legs, qconjOut, sort, bunch).leg
FusedCharge(legs, qconjOut, t) ==
    MakeValid([k \in 1..QN |-> qconjOut * ISumSeq([l \in 1..Len(legs) |-> legs[l].qconj * FlatCharge(legs[l], t[l])[k]])])

-----------------------------------------------------------------------------
\* labels (token sequences)
NoneLabel == <<>>
Special == {"(", ")", ".", "*"}
QMark == <<"?0", "?1", "?2", "?3", "?4", "?5", "?6", "?7">>
QMarkSet == {QMark[i] : i \in 1..Len(QMark)}
RECURSIVE ConjTokens(_)
ConjTokens(s) ==
    IF s = <<>> THEN <<>>
    ELSE IF Head(s) \in Special THEN <<Head(s)>> \o ConjTokens(Tail(s))
    ELSE IF Len(s) > 1 /\ s[2] = "*" THEN <<Head(s)>> \o ConjTokens(SubSeq(s, 3, Len(s)))
    ELSE <<Head(s), "*">> \o ConjTokens(Tail(s))
ConjLabel(l) == ConjTokens(l)
RECURSIVE JoinDot(_)
JoinDot(ls) == IF Len(ls) = 1 THEN ls[1] ELSE ls[1] \o <<".">> \o JoinDot(Tail(ls))
\* labels of the combined legs; axes (1-based) give the '?#' replacement for unlabeled legs
CombineLabels(labels, axes) ==
    <<"(">> \o JoinDot([k \in 1..Len(axes) |-> IF labels[axes[k]] = NoneLabel THEN <<QMark[axes[k]]>> ELSE labels[axes[k]]]) \o <<")">>
\* split '(a.b.(c.d))' into count labels; '?#' (possibly starred) -> None
RECURSIVE SplitTop(_, _, _)
SplitTop(s, depth, cur) ==
    IF s = <<>> THEN <<cur>>
    ELSE LET c == Head(s) IN
         IF c = "." /\ depth = 0 THEN <<cur>> \o SplitTop(Tail(s), depth, <<>>)
         ELSE SplitTop(Tail(s), IF c = "(" THEN depth + 1 ELSE IF c = ")" THEN depth - 1 ELSE depth, Append(cur, c))
SplitLabel(l, count) ==
    IF l = NoneLabel \/ l[1] # "(" \/ l[Len(l)] # ")" THEN [k \in 1..count |-> NoneLabel]
    ELSE LET parts == SplitTop(SubSeq(l, 2, Len(l) - 1), 0, <<>>) IN
         [k \in 1..count |-> IF parts[k][1] \in QMarkSet THEN NoneLabel ELSE parts[k]]
\* _drop_duplicate_labels: a label occurring in both lists is dropped on both sides (first match)
DropDuplicates(la, lb) ==
    LET hitA == {i \in 1..Len(la) : la[i] # NoneLabel /\ \E j \in 1..Len(lb) : lb[j] = la[i]}
        \* for each colliding a-label the FIRST equal b-label is dropped
        hitB == {j \in 1..Len(lb) : \E i \in hitA : lb[j] = la[i] /\ \A j2 \in 1..(j - 1) : lb[j2] # la[i]}
    IN [i \in 1..Len(la) |-> IF i \in hitA THEN NoneLabel ELSE la[i]]
       \o [j \in 1..Len(lb) |-> IF j \in hitB THEN NoneLabel ELSE lb[j]]

-----------------------------------------------------------------------------
\* tensors
TRank(t) == Len(t.legs)
ShapeOf(legs) == [a \in 1..Len(legs) |-> IndLen(legs[a])]
IndexCharge(legs, idx) ==
    MakeValid([k \in 1..QN |-> ISumSeq([a \in 1..Len(legs) |-> legs[a].qconj * FlatCharge(legs[a], idx[a])[k]])])
\* the charge rule: non-zero entries only where the leg charges add up to qtotal
ChargeRule(t) == \A n \in 1..Len(t.val.val) :
                    ~GIsZero(t.val.val[n]) => IndexCharge(t.legs, Unflat(n - 1, t.val.shape)) = t.qtotal
WellFormed(t) == /\ t.val.shape = ShapeOf(t.legs)
                 /\ Len(t.labels) = TRank(t)
                 /\ Len(t.qtotal) = QN
                 /\ \A a \in 1..TRank(t) : \A b \in 1..NBlocks(t.legs[a]) : t.legs[a].charges[b] = MakeValid(t.legs[a].charges[b])
                 /\ t.qtotal = MakeValid(t.qtotal)
                 /\ \A a, b \in 1..TRank(t) : (a # b /\ t.labels[a] # NoneLabel) => t.labels[a] # t.labels[b]
Tensor(legs, qtotal, labels, val) == [legs |-> legs, qtotal |-> qtotal, labels |-> labels, val |-> val]
\* from_func-like constructor: entry f(idx) wherever the charge rule allows it, zero elsewhere
MkTensor(legs, qtotal, labels, f(_)) ==
    Tensor(legs, qtotal, labels,
           Mk(ShapeOf(legs), LAMBDA idx : IF IndexCharge(legs, idx) = qtotal THEN f(idx) ELSE GZero))

-----------------------------------------------------------------------------
\* same, but the blocks (qindex tuples, 1-based) listed in `missing` are left zero (not stored)
MkTensorM(legs, qtotal, labels, f(_), missing) ==
    Tensor(legs, qtotal, labels,
           Mk(ShapeOf(legs), LAMBDA idx : IF IndexCharge(legs, idx) = qtotal /\ ([a \in 1..Len(legs) |-> QIndex(legs[a], idx[a])] \o <<>>) \notin missing
                                          THEN f(idx) ELSE GZero))

\* operations.  Each Can* is the precondition under which tenpy accepts the call.

OpConj(t) == Tensor([a \in 1..TRank(t) |-> ConjLeg(t.legs[a])], QNeg(t.qtotal),
                    [a \in 1..TRank(t) |-> ConjLabel(t.labels[a])], TConj(t.val))
\* conj(complex_conj=False): charges conjugated, entries untouched
OpConjNoCC(t) == [OpConj(t) EXCEPT !.val = t.val]
\* complex_conj(): entries conjugated, charges untouched
OpComplexConj(t) == [t EXCEPT !.val = TConj(t.val)]

IsPerm(p, n) == Len(p) = n /\ {p[k] : k \in 1..n} = 1..n
OpTranspose(t, perm) == Tensor([a \in 1..TRank(t) |-> t.legs[perm[a]]], t.qtotal,
                               [a \in 1..TRank(t) |-> t.labels[perm[a]]], TTranspose(t.val, perm))

CanTensordot(a, b, axa, axb) ==
    /\ Len(axa) = Len(axb)
    /\ \A i \in 1..Len(axa) : Contractible(a.legs[axa[i]], b.legs[axb[i]])
OpTensordot(a, b, axa, axb) ==
    LET fa == FreeAxes(TRank(a), axa)
        fb == FreeAxes(TRank(b), axb)
    IN Tensor([i \in 1..Len(fa) |-> a.legs[fa[i]]] \o [i \in 1..Len(fb) |-> b.legs[fb[i]]],
              QAdd(a.qtotal, b.qtotal),
              DropDuplicates([i \in 1..Len(fa) |-> a.labels[fa[i]]], [i \in 1..Len(fb) |-> b.labels[fb[i]]]),
              TTensordot(a.val, b.val, axa, axb))
OpOuter(a, b) == OpTensordot(a, b, <<>>, <<>>)

\* inner(a, b, axes='range', do_conj): complete contraction to a scalar
CanInner(a, b, doConj) ==
    /\ TRank(a) = TRank(b)
    /\ \A i \in 1..TRank(a) : IF doConj THEN LegEqual(a.legs[i], b.legs[i]) ELSE Contractible(a.legs[i], b.legs[i])
OpInner(a, b, doConj) == TInner(a.val, b.val, doConj)

CanTrace(t, x, y) == x # y /\ Contractible(t.legs[x], t.legs[y])
OpTrace(t, x, y) ==
    LET fr == FreeAxes(TRank(t), <<x, y>>) IN
    Tensor([i \in 1..Len(fr) |-> t.legs[fr[i]]], t.qtotal, [i \in 1..Len(fr) |-> t.labels[fr[i]]], TTrace(t.val, x, y))

\* a + b, a - b, a.iadd_prefactor_other(z, b): same legs and same total charge required
CanAdd(a, b) == /\ TRank(a) = TRank(b)
                /\ \A i \in 1..TRank(a) : LegEqual(a.legs[i], b.legs[i])
                /\ a.qtotal = b.qtotal
OpAddScaled(a, z, b) == [a EXCEPT !.val = TAdd(a.val, TScale(z, b.val))]
\* same, but `b` carries the same (complete, distinct) labels in a different order: it is transposed first
AllLabeled(t) == \A i \in 1..TRank(t) : t.labels[i] # NoneLabel
LabelPerm(a, b) == [i \in 1..TRank(a) |-> CHOOSE j \in 1..TRank(b) : b.labels[j] = a.labels[i]]
CanAddByLabels(a, b) ==
    /\ TRank(a) = TRank(b) /\ TRank(a) >= 2 /\ AllLabeled(a) /\ AllLabeled(b)
    /\ {a.labels[i] : i \in 1..TRank(a)} = {b.labels[i] : i \in 1..TRank(b)}
    /\ a.labels # b.labels
    /\ CanAdd(a, OpTranspose(b, LabelPerm(a, b)))
OpAddByLabels(a, z, b) == OpAddScaled(a, z, OpTranspose(b, LabelPerm(a, b)))
\* what `a + b`, `a - b`, `a.iadd_prefactor_other(z, b)` really add: "if self and other have the same labels in different
\* order, other gets transposed before the action" -- also when the legs would fit position by position
LabelShuffled(a, b) ==
    /\ TRank(a) = TRank(b) /\ AllLabeled(a) /\ AllLabeled(b)
    /\ {a.labels[i] : i \in 1..TRank(a)} = {b.labels[i] : i \in 1..TRank(b)}
    /\ a.labels # b.labels
AddOperand(a, b) == IF LabelShuffled(a, b) THEN OpTranspose(b, LabelPerm(a, b)) ELSE b
CanAddL(a, b) == TRank(a) = TRank(b) /\ CanAdd(a, AddOperand(a, b))
OpAddScaledL(a, z, b) == OpAddScaled(a, z, AddOperand(a, b))
OpScale(t, z) == [t EXCEPT !.val = TScale(z, t.val)]

\* combine_legs(groups, qconj=qcs [, new_axes]): several pipes at once.
\*   groups : Seq of Seq of axes (1-based), qcs : Seq of +-1 (direction of each pipe)
\* Default position of pipe i (as documented): number of non-combined axes before its first leg plus the
\* number of other pipes whose first leg comes earlier.
AllGrouped(groups) == UNION {{groups[i][k] : k \in 1..Len(groups[i])} : i \in 1..Len(groups)}
NonCombinedG(t, groups) == LET S == AllGrouped(groups) IN SelectSeq([a \in 1..TRank(t) |-> a], LAMBDA a : a \notin S)
DefaultNewAxes(t, groups) ==
    LET S == AllGrouped(groups) IN
    [i \in 1..Len(groups) |-> 1 + Cardinality({a \in 1..TRank(t) : a \notin S /\ a < groups[i][1]})
                                + Cardinality({j \in 1..Len(groups) : groups[j][1] < groups[i][1]})]
CanCombineG(t, groups) ==
    /\ Len(groups) >= 1
    /\ \A i \in 1..Len(groups) : Len(groups[i]) >= 1 /\ \A k \in 1..Len(groups[i]) : groups[i][k] \in 1..TRank(t)
    /\ \A i, j \in 1..Len(groups) : \A k \in 1..Len(groups[i]), m \in 1..Len(groups[j]) :
           (i # j \/ k # m) => groups[i][k] # groups[j][m]
OpCombineG(t, groups, qcs, newAxes, sort, bunch) ==
    LET ng == Len(groups)
        nc == NonCombinedG(t, groups)
        r2 == Len(nc) + ng
        pd == [i \in 1..ng |-> PipeData([k \in 1..Len(groups[i]) |-> t.legs[groups[i][k]]], qcs[i], sort, bunch)]
        \* which pipe (or 0) sits at result axis a, and which non-combined axis otherwise
        pipeAt == [a \in 1..r2 |-> IF \E i \in 1..ng : newAxes[i] = a THEN CHOOSE i \in 1..ng : newAxes[i] = a ELSE 0]
        ncAt == [a \in 1..r2 |-> IF pipeAt[a] # 0 THEN 0 ELSE nc[a - Cardinality({i \in 1..ng : newAxes[i] < a})]]
        legs == [a \in 1..r2 |-> IF pipeAt[a] # 0 THEN pd[pipeAt[a]].leg ELSE t.legs[ncAt[a]]]
        labels == [a \in 1..r2 |-> IF pipeAt[a] # 0 THEN CombineLabels(t.labels, groups[pipeAt[a]]) ELSE t.labels[ncAt[a]]]
        \* for each source axis b: <<result axis, position in group or 0>>
        where == [b \in 1..TRank(t) |->
                    IF \E i \in 1..ng : \E k \in 1..Len(groups[i]) : groups[i][k] = b
                    THEN LET i == CHOOSE i \in 1..ng : \E k \in 1..Len(groups[i]) : groups[i][k] = b
                         IN <<newAxes[i], CHOOSE k \in 1..Len(groups[i]) : groups[i][k] = b, i>>
                    ELSE <<CHOOSE a \in 1..r2 : ncAt[a] = b, 0, 0>>]
        src(idx) == [b \in 1..TRank(t) |->
                       IF where[b][2] # 0 THEN pd[where[b][3]].inv[idx[where[b][1]] + 1][where[b][2]]
                       ELSE idx[where[b][1]]]
    IN Tensor(legs, t.qtotal, labels, Mk(ShapeOf(legs), LAMBDA idx : At(t.val, src(idx))))
\* the single-pipe form used most often
NonCombined(t, group) == FreeAxes(TRank(t), group)
NewAxis(t, group) == DefaultNewAxes(t, <<group>>)[1]
CanCombine(t, group) == CanCombineG(t, <<group>>)
OpCombine(t, group, qc, sort, bunch) == OpCombineG(t, <<group>>, <<qc>>, DefaultNewAxes(t, <<group>>), sort, bunch)

\* split_legs(axis): inverse of combine (no transpose back)
\* (leg labels must stay unique: splitting "(b.a)" next to legs already called "a" or "b" is an error in tenpy, too)
CanSplit(t, x) ==
    /\ x \in 1..TRank(t) /\ IsPipe(t.legs[x])
    /\ LET sl == SplitLabel(t.labels[x], Len(t.legs[x].pipe)) IN
       /\ \A i, j \in 1..Len(sl) : (i # j /\ sl[i] # NoneLabel) => sl[i] # sl[j]
       /\ \A i \in 1..Len(sl), a \in 1..TRank(t) : (a # x /\ sl[i] # NoneLabel) => sl[i] # t.labels[a]
\* (`psort` records whether the pipe was built with sort=True; it determines the index map)
OpSplit(t, x) ==
    LET p == t.legs[x]
        n == Len(p.pipe)
        r2 == TRank(t) + n - 1
        legs == [a \in 1..r2 |-> IF a < x THEN t.legs[a] ELSE IF a < x + n THEN p.pipe[a - x + 1] ELSE t.legs[a - n + 1]]
        sl == SplitLabel(t.labels[x], n)
        labels == [a \in 1..r2 |-> IF a < x THEN t.labels[a] ELSE IF a < x + n THEN sl[a - x + 1] ELSE t.labels[a - n + 1]]
        m == PipeMap(p.pipe, p.qconj, p.psort)
        sh == SubShape(p.pipe)
        src(idx) == [b \in 1..TRank(t) |->
                       IF b < x THEN idx[b]
                       ELSE IF b = x THEN m[Flat([k \in 1..n |-> idx[x + k - 1]], sh) + 1]
                       ELSE idx[b + n - 1]]
    IN Tensor(legs, t.qtotal, labels, Mk(ShapeOf(legs), LAMBDA idx : At(t.val, src(idx))))

\* take_slice(i, axis): fix an index; the charge of that index moves into qtotal
OpTakeSlice(t, i, x) ==
    LET fr == FreeAxes(TRank(t), <<x>>) IN
    Tensor([k \in 1..Len(fr) |-> t.legs[fr[k]]],
           QSub(t.qtotal, QScale(t.legs[x].qconj, FlatCharge(t.legs[x], i))),
           [k \in 1..Len(fr) |-> t.labels[fr[k]]], TTake(t.val, x, i))

\* iproject(mask, axis) with the mask given as the ascending sequence of kept indices
ProjectLeg(leg, keep) ==
    LET K == {keep[k] : k \in 1..Len(keep)}
        cnt(b) == Cardinality({i \in K : QIndex(leg, i) = b})
        kb == SelectSeq([b \in 1..NBlocks(leg) |-> b], LAMBDA b : cnt(b) > 0)
    IN PlainLeg([j \in 1..Len(kb) |-> cnt(kb[j])], [j \in 1..Len(kb) |-> leg.charges[kb[j]]], leg.qconj)
OpProject(t, keep, x) ==
    Tensor([a \in 1..TRank(t) |-> IF a = x THEN ProjectLeg(t.legs[a], keep) ELSE t.legs[a]], t.qtotal, t.labels,
           TSelect(t.val, x, keep))

\* permute(perm, axis): res[i] = self[perm[i]]; the new leg is from_qflat (bunched)
OpPermute(t, perm, x) ==
    LET old == t.legs[x]
        nl == LegFromQFlat([i \in 1..Len(perm) |-> FlatCharge(old, perm[i])], old.qconj)
    IN Tensor([a \in 1..TRank(t) |-> IF a = x THEN nl ELSE t.legs[a]], t.qtotal, t.labels, TSelect(t.val, x, perm))

\* sort_legcharge(sort, bunch) on one axis = encapsulate the leg into a one-leg pipe and forget the pipe
OpSortLeg(t, x, sort, bunch) ==
    LET leg == t.legs[x]
        pd == PipeData(<<leg>>, leg.qconj, sort, bunch)
        pipe == pd.leg
        inv == pd.inv
        perm == [o \in 1..IndLen(leg) |-> inv[o][1]]
    IN [tensor |-> Tensor([a \in 1..TRank(t) |-> IF a = x THEN ToLegCharge(pipe) ELSE t.legs[a]], t.qtotal, t.labels,
                          TSelect(t.val, x, perm)),
        perm |-> perm]

\* scale_axis(s, axis)
OpScaleAxis(t, s, x) == [t EXCEPT !.val = TScaleAxis(t.val, x, s)]

\* concatenate([a, b], axis): other legs equal, same qtotal; labels of the first
CanConcat(a, b, x) == /\ TRank(a) = TRank(b) /\ a.qtotal = b.qtotal
                      /\ a.legs[x].qconj = b.legs[x].qconj
                      /\ \A i \in 1..TRank(a) : i # x => LegEqual(a.legs[i], b.legs[i])
OpConcat(a, b, x) ==
    LET la == a.legs[x]
        lb == b.legs[x]
        nl == PlainLeg(la.sizes \o lb.sizes, la.charges \o lb.charges, la.qconj)
    IN Tensor([i \in 1..TRank(a) |-> IF i = x THEN nl ELSE a.legs[i]], a.qtotal, a.labels, TConcat(a.val, b.val, x))

\* add_trivial_leg(axis, label, qconj): new leg of length 1 with charge 0 inserted before `x`
OpAddTrivialLeg(t, x, label, qc) ==
    LET nl == PlainLeg(<<1>>, <<QZero>>, qc)
        r2 == TRank(t) + 1
    IN Tensor([a \in 1..r2 |-> IF a < x THEN t.legs[a] ELSE IF a = x THEN nl ELSE t.legs[a - 1]], t.qtotal,
              [a \in 1..r2 |-> IF a < x THEN t.labels[a] ELSE IF a = x THEN label ELSE t.labels[a - 1]],
              TReshape(t.val, [a \in 1..r2 |-> IF a < x THEN t.val.shape[a] ELSE IF a = x THEN 1 ELSE t.val.shape[a - 1]]))

\* squeeze(axis): remove a leg of length 1, its charge goes into qtotal
CanSqueeze(t, x) == IndLen(t.legs[x]) = 1 /\ TRank(t) > 1
OpSqueeze(t, x) == OpTakeSlice(t, 0, x)

\* gauge_total_charge(axis, newqtotal, new_qconj)
OpGauge(t, x, newq, newqc) ==
    LET leg == t.legs[x]
        diff == [k \in 1..QN |-> newq[k] - t.qtotal[k]]
        ch(b) == LET c == [k \in 1..QN |-> leg.charges[b][k] + leg.qconj * diff[k]] IN
                 MakeValid(IF newqc # leg.qconj THEN [k \in 1..QN |-> -c[k]] ELSE c)
        nl == PlainLeg(leg.sizes, [b \in 1..NBlocks(leg) |-> ch(b)], newqc)
    IN Tensor([a \in 1..TRank(t) |-> IF a = x THEN nl ELSE t.legs[a]], MakeValid(newq), t.labels, t.val)

\* a[idx] = z for a full index tuple (only allowed where the charge rule permits a non-zero entry)
CanSetEntry(t, idx) == IndexCharge(t.legs, idx) = t.qtotal
OpSetEntry(t, idx, z) == [t EXCEPT !.val = [@ EXCEPT !.val = [@ EXCEPT ![Flat(idx, t.val.shape) + 1] = z]]]

\* self[inds] with one index spec per axis:  [k |-> "all"] | [k |-> "int", i |-> i] | [k |-> "sel", sel |-> Seq of indices]
\* (slices and bool masks are index sequences too).  Documented as take_slice on the integer axes, iproject with the
\* set of selected indices on the others, and a permute where the selection is not ascending.
IsAscending(q) == \A i \in 1..(Len(q) - 1) : q[i] < q[i + 1]
RECURSIVE GetItemFrom(_, _, _)
GetItemFrom(t, spec, a) ==          \* process axes from the last to the first so axis numbers stay valid
    IF a = 0 THEN t
    ELSE LET sp == spec[a] IN
         IF sp.k = "all" THEN GetItemFrom(t, spec, a - 1)
         ELSE IF sp.k = "int" THEN GetItemFrom(OpTakeSlice(t, sp.i, a), spec, a - 1)
         ELSE LET srt == SortedSeqOf({sp.sel[j] : j \in 1..Len(sp.sel)})
                  proj == OpProject(t, srt, a)
                  \* position of sp.sel[j] within the projected axis
                  perm == [j \in 1..Len(sp.sel) |-> (CHOOSE p \in 1..Len(srt) : srt[p] = sp.sel[j]) - 1]
              IN GetItemFrom(IF IsAscending(sp.sel) THEN proj ELSE OpPermute(proj, perm, a), spec, a - 1)
OpGetItem(t, spec) == GetItemFrom(t, spec, TRank(t))
\* self[inds] = z * self[inds]  (read, scale, write back): entries at the selected positions are scaled
Selected(spec, idx) == \A a \in 1..Len(spec) :
    CASE spec[a].k = "all" -> TRUE
      [] spec[a].k = "int" -> idx[a] = spec[a].i
      [] OTHER -> \E j \in 1..Len(spec[a].sel) : spec[a].sel[j] = idx[a]
OpScaleItems(t, spec, z) == [t EXCEPT !.val = Mk(t.val.shape, LAMBDA idx : IF Selected(spec, idx) THEN GMul(z, At(t.val, idx)) ELSE At(t.val, idx))]

\* self[inds] = other[inds]  for another tensor with the same legs and total charge: the selected entries are
\* replaced by those of `other` (also where `other` has no stored block: those entries become zero)
OpSetItemsFrom(t, o, spec) == [t EXCEPT !.val = Mk(t.val.shape, LAMBDA idx : IF Selected(spec, idx) THEN At(o.val, idx) ELSE At(t.val, idx))]

\* extend(axis, extra): append zero-filled blocks of the leg `extra` to axis x
OpExtend(t, x, extra) ==
    LET old == t.legs[x]
        nl == PlainLeg(old.sizes \o extra.sizes, old.charges \o extra.charges, old.qconj)
        legs == [a \in 1..TRank(t) |-> IF a = x THEN nl ELSE t.legs[a]]
    IN Tensor(legs, t.qtotal, t.labels,
              Mk(ShapeOf(legs), LAMBDA idx : IF idx[x] < IndLen(old) THEN At(t.val, idx) ELSE GZero))

\* add_leg(leg, i, axis, label): inverse of take_slice -- new axis x carrying `leg`, old data at index i
OpAddLeg(t, leg, i, x, label) ==
    LET r2 == TRank(t) + 1
        legs == [a \in 1..r2 |-> IF a < x THEN t.legs[a] ELSE IF a = x THEN leg ELSE t.legs[a - 1]]
    IN Tensor(legs, QAdd(t.qtotal, QScale(leg.qconj, FlatCharge(leg, i))),
              [a \in 1..r2 |-> IF a < x THEN t.labels[a] ELSE IF a = x THEN label ELSE t.labels[a - 1]],
              Mk(ShapeOf(legs), LAMBDA idx : IF idx[x] = i THEN At(t.val, [b \in 1..TRank(t) |-> IF b < x THEN idx[b] ELSE idx[b + 1]]) ELSE GZero))

\* norm^2 (Frobenius)
OpNorm2(t) == TNorm2(t.val)
=============================================================================
