#!/bin/sh
# tools/try_seed.sh <worktree> <patch.diff> <Cxx> [<Cyy> ...]: apply a seeded change in a scratch worktree, run the
# quick checks against it (VERIF_REPO), report which raise VIOLATION, undo the change.
wt="$1"; patch="$2"; shift 2
cd /verif || exit 2
git -C "$wt" checkout -q -- . && git -C "$wt" apply "$patch" || { echo "cannot apply $patch"; exit 2; }
for c in "$@"; do
  out="build/seedrun-$c-$$.log"
  VERIF_EVIDENCE_DIR=/verif/build/seed-evidence VERIF_REPO="$wt" timeout 3000 ./check "$c" --tier quick > "$out" 2>&1
  code=$?
  nv=$(grep -c '^VIOLATION' "$out")
  echo "== $c exit=$code violations=$nv"
  grep -A1 '^VIOLATION' "$out" | grep signature | sort | uniq -c | head -8
  [ $code -eq 2 ] && tail -5 "$out"
done
git -C "$wt" checkout -q -- .
