----------------------------- MODULE TraceSimIO -----------------------------
(* Trace validation for SimIO (C18): decides whether executions recorded from the real
   tenpy Simulation -- the system calls on the two result files (strace), the marker events for
   algorithm steps / measurements / checkpoints, the injected crashes with the projection of the
   files that survived, the resumes, and the final measurement list -- are behaviours of SimIO.

   Traces come from the ndjson file named by the environment variable TRACE_FILE, one trace per
   line: {"id": n, "ev": [event, ...]}.  All traces of one file belong to one configuration of the
   constants.  Every trace is validated independently (one initial state per trace); a trace that
   can be matched to its end prints  <<"ACCEPT", id, code>>  where `code` encodes the set of
   SimIO's state properties that were false in some state along the matched behaviour. *)
EXTENDS SimIO, Json, IOUtils, TLCExt

Traces == ndJsonDeserialize(IOEnv.TRACE_FILE)

VARIABLES tid, l, viol

tvars == <<vars, tid, l, viol>>

T == Traces[tid].ev

Ks(meas) == [i \in 1..Len(meas) |-> meas[i][1]]

\* relation between a spec file state and the projection of the real file after a kill
FileMatch(f, p) ==
    CASE p.st = "absent"   -> f.st = "absent"
      [] p.st = "empty"    -> f.st = "text" \/ (f.st = "partial" /\ f.w = 0)
      [] p.st = "text"     -> f.st = "text"
      [] p.st = "junk"     -> f.st = "partial" /\ f.w >= 1
      [] p.st = "complete" -> /\ f.st = "complete"
                              /\ f.c.k = p.k /\ f.c.fin = p.fin /\ Ks(f.c.meas) = p.ks
      [] OTHER -> FALSE

EvMatch(r, e) ==
    /\ r.op = e.op
    /\ CASE r.op = "stat" -> r.f = e.f /\ r.r = e.r
         [] r.op = "open" -> r.f = e.f /\ e.trunc     \* the spec only ever opens with truncation
         [] r.op \in {"close", "unlink"} -> r.f = e.f
         [] r.op = "write" -> r.f = e.f /\ r.n = e.n
         [] r.op = "rename" -> r.f = e.f /\ r.t = e.t
         [] r.op \in {"meas", "ckpt", "alg"} -> r.k = e.k
         [] r.op = "done" -> r.k = e.k /\ r.ks = e.ks /\ r.accs = e.accs
         [] r.op = "resume" -> r.f = e.f
         [] r.op = "crash" -> FileMatch(out, e.out) /\ FileMatch(bak, e.bak)
         [] r.op \in {"restart", "exc"} -> TRUE
         [] OTHER -> FALSE

\* steps of the specification that leave no record in a trace
Silent(r) == r.op \in {"tau", "sub"} \/ (r.op = "alg" /\ Kind # "dummy")

StateViol ==
    {n \in {"AlwaysACompleteFile", "NeverOnlyPartial", "MeasPrefixOfIdeal", "FinalEqual", "ResumeRuns",
            "SavedIsCheckpoint"} :
        \/ n = "AlwaysACompleteFile" /\ ~AlwaysACompleteFile
        \/ n = "NeverOnlyPartial" /\ ~NeverOnlyPartial
        \/ n = "MeasPrefixOfIdeal" /\ ~MeasPrefixOfIdeal
        \/ n = "FinalEqual" /\ ~FinalEqual
        \/ n = "ResumeRuns" /\ ~ResumeRuns
        \/ n = "SavedIsCheckpoint" /\ ~SavedIsCheckpoint}

\* evaluated on the projection of the real files, not on the spec state
RealViol(e) ==
    IF e.op = "crash" /\ saved /\ e.out.st # "complete" /\ e.bak.st # "complete"
    THEN {"RealNoCompleteFile"} ELSE {}

\* the set of violated properties as a bit mask (keeps the printed line short)
ViolCode(S) == (IF "AlwaysACompleteFile" \in S THEN 1 ELSE 0) + (IF "NeverOnlyPartial" \in S THEN 2 ELSE 0)
             + (IF "MeasPrefixOfIdeal" \in S THEN 4 ELSE 0) + (IF "FinalEqual" \in S THEN 8 ELSE 0)
             + (IF "ResumeRuns" \in S THEN 16 ELSE 0) + (IF "RealNoCompleteFile" \in S THEN 32 ELSE 0)
             + (IF "SavedIsCheckpoint" \in S THEN 64 ELSE 0)

TraceInit == /\ Init
             /\ tid \in 1..Len(Traces)
             /\ l = 1
             /\ viol = {}

NextT == \/ NextNoWrite
         \/ T[l].op = "write" /\ Step(SvWrite(T[l].n))
         \/ T[l].op = "write" /\ Step(SvWriteLast(T[l].n))
         \/ T[l].op = "write" /\ Step(RpWrite(T[l].n))
         \/ T[l].op = "write" /\ Step(RpWriteLast(T[l].n))

TraceStep ==
    /\ l <= Len(T)
    /\ NextT
    /\ IF Silent(last')
       THEN l' = l /\ viol' = viol \cup StateViol'
       ELSE /\ EvMatch(last', T[l])
            /\ l' = l + 1
            /\ viol' = viol \cup StateViol' \cup RealViol(T[l])
    /\ tid' = tid

Accept ==
    /\ l = Len(T) + 1
    /\ PrintT(<<"ACCEPT", Traces[tid].id, ViolCode(viol)>>)
    /\ l' = l + 1
    /\ UNCHANGED <<vars, tid, viol>>

TraceNext == TraceStep \/ Accept

TraceSpec == TraceInit /\ [][TraceNext]_tvars

=============================================================================
