------------------------------- MODULE Charges -------------------------------
(* tenpy.linalg.charges: ChargeInfo and LegCharge.

   Part I  : definitions (no state): ChargeInfo.make_valid / check_valid, the LegCharge record
             [sizes, charges, qconj, sorted, bunched] with its derived forms (slices, qflat, effective
             charges qconj*charge mod qmod), and every LegCharge operation as an operator written like
             the implementation (including the short-cuts taken on the cached flags `sorted`/`bunched`):
             sort, bunch, project, extend, conj, flip_charges_qconj, get_qindex, the permutation
             conversions, test_equal / test_contractible, the constructors and their flag rules.
   Part II : a state machine over ONE leg: a leg is chosen from a catalogue of all small legs
             (through Next, so that the enumeration is shared by the workers), then operations are
             applied; queries are terminal.  The history variable `ref` carries, for every current
             flat index, the effective charge it must have according to the *documented index
             movement* of the operations applied so far; the property "the charge attached to every
             surviving index is preserved" is the invariant ChargePreserved.

   Conventions: all indices that are *values* (qindices, flat indices, permutations) are 0-based as
   in Python; TLA+ sequences are 1-based, so block k (1-based position) has qindex k-1.
   Lexicographic order of charge vectors follows np.lexsort: the LAST charge is the dominant key. *)
EXTENDS Integers, Sequences, FiniteSets, TLC

------------------------------------------------------------------------------
(* Part I.a  small helpers *)

RECURSIVE SumTo(_, _)
SumTo(s, k) == IF k = 0 THEN 0 ELSE s[k] + SumTo(s, k - 1)       \* s[1] + .. + s[k]
SumAll(s) == SumTo(s, Len(s))
RECURSIVE ProdFrom(_, _)
ProdFrom(s, k) == IF k > Len(s) THEN 1 ELSE s[k] * ProdFrom(s, k + 1)   \* s[k] * .. * s[Len(s)]
ProdAll(s) == ProdFrom(s, 1)

\* TLC keeps [k \in 1..n |-> e] as an unevaluated lambda and re-evaluates e at every application;
\* concatenation with <<>> turns it into an explicit tuple once (Mat = "materialise").  No semantic content.
Mat(s) == s \o <<>>
Range(s) == {s[k] : k \in DOMAIN s}
Iota(n) == Mat([k \in 1..n |-> k - 1])                                \* <<0, 1, .., n-1>>
\* ascending enumeration of a finite set of integers
SortedSeq(S) == Mat([r \in 1..Cardinality(S) |-> CHOOSE x \in S : Cardinality({y \in S : y < x}) = r - 1])
IsPerm0(p) == Range(p) = 0..(Len(p) - 1)
Perms0(n) == {p \in [1..n -> 0..(n - 1)] : Range(p) = 0..(n - 1)}
SelectMask(s, mask) == LET idx == SortedSeq({i \in 1..Len(s) : mask[i]}) IN Mat([j \in 1..Len(idx) |-> s[idx[j]]])

------------------------------------------------------------------------------
(* Part I.b  ChargeInfo: `M` is the sequence `mod`; entry 1 = U(1) (no modulus), N > 1 = Z_N *)

ModOne(x, m) == IF m = 1 THEN x ELSE x % m
MakeValid(M, q) == Mat([k \in 1..Len(M) |-> ModOne(q[k], M[k])])
CheckValid(M, q) == Len(q) = Len(M) /\ \A k \in 1..Len(M) : M[k] = 1 \/ (0 <= q[k] /\ q[k] < M[k])
VNeg(q) == [k \in 1..Len(q) |-> -q[k]]
VScale(s, q) == [k \in 1..Len(q) |-> s * q[k]]
VAdd(a, b) == [k \in 1..Len(a) |-> a[k] + b[k]]
VZero(M) == [k \in 1..Len(M) |-> 0]
RECURSIVE VSumTo(_, _, _)
VSumTo(M, vs, k) == IF k = 0 THEN VZero(M) ELSE VAdd(vs[k], VSumTo(M, vs, k - 1))
NegAll(M, ch) == Mat([k \in 1..Len(ch) |-> MakeValid(M, VNeg(ch[k]))])

\* np.lexsort convention (doc/intro/npc.rst: "the right-most column is the dominant key")
LexLess(a, b) == \E k \in 1..Len(a) : a[k] < b[k] /\ \A j \in (k + 1)..Len(a) : a[j] = b[j]

IsSortedCh(ch)  == \A i, j \in 1..Len(ch) : i < j => ~LexLess(ch[j], ch[i])
IsBunchedCh(ch) == \A i \in 1..(Len(ch) - 1) : ch[i] # ch[i + 1]
IsBlockedCh(ch) == \A i, j \in 1..Len(ch) : i < j => ch[i] # ch[j]

\* stable sort: position r (1-based) of the result holds block StablePerm(ch)[r] (1-based)
Before(ch, i, j) == LexLess(ch[i], ch[j]) \/ (ch[i] = ch[j] /\ i < j)
StablePerm(ch) ==
    LET n == Len(ch)
        rank == Mat([i \in 1..n |-> Cardinality({j \in 1..n : Before(ch, j, i)})])
    IN Mat([r \in 1..n |-> CHOOSE i \in 1..n : rank[i] = r - 1])

\* 1-based positions at which a new run of equal rows starts
RunStarts(ch) == {k \in 1..Len(ch) : k = 1 \/ ch[k] # ch[k - 1]}

------------------------------------------------------------------------------
(* Part I.c  LegCharge *)

MkLeg(sz, ch, qc, so, bu) == [sizes |-> Mat(sz), charges |-> Mat(ch), qconj |-> qc, sorted |-> so, bunched |-> bu]
NoLeg == MkLeg(<<>>, <<>>, 1, TRUE, TRUE)

NBlocks(L) == Len(L.sizes)
IndLen(L) == SumAll(L.sizes)
Slices(sz) == Mat([k \in 1..(Len(sz) + 1) |-> SumTo(sz, k - 1)])
\* block (1-based) holding the flat index i (0-based, 0 <= i < ind_len); size-0 blocks hold nothing
BlockOf(sz, i) == CHOOSE k \in 1..Len(sz) : SumTo(sz, k - 1) <= i /\ i < SumTo(sz, k)
\* <<v[1] (sizes[1] times), v[2] (sizes[2] times), ..>>: block values spread over the flat indices
RECURSIVE ExpandTo(_, _, _)
ExpandTo(sz, v, k) == IF k = 0 THEN <<>> ELSE ExpandTo(sz, v, k - 1) \o [j \in 1..sz[k] |-> v[k]]
Expand(sz, v) == ExpandTo(sz, v, Len(sz))
QFlat(L) == Expand(L.sizes, L.charges)                                                   \* to_qflat()
Eff(M, L, k) == MakeValid(M, VScale(L.qconj, L.charges[k]))                             \* effective charge of block k
EffFlat(M, L) == Expand(L.sizes, [k \in 1..Len(L.sizes) |-> Eff(M, L, k)])
ValidLeg(M, L) == /\ Len(L.charges) = Len(L.sizes) /\ L.qconj \in {1, -1}
                  /\ \A k \in 1..Len(L.sizes) : L.sizes[k] >= 0 /\ CheckValid(M, L.charges[k])

\* constructors and their flag rules
LegInit(sz, ch, qc)  == MkLeg(sz, ch, qc, Len(sz) <= 1, Len(sz) <= 1)                    \* LegCharge(...)
FromQind(sz, ch, qc) == MkLeg(sz, ch, qc, IsSortedCh(ch), IsBunchedCh(ch))               \* from_qind
FromQflat(qf, qc)    == MkLeg([k \in 1..Len(qf) |-> 1], qf, qc, IsSortedCh(qf), IsBunchedCh(qf))   \* from_qflat
TrivialLeg(M, n, qc) == LegInit(<<n>>, <<VZero(M)>>, qc)                                 \* from_trivial

IsBlockedLeg(L) == (L.sorted /\ L.bunched) \/ IsBlockedCh(L.charges)                     \* is_blocked() as implemented

\* bunch(): merge contiguous blocks of equal charge.  idx: kept old qindices, then the old block number
BunchLeg(L) ==
    IF L.bunched THEN [idx |-> Iota(NBlocks(L) + 1), leg |-> L]
    ELSE LET st == SortedSeq(RunStarts(L.charges))
             m  == Len(st)
             nb == NBlocks(L)
             en == Mat([k \in 1..m |-> IF k < m THEN st[k + 1] - 1 ELSE nb])
         IN [idx |-> Mat([k \in 1..(m + 1) |-> IF k <= m THEN st[k] - 1 ELSE nb]),
             leg |-> MkLeg([k \in 1..m |-> SumTo(L.sizes, en[k]) - SumTo(L.sizes, st[k] - 1)],
                           [k \in 1..m |-> L.charges[st[k]]], L.qconj, L.sorted, TRUE)]

\* sort(bunch): stable lexsort of the blocks; perm: new qindex r <- old qindex perm[r]
SortLeg(L, bunch) ==
    IF L.sorted /\ (~bunch \/ L.bunched) THEN [perm |-> Iota(NBlocks(L)), leg |-> L]
    ELSE LET p  == StablePerm(L.charges)
             cp == MkLeg([r \in 1..Len(p) |-> L.sizes[p[r]]], [r \in 1..Len(p) |-> L.charges[p[r]]],
                         L.qconj, TRUE, FALSE)
         IN [perm |-> Mat([r \in 1..Len(p) |-> p[r] - 1]), leg |-> IF bunch THEN BunchLeg(cp).leg ELSE cp]

\* project(mask): keep the flat indices with mask TRUE; blocks left empty disappear
ProjectLeg(L, mask) ==
    LET nb   == NBlocks(L)
        cnt  == Mat([k \in 1..nb |-> Cardinality({i \in (SumTo(L.sizes, k - 1) + 1)..SumTo(L.sizes, k) : mask[i]})])
        keep == SortedSeq({k \in 1..nb : cnt[k] > 0})
        m    == Len(keep)
    IN [map   |-> Mat([k \in 1..nb |-> IF cnt[k] > 0 THEN Cardinality({j \in 1..(k - 1) : cnt[j] > 0}) ELSE -1]),
        masks |-> Mat([j \in 1..m |-> SubSeq(mask, SumTo(L.sizes, keep[j] - 1) + 1, SumTo(L.sizes, keep[j]))]),
        leg   |-> MkLeg([j \in 1..m |-> cnt[keep[j]]], [j \in 1..m |-> L.charges[keep[j]]], L.qconj,
                        L.sorted, IsBlockedLeg(L))]

\* extend(extra): append the blocks of `extra`, expressed in the direction of L
ExtendLeg(M, L, X) ==
    LegInit(L.sizes \o X.sizes, L.charges \o (IF X.qconj = L.qconj THEN X.charges ELSE NegAll(M, X.charges)), L.qconj)

ConjLeg(L) == MkLeg(L.sizes, L.charges, -L.qconj, L.sorted, L.bunched)                   \* conj()
FlipLeg(M, L) == MkLeg(L.sizes, NegAll(M, L.charges), -L.qconj, FALSE, L.bunched)        \* flip_charges_qconj()

\* get_qindex(flat_index): <<qindex, index within block>>; <<-1, -1>> stands for IndexError
GetQindex(L, fi) ==
    LET n == IndLen(L)
        i == IF fi < 0 THEN fi + n ELSE fi
    IN IF i < 0 \/ i >= n THEN <<-1, -1>>
       ELSE LET k == BlockOf(L.sizes, i) IN <<k - 1, i - SumTo(L.sizes, k - 1)>>

\* perm_flat_from_perm_qind(perm_qind): concatenation of the index ranges of the blocks in the new order
RECURSIVE FlatOf(_, _, _)
FlatOf(sz, pq, r) == IF r = 0 THEN <<>>
                     ELSE FlatOf(sz, pq, r - 1) \o [j \in 1..sz[pq[r] + 1] |-> SumTo(sz, pq[r]) + j - 1]
PermFlatFromPermQind(L, pq) == FlatOf(L.sizes, pq, Len(pq))
\* perm_qind_from_perm_flat(perm_flat): every qindex permutation that perm_flat describes ({} = ValueError);
\* more than one only when blocks of size 0 exist
PermQindFromPermFlat(L, pf) == {pq \in Perms0(NBlocks(L)) : PermFlatFromPermQind(L, pq) = pf}

TestEqual(M, A, B) == /\ A.sizes = B.sizes
                      /\ \A k \in 1..Len(A.sizes) : Eff(M, A, k) = Eff(M, B, k)
TestContractible(M, A, B) == TestEqual(M, A, ConjLeg(B))

\* the observers the replay harness reads from a real LegCharge
LegObs(M, L) == [ind_len |-> IndLen(L), slices |-> Slices(L.sizes), qflat |-> QFlat(L),
                 is_sorted |-> IsSortedCh(L.charges), is_bunched |-> IsBunchedCh(L.charges),
                 is_blocked |-> IsBlockedCh(L.charges)]

------------------------------------------------------------------------------
(* Part I.d  catalogue of small legs and the seeded sample of it *)

CONSTANTS U1Win,      \* charge values offered for a U(1) charge (a window of width 3)
          Seed        \* selects the pseudo-random sample when a rate > 1 is used

WinSym == {-1, 0, 1}
WinPos == {0, 1, 2}
ChargeVals(m) == IF m = 1 THEN U1Win ELSE 0..(m - 1)
ChargeVecs(M) == {v \in [1..Len(M) -> (U1Win \cup 0..2)] : \A k \in 1..Len(M) : v[k] \in ChargeVals(M[k])}
AllMods(q) == [1..q -> {1, 2, 3}]
ModsQ0 == AllMods(0)
ModsQ1 == AllMods(1)
ModsQ2 == AllMods(2)
ModsQ01 == ModsQ0 \cup ModsQ1
ModsAll == ModsQ0 \cup ModsQ1 \cup ModsQ2
ModsQ2Few == {<<1, 2>>, <<3, 1>>, <<2, 2>>}
ModsFew == ModsQ0 \cup ModsQ1 \cup ModsQ2Few
\* all legs with 1..blk blocks, block sizes in `sizes`, both directions (no flags yet)
LegCat(M, blk, sizes) ==
    UNION {[sizes : [1..b -> sizes], charges : [1..b -> ChargeVecs(M)], qconj : {1, -1}] : b \in 1..blk}

HP == 32749
H2(h, v) == (h * 37 + v + 11) % HP
RECURSIVE HashVec(_, _, _)
HashVec(h, q, k) == IF k = 0 THEN h ELSE H2(HashVec(h, q, k - 1), q[k] + 5)
RECURSIVE HashBlocks(_, _, _)
HashBlocks(h, L, k) == IF k = 0 THEN h
                       ELSE HashVec(H2(HashBlocks(h, L, k - 1), L.sizes[k]), L.charges[k], Len(L.charges[k]))
LegHash(h, L) == H2(HashBlocks(H2(h, Len(L.sizes)), L, Len(L.sizes)), L.qconj + 3)
Keep(h, rate) == rate = 1 \/ ((h + 101 * Seed) % HP) % rate = 0

------------------------------------------------------------------------------
(* Part II  state machine over one leg *)

CONSTANTS ModsSet,    \* ChargeInfos (mod vectors) of this run
          CBlk, CSizes,   \* catalogue bound of the leg under test
          CRate,          \* 1 = every catalogue leg, r = a seeded 1/r sample
          XBlk, XSizes, XRate, XInts,   \* `extra` legs / ints offered to extend
          MaskRate,       \* sample of the projection masks
          QRate,          \* queries are asked in a seeded 1/QRate sample of the leg states
          MaxOps          \* number of leg-changing operations per behaviour

VARIABLES mods,    \* ChargeInfo.mod of the behaviour
          phase,   \* "start" -> "new" -> "leg" -> "done"
          leg,     \* the LegCharge (record with the cached flags)
          ref,     \* history: effective charge every current flat index must carry
          obs,     \* LegObs of leg (what the harness projects the real object to)
          last,    \* last operation, its arguments and its observable result
          nops, hist

cvars == <<mods, phase, leg, ref, obs, last, nops, hist>>
CView == <<mods, phase, leg, ref, last, nops>>

CInit == /\ mods = <<>> /\ phase = "start" /\ leg = NoLeg /\ ref = <<>> /\ obs = LegObs(<<>>, NoLeg)
         /\ last = [op |-> "init"] /\ nops = 0 /\ hist = <<>>

\* hist: every operation with its arguments/result (l) and the leg it left behind (a), so that a state is a
\* self-contained behaviour for the replay harness; hidden from model checking by the VIEW
Plain(L) == [sizes |-> L.sizes, charges |-> L.charges, qconj |-> L.qconj]
After(L) == [sizes |-> L.sizes, charges |-> L.charges, qconj |-> L.qconj,
             is_sorted |-> IsSortedCh(L.charges), is_bunched |-> IsBunchedCh(L.charges)]
Log == hist' = Append(hist, [l |-> last', a |-> After(leg')]) /\ obs' = LegObs(mods', leg')

\* ChargeInfo(mod): make_valid / check_valid observed on the probe vectors {-4..4}^qnumber
ProbeVec(q, i) == [k \in 1..q |-> ((i \div 9^(k - 1)) % 9) - 4]
Probes(M) == [i \in 1..9^Len(M) |-> ProbeVec(Len(M), i - 1)]
CStart == /\ phase = "start"
          /\ \E M \in ModsSet :
               /\ mods' = M
               /\ last' = [op |-> "chinfo", mod |-> M, probes |-> Probes(M),
                           make_valid |-> [i \in 1..9^Len(M) |-> MakeValid(M, Probes(M)[i])],
                           check_valid |-> [i \in 1..9^Len(M) |-> CheckValid(M, Probes(M)[i])]]
          /\ phase' = "new"
          /\ UNCHANGED <<leg, ref, nops>> /\ Log

Build(ctor, raw) == CASE ctor = "init"       -> LegInit(raw.sizes, raw.charges, raw.qconj)
                      [] ctor = "from_qind"  -> FromQind(raw.sizes, raw.charges, raw.qconj)
                      [] ctor = "from_qflat" -> FromQflat(QFlat(raw), raw.qconj)

CNew(ctor) ==
    /\ phase = "new"
    /\ \E raw \in {x \in LegCat(mods, CBlk, CSizes) : Keep(LegHash(Len(mods), x), CRate)} :
         /\ ctor = "from_qflat" => IndLen(raw) > 0
         /\ leg' = Build(ctor, raw)
         /\ last' = [op |-> ctor, sizes |-> raw.sizes, charges |-> raw.charges, qconj |-> raw.qconj]
    /\ ref' = EffFlat(mods, leg')
    /\ phase' = "leg"
    /\ UNCHANGED <<mods, nops>> /\ Log

Op(A) == phase = "leg" /\ nops < MaxOps /\ nops' = nops + 1 /\ A /\ UNCHANGED <<mods, phase>> /\ Log

Sort(b) == LET r == SortLeg(leg, b)
               pf == PermFlatFromPermQind(leg, r.perm)
           IN /\ leg' = r.leg
              /\ ref' = [i \in 1..Len(pf) |-> ref[pf[i] + 1]]     \* sorted[.., i] = unsorted[.., perm_flat[i]]
              /\ last' = [op |-> "sort", bunch |-> b, perm |-> r.perm]

Bunch == LET r == BunchLeg(leg)
         IN leg' = r.leg /\ ref' = ref /\ last' = [op |-> "bunch", idx |-> r.idx]

MaskInt(mask) == SumAll([i \in 1..Len(mask) |-> IF mask[i] THEN 2^(i - 1) ELSE 0])
MaskRateFor(n) == IF n > 6 THEN MaskRate * 2^(n - 6) ELSE MaskRate
Project(mask) == LET r == ProjectLeg(leg, mask)
                 IN /\ leg' = r.leg
                    /\ ref' = SelectMask(ref, mask)
                    /\ last' = [op |-> "project", mask |-> mask, map_qind |-> r.map, block_masks |-> r.masks]

Extend(x) == /\ leg' = ExtendLeg(mods, leg, x)
             /\ ref' = ref \o EffFlat(mods, x)
             /\ last' = [op |-> "extend", int |-> -1, sizes |-> x.sizes, charges |-> x.charges, qconj |-> x.qconj]
ExtendInt(n) == /\ leg' = ExtendLeg(mods, leg, TrivialLeg(mods, n, leg.qconj))
                /\ ref' = ref \o [i \in 1..n |-> VZero(mods)]
                /\ last' = [op |-> "extend", int |-> n, sizes |-> <<>>, charges |-> <<>>, qconj |-> leg.qconj]

\* conj() is the one operation that is meant to reverse the effective charge: the leg it returns is the
\* partner `leg` can be contracted with
Conj == /\ leg' = ConjLeg(leg)
        /\ ref' = [i \in 1..Len(ref) |-> MakeValid(mods, VNeg(ref[i]))]
        /\ last' = [op |-> "conj"]

Flip == leg' = FlipLeg(mods, leg) /\ ref' = ref /\ last' = [op |-> "flip_charges_qconj"]

DoSort    == Op(\E b \in BOOLEAN : Sort(b))
DoBunch   == Op(Bunch)
DoProject == Op(\E mask \in {m \in [1..IndLen(leg) -> BOOLEAN] :
                               /\ \E i \in 1..IndLen(leg) : m[i]
                               /\ Keep(LegHash(MaskInt(m) % HP, leg), MaskRateFor(IndLen(leg)))} : Project(mask))
DoExtend  == Op(\/ \E x \in {y \in LegCat(mods, XBlk, XSizes) : Keep(LegHash(LegHash(7, leg), y), XRate)} :
                     Extend(LegInit(x.sizes, x.charges, x.qconj))
                \/ \E n \in XInts : ExtendInt(n))
DoConj    == Op(Conj)
DoFlip    == Op(Flip)

\* queries: do not change the leg; terminal
Query(A) == /\ phase = "leg" /\ Keep(LegHash(nops + 3, leg), QRate)
            /\ phase' = "done" /\ A /\ UNCHANGED <<mods, leg, ref, nops>> /\ Log

QGetQindex == Query(LET n == IndLen(leg)
                    IN last' = [op |-> "get_qindex", first |-> -n - 1,
                                table |-> [j \in 1..(2 * n + 3) |-> GetQindex(leg, j - n - 2)]])
QPerm == Query(/\ NBlocks(leg) <= 3
               /\ \E pq \in Perms0(NBlocks(leg)) :
                    LET pf == PermFlatFromPermQind(leg, pq)
                        rv == [i \in 1..Len(pf) |-> Len(pf) - i]          \* the reversal of the flat indices
                    IN last' = [op |-> "perm", perm_qind |-> pq, perm_flat |-> pf,
                                back |-> PermQindFromPermFlat(leg, pf),
                                reversal |-> rv, back_reversal |-> PermQindFromPermFlat(leg, rv)])
QTests == Query(last' = [op |-> "tests",
                         contractible_conj |-> TestContractible(mods, leg, ConjLeg(leg)),
                         equal_flip        |-> TestEqual(mods, leg, FlipLeg(mods, leg)),
                         contractible_self |-> TestContractible(mods, leg, leg),
                         equal_conj        |-> TestEqual(mods, leg, ConjLeg(leg)),
                         contractible_flip |-> TestContractible(mods, leg, FlipLeg(mods, leg))])

\* projecting every index away leaves a leg without blocks (ind_len 0); it still sorts and converts permutations
QProjectNone == Query(/\ IndLen(leg) > 0
                      /\ LET mask == [i \in 1..IndLen(leg) |-> FALSE]
                             r == ProjectLeg(leg, mask)
                         IN last' = [op |-> "project_none", mask |-> mask, map_qind |-> r.map,
                                     sizes |-> r.leg.sizes, charges |-> r.leg.charges, qconj |-> r.leg.qconj,
                                     perm_flat |-> PermFlatFromPermQind(r.leg, <<>>),
                                     sort_perm |-> SortLeg(r.leg, TRUE).perm, sorted_sizes |-> SortLeg(r.leg, TRUE).leg.sizes])

CNext == \/ CStart
         \/ \E c \in {"init", "from_qind", "from_qflat"} : CNew(c)
         \/ DoSort \/ DoBunch \/ DoProject \/ DoExtend \/ DoConj \/ DoFlip
         \/ QGetQindex \/ QPerm \/ QTests \/ QProjectNone

CSpec == CInit /\ [][CNext]_cvars

------------------------------------------------------------------------------
(* Properties (C06, second sentence) *)

InLeg == phase \in {"leg", "done"}

\* make_valid: a valid representative of the same class, idempotent, compatible with negation and addition
ChargeInfoLaws ==
    last.op = "chinfo" =>
        \A i \in 1..Len(last.probes) :
            LET v == last.probes[i]  w == last.make_valid[i]
            IN /\ CheckValid(mods, w) /\ MakeValid(mods, w) = w
               /\ last.check_valid[i] = (w = v)
               /\ \A k \in 1..Len(mods) : (w[k] - v[k]) % mods[k] = 0
               /\ MakeValid(mods, VNeg(MakeValid(mods, VNeg(v)))) = w
               /\ \A j \in 1..Len(last.probes) :
                     MakeValid(mods, VAdd(w, last.make_valid[j])) = MakeValid(mods, VAdd(v, last.probes[j]))

\* the charge attached to every surviving index is preserved (qconj taken into account)
ChargePreserved == InLeg => EffFlat(mods, leg) = ref

\* cached flags never lie
FlagsTruthful == InLeg => /\ leg.sorted => IsSortedCh(leg.charges)
                          /\ leg.bunched => IsBunchedCh(leg.charges)

LegValid == InLeg => ValidLeg(mods, leg)

\* conj() gives the partner for contraction, flip_charges_qconj() an equal leg -- for every reachable leg
ConjContractible == InLeg => /\ TestContractible(mods, leg, ConjLeg(leg))
                             /\ TestContractible(mods, ConjLeg(leg), leg)
                             /\ TestEqual(mods, leg, FlipLeg(mods, leg))
                             /\ TestEqual(mods, ConjLeg(ConjLeg(leg)), leg)

\* what the operations promise about their result
OpPost ==
    /\ last.op = "sort" => /\ IsSortedCh(leg.charges) /\ IsPerm0(last.perm)
                           /\ last.bunch => (IsBunchedCh(leg.charges) /\ IsBlockedCh(leg.charges))
    /\ last.op = "bunch" => IsBunchedCh(leg.charges)
    /\ last.op = "project" => /\ IndLen(leg) = Cardinality({i \in 1..Len(last.mask) : last.mask[i]})
                              /\ \A k \in 1..NBlocks(leg) : leg.sizes[k] > 0
    /\ last.op = "perm" => /\ last.perm_qind \in last.back
                           /\ IsPerm0(last.perm_flat)
    /\ last.op = "get_qindex" =>
          \A j \in 1..Len(last.table) :
             LET fi == last.first + j - 1
                 r  == last.table[j]
             IN IF fi < -IndLen(leg) \/ fi >= IndLen(leg) THEN r = <<-1, -1>>
                ELSE /\ r[1] \in 0..(NBlocks(leg) - 1) /\ r[2] \in 0..(leg.sizes[r[1] + 1] - 1)
                     /\ SumTo(leg.sizes, r[1]) + r[2] = (IF fi < 0 THEN fi + IndLen(leg) ELSE fi)

\* the flag short-cuts of sort/bunch are sound: the result is what the flag-free definition gives
ShortCutSound ==
    [][ /\ (last'.op = "sort" /\ phase = "leg") =>
              LET p == StablePerm(leg.charges)
              IN /\ last'.perm = [r \in 1..Len(p) |-> p[r] - 1]
                 /\ QFlat(leg') = [i \in 1..IndLen(leg) |-> QFlat(leg)[PermFlatFromPermQind(leg, last'.perm)[i] + 1]]
        /\ (last'.op = "bunch" /\ phase = "leg") =>
              /\ QFlat(leg') = QFlat(leg)
              /\ last'.idx = [k \in 1..(Cardinality(RunStarts(leg.charges)) + 1) |->
                                IF k <= Cardinality(RunStarts(leg.charges))
                                THEN SortedSeq(RunStarts(leg.charges))[k] - 1 ELSE NBlocks(leg)] ]_cvars
=============================================================================
