#!/bin/sh
# run every thorough tier once (validation run; evidence redirected)
cd "$(dirname "$0")/.." || exit 2
export VERIF_EVIDENCE_DIR="$PWD/build/thorough-evidence"
mkdir -p "$VERIF_EVIDENCE_DIR"
for c in C01 C02 C03 C04 C05 C06 C07 C08 C09 C10 C11 C12 C13 C14 C15 C16 C17 C18 C19 C20; do
  s=$(date +%s)
  timeout 5400 ./check $c --tier thorough > "$VERIF_EVIDENCE_DIR/$c.log" 2>&1
  code=$?
  echo "$c exit=$code wall=$(( $(date +%s) - s ))s violations=$(grep -c '^VIOLATION' "$VERIF_EVIDENCE_DIR/$c.log")"
done
