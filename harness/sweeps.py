"""Run-time interposition on tenpy's sweeping engines (C13, TRACE direction).

`Recorder` wraps, on the *current working tree's* classes and without touching /repo,

    MPS.set_B                                          -> tensor versions ver[i]
    MPOEnvironment._contract_LP/_contract_RP           -> which array was grown by which tensor version
    BaseEnvironment/MPOEnvironment.get_LP/get_RP/set_LP/set_RP/del_LP/del_RP, MPOEnvironment.full_contraction
    OneSiteH/TwoSiteH.__init__                         -> the parts an effective Hamiltonian is assembled from
    Sweep._init_mpo_env / sweep / _cache_optimize / make_eff_H / update_env / free_no_longer_needed_envs /
    mixer_cleanup, DMRGEngine.update_local / post_update_local

and records one event per call / phase as a dict (written as ndjson for spec/TraceSweep.tla).
Everything logged is observed: versions are counted set_B calls, the `deps` of an environment array are
derived from the identity of the arrays that really went through `_contract_LP/_contract_RP`, ages and the set
of stored parts are read from the environment object after the call.
"""
import functools
import json

from . import core

NOENV = {'has': False, 'age': 0, 'cnt': 0, 'deps': []}


class _Trace:
    def __init__(self, tid, engine, env=None):
        self.tid = tid
        self.engine = engine
        self.env = engine.env if env is None else env
        self.subs = []           # traces of the engine's ortho_to_envs (same state tensors, own environment)
        self.psi = engine.psi
        self.L = self.env.L
        self.K = 2 * self.L
        self.ver = [0] * self.L
        self.tab = {}  # id(array) -> (array, cnt, deps)
        self.phase = None
        self.pending_sweep = None
        self.lastL = None
        self.lastR = None
        self.closed = False      # no more environment-level events (mixer_cleanup reached / trace ended)
        self.ended = False       # 'end' or 'run_end' emitted
        self.canon = None        # inside DMRGEngine._canonicalize: dict(norm_tol, norm_tol_final)
        self.n_events = 0


class Recorder:
    def __init__(self):
        self.events = []
        self.cur = None
        self._t = None           # trace selected by active(env)
        self.armed = False
        self.depth = 0
        self._patches = []
        self.ntraces = 0
        self.ext_plan = None  # callable(trace, engine) -> list of ('L'|'R', i, store) to inject before this step
        self.installed = False

    # ---------------------------------------------------------------------------------------
    def _patch(self, cls, name, mk):
        if name not in cls.__dict__:
            raise core.MachineryError('interposition point %s.%s missing' % (cls.__name__, name))
        orig = cls.__dict__[name]
        w = functools.wraps(orig)(mk(orig))
        setattr(cls, name, w)
        self._patches.append((cls, name, orig))

    def uninstall(self):
        for cls, name, orig in reversed(self._patches):
            setattr(cls, name, orig)
        self._patches = []
        self.installed = False

    def emit(self, ev, _t=None, **kw):
        t = _t or self.cur
        d = {'tid': t.tid, 'ev': ev}
        d.update(kw)
        self.events.append(d)
        t.n_events += 1

    def active(self, env):
        """The trace an environment belongs to (main environment or one of the ortho_to_envs); selects it for the
        observation helpers.  None/False if the environment is not traced."""
        t = self.cur
        self._t = None
        if t is None or t.closed:
            return False
        if env is t.env:
            self._t = t
            return True
        for sub in t.subs:
            if env is sub.env and not sub.closed:
                self._t = sub
                return True
        return False

    # ---- observation ------------------------------------------------------------------------
    def _rec_of(self, arr):
        t = self._t or self.cur
        r = t.tab.get(id(arr))
        if r is None or r[0] is not arr:
            raise core.MachineryError('environment array of unknown origin (identity tracking lost)')
        return r

    def ret(self, arr):
        _, cnt, deps = self._rec_of(arr)
        return {'cnt': cnt, 'deps': list(deps)}

    def slots(self, side):
        t = self._t or self.cur
        env = t.env
        keys = env._LP_keys if side == 'L' else env._RP_keys
        ages = env._LP_age if side == 'L' else env._RP_age
        out = []
        for s, key in enumerate(keys):
            if key in env.cache:
                arr = env.cache[key]
                _, cnt, deps = self._rec_of(arr)
                age = ages[s]
                out.append({'has': True, 'age': -1 if age is None else int(age), 'cnt': cnt, 'deps': list(deps)})
            else:
                out.append(NOENV)
        return out

    def full_obs(self):
        return dict(lp=self.slots('L'), rp=self.slots('R'), ver=list((self._t or self.cur).ver))

    def _register(self, arr, cnt, deps):
        t = self._t or self.cur
        t.tab[id(arr)] = (arr, cnt, list(deps)[:t.K])

    # ---- installation -----------------------------------------------------------------------
    def install(self):
        if self.installed:
            return
        from tenpy.networks import mps as tmps, mpo as tmpo
        from tenpy.algorithms import mps_common as mc, dmrg
        rec = self

        # -- state tensors
        def mk_set_B(orig):
            def set_B(psi, i, B, form='B'):
                r = orig(psi, i, B, form)
                t = rec.cur
                if t is not None and not t.closed and psi is t.psi:
                    rec._t = None
                    t.ver[i % t.L] += 1
                    rec.emit('call', op='set_B', i=int(i), ver=list(t.ver))
                    for sub in t.subs:      # the ortho_to_envs contain the same tensors (as bra)
                        if not sub.closed:
                            rec.emit('call', _t=sub, op='set_B', i=int(i), ver=list(t.ver))
                return r
            return set_B
        self._patch(tmps.MPS, 'set_B', mk_set_B)

        # -- contractions: provenance of environment arrays
        def mk_contract(side):
            def mk(orig):
                def contract(env, i, P):
                    out = orig(env, i, P)
                    if rec.active(env):
                        t = rec._t
                        _, cnt, deps = rec._rec_of(P)
                        rec._register(out, cnt + 1, [t.ver[i % t.L]] + deps)
                    return out
                return contract
            return mk
        self._patch(tmpo.MPOEnvironment, '_contract_LP', mk_contract('L'))
        self._patch(tmpo.MPOEnvironment, '_contract_RP', mk_contract('R'))
        self._patch(tmps.MPSEnvironment, '_contract_LP', mk_contract('L'))
        self._patch(tmps.MPSEnvironment, '_contract_RP', mk_contract('R'))

        # -- get / set / del
        def mk_get(side):
            def mk(orig):
                def get(env, i, store=True):
                    if not rec.active(env):
                        return orig(env, i, store)
                    rec.depth += 1
                    try:
                        out = orig(env, i, store)
                    finally:
                        rec.depth -= 1
                    if rec.depth == 0 and rec.active(env):
                        t = rec._t
                        if side == 'L':
                            t.lastL = out
                            rec.emit('call', _t=t, op='get_LP', i=int(i), store=bool(store), ret=rec.ret(out), lp=rec.slots('L'))
                        else:
                            t.lastR = out
                            rec.emit('call', _t=t, op='get_RP', i=int(i), store=bool(store), ret=rec.ret(out), rp=rec.slots('R'))
                    return out
                return get
            return mk
        for cls in (tmps.BaseEnvironment, tmpo.MPOEnvironment):
            self._patch(cls, 'get_LP', mk_get('L'))
            self._patch(cls, 'get_RP', mk_get('R'))

        def mk_set(side):
            def mk(orig):
                def set_(env, i, P, age):
                    if not rec.active(env) or rec.depth > 0:
                        return orig(env, i, P, age)
                    # a part stored directly (not by get_LP/get_RP): the `combine` short cut of update_env
                    t = rec._t
                    j = i - 1 if side == 'L' else i + 1
                    keys = env._LP_keys if side == 'L' else env._RP_keys
                    key = keys[j % t.L]
                    eq = False
                    if id(P) not in t.tab or t.tab[id(P)][0] is not P:
                        if key in env.cache:
                            prev = env.cache[key]
                            _, cnt, deps = rec._rec_of(prev)
                            rec.depth += 1
                            try:
                                expect = (env._contract_LP(j, prev) if side == 'L' else env._contract_RP(j, prev))
                            finally:
                                rec.depth -= 1
                            from tenpy.linalg import np_conserved as npc
                            scale = max(npc.norm(expect), 1e-300)
                            try:
                                diff = npc.norm(expect - P.transpose(expect.get_leg_labels()))
                                eq = bool(diff <= 1e-9 * scale)
                            except Exception:
                                eq = False
                            rec._register(P, cnt + 1, [t.ver[j % t.L]] + deps)
                        else:
                            rec._register(P, 0, [])
                    r = orig(env, i, P, age)
                    rec._t = t
                    op = ('heff_LP' if side == 'L' else 'heff_RP') if rec.cur.phase == 'update_env' else ('set_LP' if side == 'L' else 'set_RP')
                    if side == 'L':
                        rec.emit('call', _t=t, op=op, i=int(i), age=-1 if age is None else int(age), eq=eq, lp=rec.slots('L'))
                    else:
                        rec.emit('call', _t=t, op=op, i=int(i), age=-1 if age is None else int(age), eq=eq, rp=rec.slots('R'))
                    return r
                return set_
            return mk
        self._patch(tmps.BaseEnvironment, 'set_LP', mk_set('L'))
        self._patch(tmps.BaseEnvironment, 'set_RP', mk_set('R'))

        def mk_del(side):
            def mk(orig):
                def del_(env, i):
                    r = orig(env, i)
                    if rec.active(env) and rec.depth == 0:
                        if side == 'L':
                            rec.emit('call', _t=rec._t, op='del_LP', i=int(i), lp=rec.slots('L'))
                        else:
                            rec.emit('call', _t=rec._t, op='del_RP', i=int(i), rp=rec.slots('R'))
                    return r
                return del_
            return mk
        self._patch(tmps.BaseEnvironment, 'del_LP', mk_del('L'))
        self._patch(tmps.BaseEnvironment, 'del_RP', mk_del('R'))

        def mk_full(orig):
            def full_contraction(env, i0):
                r = orig(env, i0)
                if rec.active(env) and rec.depth == 0 and rec._t is rec.cur:
                    t = rec.cur
                    rec.emit('call', op='full', i=int(i0), L=rec.ret(t.lastL), R=rec.ret(t.lastR))
                return r
            return full_contraction
        self._patch(tmpo.MPOEnvironment, 'full_contraction', mk_full)

        # -- effective Hamiltonians
        def mk_effH(orig):
            def __init__(effH, env, i0, *a, **kw):
                orig(effH, env, i0, *a, **kw)
                if rec.active(env) and rec._t is rec.cur:
                    rec.emit('call', op='effH', i=int(i0), len=int(type(effH).length), kind=type(effH).__name__,
                             LP=rec.ret(effH.LP), RP=rec.ret(effH.RP))
            return __init__
        self._patch(mc.OneSiteH, '__init__', mk_effH)
        self._patch(mc.TwoSiteH, '__init__', mk_effH)
        self._patch(mc.ZeroSiteH, '__init__', mk_effH)

        # -- engine: begin / end of a trace
        def mk_init_env(orig):
            def _init_mpo_env(engine, H, init_env_data):
                if rec.cur is not None and rec.cur.engine is engine and not rec.cur.closed:
                    rec.close()
                r = orig(engine, H, init_env_data)
                if rec.armed:
                    rec.begin(engine)
                return r
            return _init_mpo_env
        self._patch(mc.Sweep, '_init_mpo_env', mk_init_env)

        def mk_cleanup(orig):
            def mixer_cleanup(engine):
                t = rec.cur
                if t is not None and t.engine is engine and not t.closed:
                    if isinstance(engine, dmrg.DMRGEngine):
                        # the environment-level history ends here; the clean-up protocol follows
                        rec._t = None
                        rec.close_subs(t)
                        rec.emit('run_cleanup')
                        t.closed = True
                    else:
                        rec.close()
                return orig(engine)
            return mixer_cleanup
        self._patch(mc.Sweep, 'mixer_cleanup', mk_cleanup)

        # -- DMRGEngine._canonicalize: norm error classes as the code computes them
        import numpy as np

        def err_class(t, psi):
            err = float(np.linalg.norm(psi.norm_test()))
            c = t.canon
            return 'small' if err <= c['final'] else ('mid' if err <= c['tol'] else 'big')

        def post(engine):
            t = rec.cur
            return t is not None and t.engine is engine and t.closed and not t.ended

        def mk_canon(orig):
            def _canonicalize(engine, warn=False):
                if not post(engine) or engine.mixer is not None or engine.options.get('norm_tol', 1.0e-5, 'real') is None:
                    return orig(engine, warn)
                t = rec.cur
                t.canon = dict(tol=engine.options.get('norm_tol', 1.0e-5, 'real'),
                               final=engine.options.get('norm_tol_final', 1.0e-10, 'real'))
                it = 0 if engine.finite else int(engine.options.get('norm_tol_iter', 5, int))
                rec.emit('canon', err=err_class(t, engine.psi), iter=it)
                try:
                    r = orig(engine, warn)
                    rec.emit('run_end', err=err_class(t, engine.psi))
                    t.ended = True
                finally:
                    t.canon = None
                return r
            return _canonicalize
        self._patch(dmrg.DMRGEngine, '_canonicalize', mk_canon)

        def mk_envsweeps(orig):
            def environment_sweeps(engine, N_sweeps):
                r = orig(engine, N_sweeps)
                if post(engine) and rec.cur.canon is not None:
                    rec.emit('canon_env', err=err_class(rec.cur, engine.psi))
                return r
            return environment_sweeps
        self._patch(mc.Sweep, 'environment_sweeps', mk_envsweeps)

        def mk_canonical_form(orig):
            def canonical_form(psi, *a, **kw):
                r = orig(psi, *a, **kw)
                t = rec.cur
                if t is not None and t.canon is not None and psi is t.psi and not t.ended:
                    rec.emit('canon_form')
                return r
            return canonical_form
        self._patch(tmps.MPS, 'canonical_form', mk_canonical_form)

        def of(engine):
            t = rec.cur
            rec._t = None
            return t is not None and not t.closed and t.engine is engine

        # -- environments <psi|psi_ortho> of an excited-state search: begin of their traces, the parts used to project
        def mk_init_ortho(orig):
            def _init_ortho_to_envs(engine, orthogonal_to, resume_data):
                r = orig(engine, orthogonal_to, resume_data)
                t = rec.cur
                if t is not None and t.engine is engine and not t.closed and not t.subs:
                    for o_env in engine.ortho_to_envs:
                        rec.begin_sub(t, o_env)
                return r
            return _init_ortho_to_envs
        self._patch(mc.Sweep, '_init_ortho_to_envs', mk_init_ortho)

        def mk_wrap_ortho(orig):
            def _wrap_ortho_eff_H(engine):
                r = orig(engine)
                if of(engine):
                    for sub in rec.cur.subs:
                        if not sub.closed:
                            rec._t = sub
                            rec.emit('call', _t=sub, op='effH', i=int(engine.i0), len=int(engine.EffectiveH.length), kind='ortho',
                                     LP=rec.ret(sub.lastL), RP=rec.ret(sub.lastR))
                    rec._t = None
                return r
            return _wrap_ortho_eff_H
        self._patch(mc.Sweep, '_wrap_ortho_eff_H', mk_wrap_ortho)

        # -- phases of the sweep loop
        def mk_sweep(orig):
            def sweep(engine, optimize=True):
                if not of(engine):
                    return orig(engine, optimize)
                rec.cur.pending_sweep = bool(optimize)
                r = orig(engine, optimize)
                if of(engine):
                    rec._flush_sweep_begin(engine)
                    rec.emit('sweep_end', **rec.full_obs())
                return r
            return sweep
        self._patch(mc.Sweep, 'sweep', mk_sweep)

        def mk_step(orig):
            def _cache_optimize(engine):
                if of(engine):
                    rec._flush_sweep_begin(engine)
                    if rec.ext_plan is not None:
                        for side, i, store in rec.ext_plan(rec.cur, engine):
                            rec.ext_call(side, i, store)
                    mr = engine.move_right
                    uL, uR = engine.update_LP_RP
                    # move_right is None for the last (non-moving) update of a TDVP sweep: logged as mr=false, still=true
                    rec.emit('step', i0=int(engine.i0), mr=bool(mr), still=(mr is None), uL=bool(uL), uR=bool(uR),
                             **rec.full_obs())
                return orig(engine)
            return _cache_optimize
        self._patch(mc.Sweep, '_cache_optimize', mk_step)

        def mk_phase(name, with_age=False):
            def mk(orig):
                def phase(engine, *a, **kw):
                    if of(engine):
                        rec.cur.phase = name
                        if with_age:
                            age = kw.get('age', None)
                            rec.emit(name, age=-1 if age is None else int(age))
                        else:
                            rec.emit(name)
                    return orig(engine, *a, **kw)
                return phase
            return mk
        self._patch(mc.Sweep, 'make_eff_H', mk_phase('make_eff_H'))
        self._patch(dmrg.DMRGEngine, 'update_local', mk_phase('update_local'))
        self._patch(mc.Sweep, 'update_env', mk_phase('update_env', with_age=True))
        self._patch(dmrg.DMRGEngine, 'post_update_local', mk_phase('post_update_local'))
        self._patch(mc.Sweep, 'free_no_longer_needed_envs', mk_phase('free'))
        self.installed = True

    # ---- trace life cycle -------------------------------------------------------------------
    def _mix_kind(self, engine):
        from tenpy.algorithms import mps_common as mc
        m = engine.mixer
        if m is None:
            return 'none'
        if isinstance(m, mc.SubspaceExpansion):
            return 'sub'
        if isinstance(m, mc.DensityMatrixMixer):
            return 'dm'
        return 'other:' + type(m).__name__

    def _flush_sweep_begin(self, engine):
        t = self.cur
        if t.pending_sweep is not None:
            opt = t.pending_sweep
            t.pending_sweep = None
            self.emit('sweep_begin', optimize=opt, meas=bool(getattr(engine, '_meas_E_trunc', False)),
                      mix=self._mix_kind(engine))

    def begin(self, engine):
        self.ntraces += 1
        self._t = None
        t = _Trace(self.ntraces, engine)
        self.cur = t
        env = t.env
        for keys in (env._LP_keys, env._RP_keys):
            for key in keys:
                if key in env.cache:
                    self._register(env.cache[key], 0, [])
        a0L = env._LP_age[0]
        a0R = env._RP_age[t.L - 1]
        self.emit('begin', L=t.L, finite=bool(engine.psi.finite), n=int(engine.EffectiveH.length),
                  combine=bool(engine.combine), a0L=-1 if a0L is None else int(a0L), a0R=-1 if a0R is None else int(a0R),
                  engine=type(engine).__name__, **self.full_obs())

    def begin_sub(self, t, o_env):
        self.ntraces += 1
        sub = _Trace(self.ntraces, t.engine, env=o_env)
        sub.ver = t.ver                      # same state tensors
        t.subs.append(sub)
        self._t = sub
        for keys in (o_env._LP_keys, o_env._RP_keys):
            for key in keys:
                if key in o_env.cache:
                    self._register(o_env.cache[key], 0, [])
        a0L, a0R = o_env._LP_age[0], o_env._RP_age[sub.L - 1]
        self.emit('begin', _t=sub, L=sub.L, finite=bool(t.engine.psi.finite), n=int(t.engine.EffectiveH.length), combine=False,
                  a0L=-1 if a0L is None else int(a0L), a0R=-1 if a0R is None else int(a0R), engine='ortho_to_env', **self.full_obs())
        self._t = None

    def close_subs(self, t):
        for sub in t.subs:
            if not sub.ended:
                self.emit('end', _t=sub)
                sub.closed = sub.ended = True

    def close(self):
        t = self.cur
        self._t = None
        if t is not None:
            self.close_subs(t)
        if t is not None and not t.ended:
            self.emit('end')
            t.closed = True
            t.ended = True

    def ext_call(self, side, i, store):
        """An external caller asks the environment for a part (between two steps)."""
        t = self.cur
        n0 = len(self.events)
        if side == 'L':
            t.env.get_LP(i, store=store)
        else:
            t.env.get_RP(i, store=store)
        # the wrapper logged it as a plain call: turn that record into an 'ext' event
        e = self.events[-1]
        assert len(self.events) == n0 + 1 and e['ev'] == 'call'
        e['ev'] = 'ext'
        e['side'] = side

    def take(self):
        """Return and forget the recorded events."""
        ev, self.events = self.events, []
        return ev

    def drop_trace(self, tid):
        self.events = [e for e in self.events if e['tid'] != tid]


def write_ndjson(path, events):
    with open(path, 'w') as f:
        for e in events:
            f.write(json.dumps(e, separators=(',', ':')) + '\n')
