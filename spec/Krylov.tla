------------------------------- MODULE Krylov -------------------------------
(* tenpy.linalg.krylov_based / tenpy.linalg.sparse  (property C16)

   PART 1 -- the control-flow machine of LanczosGroundState (and LanczosEvolution, which only
   overrides _calc_result_krylov/_converged): _build_krylov with the FIFO cache of at most N_cache
   Krylov vectors (_to_cache), run(), _calc_result_full and the second pass
   _rebuild_krylov_for_result_full that regenerates the evicted vectors.  Written statement by
   statement like the code, with *positions* (cache[-1], cache[-2], cache[-k], vf[N-k], the loop
   bound N-len_cache-1), vectors being heap objects with identity (in-place scaling keeps the
   identity, matvec / `psi0 * vf[0]` / copy() allocate).  The content of an object is abstract:
   which Krylov index it carries, which Krylov vectors have been projected out, whether it is
   normalised; for the result: the list of (coefficient index, Krylov index) terms accumulated.
   The invariants say that the index arithmetic is right for all option values.
   (No history variable: the machine is bound to the code by TRACE validation, TraceKrylov.tla; the planted
   cases of part 2 are self-contained states.)

   PART 2 -- planted spectra: operators A = Q D Q^dagger / s (block-diagonal in the charge sectors)
   with exactly known eigen-decomposition over the Gaussian integers, start vectors with exactly
   known overlaps, and what the Krylov solvers must return on them (see below). *)
EXTENDS Integers, Sequences, FiniteSets, TLC

CONSTANTS MaxN      \* control-flow machine: bound on N_max and on the Krylov dimension m

VARIABLES pc,       \* program counter of the Lanczos machine
          opt,      \* options of this run: [Nmax, Ncache, Nmin, reortho, m, conv, shift]
                    \*   m    = dimension of the Krylov space of (H, psi0): beta_k = 0 exactly for k+1 = m
                    \*   conv = TRUE iff the convergence criterion may fire (P_tol > 0)
                    \*   shift = TRUE iff option E_shift is set (H is wrapped in a ShiftNpcLinearOperator)
          k,        \* loop variable of _build_krylov / _rebuild_krylov_for_result_full
          cache,    \* self._cache : sequence of object ids
          w,        \* local w
          psif,     \* local psif (0 = not yet allocated)
          heap,     \* sequence of vector descriptions; object id = position
          N,        \* return value of _build_krylov (0 = not yet returned)
          lc,       \* local len_cache of _calc_result_full
          ri,       \* inner loop counter (reortho loop / cached-terms loop)
          happ,     \* log of H.matvec applications: [pass, idx, it, ok]
          last,     \* the last operation as the tracing harness sees it
          pl        \* PART 2: the planted case under construction (constant in the control-flow machine)

cfvars == <<pc, opt, k, cache, w, psif, heap, N, lc, ri, happ, last>>

Min(a, b) == IF a < b THEN a ELSE b
Max(a, b) == IF a > b THEN a ELSE b

----------------------------------------------------------------------------
\* vector objects

Kry(j)  == [t |-> "kry", k |-> j, sub |-> {}, nrm |-> FALSE, terms |-> <<>>]
Res(ts, n) == [t |-> "res", k |-> 0 - 1, sub |-> {}, nrm |-> n, terms |-> ts]

\* the Krylov vectors that v_j has to be orthogonalised against explicitly: three-term recurrence,
\* or (reortho) everything that is in the cache window when v_j is generated
Req(j) == IF j = 0 THEN {}
          ELSE IF opt.reortho THEN Max(0, j - opt.Ncache)..(j - 1)
          ELSE Max(0, j - 2)..(j - 1)

\* object o is a finished Krylov basis vector
Complete(o) == /\ o \in 1..Len(heap)
               /\ heap[o].t = "kry" /\ heap[o].nrm /\ heap[o].sub = Req(heap[o].k)

Top == cache[Len(cache)]

NoOpt == [Nmax |-> 0, Ncache |-> 0, Nmin |-> 0, reortho |-> FALSE, m |-> 0, conv |-> FALSE, shift |-> FALSE]

InitCF == /\ pc = "start" /\ opt = NoOpt /\ k = 0 /\ cache = <<>> /\ w = 0 /\ psif = 0
          /\ heap = <<>> /\ N = 0 /\ lc = 0 /\ ri = 0 /\ happ = <<>> /\ last = [op |-> "init"]
          /\ pl = [stage |-> "none"]

\* KrylovBased.__init__ / LanczosGroundState.__init__: self.psi0 = psi0.copy() is object 1
Start(nmax, ncache, nmin, reo, m, conv, shift) ==
    /\ pc = "start"
    /\ opt' = [Nmax |-> nmax, Ncache |-> ncache, Nmin |-> nmin, reortho |-> reo, m |-> m, conv |-> conv, shift |-> shift]
    /\ heap' = <<Kry(0)>>
    /\ w' = 1 /\ k' = 0 /\ cache' = <<>> /\ psif' = 0 /\ N' = 0 /\ lc' = 0 /\ ri' = 0 /\ happ' = <<>>
    /\ pc' = "b_scale" /\ UNCHANGED pl
    /\ last' = [op |-> "Start", Nmax |-> nmax, Ncache |-> ncache, Nmin |-> nmin, reortho |-> reo,
                m |-> m, conv |-> conv, shift |-> shift, psi0 |-> 1]

\* --- primitive effects -----------------------------------------------------
DoScale(o) == heap' = [heap EXCEPT ![o].nrm = TRUE]                       \* iscale_prefactor(o, 1/norm)
Subtract(o, v) == heap' = [heap EXCEPT ![o].sub = @ \cup {heap[v].k}]     \* iadd_prefactor_other(o, -ov, v)
PushCache(o) == LET c1 == Append(cache, o)                                \* _to_cache(o)
                IN IF Len(c1) > opt.Ncache THEN Tail(c1) ELSE c1
Term(c, o) == [c |-> c, v |-> heap[o].k, ok |-> Complete(o)]
AddTerm(c, o) == heap' = [heap EXCEPT ![psif].terms = Append(@, Term(c, o))]
DoMatvec(pass) ==                                                         \* w = self.H.matvec(w)
    /\ heap' = Append(heap, Kry(heap[Top].k + 1))
    /\ w' = Len(heap) + 1
    /\ happ' = Append(happ, [pass |-> pass, idx |-> heap[Top].k, it |-> k, ok |-> Complete(Top) /\ Top = w])
    /\ last' = [op |-> "Matvec", x |-> Top, y |-> Len(heap) + 1]
EvScale(o) == [op |-> "Scale", w |-> o]
EvIadd(o, v, c) == [op |-> "Iadd", w |-> o, v |-> v, c |-> c]             \* c = index into vf, or -1
EvCache(o, c) == [op |-> "ToCache", psi |-> o, cache |-> c]

\* --- _build_krylov ---------------------------------------------------------
\* self.iscale_prefactor(w, 1. / beta)   (first iteration: w is self.psi0)
BScale == /\ pc = "b_scale" /\ DoScale(w) /\ pc' = "b_cache" /\ last' = EvScale(w)
          /\ UNCHANGED <<pl, opt, k, cache, w, psif, N, lc, ri, happ>>
\* self._to_cache(w)
BCache == /\ pc = "b_cache" /\ cache' = PushCache(w) /\ pc' = "b_matvec" /\ last' = EvCache(w, cache')
          /\ UNCHANGED <<pl, opt, k, w, psif, heap, N, lc, ri, happ>>
\* w = self.H.matvec(w)
BMatvec == /\ pc = "b_matvec" /\ DoMatvec(1) /\ pc' = "b_alpha"
           /\ UNCHANGED <<pl, opt, k, cache, psif, N, lc, ri>>
\* alpha = <w|cache[-1]>; h[k,k] = alpha; _calc_result_krylov(k); w -= alpha * cache[-1]
BAlpha == /\ pc = "b_alpha" /\ Subtract(w, Top) /\ ri' = 1
          /\ pc' = IF opt.reortho THEN (IF Len(cache) > 1 THEN "b_reortho" ELSE "b_test")
                   ELSE IF k > 0 THEN "b_beta" ELSE "b_test"
          /\ last' = EvIadd(w, Top, 0 - 1)
          /\ UNCHANGED <<pl, opt, k, cache, w, psif, N, lc, happ>>
\* for c in self._cache[:-1]: w -= <c|w> c
BReortho == /\ pc = "b_reortho" /\ Subtract(w, cache[ri]) /\ ri' = ri + 1
            /\ pc' = IF ri + 1 <= Len(cache) - 1 THEN "b_reortho" ELSE "b_test"
            /\ last' = EvIadd(w, cache[ri], 0 - 1)
            /\ UNCHANGED <<pl, opt, k, cache, w, psif, N, lc, happ>>
\* elif k > 0: w -= beta * cache[-2]
BBeta == /\ pc = "b_beta" /\ Subtract(w, cache[Len(cache) - 1]) /\ pc' = "b_test"
         /\ last' = EvIadd(w, cache[Len(cache) - 1], 0 - 1)
         /\ UNCHANGED <<pl, opt, k, cache, w, psif, N, lc, ri, happ>>
\* beta = norm(w); if abs(beta) < cutoff or (k + 1 >= N_min and converged): break
MustStop == k + 1 = opt.Nmax \/ k + 1 = opt.m
MayStop == MustStop \/ (opt.conv /\ k + 1 >= opt.Nmin)
BBreak == /\ pc = "b_test" /\ MayStop /\ N' = k + 1 /\ pc' = "r_run"
          /\ last' = [op |-> "BuildDone", N |-> k + 1, cut |-> (k + 1 = opt.m)]
          /\ UNCHANGED <<pl, opt, k, cache, w, psif, heap, lc, ri, happ>>
\* next iteration: k += 1; iscale_prefactor(w, 1/beta)
BNext == /\ pc = "b_test" /\ ~MustStop /\ k' = k + 1 /\ DoScale(w) /\ pc' = "b_cache" /\ last' = EvScale(w)
         /\ UNCHANGED <<pl, opt, cache, w, psif, N, lc, ri, happ>>

\* --- run(): E0 = Es[N-1, 0] is a Ritz value of H + E_shift:  `if self.E_shift is not None: E0 -= self.E_shift`
\* comes before *both* return paths.  `applied` is what the harness observes on the returned energy: it is the Ritz value
\* with the shift removed (vacuously TRUE without E_shift and for LanczosEvolution, which returns no energy).
RUnshift == /\ pc = "r_run" /\ pc' = "r_unshifted"
            /\ last' = [op |-> "Unshift", shift |-> opt.shift, applied |-> TRUE]
            /\ UNCHANGED <<pl, opt, k, cache, w, psif, heap, N, lc, ri, happ>>

\* --- run(): N == 1 returns psi0.copy() --------------------------------------
RReturn1 == /\ pc = "r_unshifted" /\ N = 1
            /\ heap' = Append(heap, Res(<<Term(0, 1)>>, TRUE))
            /\ psif' = Len(heap) + 1 /\ pc' = "done"
            /\ last' = [op |-> "Return", N |-> 1, res |-> Len(heap) + 1]
            /\ UNCHANGED <<pl, opt, k, cache, w, N, lc, ri, happ>>

\* --- _calc_result_full(N) ----------------------------------------------------
\* psif = self.psi0 * vf[0]; len_cache = len(self._cache)
RMul == /\ pc = "r_unshifted" /\ N > 1
        /\ heap' = Append(heap, Res(<<Term(0, 1)>>, FALSE))
        /\ psif' = Len(heap) + 1 /\ lc' = Len(cache) /\ ri' = 1
        /\ pc' = IF 1 < Min(Len(cache) + 1, N) THEN "r_cached" ELSE "r_clear"
        /\ last' = [op |-> "Mul", x |-> 1, c |-> 0, y |-> Len(heap) + 1]
        /\ UNCHANGED <<pl, opt, k, cache, w, N, happ>>
\* for k in range(1, min(len_cache + 1, N)): psif += vf[N - k] * self._cache[-k]
RCached == /\ pc = "r_cached"
           /\ AddTerm(N - ri, cache[Len(cache) - ri + 1]) /\ ri' = ri + 1
           /\ pc' = IF ri + 1 < Min(lc + 1, N) THEN "r_cached" ELSE "r_clear"
           /\ last' = EvIadd(psif, cache[Len(cache) - ri + 1], N - ri)
           /\ UNCHANGED <<pl, opt, k, cache, w, psif, N, lc, happ>>
\* self._cache = []; self._rebuild_krylov_for_result_full(psif, N - len_cache - 1): w = self.psi0
RClear == /\ pc = "r_clear"
          /\ cache' = <<>> /\ w' = 1 /\ k' = 0
          /\ pc' = IF 0 < N - lc - 1 THEN "q_cache" ELSE "r_norm"
          /\ last' = [op |-> "Rebuild", psif |-> psif, nmax |-> N - lc - 1, cache |-> <<>>]
          /\ UNCHANGED <<pl, opt, psif, heap, N, lc, ri, happ>>
\* --- _rebuild_krylov_for_result_full, loop body for k in range(0, N_max) ----
QCache == /\ pc = "q_cache" /\ cache' = PushCache(w) /\ pc' = "q_matvec" /\ last' = EvCache(w, cache')
          /\ UNCHANGED <<pl, opt, k, w, psif, heap, N, lc, ri, happ>>
QMatvec == /\ pc = "q_matvec" /\ DoMatvec(2) /\ pc' = "q_alpha"
           /\ UNCHANGED <<pl, opt, k, cache, psif, N, lc, ri>>
QAlpha == /\ pc = "q_alpha" /\ Subtract(w, Top) /\ ri' = 1
          /\ pc' = IF opt.reortho THEN (IF Len(cache) > 1 THEN "q_reortho" ELSE "q_scale")
                   ELSE IF k > 0 THEN "q_beta" ELSE "q_scale"
          /\ last' = EvIadd(w, Top, 0 - 1)
          /\ UNCHANGED <<pl, opt, k, cache, w, psif, N, lc, happ>>
QReortho == /\ pc = "q_reortho" /\ Subtract(w, cache[ri]) /\ ri' = ri + 1
            /\ pc' = IF ri + 1 <= Len(cache) - 1 THEN "q_reortho" ELSE "q_scale"
            /\ last' = EvIadd(w, cache[ri], 0 - 1)
            /\ UNCHANGED <<pl, opt, k, cache, w, psif, N, lc, happ>>
QBeta == /\ pc = "q_beta" /\ Subtract(w, cache[Len(cache) - 1]) /\ pc' = "q_scale"
         /\ last' = EvIadd(w, cache[Len(cache) - 1], 0 - 1)
         /\ UNCHANGED <<pl, opt, k, cache, w, psif, N, lc, ri, happ>>
\* beta = h[k, k+1]; iscale_prefactor(w, 1/beta)
QScale == /\ pc = "q_scale" /\ DoScale(w) /\ pc' = "q_add" /\ last' = EvScale(w)
          /\ UNCHANGED <<pl, opt, k, cache, w, psif, N, lc, ri, happ>>
\* psif += vf[k + 1] * w
QAdd == /\ pc = "q_add" /\ AddTerm(k + 1, w) /\ k' = k + 1
        /\ pc' = IF k + 1 < N - lc - 1 THEN "q_cache" ELSE "r_norm"
        /\ last' = EvIadd(psif, w, k + 1)
        /\ UNCHANGED <<pl, opt, cache, w, psif, N, lc, ri, happ>>
\* back in _calc_result_full: iscale_prefactor(psif, 1/norm(psif)); return
RNorm == /\ pc = "r_norm" /\ DoScale(psif) /\ pc' = "r_ret" /\ last' = EvScale(psif)
         /\ UNCHANGED <<pl, opt, k, cache, w, psif, N, lc, ri, happ>>
RReturn == /\ pc = "r_ret" /\ pc' = "done" /\ last' = [op |-> "Return", N |-> N, res |-> psif]
           /\ UNCHANGED <<pl, opt, k, cache, w, psif, heap, N, lc, ri, happ>>

DoStart == \E nmax \in 1..MaxN, ncache \in 2..(MaxN + 1), nmin \in {2, 4}, reo \in BOOLEAN,
              m \in 1..(MaxN + 1), conv \in BOOLEAN, shift \in BOOLEAN :
              /\ (shift => ~reo /\ ~conv)        \* the shift only matters in run(): no need to cross it with everything
              /\ (conv \/ nmin = 2) /\ m <= nmax + 1 /\ ncache <= Max(2, nmax + 1)   \* larger values behave alike
              /\ Start(nmax, ncache, nmin, reo, m, conv, shift)

NextCF == \/ DoStart \/ BScale \/ BCache \/ BMatvec \/ BAlpha \/ BReortho \/ BBeta \/ BBreak \/ BNext
          \/ RUnshift \/ RReturn1 \/ RMul \/ RCached \/ RClear
          \/ QCache \/ QMatvec \/ QAlpha \/ QReortho \/ QBeta \/ QScale \/ QAdd \/ RNorm \/ RReturn

SpecCF == InitCF /\ [][NextCF]_<<cfvars, pl>>

----------------------------------------------------------------------------
\* Invariants of the control-flow machine

\* FIFO cache never holds more than N_cache vectors ...
CacheBounded == Len(cache) <= opt.Ncache
\* ... and always is the window of the most recent consecutive, finished Krylov vectors
CacheWindow == \A i \in 1..Len(cache) :
                   /\ heap[cache[i]].t = "kry"
                   /\ heap[cache[i]].k = heap[Top].k - (Len(cache) - i)
                   /\ (i < Len(cache) => Complete(cache[i]))
\* H is applied, in both passes, to the finished vectors v_0, v_1, ... in this order,
\* and the second pass regenerates exactly v_1 .. v_{N - len_cache - 1}
MatvecRight == /\ \A i \in 1..Len(happ) : happ[i].ok /\ happ[i].idx = happ[i].it
               /\ LET p1 == SelectSeq(happ, LAMBDA h : h.pass = 1)
                      p2 == SelectSeq(happ, LAMBDA h : h.pass = 2)
                  IN /\ \A i \in 1..Len(p1) : p1[i].idx = i - 1
                     /\ \A i \in 1..Len(p2) : p2[i].idx = i - 1
                     /\ pc \in {"r_norm", "r_ret", "done"} /\ N > 1 =>
                            /\ Len(p1) = N
                            /\ Len(p2) = Max(0, N - Min(N, opt.Ncache) - 1)
\* a vector is only ever normalised / used after the full (three-term or windowed) orthogonalisation,
\* in both passes: the regenerated vectors are the vectors of the first pass
RecurrenceComplete == \A o \in 1..Len(heap) :
                          (heap[o].t = "kry" /\ heap[o].nrm) => heap[o].sub = Req(heap[o].k)
\* what is projected out of w is always a finished, earlier Krylov vector
SubtractRight == (last.op = "Iadd" /\ last.c = 0 - 1) =>
                     /\ Complete(last.v) /\ heap[last.w].t = "kry" /\ heap[last.v].k < heap[last.w].k
\* every term vf[c] * v_j added to the result has c = j and v_j finished
CoefMatchesVector == \A o \in 1..Len(heap) : heap[o].t = "res" =>
                         \A i \in 1..Len(heap[o].terms) : heap[o].terms[i].ok /\ heap[o].terms[i].c = heap[o].terms[i].v
\* the result is  sum_{k < N} vf[k] v_k  with every k exactly once
EachKrylovIndexUsedOnce ==
    pc \in {"r_norm", "r_ret", "done"} =>
        /\ Len(heap[psif].terms) = N
        /\ {heap[psif].terms[i].c : i \in 1..N} = 0..(N - 1)
ResultNormalised == pc = "done" => heap[psif].nrm /\ last.op = "Return" /\ last.res = psif
\* no return path of run() skips the removal of E_shift from the energy
EnergyUnshifted == (last.op \in {"Return", "Mul"}) => pc \notin {"r_run"}
\* memory: besides psi0 and psif at most N_cache + 1 Krylov vectors are alive
StopRight == N > 0 => /\ N <= opt.Nmax /\ N <= opt.m
                      /\ (~opt.conv => N = Min(opt.Nmax, opt.m))
                      /\ (N < Min(opt.Nmax, opt.m) => N >= opt.Nmin)

----------------------------------------------------------------------------
(* PART 2 -- planted spectra.

   An operator is a direct sum of blocks; block b carries a charge q and is  A_b = Q D Qi / s  with
   Q = U P L H  (U diagonal of Gaussian units, P a row permutation, L unit lower triangular, H the
   identity, a Hadamard matrix or H2 (+) H2),  Qi = s Q^{-1}  and D a diagonal of (Gaussian) integers.
   With L = 1 and real D the block is Hermitian.  Everything is exact: TLC checks  A Q = s Q D,
   Qi Q = s 1  (invariants BlockCertificate, VectorCertificate), so the spectrum and the eigenspaces are *known*.
   A start vector lives in one charge sector and is planted by its expansion coefficients a,
   v = sum_j a_j q_j; its components c_lambda in the eigenspaces ("comps") are Gaussian-integer
   vectors.  The Krylov space of (A, v) is spanned by the non-zero components, so
       m = number of distinct eigenvalues with a non-zero component
   exactly, and what a Krylov solver has to return once N_max >= m is a closed expression in
   the c_lambda.  The cases (operator x vector x options + the expected data) are enumerated by TLC
   through Next and replayed into the real solvers by checks/c16.py. *)

CONSTANTS Sizes,       \* block sizes offered, subset of 1..4
          Charges,     \* charge values offered for a block
          MaxBlocks, MaxDim,
          DVals,       \* integer eigenvalues offered (Hermitian blocks)
          GVals,       \* Gaussian-integer eigenvalues offered (general blocks)
          AVals,       \* Gaussian-integer expansion coefficients offered for the start vector
          Flavours,    \* subset of {"herm", "gen", "jor"}   ("jor": defective, every block is one Jordan block)
          Perms, UnitKinds,   \* subsets of {"id","rev","cyc"}, {"one","alt","gau"}
          Sigmas,      \* values of E_shift offered (0 = option absent)
          GsVals, MaxGsRows,  \* gram_schmidt cases: integer coefficients offered, number of vectors
          DMode,       \* "free": eigenvalues chosen from DVals/GVals; "ladder": consecutive integers -3, -2, ... (all distinct);
                       \* "dyadic": ill-conditioned, eigenvalues 2^-e with e from 0..26 (D holds 2^(26-e), the block carries the
                       \*           common denominator ds = 2^26; at most 8 eigenvalues)
          Kinds        \* case kinds generated: subset of {"lanczos","evo","arnoldi","gmres","gs"}

\* definitions a cfg can refer to with  Const <- Name  (cfg files cannot hold negative literals / tuples)
DValsSmall == {-1, 0, 2}
DValsTwo   == {-1, 2}
DValsBig   == {-3, -1, 0, 1, 2, 4}
GValsSmall == {<<-1, 0>>, <<2, 0>>, <<0, 1>>}
GValsBig   == {<<-2, 0>>, <<-1, 0>>, <<1, 0>>, <<3, 0>>, <<0, 1>>, <<1, -1>>, <<0, -2>>, <<2, 1>>}
AValsSmall == {<<0, 0>>, <<1, 0>>, <<1, 1>>}
AValsOne == {<<1, 0>>}
AValsBin == {<<0, 0>>, <<1, 0>>}
AValsBig   == {<<0, 0>>, <<1, 0>>, <<-1, 0>>, <<0, 1>>, <<2, 0>>, <<1, 1>>, <<1, -2>>}
SigmasSmall == {0, 3}
SigmasPM   == {0, 3, -4}
SigmasBig  == {0, 3, -4, 1}
GsValsSmall == {0, 1}
GsValsBig  == {-1, 0, 1, 2}

\* ---- Gaussian integers <<re, im>> ------------------------------------------
C0 == <<0, 0>>
C1 == <<1, 0>>
CInt(n) == <<n, 0>>
CAdd(a, b) == <<a[1] + b[1], a[2] + b[2]>>
CSub(a, b) == <<a[1] - b[1], a[2] - b[2]>>
CMul(a, b) == <<a[1] * b[1] - a[2] * b[2], a[1] * b[2] + a[2] * b[1]>>
CConj(a) == <<a[1], 0 - a[2]>>
CAbs2(a) == a[1] * a[1] + a[2] * a[2]
IPow(t) == LET r == t % 4 IN IF r = 0 THEN <<1, 0>> ELSE IF r = 1 THEN <<0, 1>> ELSE IF r = 2 THEN <<-1, 0>> ELSE <<0, -1>>
CLess(a, b) == a[1] < b[1] \/ (a[1] = b[1] /\ a[2] < b[2])       \* lexicographic, for canonical orderings

RECURSIVE CSum(_)
CSum(s) == IF s = <<>> THEN C0 ELSE CAdd(Head(s), CSum(Tail(s)))
RECURSIVE ISum(_)
ISum(s) == IF s = <<>> THEN 0 ELSE Head(s) + ISum(Tail(s))

\* vectors = sequences of Gaussian integers, matrices = sequences of rows
\* (TLCEval: TLC would otherwise keep [i \in S |-> e] as a lazy function and re-evaluate e at every application,
\*  which is exponential in the nesting depth of the matrix expressions)
VZero(n) == TLCEval([i \in 1..n |-> C0])
VAdd(x, y) == TLCEval([i \in 1..Len(x) |-> CAdd(x[i], y[i])])
VScale(c, x) == TLCEval([i \in 1..Len(x) |-> CMul(c, x[i])])
VNorm2(x) == ISum([i \in 1..Len(x) |-> CAbs2(x[i])])
VDot(x, y) == CSum([i \in 1..Len(x) |-> CMul(CConj(x[i]), y[i])])          \* <x|y>
MatMul(A, B) == TLCEval([i \in 1..Len(A) |-> TLCEval([j \in 1..Len(B[1]) |-> CSum([kk \in 1..Len(B) |-> CMul(A[i][kk], B[kk][j])])])])
MatVec(A, x) == TLCEval([i \in 1..Len(A) |-> CSum([kk \in 1..Len(x) |-> CMul(A[i][kk], x[kk])])])
MatAdd(A, B) == TLCEval([i \in 1..Len(A) |-> TLCEval([j \in 1..Len(A[1]) |-> CAdd(A[i][j], B[i][j])])])
MatNeg(A) == TLCEval([i \in 1..Len(A) |-> TLCEval([j \in 1..Len(A[1]) |-> CSub(C0, A[i][j])])])
Dagger(A) == TLCEval([i \in 1..Len(A[1]) |-> TLCEval([j \in 1..Len(A) |-> CConj(A[j][i])])])
Ident(n) == TLCEval([i \in 1..n |-> TLCEval([j \in 1..n |-> IF i = j THEN C1 ELSE C0])])
DiagM(D) == TLCEval([i \in 1..Len(D) |-> TLCEval([j \in 1..Len(D) |-> IF i = j THEN D[i] ELSE C0])])
ScaleM(c, A) == TLCEval([i \in 1..Len(A) |-> TLCEval([j \in 1..Len(A[1]) |-> CMul(CInt(c), A[i][j])])])
Col(A, j) == TLCEval([i \in 1..Len(A) |-> A[i][j]])

\* ---- the catalogue of eigenvector matrices ---------------------------------
H2e(i, j) == IF i = 2 /\ j = 2 THEN -1 ELSE 1
HEntry(n, hk, i, j) ==
    IF hk = "I" THEN (IF i = j THEN 1 ELSE 0)
    ELSE IF hk = "H" THEN (IF n = 2 THEN H2e(i, j)
                           ELSE H2e(((i - 1) \div 2) + 1, ((j - 1) \div 2) + 1) * H2e(((i - 1) % 2) + 1, ((j - 1) % 2) + 1))
    ELSE (IF (i - 1) \div 2 = (j - 1) \div 2 THEN H2e(((i - 1) % 2) + 1, ((j - 1) % 2) + 1) ELSE 0)     \* "HH", n = 4
HMat(n, hk) == TLCEval([i \in 1..n |-> TLCEval([j \in 1..n |-> CInt(HEntry(n, hk, i, j))])])
HScale(n, hk) == IF hk = "I" THEN 1 ELSE IF hk = "H" THEN n ELSE 2
LEntry(lk, i, j) ==
    IF i = j THEN C1 ELSE IF i < j \/ lk = "I" THEN C0
    ELSE IF lk = "L1" THEN (IF i = j + 1 THEN C1 ELSE C0)
    ELSE (IF i = j + 1 THEN <<2, 0>> ELSE IF i = j + 2 THEN <<0, 1>> ELSE <<-1, 0>>)                \* "L2"
LMat(n, lk) == TLCEval([i \in 1..n |-> TLCEval([j \in 1..n |-> LEntry(lk, i, j)])])
LInv(n, lk) == LET Nil == MatAdd(LMat(n, lk), MatNeg(Ident(n)))          \* (1 + Nil)^-1 = 1 - Nil + Nil^2 - Nil^3
                   N2 == MatMul(Nil, Nil)
                   N3 == MatMul(N2, Nil)
               IN IF lk = "I" THEN Ident(n) ELSE TLCEval(MatAdd(MatAdd(Ident(n), MatNeg(Nil)), MatAdd(N2, MatNeg(N3))))
PermOf(n, p, i) == IF p = "id" THEN i ELSE IF p = "rev" THEN n + 1 - i ELSE (i % n) + 1
UnitOf(u, i) == IF u = "one" THEN C1 ELSE IF u = "alt" THEN (IF i % 2 = 1 THEN C1 ELSE <<-1, 0>>) ELSE IPow(i - 1)

HKinds(n) == IF n = 2 THEN {"I", "H"} ELSE IF n = 4 THEN {"I", "H", "HH"} ELSE {"I"}
Variants(n, fl) ==
    IF n = 1 THEN {[lk |-> "I", hk |-> "I", p |-> "id", u |-> "one"]}
    ELSE {[lk |-> a, hk |-> b, p |-> c, u |-> d] : a \in (IF fl = "herm" THEN {"I"} ELSE {"L1", "L2"}),
                                                  b \in HKinds(n), c \in Perms, d \in UnitKinds}

\* the matrix that is transformed by Q: the diagonal of the eigenvalues; for the defective flavour "jor" one Jordan
\* block  lambda 1 + (ones on the first superdiagonal)
Sup(n) == TLCEval([i \in 1..n |-> TLCEval([j \in 1..n |-> IF j = i + 1 THEN C1 ELSE C0])])
JMat(D) == IF pl.fl = "jor" THEN MatAdd(DiagM(D), Sup(Len(D))) ELSE DiagM(D)
MkBlock(q, n, var, D) ==
    LET B  == MatMul(LMat(n, var.lk), HMat(n, var.hk))
        Bi == MatMul(Dagger(HMat(n, var.hk)), LInv(n, var.lk))
        Q  == TLCEval([i \in 1..n |-> TLCEval([j \in 1..n |-> CMul(UnitOf(var.u, i), B[PermOf(n, var.p, i)][j])])])
        Qi == TLCEval([j \in 1..n |-> TLCEval([i \in 1..n |-> CMul(CConj(UnitOf(var.u, i)), Bi[j][PermOf(n, var.p, i)])])])
    IN [q |-> q, n |-> n, s |-> HScale(n, var.hk), var |-> var, D |-> D, Q |-> Q, Qi |-> Qi,
        A |-> MatMul(Q, MatMul(JMat(D), Qi))]

\* ---- canonical sequences from sets ------------------------------------------
RECURSIVE SortC(_)
SortC(S) == IF S = {} THEN <<>> ELSE
            LET x == CHOOSE x \in S : \A y \in S : x = y \/ CLess(x, y) IN <<x>> \o SortC(S \ {x})
RECURSIVE SortI(_)
SortI(S) == IF S = {} THEN <<>> ELSE LET x == CHOOSE x \in S : \A y \in S : x <= y IN <<x>> \o SortI(S \ {x})
RECURSIVE SortByKey(_, _)      \* S: set of records with integer field `key`; ties broken canonically by lam
SortByKey(S, dummy) == IF S = {} THEN <<>> ELSE
            LET x == CHOOSE x \in S : \A y \in S : x = y \/ x.key < y.key \/ (x.key = y.key /\ CLess(x.lam, y.lam))
            IN <<x>> \o SortByKey(S \ {x}, dummy)

\* ---- ill-conditioned but exact: dyadic spectra (all numbers stay below 2^31) ----
RECURSIVE Pow2(_)
Pow2(e) == IF e = 0 THEN 1 ELSE 2 * Pow2(e - 1)
DyE == 26                                             \* cond(A) = 2^26 = 6.7e7
DyExp1 == <<0, 26, 9, 17, 4, 22, 13, 20>>
DyExp2 == <<0, 26, 11, 15, 6, 22, 13, 20>>
DScale == IF DMode = "dyadic" THEN Pow2(DyE) ELSE 1

\* ---- the case builder ----------------------------------------------------------
(* The choices (block headers, eigenvalues, sector, coefficients, kind of case, options) are made one
   at a time by cheap actions; the single deterministic action Build then computes the operator, the
   eigen-components of the start vector and the expected results from the choices. *)
HdrDim(hs) == ISum([b \in 1..Len(hs) |-> hs[b].n])
NoCase == [stage |-> "blk", fl |-> "herm", hdrs |-> <<>>]

InitPL == /\ pl = NoCase
          /\ pc = "planted" /\ opt = NoOpt /\ k = 0 /\ cache = <<>> /\ w = 0 /\ psif = 0
          /\ heap = <<>> /\ N = 0 /\ lc = 0 /\ ri = 0 /\ happ = <<>> /\ last = [op |-> "init"]

\* flavour of the operator (with the first block) and header of the next block
BeginBlock == /\ pl.stage = "blk" /\ Len(pl.hdrs) < MaxBlocks
              /\ \E fl \in Flavours, q \in Charges, n \in Sizes :
                   /\ (pl.hdrs # <<>> => fl = pl.fl)
                   /\ HdrDim(pl.hdrs) + n <= MaxDim
                   /\ \E var \in Variants(n, fl) :
                        pl' = [stage |-> "D", fl |-> fl, hdrs |-> Append(pl.hdrs, [q |-> q, n |-> n, var |-> var, D |-> <<>>])]
\* eigenvalues of the block, one at a time
SetD == /\ pl.stage = "D"
        /\ LET nb == Len(pl.hdrs)
               pos == HdrDim(pl.hdrs) - pl.hdrs[nb].n + Len(pl.hdrs[nb].D) + 1       \* position of this eigenvalue in the operator
               ladder == CInt(pos - 4)
               dyadic == {CInt(Pow2(DyE - DyExp1[pos]))} \cup (IF pos \in 3..5 THEN {CInt(Pow2(DyE - DyExp2[pos]))} ELSE {})
           IN \E d \in (IF DMode = "ladder" THEN {ladder} ELSE IF DMode = "dyadic" THEN dyadic
                        ELSE IF pl.fl = "jor" THEN (IF pl.hdrs[nb].D = <<>> THEN {CInt(x) : x \in DVals} ELSE {pl.hdrs[nb].D[1]})
                        ELSE IF pl.fl = "herm" THEN {CInt(x) : x \in DVals} ELSE GVals) :
                LET D == Append(pl.hdrs[nb].D, d)
                IN pl' = [pl EXCEPT !.hdrs[nb].D = D, !.stage = IF Len(D) < pl.hdrs[nb].n THEN "D" ELSE "blk"]
\* the operator is complete: choose the charge sector of the start vector
SectorIdx(hs, q0) == SortC({<<b, j>> \in (1..Len(hs)) \X (1..4) : hs[b].q = q0 /\ j <= hs[b].n})
EndOp == /\ pl.stage = "blk" /\ pl.hdrs # <<>>
         /\ \E q0 \in {pl.hdrs[b].q : b \in 1..Len(pl.hdrs)} :
              pl' = [stage |-> "a", fl |-> pl.fl, hdrs |-> pl.hdrs, q0 |-> q0, idx |-> SectorIdx(pl.hdrs, q0), a |-> <<>>]
\* expansion coefficients of the start vector in the planted eigenvectors of the sector, one at a time
LamOf(hs, ix) == hs[ix[1]].D[ix[2]]
ReachLams(hs, idx, a) == {LamOf(hs, idx[i]) : i \in {i \in 1..Len(a) : a[i] # C0}}
SetA == /\ pl.stage = "a"
        /\ \E c \in AVals :
             LET a == Append(pl.a, c) IN
             IF Len(a) < Len(pl.idx) THEN pl' = [pl EXCEPT !.a = a]
             ELSE /\ \E i \in 1..Len(a) : a[i] # C0
                  /\ pl' = [pl EXCEPT !.a = a, !.stage = "opt"] @@ [m |-> Cardinality(ReachLams(pl.hdrs, pl.idx, a))]

\* kind of case and its options
OptLanczos == /\ pl.stage = "opt" /\ pl.fl = "herm" /\ "lanczos" \in Kinds
              /\ \E sigma \in Sigmas, nO \in 0..Min(2, pl.m) :
                   pl' = [pl EXCEPT !.stage = "build"] @@ [kind |-> "lanczos", sigma |-> sigma, nO |-> nO]
OptEvo     == /\ pl.stage = "opt" /\ "evo" \in Kinds /\ pl.fl # "jor"
              /\ \E sigma \in Sigmas : pl' = [pl EXCEPT !.stage = "build"] @@ [kind |-> "evo", sigma |-> sigma]
OptArnoldi == /\ pl.stage = "opt" /\ "arnoldi" \in Kinds /\ pl.fl # "jor"
              /\ \E sigma \in Sigmas : pl' = [pl EXCEPT !.stage = "build"] @@ [kind |-> "arnoldi", sigma |-> sigma]
OptGmres   == /\ pl.stage = "opt" /\ "gmres" \in Kinds /\ pl.fl # "jor"
              /\ \A i \in 1..Len(pl.idx) : LamOf(pl.hdrs, pl.idx[i]) # C0           \* A non-singular on the sector
              /\ \E x0k \in {"zero", "half"} : pl' = [pl EXCEPT !.stage = "build"] @@ [kind |-> "gmres", x0k |-> x0k]
\* GMRES on an ill-conditioned operator: right-hand side b = v with components on all eigenvectors
OptGmresIll == /\ pl.stage = "opt" /\ "gmresill" \in Kinds /\ DMode = "dyadic" /\ pl.fl # "jor"
               /\ pl' = [pl EXCEPT !.stage = "build"] @@ [kind |-> "gmresill"]
\* exp(delta (A + sigma)) v for a defective operator (ArnoldiEvolution): the blocks touched by v must have different
\* eigenvalues, so that the Krylov dimension is the sum of the grades of the block components
ActiveBlocks(idx, a) == {idx[i][1] : i \in {i \in 1..Len(a) : a[i] # C0}}
OptJevo    == /\ pl.stage = "opt" /\ "jevo" \in Kinds /\ pl.fl = "jor"
              /\ LET act == ActiveBlocks(pl.idx, pl.a)
                 IN Cardinality({pl.hdrs[b].D[1] : b \in act}) = Cardinality(act)
              /\ \E sigma \in Sigmas : pl' = [pl EXCEPT !.stage = "build"] @@ [kind |-> "jevo", sigma |-> sigma]
\* gram_schmidt on nearly parallel vectors  S v,  S v + c_1,  S v + c_2, (S v + c_3),  S = 2^20: needs >= 3 components
OptGsIll   == /\ pl.stage = "opt" /\ "gsill" \in Kinds /\ pl.fl # "jor" /\ pl.m >= 3
              /\ pl' = [pl EXCEPT !.stage = "build"] @@ [kind |-> "gsill"]
GsCols(m) == Min(m, 3)
OptGsBegin == /\ pl.stage = "opt" /\ "gs" \in Kinds /\ pl.fl # "jor"
              /\ pl' = [pl EXCEPT !.stage = "gsrows"] @@ [kind |-> "gs", C |-> <<>>]
OptGsRow   == /\ pl.stage = "gsrows" /\ Len(pl.C) < MaxGsRows
              /\ \E row \in [1..GsCols(pl.m) -> GsVals] : pl' = [pl EXCEPT !.C = Append(@, row)]
OptGsEnd   == /\ pl.stage = "gsrows" /\ Len(pl.C) >= 1
              /\ pl' = [pl EXCEPT !.stage = "build"]

\* ---- per-block vectors -----------------------------------------------------------
BVAdd(x, y) == TLCEval([b \in 1..Len(x) |-> VAdd(x[b], y[b])])
BVScale(c, x) == TLCEval([b \in 1..Len(x) |-> VScale(c, x[b])])
BVZero(bs) == TLCEval([b \in 1..Len(bs) |-> VZero(bs[b].n)])
BVNorm2(x) == ISum([b \in 1..Len(x) |-> VNorm2(x[b])])
BVDot(x, y) == CSum([b \in 1..Len(x) |-> VDot(x[b], y[b])])
RECURSIVE BVSum(_, _)
BVSum(seq, zero) == IF seq = <<>> THEN zero ELSE BVAdd(Head(seq), BVSum(Tail(seq), zero))

Comp(bs, idx, a, lam) ==      \* component of v in the eigenspace of lam
    TLCEval([b \in 1..Len(bs) |->
        LET RECURSIVE Acc(_)
            Acc(S) == IF S = {} THEN VZero(bs[b].n)
                      ELSE LET i == CHOOSE i \in S : TRUE IN VAdd(VScale(a[i], Col(bs[b].Q, idx[i][2])), Acc(S \ {i}))
        IN Acc({i \in 1..Len(idx) : idx[i][1] = b /\ LamOf(bs, idx[i]) = lam})])
Weight(bs, idx, a, lam) ==    \* <v|P_lam|v> for Hermitian blocks
    LET RECURSIVE Acc(_)
        Acc(S) == IF S = {} THEN 0
                  ELSE LET i == CHOOSE i \in S : TRUE IN bs[idx[i][1]].s * CAbs2(a[i]) + Acc(S \ {i})
    IN Acc({i \in 1..Len(idx) : LamOf(bs, idx[i]) = lam})
CompsOf(bs, idx, a) ==
    LET lams == SortC(ReachLams(bs, idx, a))
    IN TLCEval([i \in 1..Len(lams) |-> [lam |-> lams[i], W |-> Weight(bs, idx, a, lams[i]), c |-> Comp(bs, idx, a, lams[i])]])

\* ---- what the solvers have to return ------------------------------------------
\* N = number of Lanczos/Arnoldi steps for each offered N_max (cutoff above rounding noise, P_tol = 0):
\* the iteration stops exactly when the Krylov space of dimension m is exhausted
NmaxTable(m) == LET S == SortI({n \in {1, 2, m - 1, m, m + 2} : n >= 1})
                IN TLCEval([i \in 1..Len(S) |-> [Nmax |-> S[i], N |-> Min(S[i], m), exhausted |-> (S[i] >= m)]])
RealSpec(comps) == \A i \in 1..Len(comps) : comps[i].lam[2] = 0

\* Lanczos on  P (A + sigma) P,  P = 1 - sum_{lam in O} |c_lam><c_lam| / W_lam   (Hermitian flavour).
\* The reachable spectrum is  { Eff(lam) },  Eff(lam) = 0 for lam in O, lam + sigma otherwise.
Eff(lam, sigma, O) == IF lam \in O THEN 0 ELSE lam[1] + sigma
EffComps(comps, sigma, O, zero) ==
    LET mus == SortI({Eff(comps[i].lam, sigma, O) : i \in 1..Len(comps)})
    IN TLCEval([j \in 1..Len(mus) |->
           LET S == {i \in 1..Len(comps) : Eff(comps[i].lam, sigma, O) = mus[j]}
               RECURSIVE AccW(_)
               AccW(T) == IF T = {} THEN 0 ELSE LET i == CHOOSE i \in T : TRUE IN comps[i].W + AccW(T \ {i})
               RECURSIVE AccC(_)
               AccC(T) == IF T = {} THEN zero ELSE LET i == CHOOSE i \in T : TRUE IN BVAdd(comps[i].c, AccC(T \ {i}))
           IN [mu |-> mus[j], W |-> AccW(S), c |-> AccC(S)]])

ExpLanczos(bs, comps, nv2, sigma, nO) ==
    LET O  == {comps[i].lam : i \in 1..nO}                 \* project out the nO lowest reachable eigen-components
        ec == TLCEval(EffComps(comps, sigma, O, BVZero(bs)))
        mE == Len(ec)
    IN [O |-> O, ovecs |-> [i \in 1..nO |-> comps[i].c],
        mE |-> mE, runs |-> NmaxTable(mE),
        Eex |-> ec[1].mu - sigma,                  \* E once the Krylov space is exhausted; a lower bound for E before
        gvec |-> ec[1].c, g2 |-> ec[1].W,          \* the vector then returned is  gvec / sqrt(g2)  up to a phase
        raynum |-> ISum([j \in 1..mE |-> ec[j].mu * ec[j].W]) - sigma * nv2]   \* E <= raynum / nv2, equal for N = 1

\* exp(i pi/2 t (A + sigma)) v  =  sum_lam i^(t (lam + sigma)) c_lam   when the reachable spectrum is real
\* general exponents  delta = (re + i im) / 4,  given as a Python float or complex;  run(delta) without `normalize`
\* returns the normalized vector iff Re(delta) = 0 (documented default; ArnoldiEvolution: never)
DeltaTable == LET T == << [re |-> 1, im |-> 0, ctype |-> "float"],      [re |-> 0 - 2, im |-> 3, ctype |-> "complex"],
                         [re |-> 0 - 1, im |-> 0, ctype |-> "complex"],  [re |-> 0, im |-> 1, ctype |-> "complex"] >>
              IN [i \in 1..Len(T) |-> T[i] @@ [normdefault |-> (T[i].re = 0)]]
ExpEvo(bs, comps, sigma) ==
    [runs |-> NmaxTable(Len(comps)), exact |-> RealSpec(comps), deltas |-> DeltaTable,
     Uv |-> IF RealSpec(comps)
            THEN [t \in 1..3 |-> BVSum([i \in 1..Len(comps) |-> BVScale(IPow(t * (comps[i].lam[1] + sigma)), comps[i].c)], BVZero(bs))]
            ELSE <<>>]

\* Arnoldi: Ritz values ordered per `which` (keys of the shifted values: the ordering happens during the run)
WhichKey(which, z) == IF which = "LM" THEN 0 - CAbs2(z) ELSE IF which = "LR" THEN 0 - z[1] ELSE z[1]
ExpArnoldi(comps, sigma) ==
    [runs |-> NmaxTable(Len(comps)),
     ritz |-> [wh \in {"LM", "LR", "SR"} |->
                 SortByKey({[lam |-> comps[i].lam, key |-> WhichKey(wh, CAdd(comps[i].lam, CInt(sigma)))] : i \in 1..Len(comps)}, 0)]]

\* GMRES for  A x = b  with  b = A v  (the solution is v when A is non-singular on the sector),
\* initial guess x0 = 0 or the part of v in every second reachable eigenspace; the Krylov space of the
\* initial residual  r0 = b - A x0 = sum_{lam not in x0} lam c_lam  has dimension mg
ExpGmres(bs, comps, x0k) ==
    LET m == Len(comps)
        inx0 == {i \in 1..m : x0k = "half" /\ i % 2 = 0}
    IN [mg |-> m - Cardinality(inx0),
        x0 |-> BVSum([i \in 1..m |-> IF i \in inx0 THEN comps[i].c ELSE BVZero(bs)], BVZero(bs)),
        b  |-> BVSum([i \in 1..m |-> BVScale(comps[i].lam, comps[i].c)], BVZero(bs))]

\* A x = v  with  A = sum_lam (lam / 2^26) P_lam,  lam = 2^(26 - e):  x = sum_lam 2^e c_lam  is an integer vector
ExpGmresIll(bs, comps) ==
    [mg |-> Len(comps),
     xs |-> BVSum([i \in 1..Len(comps) |-> BVScale(CInt(DScale \div comps[i].lam[1]), comps[i].c)], BVZero(bs))]

\* the vectors and their exact Gram matrix as a polynomial in S:  <w_i|w_j> = g2 S^2 + g1 S + g0  (Gaussian integers;
\* S^2 |v|^2 itself would not fit into 32 bits)
GsIllS == Pow2(20)
ExpGsIll(bs, comps, v) ==
    LET nv == Min(Len(comps) - 1, 3) + 1          \* v = sum of all components: only m - 1 of them are independent of v
        pert == [r \in 1..nv |-> IF r = 1 THEN BVZero(bs) ELSE comps[r - 1].c]
    IN [S |-> GsIllS,
        vecs |-> [r \in 1..nv |-> BVAdd(BVScale(CInt(GsIllS), v), pert[r])],
        gram |-> [i \in 1..nv |-> [j \in 1..nv |->
                    [g2 |-> BVDot(v, v), g1 |-> CAdd(BVDot(v, pert[j]), BVDot(pert[i], v)), g0 |-> BVDot(pert[i], pert[j])]]]]

\* gram_schmidt on integer combinations  vec_r = sum_j C[r][j] c_j  of the (linearly independent) components:
\* vector r survives iff row r of C is not in the span of the rows before it
RowReduce(r, basis) ==       \* fraction-free reduction of the integer row r against the reduced rows in basis
    LET RECURSIVE Red(_, _)
        Red(x, i) == IF i > Len(basis) THEN x
                     ELSE LET p == basis[i].row
                              cc == basis[i].col
                          IN Red([j \in 1..Len(x) |-> p[cc] * x[j] - x[cc] * p[j]], i + 1)
    IN Red(r, 1)
RECURSIVE KeptRows(_, _, _)
KeptRows(C, r, basis) ==
    IF r > Len(C) THEN <<>>
    ELSE LET x == RowReduce(C[r], basis)
             nz == {j \in 1..Len(x) : x[j] # 0}
         IN IF nz = {} THEN KeptRows(C, r + 1, basis)
            ELSE <<r>> \o KeptRows(C, r + 1, Append(basis, [row |-> x, col |-> CHOOSE j \in nz : \A jj \in nz : j <= jj]))
ExpGs(bs, comps, C) ==
    [kept |-> KeptRows(C, 1, <<>>),
     vecs |-> [r \in 1..Len(C) |-> BVSum([j \in 1..Len(C[r]) |-> BVScale(CInt(C[r][j]), comps[j].c)], BVZero(bs))]]

\* v = sum_b Q_b a_b;  (A_b - lambda_b)^k Q_b a_b = Q_b N^k a_b  with  (N c)_j = c_{j+1}:  w[k] are these vectors, k < grade
JordanOf(full, idx, a) ==
    LET act == SortI(ActiveBlocks(idx, a))
    IN TLCEval([t \in 1..Len(act) |->
         LET b == act[t]
             n == full[b].n
             coef == [j \in 1..n |-> a[CHOOSE i \in 1..Len(idx) : idx[i] = <<b, j>>]]
             g == CHOOSE j \in 1..n : coef[j] # C0 /\ \A jj \in (j + 1)..n : coef[jj] = C0
         IN [b |-> b, lam |-> full[b].D[1][1], g |-> g,
             w |-> TLCEval([kk \in 1..g |->
                     TLCEval([bb \in 1..Len(full) |->
                        IF bb # b THEN VZero(full[bb].n)
                        ELSE MatVec(full[b].Q, TLCEval([j \in 1..n |-> IF j + kk - 1 <= n THEN coef[j + kk - 1] ELSE C0]))])])]])
BuildJ ==
    /\ pl.stage = "build" /\ pl.kind = "jevo"
    /\ LET full == TLCEval([b \in 1..Len(pl.hdrs) |-> MkBlock(pl.hdrs[b].q, pl.hdrs[b].n, pl.hdrs[b].var, pl.hdrs[b].D)])
           jor == JordanOf(full, pl.idx, pl.a)
           m == ISum([t \in 1..Len(jor) |-> jor[t].g])
       IN pl' = [stage |-> "case", fl |-> pl.fl, hdrs |-> pl.hdrs, q0 |-> pl.q0, idx |-> pl.idx, a |-> pl.a, m |-> m,
                 kind |-> "jevo", sigma |-> pl.sigma, ds |-> 1,
                 blocks |-> TLCEval([b \in 1..Len(full) |-> [q |-> full[b].q, n |-> full[b].n, s |-> full[b].s, A |-> full[b].A]]),
                 jor |-> jor, runs |-> NmaxTable(m),
                 v |-> BVSum([t \in 1..Len(jor) |-> jor[t].w[1]], BVZero(full))]

Build ==
    /\ pl.stage = "build" /\ pl.kind # "jevo"
    /\ LET full  == TLCEval([b \in 1..Len(pl.hdrs) |-> MkBlock(pl.hdrs[b].q, pl.hdrs[b].n, pl.hdrs[b].var, pl.hdrs[b].D)])
           comps == TLCEval(CompsOf(full, pl.idx, pl.a))
           nv2   == ISum([i \in 1..Len(comps) |-> comps[i].W])
           base  == [stage |-> "case", fl |-> pl.fl, hdrs |-> pl.hdrs, q0 |-> pl.q0, idx |-> pl.idx, a |-> pl.a, m |-> pl.m,
                     kind |-> pl.kind,
                     blocks |-> TLCEval([b \in 1..Len(full) |-> [q |-> full[b].q, n |-> full[b].n, s |-> full[b].s, A |-> full[b].A]]),
                     comps |-> comps, nv2 |-> nv2, ds |-> DScale,    \* the operator is  A / (s ds)
                     v |-> BVSum([i \in 1..Len(comps) |-> comps[i].c], BVZero(full))]
       IN pl' = base @@
            (IF pl.kind = "lanczos" THEN [sigma |-> pl.sigma, nO |-> pl.nO] @@ ExpLanczos(full, comps, nv2, pl.sigma, pl.nO)
             ELSE IF pl.kind = "evo" THEN [sigma |-> pl.sigma] @@ ExpEvo(full, comps, pl.sigma)
             ELSE IF pl.kind = "arnoldi" THEN [sigma |-> pl.sigma] @@ ExpArnoldi(comps, pl.sigma)
             ELSE IF pl.kind = "gmres" THEN [x0k |-> pl.x0k] @@ ExpGmres(full, comps, pl.x0k)
             ELSE IF pl.kind = "gmresill" THEN ExpGmresIll(full, comps)
             ELSE IF pl.kind = "gsill" THEN ExpGsIll(full, comps, BVSum([i \in 1..Len(comps) |-> comps[i].c], BVZero(full)))
             ELSE [C |-> pl.C] @@ ExpGs(full, comps, pl.C))

PLUnch == UNCHANGED cfvars
DoBeginBlock == BeginBlock /\ PLUnch
DoSetD       == SetD /\ PLUnch
DoEndOp      == EndOp /\ PLUnch
DoSetA       == SetA /\ PLUnch
DoOptLanczos == OptLanczos /\ PLUnch
DoOptEvo     == OptEvo /\ PLUnch
DoOptArnoldi == OptArnoldi /\ PLUnch
DoOptGmres   == OptGmres /\ PLUnch
DoOptGmresIll == OptGmresIll /\ PLUnch
DoOptGsIll   == OptGsIll /\ PLUnch
DoOptGsBegin == OptGsBegin /\ PLUnch
DoOptGsRow   == OptGsRow /\ PLUnch
DoOptGsEnd   == OptGsEnd /\ PLUnch
DoBuild      == Build /\ PLUnch
DoOptJevo    == OptJevo /\ PLUnch
DoBuildJ     == BuildJ /\ PLUnch

NextPL == \/ DoBeginBlock \/ DoSetD \/ DoEndOp \/ DoSetA \/ DoOptLanczos \/ DoOptEvo \/ DoOptArnoldi
          \/ DoOptGmres \/ DoOptGmresIll \/ DoOptGsIll \/ DoOptGsBegin \/ DoOptGsRow \/ DoOptGsEnd \/ DoBuild \/ DoOptJevo \/ DoBuildJ
SpecPL == InitPL /\ [][NextPL]_<<cfvars, pl>>

\* ---- certificates: the planted data are what they claim to be (evaluated on every finished case) ---
BlockCertificate ==
    pl.stage = "case" =>
      \A b \in 1..Len(pl.hdrs) :
         LET B == MkBlock(pl.hdrs[b].q, pl.hdrs[b].n, pl.hdrs[b].var, pl.hdrs[b].D) IN
         /\ pl.blocks[b].A = B.A /\ pl.blocks[b].s = B.s
         /\ MatMul(B.A, B.Q) = ScaleM(B.s, MatMul(B.Q, JMat(B.D)))          \* A Q = Q D  (Q J for "jor"; A carries the factor s)
         /\ MatMul(B.Qi, B.Q) = ScaleM(B.s, Ident(B.n))                       \* Qi = s Q^-1
         /\ (pl.fl = "herm" => /\ B.A = Dagger(B.A) /\ B.Qi = Dagger(B.Q)
                               /\ \A j \in 1..B.n : B.D[j][2] = 0)
VectorCertificate ==
    (pl.stage = "case" /\ pl.kind # "jevo") =>
         /\ Len(pl.comps) = pl.m /\ pl.m >= 1
         /\ \A i \in 1..pl.m :                                                \* A c_lam = lam c_lam, per block
              \A b \in 1..Len(pl.blocks) :
                  MatVec(pl.blocks[b].A, pl.comps[i].c[b]) = VScale(CMul(CInt(pl.blocks[b].s), pl.comps[i].lam), pl.comps[i].c[b])
         /\ \A b \in 1..Len(pl.blocks) : pl.blocks[b].q # pl.q0 => pl.v[b] = VZero(pl.blocks[b].n)
         /\ \A i \in 1..pl.m : pl.comps[i].c # BVZero(pl.blocks)
         /\ \A i, j \in 1..pl.m : i < j => CLess(pl.comps[i].lam, pl.comps[j].lam)
         /\ (pl.fl = "herm" =>
               /\ pl.nv2 = BVNorm2(pl.v)
               /\ \A i, j \in 1..pl.m : BVDot(pl.comps[i].c, pl.comps[j].c) = (IF i = j THEN CInt(pl.comps[i].W) ELSE C0))
\* Jordan chains:  A w_k = lambda w_k + w_{k+1},  w_g = 0,  v = sum of the chain heads, support in the sector
JordanCertificate ==
    (pl.stage = "case" /\ pl.kind = "jevo") =>
        /\ pl.m = ISum([t \in 1..Len(pl.jor) |-> pl.jor[t].g]) /\ pl.m >= 1
        /\ \A t1, t2 \in 1..Len(pl.jor) : t1 # t2 => pl.jor[t1].lam # pl.jor[t2].lam
        /\ \A t \in 1..Len(pl.jor) :
             LET J == pl.jor[t] IN
             /\ pl.blocks[J.b].q = pl.q0 /\ Len(J.w) = J.g
             /\ \A kk \in 1..J.g : \A bb \in 1..Len(pl.blocks) :
                   /\ J.w[kk] # BVZero(pl.blocks)
                   /\ MatVec(pl.blocks[bb].A, J.w[kk][bb]) =
                        VAdd(VScale(CInt(pl.blocks[bb].s * J.lam), J.w[kk][bb]),
                             VScale(CInt(pl.blocks[bb].s), IF kk < J.g THEN J.w[kk + 1][bb] ELSE VZero(pl.blocks[bb].n)))
CaseRight ==
    (pl.stage = "case" /\ pl.kind # "jevo") =>
        /\ (pl.kind = "lanczos" =>
              /\ pl.g2 = BVNorm2(pl.gvec) /\ pl.g2 > 0 /\ pl.mE >= 1 /\ pl.mE <= pl.m
              /\ pl.raynum >= pl.Eex * pl.nv2                                 \* Rayleigh quotient of v bounds E from above
              /\ (pl.O = {} => \A b \in 1..Len(pl.blocks) :                   \* A g = Eex g
                     MatVec(pl.blocks[b].A, pl.gvec[b]) = VScale(CInt(pl.blocks[b].s * pl.Eex), pl.gvec[b])))
        /\ (pl.kind = "evo" /\ pl.exact /\ pl.fl = "herm" => \A t \in 1..3 : BVNorm2(pl.Uv[t]) = pl.nv2)       \* unitary
        /\ (pl.kind = "arnoldi" => \A wh \in {"LM", "LR", "SR"} :
                                   /\ Len(pl.ritz[wh]) = pl.m
                                   /\ \A i \in 1..(pl.m - 1) : pl.ritz[wh][i].key <= pl.ritz[wh][i + 1].key)
        /\ (pl.kind = "gs" => Len(pl.kept) <= GsCols(pl.m))
        /\ (pl.kind = "gsill" =>
              /\ Len(pl.vecs) >= 3
              /\ \A i, j \in 1..Len(pl.vecs) :                                 \* the Gram polynomial is the Gram matrix
                   LET d1 == [b \in 1..Len(pl.v) |-> [x \in 1..Len(pl.v[b]) |-> CSub(pl.vecs[i][b][x], CMul(CInt(pl.S), pl.v[b][x]))]]
                       d2 == [b \in 1..Len(pl.v) |-> [x \in 1..Len(pl.v[b]) |-> CSub(pl.vecs[j][b][x], CMul(CInt(pl.S), pl.v[b][x]))]]
                   IN /\ pl.gram[i][j].g0 = BVDot(d1, d2)
                      /\ pl.gram[i][j].g1 = CAdd(BVDot(pl.v, d2), BVDot(d1, pl.v))
                      /\ pl.gram[i][j].g2 = BVDot(pl.v, pl.v))
        /\ (pl.kind = "evo" => \A i \in 1..Len(pl.deltas) : pl.deltas[i].normdefault = (pl.deltas[i].re = 0))
        /\ (pl.kind = "gmres" => pl.mg >= 0 /\ pl.mg <= pl.m)
        /\ (pl.kind = "gmresill" =>
              /\ pl.mg = pl.m /\ pl.ds = Pow2(DyE)
              /\ \A i \in 1..pl.m : pl.comps[i].lam[2] = 0 /\ pl.comps[i].lam[1] > 0 /\ pl.ds % pl.comps[i].lam[1] = 0
              /\ pl.xs = BVSum([i \in 1..pl.m |-> BVScale(CInt(pl.ds \div pl.comps[i].lam[1]), pl.comps[i].c)], BVZero(pl.blocks)))
=============================================================================
